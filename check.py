#!/venv/bin/python
"""Entry point of every check:  check.py Cxx [--tier quick|thorough] [--replay FILE]   |   check.py --setup

Exit codes: 0 the property held on everything explored; 1 violation (a line
`VIOLATION property=<id> replay=<path>` is printed); 2 infrastructure failure.
"""
import argparse
import importlib
import json
import os
import re
import subprocess
import sys
import time

VERIF = os.path.dirname(os.path.abspath(__file__))
sys.path.insert(0, os.path.join(VERIF, 'harness'))
LEAN = os.path.join(VERIF, 'lean')
OK_AXIOMS = {'propext', 'Classical.choice', 'Quot.sound'}
FORBIDDEN = re.compile(r'\bsorry\b|\badmit\b|^\s*axiom\s|native_decide|bv_decide|implemented_by|\bunsafe\s|maxHeartbeats\s+0')

TRUSTED_BASE = [
    'Lean 4.33.0 kernel (lake build; leanchecker re-check in the thorough tier)',
    'axioms admitted in property theorems: propext, Classical.choice, Quot.sound only (audited with #print axioms on every run)',
    "Lean compiler / runtime, only to run the driver (the model's executable definitions) for the correspondence and the Spec evaluation",
    'the Python harness under /verif/harness (generators, canonical forms, translator of Token predicates and constants), CPython 3.12 re/str/sorted',
    'the hand-written model lean/LicenseExpr/Model/*.lean is the code only as far as the correspondence run has shown; not modelled: boolean.py NOT/TRUE/FALSE, subs/normalize/pretty, bytes inputs, user render callbacks, message texts',
]


def sh(cmd, cwd=None, timeout=3600):
    p = subprocess.run(cmd, cwd=cwd, shell=isinstance(cmd, str), stdout=subprocess.PIPE,
                       stderr=subprocess.STDOUT, timeout=timeout)
    return p.returncode, p.stdout.decode('utf-8', 'replace')


def strip_comments(src):
    src = re.sub(r'/-.*?-/', lambda m: '\n' * m.group(0).count('\n'), src, flags=re.S)
    return re.sub(r'--.*', '', src)


def lean_sources():
    out = []
    for root, _, files in os.walk(LEAN):
        if '.lake' in root:
            continue
        for f in files:
            if f.endswith('.lean'):
                out.append(os.path.join(root, f))
    return sorted(out)


def grep_forbidden():
    hits = []
    for f in lean_sources():
        body = strip_comments(open(f, encoding='utf-8').read())
        for i, line in enumerate(body.split('\n'), 1):
            if FORBIDDEN.search(line):
                hits.append('%s:%d: %s' % (os.path.relpath(f, VERIF), i, line.strip()))
    return hits


def theorems_of(pid):
    """names of the theorems stated in Props/<pid>.lean (namespace LE)"""
    path = os.path.join(LEAN, 'LicenseExpr', 'Props', pid + '.lean')
    if not os.path.exists(path):
        return []
    body = strip_comments(open(path, encoding='utf-8').read())
    return re.findall(r'^theorem\s+([A-Za-z0-9_\.]+)', body, flags=re.M)


def regenerate():
    import translate
    return translate.regenerate()


def lake_build(targets):
    rc, out = sh(['lake', 'build'] + targets, cwd=LEAN, timeout=3000)
    return rc, out


def audit(pid, thms):
    """#print axioms for every theorem of the property; returns {name: [axioms]}"""
    if not thms:
        return {}
    d = os.path.join(LEAN, 'LicenseExpr', 'Audit')
    os.makedirs(d, exist_ok=True)
    path = os.path.join(d, pid + '.lean')
    src = 'import LicenseExpr.Props.%s\n' % pid + ''.join('#print axioms LE.%s\n' % t for t in thms)
    if not os.path.exists(path) or open(path).read() != src:
        open(path, 'w').write(src)
    rc, out = sh(['lake', 'env', 'lean', path], cwd=LEAN, timeout=1200)
    res = {}
    if rc != 0:
        return {'__error__': [out[-2000:]]}
    flat = re.sub(r'\s+', ' ', out)
    for t in thms:
        m = re.search(r"'LE\.%s' depends on axioms: \[([^\]]*)\]" % re.escape(t), flat)
        if m:
            res[t] = [a.strip() for a in m.group(1).split(',') if a.strip()]
        elif re.search(r"'LE\.%s' does not depend on any axioms" % re.escape(t), flat):
            res[t] = []
        else:
            res[t] = ['__missing__']
    return res


def setup():
    t0 = time.time()
    changed = regenerate()
    rc, out = lake_build(['LicenseExpr', 'driver'])
    print(out[-3000:])
    print('setup: generated files changed: %s; lake build rc=%d; %.1fs' % (changed, rc, time.time() - t0))
    return 0 if rc == 0 else 2


def main():
    ap = argparse.ArgumentParser()
    ap.add_argument('prop', nargs='?')
    ap.add_argument('--setup', action='store_true')
    ap.add_argument('--tier', default=os.environ.get('VERIF_TIER', 'quick'))
    ap.add_argument('--replay')
    ap.add_argument('--jobs', type=int, default=0)
    args = ap.parse_args()
    if args.setup:
        sys.exit(setup())
    pid = args.prop
    if not pid or not re.match(r'^C\d\d$', pid):
        ap.error('property id needed')
    seed = int(os.environ.get('VERIF_SEED', '0') or 0)
    import core
    sys.exit(core.run_check(pid, args.tier, seed, args.replay, args.jobs))


if __name__ == '__main__':
    main()
