#!/venv/bin/python
"""Writes MANIFEST.json from the per-property descriptions below and from what Props/ currently contains."""
import json
import os
import sys

VERIF = os.path.dirname(os.path.abspath(__file__))
sys.path.insert(0, VERIF)
import check as C  # noqa: E402

PROVED = {
    'C01': 'every stage keeps the words of the text in order: the lexer is lossless; the simple tokenizer and, for every automaton, the automaton tokenizer tile the words of the text (each word inside exactly one token, in order); unknown-word merging and WITH grouping preserve the tiling (C01_tokens); the parser returns the literals of its symbol tokens in order (C01_literals)',
    'C02': 'the stack machine that models boolean.py\'s parser (with the pair checks of check_tokens_sequence) returns, for every token list derivable from the grammar Prim/AndP/OrP, the tree the derivation denotes (C02_tree), for all operator mixes, depths, arities and redundant parentheses',
    'C03': 'on every token list the parser model returns a tree or a proper parse error, never a crash outcome (C03_no_crash), and every accepted token list has balanced parentheses and only valid adjacent pairs',
    'C04': 'the lexer does not depend on the amount or kind of blanks between words (words of a re-spaced text are the same words), and the leftmost of the longest matches always survives selection',
    'C05': 'the token list that rendering produces for any tree whose nodes have >= 2 operands parses back to that tree (C05_tokens), for the default and the readable rendering',
    'C06': 'simp preserves the truth value under every valuation, for every comparison function used by the sort (C06_truth), and introduces no atom (C06_atoms)',
    'C07': 'every simplified expression is in normal form - no operand of its node\'s kind, operands pairwise unequal, sorted - for any asymmetric comparison (C07_nf); eqE is reflexive and symmetric',
    'C08': 'equivalence is reflexive, symmetric and sound against every valuation (C08_refl, C08_symm, C08_sound); contains(a, a) holds',
    'C09': 'dedup renders like the reference deduplication and equals it on render-faithful trees; combine keeps first occurrences in order',
    'C10': 'ordered_unique as the source writes it equals the specification (first occurrences, in order, no duplicates) and commutes with filtering, which is what makes the unknown-license listings the filtered listings',
    'C11': 'validate has no errors exactly when parse(validate=True) succeeds, and then reports its rendering (on the model of both)',
    'C12': 'strict grouping succeeds exactly when non-strict grouping succeeds and the roles are right, with the same result (C12_iff); non-strict grouping never reads the flags',
    'C13': 'symbol equality is an equivalence decided by (key, flag) components, and the order of symbols is the strict string order of renderings: irreflexive, asymmetric, transitive and total on different renderings',
    'C14': 'the order-dependent seen_aliases bookkeeping flags a table exactly when some alias is bound to two different keys, whatever the order of the entries (C14_flag_iff_clash, C14_perm)',
    'C15': 'for any index, the loaders keep exactly the non-deprecated entries (with an SPDX key for SPDX) and map the fields as stated',
    'C16': 'the longest-node-suffix invariant of the search loop, the BFS failure-link recurrence, and the failure chain enumerate exactly the stored names that end at each position (C16_outputs)',
    'C17': 'on the regenerated Token predicates: the overlap sweep returns pairwise disjoint tokens in text order (C17_ordered_disjoint) and keeps the leftmost of the longest matches (C17_leftmost_longest); for every automaton and text the final tokens are ordered, disjoint, start and end on word boundaries and cover every word exactly once (C17_cover, C17_once); lexer pieces are exact slices (C17_slice)',
    'C18': 'with one-word keys and no aliases the simple tokenizer classifies every word like the automaton does',
    'C19': 'a pure function of (table, input): the cached automaton is a function of the table alone, so any history of calls leaves every answer equal to the fresh one',
    'C20': 'under every schedule of any number of threads, every thread that finishes has tokenized with a complete, finalised automaton built from the whole table (C20_safe); the pre-repair protocol has a racing schedule (decided)',
}

CORR = {
    'C01': 'Licensing.tokenize triples and parse outcome vs the model on random tables and texts, both tokenizers; Spec C01 (word accounting) evaluated in Lean on the implementation\'s triples',
    'C02': 'grammar-generated texts and all token strings up to a length bound: parse tree vs the generating tree, a reference grammar and the model',
    'C03': 'random and exhaustive malformed inputs under all flag combinations: outcome class, code, token, position, validate report vs the model; Spec clauses on the real code',
    'C04': 'every name of random tables in case/blank variants in every operator context: resolved symbol and rendering vs expectation and model',
    'C05': 'rendering, readable rendering, template rendering and re-parse on generated trees and on simplify/dedup/combine outputs vs the model',
    'C06': 'truth tables (computed in Lean) and atom sets of simplify() on random trees and all small trees; structure up to order vs the model',
    'C07': 'idempotence, rewrite-invariance of the text, normal form under the implementation\'s own ==/<, and the full result vs the model',
    'C08': 'is_equivalent / contains laws on pairs and rewrites across instances, strings and objects; answers vs the model',
    'C09': 'dedup vs the reference dedupRef (Lean), truth table, idempotence, combine_expressions clauses; results vs the model',
    'C10': 'every listing call under every switch on strings and objects vs an independent computation from the text-order tokens and vs the model',
    'C11': 'parse(validate=True) vs the unknown listing, validate report vs parse, both strictness values; outcomes vs the model',
    'C12': 'strict vs non-strict outcomes against the roles read off the non-strict tokens, flag-independence; outcomes vs the model',
    'C13': 'all pairs of a pool of plain / wrapped / WITH symbols, sorting of triples, every short key string; relations and normKey vs the model',
    'C14': 'ValueError or not in several entry orders and representations vs the order-free Ambiguous predicate (Lean) and the model\'s bookkeeping',
    'C15': 'exhaustive sweep of the shipped index (all names, several casings), compound expressions, synthetic indexes; loader tables and parses vs the model',
    'C16': 'Trie op histories, fail links and iter vs the model; reported occurrences vs brute force (Lean)',
    'C17': 'Trie.tokenize and filter_overlapping vs the model; Spec C17 evaluated in Lean on the implementation\'s tokens',
    'C18': 'simple vs default parse outcome on random and all short token strings; both vs the model',
    'C19': 'random API histories on shared instances and shared expression objects: used vs fresh vs model (pristine) answers; non-mutation snapshots',
    'C20': 'deterministic line-granularity scheduler over real threads: every single preemption of the first use; results vs solo; protocol trace vs the Lean protocol model',
}

PARTIAL = {
    'C19': 'partial by nature: non-mutation of argument objects is checked on the implementation only',
    'C20': 'partial by nature: protocol at line granularity; bytecode-level preemption and memory effects below the GIL are not modelled',
    'C15': 'the instance hypothesis indexOK(shipped index) is discharged by running the compiled driver, not by the kernel',
}


def main():
    checks = []
    for i in range(1, 21):
        pid = 'C%02d' % i
        thms = C.theorems_of(pid)
        proof = bool(thms)
        cat = 'proof' if proof else 'exploration'
        if proof:
            text = ('Lean 4 theorems about the hand-written model (%d in lean/LicenseExpr/Props/%s.lean): %s. The model is tied to /repo on every run by '
                    'a correspondence check: %s. A broken proof or correspondence triggers a search for a failing input on the real code.'
                    % (len(thms), pid, PROVED[pid], CORR[pid]))
        else:
            text = ('model/implementation correspondence and Spec evaluation on generated and exhaustive small-scope inputs (theorems for this property are not yet in Props/): %s'
                    % CORR[pid])
        if pid in PARTIAL:
            text += ' ' + PARTIAL[pid][0].upper() + PARTIAL[pid][1:] + '.'
        checks.append({
            'property_id': pid,
            'quick_cmd': 'cd /verif && /venv/bin/python check.py %s --tier quick' % pid,
            'thorough_cmd': 'cd /verif && /venv/bin/python check.py %s --tier thorough' % pid,
            'evidence_file': '/verif/evidence/%s.json' % pid,
            'replay_cmd_template': 'cd /verif && /venv/bin/python check.py %s --replay {path}' % pid,
            'engine': 'lean4-model+correspondence',
            'level_claimed': {'category': cat, 'text': text, 'design_ref': 'DESIGN.md section 7, %s' % pid},
            'level_note': ('trusted base: Lean 4.33 kernel; axioms propext / Classical.choice / Quot.sound only (audited each run); the hand-written model is the code '
                           'only as far as the correspondence run shows; the Python harness, generators and canonical forms; boolean.py 5.0 as installed'),
            'technique': ('Lean 4 proof over a hand-written model + differential correspondence with the implementation' if proof
                          else 'differential correspondence with the Lean model + Spec evaluation'),
        })
    man = {
        'version': 1,
        'setup_cmd': 'cd /verif && /venv/bin/python check.py --setup',
        'hooks': {
            'guard': 'NEXB_LICENSE_EXPRESSION_VERIF',
            'enable': 'no hooks are needed: every observation point is importable (module-level functions, public methods, sys.settrace for the thread scheduler); the guard name is reserved and unused',
            'baseline_off_cmd': 'cd /repo && /venv/bin/python -m pytest -ra -q -p no:cacheprovider --timeout=900 --continue-on-collection-errors',
            'source_commits': [],
            'add_only': True,
        },
        'engines': [{'name': 'lean4-model+correspondence', 'path': '/verif/lean', 'serves_properties': ['C%02d' % i for i in range(1, 21)],
                     'kind_free_text': 'Lean 4.33 project (model, lemmas, property theorems, compiled driver) + Python harness /verif/harness (generators, translator, correspondence, thread scheduler)'}],
        'checks': checks,
        'not_applicable': [],
        'notes': ('Eight genuine defects were repaired in /repo by separate "fix:" commits and two are recorded as known findings; see known_findings.json and DESIGN.md section 6. '
                  'Every check regenerates lean/LicenseExpr/Gen/*.lean from /repo, rebuilds its own theorems and the driver (no-ops when unchanged), audits axioms, then runs '
                  'corpus + generated (+ exhaustive) cases through correspondence and Spec.'),
    }
    with open(os.path.join(VERIF, 'MANIFEST.json'), 'w') as f:
        json.dump(man, f, indent=1)
    print('MANIFEST.json written: %d checks, %d at proof level' % (len(checks), sum(1 for c in checks if c['level_claimed']['category'] == 'proof')))


if __name__ == '__main__':
    main()
