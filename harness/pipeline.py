"""Shared pieces of the text-level checks (C01-C05, C11, C12, C18): Licensing cache, a reference
grammar over token kinds, word-level helpers. All of it states the properties; none of it is the model."""
import json
import zlib

import impl
from proto import T

le = impl.le

_lic_cache = {}


def licensing(table, records=None):
    """a Licensing over the table; `records`: the table given as symbol-like user objects instead of LicenseSymbols
    (by default for one table in five, a function of the table)"""
    if records is None:
        records = bool(table) and zlib.crc32(json.dumps(table).encode()) % 5 == 0
    k = json.dumps([table, records])
    lic = _lic_cache.get(k)
    if lic is None:
        if len(_lic_cache) > 2000:
            _lic_cache.clear()
        lic = le.Licensing(impl.table_records(table) if records else impl.table_objs(table))
        _lic_cache[k] = lic
    return lic


def fresh_licensing(table):
    return le.Licensing(impl.table_objs(table))


# ---------------------------------------------------------------------------------------------
# words

def words(s):
    """non-blank pieces of a text (words and single parentheses), unfolded"""
    return [w for w in impl.ac.get_tokens(s, lower=False) if w.strip()]


def fwords(s):
    return [w.lower() for w in words(s)]


def word_starts(s):
    out = []
    pos = 0
    for w in impl.ac.get_tokens(s, lower=False):
        if w.strip():
            out.append(pos)
        pos += len(w)
    return out


# ---------------------------------------------------------------------------------------------
# reference grammar on token kinds:  or_expr := and_expr (OR and_expr)* ; and_expr := prim (AND prim)* ;
# prim := SYM | ( or_expr ).  Returns the tree over the SYM payloads, or None when not derivable.

class _NoParse(Exception):
    pass


def ref_parse(kinds):
    """kinds: list of ('sym', payload) | ('and',) | ('or',) | ('lpar',) | ('rpar',)"""
    pos = [0]

    def peek():
        return kinds[pos[0]][0] if pos[0] < len(kinds) else None

    def prim():
        k = peek()
        if k == 'sym':
            v = kinds[pos[0]][1]
            pos[0] += 1
            return v
        if k == 'lpar':
            pos[0] += 1
            v = or_expr()
            if peek() != 'rpar':
                raise _NoParse()
            pos[0] += 1
            return v
        raise _NoParse()

    def and_expr():
        items = [prim()]
        while peek() == 'and':
            pos[0] += 1
            items.append(prim())
        return items[0] if len(items) == 1 else [T('and')] + items

    def or_expr():
        items = [and_expr()]
        while peek() == 'or':
            pos[0] += 1
            items.append(and_expr())
        return items[0] if len(items) == 1 else [T('or')] + items

    try:
        v = or_expr()
        if pos[0] != len(kinds):
            return None
        return v
    except _NoParse:
        return None


def kinds_of_ptoks(ptoks):
    """token kinds of canonical parser triples (impl.ptok_c); a symbol's payload is its canonical atom"""
    out = []
    for p in ptoks:
        if p[0] == 'sym':
            out.append(('sym', [T('sym'), p[1], p[2]]))
        elif p[0] == 'with':
            out.append(('sym', [T('with'), p[1], p[2], p[3], p[4]]))
        else:
            out.append((str(p[0]),))
    return out


def dangling_only(kinds):
    """the single excluded case of C03: the text is a derivable expression followed by one AND/OR"""
    return len(kinds) >= 2 and kinds[-1][0] in ('and', 'or') and ref_parse(kinds[:-1]) is not None


def ptok_proj(p):
    """projection of a triple for C01: kind, symbol identity, folded words of its string"""
    return [x for x in p[:-2]] + [fwords(p[-2])]


def is_ok(o):
    return isinstance(o, list) and len(o) > 0 and o[0] == 'ok'


def err_class(o):
    if isinstance(o, list) and o:
        return str(o[0])
    return str(o)
