"""The flow of one check run (DESIGN.md appendix B)."""
import importlib
import json
import multiprocessing as mp
import os
import random
import sys
import time
import traceback

HERE = os.path.dirname(os.path.abspath(__file__))
VERIF = os.path.dirname(HERE)
sys.path.insert(0, VERIF)
import check as C  # noqa: E402

EVID = os.environ.get('VERIF_EVIDENCE_DIR', os.path.join(VERIF, 'evidence'))
REPLAYS = os.environ.get('VERIF_REPLAY_DIR', os.path.join(VERIF, 'replays'))
KNOWN = os.path.join(VERIF, 'known_findings.json')


class Verdict:
    """what one case showed. status: ok | spec (the property fails on the real code) |
    diverge (model and code differ on an observable, property not shown to fail) | skip"""
    __slots__ = ('status', 'clause', 'case', 'impl', 'model', 'nontrivial', 'tags', 'key')

    def __init__(self, status, case, clause=None, impl=None, model=None, nontrivial=True, tags=(), key=None):
        self.status = status
        self.case = case
        self.clause = clause
        self.impl = impl
        self.model = model
        self.nontrivial = nontrivial
        self.tags = list(tags)
        self.key = key

    def to_json(self):
        return {'status': self.status, 'clause': self.clause, 'case': self.case, 'impl': self.impl, 'model': self.model}


def jsonable(x):
    if isinstance(x, (list, tuple)):
        return [jsonable(y) for y in x]
    if isinstance(x, dict):
        return {str(k): jsonable(v) for k, v in x.items()}
    if isinstance(x, (str, int, float, bool)) or x is None:
        return x
    return repr(x)


def load_known(pid):
    if not os.path.exists(KNOWN):
        return []
    return [k for k in json.load(open(KNOWN)) if k.get('property') == pid and k.get('kind') == 'finding']


def _worker(args):
    pid, tier, seed, index, nworkers, budget_scale = args
    try:
        import impl
        import proto
        mod = importlib.import_module('props.' + pid.lower())
        drv = proto.Driver(impl.cls_rows())
        rng = random.Random('%s/%d/%d' % (pid, seed, index))
        prop = mod.Prop()
        t0 = time.time()
        res = prop.run(drv, rng, tier, index, nworkers, budget_scale)
        drv.close()
        res['wall'] = time.time() - t0
        return res
    except BaseException:
        return {'error': traceback.format_exc()}


def new_result():
    return {'evaluations': 0, 'nontrivial_keys': set(), 'samples': [], 'dist': {}, 'spec': [], 'diverge': [],
            'exhaustive': [], 'notes': []}


def merge(a, b):
    a['evaluations'] += b['evaluations']
    a['nontrivial_keys'] |= b['nontrivial_keys']
    for k, v in b['dist'].items():
        a['dist'][k] = a['dist'].get(k, 0) + v
    a['samples'] = (a['samples'] + b['samples'])[:6]
    a['spec'] += b['spec']
    a['diverge'] += b['diverge']
    a['exhaustive'] += b['exhaustive']
    a['notes'] += b['notes']
    return a


def run_workers(pid, tier, seed, jobs, budget_scale=1.0):
    if jobs <= 1:
        rs = [_worker((pid, tier, seed, 0, 1, budget_scale))]
    else:
        with mp.get_context('fork').Pool(jobs) as pool:
            rs = pool.map(_worker, [(pid, tier, seed, i, jobs, budget_scale) for i in range(jobs)])
    total = new_result()
    for r in rs:
        if 'error' in r:
            raise RuntimeError('worker failed:\n' + r['error'])
        merge(total, r)
    return total


def write_replay(pid, seed, kind, payload):
    os.makedirs(REPLAYS, exist_ok=True)
    path = os.path.join(REPLAYS, '%s-%d-%s.json' % (pid, seed, kind))
    with open(path, 'w') as f:
        json.dump(jsonable(payload), f, indent=1, ensure_ascii=True)
    return path


def known_match(known, v):
    for k in known:
        m = k.get('match', {})
        if 'input' in m and jsonable(m['input']) == jsonable(v['case']):
            return k
    return None


def run_check(pid, tier, seed, replay=None, jobs=0):
    t0 = time.time()
    mod = importlib.import_module('props.' + pid.lower())
    jobs = jobs or (min(16, os.cpu_count() or 4) if tier == 'thorough' else min(8, os.cpu_count() or 4))

    # 1. regenerate the translated fragments
    import translate
    changed = translate.regenerate()

    # 2. build this property's theorems and the driver
    thms = C.theorems_of(pid)
    targets = ['driver'] + (['LicenseExpr.Props.' + pid] if thms else [])
    rc_drv, out_drv = C.lake_build(['driver'])
    if rc_drv != 0:
        # the model itself does not build: only a generated file can cause that on an unchanged framework
        print(out_drv[-3000:])
        if changed or any('translated' not in s for s in translate.STATUS.values()):
            proof_broken = ['model/driver no longer builds with the regenerated ' + ', '.join(changed or ['Gen files'])]
            path = write_replay(pid, seed, 'build', {'property': pid, 'broken': proof_broken, 'log': out_drv[-4000:]})
            print('VIOLATION property=%s replay=%s no-failing-input-found' % (pid, path))
            return 1
        return 2
    proof_broken = []
    build_log = ''
    if thms:
        rc, build_log = C.lake_build(['LicenseExpr.Props.' + pid])
        if rc != 0:
            proof_broken = ['LicenseExpr.Props.%s does not build' % pid]
            print(build_log[-3000:])

    # 3. audit
    axioms = {}
    forbidden = C.grep_forbidden()
    if forbidden:
        print('forbidden constructs in Lean sources:\n' + '\n'.join(forbidden))
        return 2
    if thms and not proof_broken:
        axioms = C.audit(pid, thms)
        bad = {t: a for t, a in axioms.items() if set(a) - C.OK_AXIOMS}
        if bad:
            print('axiom audit failed: %r' % bad)
            return 2

    # thorough: re-check the compiled property module with the independent checker
    leanchecker = None
    if tier == 'thorough' and thms and not proof_broken:
        rc_lc, out_lc = C.sh(['lake', 'env', 'leanchecker', 'LicenseExpr.Props.' + pid], cwd=C.LEAN, timeout=3000)
        leanchecker = 'ok' if rc_lc == 0 else 'FAILED: ' + out_lc[-500:]
        if rc_lc != 0:
            print('leanchecker failed:\n' + out_lc[-2000:])
            return 2

    # replay mode
    if replay:
        import impl
        import proto
        drv = proto.Driver(impl.cls_rows())
        data = json.load(open(replay))
        prop = mod.Prop()
        for v in prop.replay(drv, data):
            print(json.dumps(jsonable(v.to_json()), indent=1))
        return 0

    # 4/5. cases: corpus + generated (+ exhaustive scopes in thorough), through correspondence + Spec
    total = run_workers(pid, tier, seed, jobs)

    known = load_known(pid)
    spec_fail, known_hits = [], {}
    for v in total['spec']:
        k = known_match(known, v)
        if k:
            known_hits[k['id']] = k
        else:
            spec_fail.append(v)
    diverge = total['diverge']

    # 6. when the proof or the correspondence is broken, search harder for a failing input
    searched = 0
    if (proof_broken or diverge) and not spec_fail:
        more = run_workers(pid, tier, seed + 1000003, max(jobs, 8), budget_scale=4.0)
        searched = more['evaluations']
        for v in more['spec']:
            if not known_match(known, v):
                spec_fail.append(v)
        total['evaluations'] += more['evaluations']
        total['nontrivial_keys'] |= more['nontrivial_keys']
        diverge += more['diverge']

    rcode = 0
    for k in known_hits.values():
        print('KNOWN-FINDING: property=%s %s' % (pid, k.get('note', k['id'])))
    if spec_fail:
        spec_fail.sort(key=lambda v: len(json.dumps(jsonable(v['case']))))
        path = write_replay(pid, seed, 'violation', {'property': pid, 'kind': 'property fails on the real code',
                                                      'first': spec_fail[0], 'count': len(spec_fail), 'more': spec_fail[1:5]})
        print('VIOLATION property=%s replay=%s' % (pid, path))
        rcode = 1
    elif proof_broken or diverge:
        diverge.sort(key=lambda v: len(json.dumps(jsonable(v['case']))))
        path = write_replay(pid, seed, 'unproved', {
            'property': pid,
            'kind': 'the proof obligation or the model/implementation correspondence no longer checks; no input on which the property fails was found',
            'broken_obligations': proof_broken, 'build_log': build_log[-3000:] if proof_broken else '',
            'correspondence': 'first diverging cases (model vs implementation) below' if diverge else 'intact',
            'diverging': diverge[:5], 'extra_cases_searched': searched})
        print('VIOLATION property=%s replay=%s no-failing-input-found' % (pid, path))
        rcode = 1

    # 7. evidence
    wall = time.time() - t0
    level = getattr(mod, 'LEVEL', 'proof' if thms else 'exploration')
    discharged = 0 if proof_broken else len([t for t in thms if not (set(axioms.get(t, ['__missing__'])) - C.OK_AXIOMS)])
    cov = {
        'evaluations': total['evaluations'],
        'distinct_nontrivial': len(total['nontrivial_keys']),
        'rule': getattr(mod, 'RULE', ''),
        'samples': jsonable(total['samples'][:6]) or ['(none)'],
        'exhaustive': bool(total['exhaustive']) and all(e.get('complete') for e in total['exhaustive']) and tier == 'thorough' and getattr(mod, 'ALL_EXHAUSTIVE', False),
        'exhaustive_scopes': total['exhaustive'],
        'distribution': {k: total['dist'][k] for k in sorted(total['dist'])},
        'correspondence_divergences': len(diverge),
        'spec_failures': len(spec_fail),
        'known_findings_reproduced': sorted(known_hits),
        'generated_files': {'changed_this_run': changed, 'status': translate.STATUS},
        'notes': total['notes'][:10],
        'leanchecker': leanchecker,
    }
    if level == 'proof':
        cov.update({
            'obligations': len(thms),
            'discharged': discharged,
            'theorems': [{'name': t, 'axioms': axioms.get(t, [])} for t in thms],
            'checker_cmd': 'cd /verif/lean && lake build LicenseExpr.Props.%s && lake env lean LicenseExpr/Audit/%s.lean' % (pid, pid),
            'trusted_base': C.TRUSTED_BASE + list(getattr(mod, 'TRUSTED_EXTRA', [])),
        })
    ev = {
        'property_id': pid, 'tier': tier if tier in ('quick', 'thorough') else 'quick', 'seed': seed, 'level': level,
        'coverage': cov,
        'assumptions': list(getattr(mod, 'ASSUMPTIONS', [])),
        'wall_s': round(wall, 2),
        'violations': len(spec_fail) + (1 if (rcode == 1 and not spec_fail) else 0),
    }
    os.makedirs(EVID, exist_ok=True)
    with open(os.path.join(EVID, pid + '.json'), 'w') as f:
        json.dump(ev, f, indent=1, ensure_ascii=True)
    print('%s %s seed=%d: %d cases (%d distinct non-trivial), %d theorem(s) %s, divergences=%d, spec failures=%d, %.1fs'
          % (pid, tier, seed, total['evaluations'], len(total['nontrivial_keys']), len(thms),
             'BROKEN' if proof_broken else 'ok', len(diverge), len(spec_fail), wall))
    return rcode


class BaseProp:
    """helper for property modules: batching, bookkeeping"""
    BATCH = 100

    def __init__(self):
        self.res = new_result()

    def count(self, tag, n=1):
        self.res['dist'][tag] = self.res['dist'].get(tag, 0) + n

    def record(self, v):
        r = self.res
        r['evaluations'] += 1
        if v.nontrivial and v.status != 'skip':
            r['nontrivial_keys'].add(hash(json.dumps(jsonable(v.key if v.key is not None else v.case), sort_keys=True)))
        for t in v.tags:
            self.count(t)
        if v.status == 'spec':
            r['spec'].append(jsonable(v.to_json()))
        elif v.status == 'diverge':
            r['diverge'].append(jsonable(v.to_json()))
        if len(r['samples']) < 3 and v.nontrivial and v.status == 'ok':
            r['samples'].append(jsonable({'case': v.case, 'impl': v.impl}))

    def budget(self, tier, quick, thorough, nworkers, scale):
        # the per-property numbers are base budgets: quick runs 4x, thorough 10x of them
        n = 4 * quick if tier != 'thorough' else 10 * thorough
        return max(1, int(n * scale / nworkers))
