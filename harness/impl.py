"""The real library, called in-process, with canonical forms of everything the checks observe."""
import re
import sys
import unicodedata

import os
REPO_SRC = os.path.join(os.environ.get('VERIF_REPO', '/repo'), 'src')   # VERIF_REPO: tooling only (seeded-change matrix on a scratch copy)
if REPO_SRC not in sys.path:
    sys.path.insert(0, REPO_SRC)

import license_expression as le  # noqa: E402
from license_expression import _pyahocorasick as ac  # noqa: E402
import boolean  # noqa: E402

from proto import T, Tag  # noqa: E402

assert le.__file__.startswith(REPO_SRC), le.__file__

# ----------------------------------------------------------------------------------------------
# character classes: what Python's `re` / `str` say about each character of the harness alphabet

WS = [' ', '\t', '\n', '\r', '\x0b', '\x0c', '\x1c', '\x1f', '\x85', '\xa0', '\u2003', '\u3000']
ODD = ['\u0130', '\u01c5', '\xdf', '\xc9', '\u03a9', '\u0131']   # I-dot, Dz-caron titlecase, sharp s, E-acute, Omega, dotless i
# every character the driver may be sent: ASCII, Latin-1, and the few others the generators use.
# U+03A3 (capital sigma) is left out on purpose: its lower-casing depends on the context.
ALPHABET = [chr(i) for i in range(256)] + WS + ODD + ['\u0307', '\u01c6', '\u03c9', '\u01c4',
                                                       '\ufb01', '\u03bf', '\u03c2', '\u039f', '\u0663',   # fi ligature, omicron, final sigma, Omicron, Arabic-Indic 3
                                                       '\ue000', '\ufffe',   # a private-use character, a noncharacter (neither has a Unicode name)
                                                       '\uff12',   # fullwidth digit two
                                                       '\u200b', '\ufeff']   # zero-width space, byte order mark

_key_re = re.compile(r'^[-:\w\s\.\+]$', re.UNICODE)
_ws_re = re.compile(r'^\s$', re.UNICODE)


ALPHASET = None


def check_alphabet(s):
    global ALPHASET
    if ALPHASET is None:
        ALPHASET = set(ALPHABET)
    for ch in s:
        if ch not in ALPHASET:
            raise ValueError('character outside the harness alphabet: %r' % ch)


def cls_rows(extra=''):
    """One row (cp, isspace, iskeychar, lower code points) per alphabet character."""
    rows = []
    seen = set()
    for ch in list(ALPHABET) + list(extra):
        if ch in seen:
            continue
        seen.add(ch)
        sp = bool(_ws_re.match(ch))
        assert sp == ch.isspace(), repr(ch)
        rows.append([ord(ch), sp, bool(_key_re.match(ch)), [ord(x) for x in ch.lower()]])
    return rows


def lower_is_charwise(s):
    """The model folds case per character; true of Python except for context rules (final sigma)."""
    return s.lower() == ''.join(ch.lower() for ch in s)


# ----------------------------------------------------------------------------------------------
# canonical forms

def sym_c(s):
    """(key, flag) of a plain / wrapped symbol; the flag by truthiness"""
    return [s.key, bool(s.is_exception)]


def atom_c(a):
    if isinstance(a, le.LicenseWithExceptionSymbol):
        return [T('with')] + sym_c(a.license_symbol) + sym_c(a.exception_symbol)
    if isinstance(a, le.LicenseSymbol):
        return [T('sym')] + sym_c(a)
    raise TypeError('not a symbol: %r' % (a,))


def tree_c(e):
    if isinstance(e, le.BaseSymbol):
        return atom_c(e)
    if isinstance(e, boolean.AND):
        return [T('and')] + [tree_c(a) for a in e.args]
    if isinstance(e, boolean.OR):
        return [T('or')] + [tree_c(a) for a in e.args]
    raise TypeError('not an expression: %r' % (e,))


def tree_sorted(t):
    """structure up to operand order (for projections that must not see the order)"""
    if t and t[0] in ('and', 'or'):
        return [t[0]] + sorted((tree_sorted(x) for x in t[1:]), key=repr)
    return t


class UserLicense:
    """an arbitrary user object exposing key / is_exception (wrapped by LicenseSymbolLike)"""

    def __init__(self, key, is_exception=False):
        self.key, self.is_exception = key, is_exception


class UserLicenseR(UserLicense):
    """... that also brings its own render(): every license is displayed by the same words (the library delegates
    render() of the wrapper to it; str() of the wrapper stays the key)"""

    def render(self, template='{symbol.key}', *args, **kwargs):
        return 'a license'


def make_sym(key, exc, rng=None, own_render=False):
    """a plain symbol, or (with `rng`, one time in three) a wrapper around a user object with the same key and flag"""
    if rng is not None and rng.random() < 0.33:
        return le.LicenseSymbolLike((UserLicenseR if own_render else UserLicense)(key, exc))
    return le.LicenseSymbol(key, is_exception=exc)


def build_tree(t, AND=None, OR=None, rng=None, own_render=False):
    """canonical tree -> real expression objects; with `rng` some symbols are wrappers around user objects
    (`own_render`: user objects with a render() method of their own)"""
    AND = AND or le.AND
    OR = OR or le.OR
    tag = t[0]
    if tag == 'sym':
        return make_sym(t[1], t[2], rng, own_render)
    if tag == 'with':
        return le.LicenseWithExceptionSymbol(make_sym(t[1], t[2], rng, own_render), make_sym(t[3], t[4], rng, own_render))
    args = [build_tree(x, AND, OR, rng, own_render) for x in t[1:]]
    return (AND if tag == 'and' else OR)(*args)


def table_objs(table):
    return [le.LicenseSymbol(k, aliases=tuple(al), is_exception=ex) for k, al, ex in table]


class Record(object):
    """a symbol-like user object (what Licensing wraps in LicenseSymbolLike): key, aliases, is_exception and more"""

    def __init__(self, key, aliases, is_exception):
        self.key = key
        self.aliases = tuple(aliases)
        self.is_exception = is_exception
        self.name = 'The ' + key

    def __repr__(self):
        return 'Record(%r)' % self.key


def table_records(table):
    return [Record(k, al, ex) for k, al, ex in table]


def table_c(table):
    return [[k, list(al), bool(ex)] for k, al, ex in table]


_unknown_re = re.compile(r'^Unknown license key\(s\): (.*)$', re.S)


def outcome(fn):
    """Run `fn` and classify what comes out like the model's `Outcome`."""
    try:
        r = fn()
    except le.ExpressionParseError as e:
        return [T('parseerr'), e.error_code, e.token_string if isinstance(e.token_string, str) else '', e.position]
    except le.ExpressionError as e:
        m = _unknown_re.match(str(e))
        if m:
            return [T('exprerr'), T('unknown'), m.group(1)]
        return [T('exprerr')]
    except BaseException as e:  # noqa
        return [T('other'), type(e).__name__]
    if r is None:
        return T('blank')
    return [T('ok'), r]


_FLAGS = [dict(simple=s, strict=t, validate=v) for s in (False, True) for t in (False, True) for v in (False, True)]
PREWARM_MOD = 4


def prewarm(lic, text, kw):
    """Calls that must not influence the one under observation (answers depend only on table and input): for one
    text in four (chosen by a checksum of the text, so a replay repeats it) the same text is first parsed on the same
    instance under every other flag combination, its token stream is read for the first token only, the very same call is made once before, and the text is parsed under another spacing and in two other letter cases; outcomes are ignored.
    The order of these calls is a pseudo-random function of the text."""
    import random
    import zlib
    crc = zlib.crc32(text.encode('utf-8', 'surrogatepass')) if isinstance(text, str) else 1
    if crc % PREWARM_MOD:
        return
    cur = dict(simple=False, strict=False, validate=False)
    cur.update(kw)
    order = list(_FLAGS)
    random.Random(crc).shuffle(order)      # which call comes first matters to a cache; the order is a function of the text
    for f in order:
        if f != cur:
            try:
                lic.parse(text, **f)
            except Exception:  # noqa
                pass
    try:
        next(iter(lic.tokenize(text, strict=cur['strict'], simple=cur['simple'])))     # a token stream read for its first token only
    except Exception:  # noqa
        pass
    try:
        lic.parse(text, **cur)                                                          # the very same call once before
    except Exception:  # noqa
        pass
    for other in (' ' + text.replace(' ', '  '), text.swapcase(), text.upper()):     # another spacing, other letter cases
        try:
            lic.parse(other, **cur)
        except Exception:  # noqa
            pass


def parse_c(lic, text, **kw):
    prewarm(lic, text, kw)
    o = outcome(lambda: lic.parse(text, **kw))
    if isinstance(o, list) and o[0] == 'ok':
        return [T('ok'), tree_c(o[1])]
    return o


def ptok_c(triple):
    obj, s, pos = triple
    if isinstance(obj, le.LicenseWithExceptionSymbol):
        return [T('with')] + sym_c(obj.license_symbol) + sym_c(obj.exception_symbol) + [s, pos]
    if isinstance(obj, le.LicenseSymbol):
        return [T('sym')] + sym_c(obj) + [s, pos]
    name = {le.TOKEN_AND: 'and', le.TOKEN_OR: 'or', le.TOKEN_LPAR: 'lpar', le.TOKEN_RPAR: 'rpar'}.get(obj)
    if name is None:
        return [T('other'), repr(obj), s, pos]
    return [T(name), s, pos]


def ltok_c(lic, text, strict=False, simple=False):
    try:
        toks = list(lic.tokenize(text, strict=strict, simple=simple))
    except boolean.ParseError as e:
        return [T('parseerr'), e.error_code, e.token_string if isinstance(e.token_string, str) else '', e.position]
    except le.ExpressionError:
        return [T('exprerr')]
    except BaseException as e:  # noqa
        return [T('other'), type(e).__name__]
    return [T('ok'), [ptok_c(t) for t in toks]]


def model_outcome_c(o):
    """normalise the model's outcome so that it compares with `parse_c`:
    unknown keys as the joined message text; crashes as their own class"""
    if isinstance(o, list) and o and o[0] == 'exprerr' and len(o) > 1:
        return [T('exprerr'), T('unknown'), ', '.join(o[2:])]
    return o


def kw_name(v):
    return {le.KW_AND: 'and', le.KW_OR: 'or', le.KW_LPAR: 'lpar', le.KW_RPAR: 'rpar', le.KW_WITH: 'with'}[v]


def tokval_c(v):
    if v is None:
        return T('none')
    if isinstance(v, le.Keyword):
        return T(kw_name(v))
    if isinstance(v, le.LicenseWithExceptionSymbol):
        return [T('withsym')] + sym_c(v.license_symbol) + sym_c(v.exception_symbol)
    if isinstance(v, le.LicenseSymbol):
        return [T('sym')] + sym_c(v)
    if isinstance(v, int) and not isinstance(v, bool):
        return v
    return [T('other'), repr(v)]


def tok_c(t):
    return [t.start, t.end, t.string, tokval_c(t.value)]


def nfc_safe(s):
    return unicodedata.normalize('NFC', s) == s
