"""Generators. Every random choice comes from the `random.Random` passed in (seeded by VERIF_SEED)."""
import impl

# the last five: an operator word glued to the rest by a key character, numbers written in two ways
WORDS = ['a', 'b', 'c', 'gpl', '2.0', 'mit', 'gnu', 'later', 'x', 'v2', '+', 'lgpl-2.1', 'bsd', 'foo',
         'or-later', 'with:x', 'and+', 'gpl-10', 'gpl-02', 'LicenseRef-acme-1.0', 'file', 'acme-inc.', 'AdditionRef-acme']
OPWORDS = ['and', 'or', 'with']
# the last two: letters that str.lower() leaves alone and casefold() / NFKC do not (fi ligature, final sigma)
ODDWORDS = ['\u0130x', '\u01c5', 'Stra\xdfe', '\xc9t\xe9', '\u03a9m', '\ufb01le', '\u03bf\u03c2']
# characters that are not allowed in a key; the last four have no Unicode name (controls, private use, noncharacter)
BADWORDS = ['a$', 'b/c', 'x&y', '*', 'mit\x07', 'gpl\x7f2.0', '\x9bbar', '\ue000x', 'y\ufffe', 'mit\u200b', '\ufeffgpl']
BLANKS = impl.WS


def compat_twin(word):
    """the word with a letter pair or a digit replaced by its Unicode compatibility form (fi ligature, fullwidth 2): another
    word to str.lower(), the same word after NFKC; None when there is nothing to replace"""
    if 'fi' in word:
        return word.replace('fi', '\ufb01', 1)
    if '2' in word:
        return word.replace('2', '\uff12', 1)
    return None


def blank_run(rng, simple=False):
    if simple or rng.random() < 0.6:
        return ' ' * rng.choice([1, 1, 1, 2, 4])
    return ''.join(rng.choice(BLANKS) for _ in range(rng.randint(1, 4)))


def recase(rng, s):
    m = rng.random()
    if m < 0.3:
        return s
    if m < 0.5:
        return s.upper() if impl.lower_is_charwise(s.upper()) and s.upper().lower() == s.lower() else s
    if m < 0.7:
        return s.lower()
    if m < 0.8:
        return s.title() if s.title().lower() == s.lower() else s
    out = ''.join((ch.upper() if rng.random() < 0.5 else ch.lower()) for ch in s)
    return out if out.lower() == s.lower() and impl.lower_is_charwise(out) else s


def gen_key(rng, nwords=None, pool=None, allow_op=True):
    """a valid license key of 1..3 words"""
    pool = pool or WORDS
    n = nwords or rng.choice([1, 1, 1, 2, 2, 3])
    while True:
        ws = []
        for _ in range(n):
            r = rng.random()
            if allow_op and n > 1 and r < 0.15:
                ws.append(rng.choice(OPWORDS))
            elif r < 0.22:
                ws.append(rng.choice(ODDWORDS))
            else:
                ws.append(rng.choice(pool))
        k = ' '.join(ws)
        if k.lower() in ('and', 'or', 'with'):
            continue
        return recase(rng, k) if rng.random() < 0.3 else k


def gen_alias(rng, pool=None, parens=True):
    pool = pool or WORDS
    n = rng.choice([1, 2, 2, 3, 4])
    ws = [rng.choice(pool + ODDWORDS[:2] + (OPWORDS if n > 1 else [])) for _ in range(n)]
    if n == 1 and ws[0] in OPWORDS:
        ws = [rng.choice(pool)]
    if parens and rng.random() < 0.2:
        i = rng.randrange(len(ws))
        ws[i] = '(' + ws[i] + ')' if rng.random() < 0.5 else ws[i] + ' (' + rng.choice(pool) + ')'
    sep = ' ' if rng.random() < 0.8 else '  '
    return sep.join(ws)


def valid_table(table):
    try:
        impl.le.Licensing(impl.table_objs(table))
        return True
    except (ValueError, impl.le.ExpressionError):
        return False


def gen_table(rng, maxn=6, aliases=True, pool=None, flags=True, allow_op=True, single_word=False):
    """a valid (unambiguous) table: list of [key, [aliases], flag]"""
    for _ in range(50):
        n = rng.choice([0, 1, 2, 2, 3, 3, 4, 5, maxn][:maxn + 3]) if maxn >= 1 else 0
        n = min(n, maxn)
        table = []
        for _ in range(n):
            key = gen_key(rng, 1 if single_word else None, pool, allow_op)
            al = []
            if aliases and rng.random() < 0.5:
                al = [gen_alias(rng, pool) for _ in range(rng.choice([1, 1, 2]))]
            table.append([key, al, bool(flags and rng.random() < 0.3)])
        if valid_table(table):
            return table
    return []


def gen_chain_table(rng):
    """a table in which known names nest as suffixes of one another through an operator word: stem[i:] + [op] + tail for
    several i (aliases of one license, in a random order), and the stems alone as names of another license; returns
    (table, stems, op) with stems the names that are complete operands when followed by the operator word and something else"""
    for _ in range(50):
        words = rng.sample(['gnu', 'gpl-2.0', 'free', 'lib', 'x1', 'v2', 'lesser', 'q'], rng.randint(3, 5))
        op = rng.choice(['or', 'or', 'and', 'with'])
        m = rng.randint(2, 3)
        stem, tail = words[:m], words[m:m + rng.randint(1, 2)]
        if not tail:
            continue
        chain = [' '.join(stem[i:] + [op] + tail) for i in range(m)]
        if rng.random() < 0.5:
            chain.append(' '.join([op] + tail))
        starts = sorted(rng.sample(range(m), rng.randint(1, m)))
        stems = [' '.join(stem[i:]) for i in starts]
        order = rng.choice(['longest-first', 'shortest-first', 'shuffled'])
        if order == 'shortest-first':
            chain.reverse()
        elif order == 'shuffled':
            rng.shuffle(chain)
        table = [['later-lic', chain, False], ['stem-lic', stems, bool(rng.random() < 0.3)], ['MIT', ['mit license'] if rng.random() < 0.5 else [], False]]
        if rng.random() < 0.5:
            table[0], table[1] = table[1], table[0]
        if valid_table(table):
            return table, stems, op
    return None


def variant(rng, name):
    """a case / whitespace variant of a stored name (same folded word sequence)"""
    pieces = impl.ac.get_tokens(name, lower=False)
    out = []
    for p in pieces:
        if not p.strip():
            out.append(blank_run(rng))
        elif p in '()':
            if out and out[-1].strip() and rng.random() < 0.5:
                out.append(blank_run(rng))
            out.append(p)
            if rng.random() < 0.3:
                out.append(blank_run(rng))
        else:
            if out and out[-1].strip() and out[-1] not in '()':
                out.append(' ')
            out.append(recase(rng, p))
    # a blank is needed between two adjacent words (cannot happen: pieces alternate), fine
    return ''.join(out)


def names_of(table):
    out = []
    for k, al, ex in table:
        out.append(k)
        out.extend(a for a in al if a.strip())
    return out


def gen_text(rng, table, maxitems=12, bad=0.05, simple_blanks=False):
    """an expression-like text: names of the table, operators, parentheses, unknown and invalid words"""
    names = names_of(table)
    n = rng.randint(1, maxitems)
    items = []
    for _ in range(n):
        r = rng.random()
        if names and r < 0.35:
            items.append(variant(rng, rng.choice(names)))
        elif r < 0.60:
            items.append(recase(rng, rng.choice(OPWORDS + ['and', 'or'])))
        elif r < 0.72:
            items.append(rng.choice('()'))
        elif r < 0.72 + bad:
            items.append(rng.choice(BADWORDS))
        elif r < 0.80:
            items.append(rng.choice(ODDWORDS))
        else:
            items.append(recase(rng, rng.choice(WORDS)))
    out = []
    if rng.random() < 0.2:
        out.append(blank_run(rng, simple_blanks))
    for i, it in enumerate(items):
        if i > 0:
            prev = items[i - 1]
            if prev in '()' or it in '()':
                if rng.random() < 0.6:
                    out.append(blank_run(rng, simple_blanks))
            else:
                out.append(blank_run(rng, simple_blanks))
        out.append(it)
    if rng.random() < 0.2:
        out.append(blank_run(rng, simple_blanks))
    return ''.join(out)


# ---------------------------------------------------------------------------------------------
# trees

def gen_atom(rng, keys, with_p=0.2, flags=True):
    def sym():
        k = rng.choice(keys)
        return [k, bool(flags and rng.random() < 0.2)]
    if rng.random() < with_p:
        a, b = sym(), sym()
        return [impl.T('with')] + a + b
    return [impl.T('sym')] + sym()


def gen_tree(rng, keys, depth=3, maxar=4, with_p=0.2, flags=True, same_op=0.3):
    """a well-formed tree (every node has at least two operands); nested nodes may repeat the operator"""
    def go(d, parent):
        if d == 0 or rng.random() < 0.35:
            return gen_atom(rng, keys, with_p, flags)
        ops = ['and', 'or']
        if parent and rng.random() > same_op:
            ops = [o for o in ops if o != parent]
        op = rng.choice(ops)
        n = rng.randint(2, maxar)
        return [impl.T(op)] + [go(d - 1, op) for _ in range(n)]
    return go(depth, None)


def atoms_of(t):
    if t[0] in ('and', 'or'):
        out = []
        for x in t[1:]:
            for a in atoms_of(x):
                if a not in out:
                    out.append(a)
        return out
    return [t]


def render_distinct(t):
    """no two unequal atoms of the tree render alike (the domain one Licensing reaches from text)"""
    seen = {}
    for a in atoms_of(t):
        r = a[1] if a[0] == 'sym' else a[1] + ' WITH ' + a[3]
        if r in seen and seen[r] != a:
            return False
        seen[r] = a
    # a plain key that spells like a WITH pair collides too
    return True


def tree_text(rng, t, top=True, redundant=0.2):
    """a text that the grammar derives for the tree, with optional redundant parentheses"""
    def sp():
        return blank_run(rng)

    def atom_text(a):
        if a[0] == 'sym':
            s = a[1]
        else:
            s = a[1] + sp() + recase(rng, 'with') + sp() + a[3]
        if rng.random() < redundant and a[0] == 'sym':
            return '(' + (sp() if rng.random() < 0.3 else '') + s + ')'
        return s

    if t[0] in ('and', 'or'):
        parts = []
        for x in t[1:]:
            if x[0] in ('and', 'or'):
                need = not (t[0] == 'or' and x[0] == 'and')
                s = tree_text(rng, x, False, redundant)
                if need or rng.random() < redundant:
                    s = '(' + s + ')'
                parts.append(s)
            else:
                parts.append(atom_text(x))
        s = (sp() + recase(rng, t[0]) + sp()).join(parts)
        return s
    return atom_text(t)


def rewrite(rng, t):
    """one rewrite of C07/C08: permute, regroup, repeat, or add an operand absorbed by a literal"""
    if t[0] not in ('and', 'or'):
        return t
    t = [t[0]] + [rewrite(rng, x) if rng.random() < 0.5 else x for x in t[1:]]
    r = rng.random()
    args = t[1:]
    if r < 0.3:
        rng.shuffle(args)
    elif r < 0.5 and len(args) >= 3:
        i = rng.randrange(len(args) - 1)
        args = args[:i] + [[t[0]] + args[i:i + 2]] + args[i + 2:]
    elif r < 0.7:
        args = args + [rng.choice(args)]
        if rng.random() < 0.5:
            rng.shuffle(args)
    elif r < 0.9:
        lits = [a for a in args if a[0] not in ('and', 'or')]
        if lits:
            a = rng.choice(lits)
            dual = 'or' if t[0] == 'and' else 'and'
            other = rng.choice(args)
            extra = [impl.T(dual), a, other] if other != a else [impl.T(dual), a, [impl.T('sym'), 'zz', False]]
            args = args + [extra]
    return [t[0]] + args


def tree_tokens(rng, t, top=True):
    """the token strings of a text the grammar derives for the tree (one string per word / operator / parenthesis)"""
    def atom(a):
        if a[0] == 'sym':
            return a[1].split(' ')
        return a[1].split(' ') + [recase(rng, 'with')] + a[3].split(' ')
    if t[0] in ('and', 'or'):
        out = []
        for i, x in enumerate(t[1:]):
            if i:
                out.append(recase(rng, t[0]))
            if x[0] in ('and', 'or'):
                out += ['('] + tree_tokens(rng, x, False) + [')']
            else:
                out += atom(x)
        return out
    return atom(t)


def mutate_tokens(rng, toks, alphabet):
    """1-2 random edits of a token list: delete, insert, duplicate, swap, replace"""
    toks = list(toks)
    for _ in range(rng.choice([1, 1, 2])):
        k = rng.choice(['del', 'ins', 'dup', 'swap', 'rep', 'phrase', 'phrase'])
        if k == 'phrase':
            syms = [a for a in alphabet if a not in ('and', 'or', 'with', '(', ')')] or ['x']
            ph = rng.choice([[rng.choice(syms), 'with', rng.choice(syms)], ['(', rng.choice(syms), ')'],
                             [rng.choice(syms), rng.choice(['and', 'or']), rng.choice(syms)], ['(', ')'],
                             ['(', rng.choice(['and', 'or']), rng.choice(syms), ')']])
            i = rng.randrange(len(toks) + 1)
            toks[i:i] = ph
        elif k == 'del' and toks:
            del toks[rng.randrange(len(toks))]
        elif k == 'ins':
            toks.insert(rng.randrange(len(toks) + 1), rng.choice(alphabet))
        elif k == 'dup' and toks:
            i = rng.randrange(len(toks))
            toks.insert(i, toks[i])
        elif k == 'swap' and len(toks) > 1:
            i = rng.randrange(len(toks) - 1)
            toks[i], toks[i + 1] = toks[i + 1], toks[i]
        elif k == 'rep' and toks:
            toks[rng.randrange(len(toks))] = rng.choice(alphabet)
    return toks
