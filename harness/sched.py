"""A deterministic line-granularity scheduler for real threads (sys.settrace line events + semaphores).

Exactly one thread runs at a time; before every traced line of the library the running thread
stops and the schedule function picks who goes next. No hook in /repo is needed."""
import linecache
import sys
import threading

FILES = ('license_expression/__init__.py', 'license_expression/_pyahocorasick.py', 'boolean/boolean.py')

MARKERS = [
    ('start', lambda s: s.startswith('if self.advanced_tokenizer is not None')),
    ('alloc', lambda s: 'AdvancedTokenizer()' in s and '=' in s),
    ('add', lambda s: s.startswith('add_item(')),
    ('make', lambda s: s == 'tokenizer.make_automaton()'),
    ('publish', lambda s: s == 'self.advanced_tokenizer = tokenizer'),
    ('use', lambda s: 'advanced_tokenizer.tokenize(expression)' in s),
]


def marker_of(frame):
    if not frame.f_code.co_filename.endswith(FILES[0]):
        return None
    s = linecache.getline(frame.f_code.co_filename, frame.f_lineno).strip()
    for name, pred in MARKERS:
        if pred(s):
            return name
    return None


class T:
    def __init__(self, name, fn):
        self.name = name
        self.fn = fn
        self.go = threading.Semaphore(0)
        self.yielded = threading.Semaphore(0)
        self.done = False
        self.result = None
        self.steps = 0
        self.thread = None
        self.at = None          # marker of the line the thread is stopped at
        self.use_obs = None     # (entries, converted) of the tokenizer at the `use` line
        self.quota = 0          # further line events this thread may pass without handing control back


def run(fns, schedule_fn):
    """fns: callables, one per thread. schedule_fn(step, runnable names, steps per thread) -> name, or (name, n) to let
    that thread run n lines before the next decision (same schedule as n single decisions, fewer hand-overs).
    Returns (threads, abstract schedule = [(thread index, marker)] in execution order)."""
    ts = [T('t%d' % i, f) for i, f in enumerate(fns)]
    abstract = []

    def tracer_for(t):
        def local(frame, event, arg):
            if event == 'line':
                t.at = marker_of(frame)
                if t.at == 'use':
                    tok = frame.f_locals.get('advanced_tokenizer')
                    try:
                        t.use_obs = (len(list(tok.items())), bool(tok._converted))
                    except Exception as e:  # a half-built object
                        t.use_obs = ('error', type(e).__name__)
                t.steps += 1
                if t.quota > 0:
                    t.quota -= 1        # still the scheduler's choice: it granted several lines at once
                else:
                    t.yielded.release()
                    t.go.acquire()
                if t.at:
                    abstract.append((int(t.name[1:]), t.at))
                    t.at = None
            return local

        def glob(frame, event, arg):
            if event == 'call' and frame.f_code.co_filename.endswith(FILES):
                return local
            return None
        return glob

    def body(t):
        t.go.acquire()
        sys.settrace(tracer_for(t))
        try:
            try:
                t.result = ('ok', t.fn())
            except BaseException as e:  # noqa
                t.result = ('exc', type(e).__name__, str(e)[:80])
        finally:
            sys.settrace(None)
            t.done = True
            t.yielded.release()

    for t in ts:
        t.thread = threading.Thread(target=body, args=(t,), daemon=True)
        t.thread.start()
    step = 0
    running = set()       # threads released and not yet back at a line event: blocked on a real lock
    while True:
        for t in list(running):
            if t.yielded.acquire(blocking=False):
                running.discard(t)
        runnable = [t for t in ts if not t.done and t not in running]
        if not runnable:
            if all(t.done for t in ts):
                break
            # everybody left is blocked: wait for one of them, or report the deadlock
            woke = False
            for _ in range(100):
                for t in list(running):
                    if t.yielded.acquire(timeout=0.05):
                        running.discard(t)
                        woke = True
                        break
                if woke:
                    break
            if not woke:
                raise RuntimeError('deadlock: every remaining thread is blocked')
            continue
        name = schedule_fn(step, [t.name for t in runnable], {t.name: t.steps for t in ts})
        quota = 1
        if isinstance(name, tuple):
            name, quota = name
        t = next((x for x in runnable if x.name == name), runnable[0])
        t.quota = max(quota, 1) - 1
        t.go.release()
        if not t.yielded.acquire(timeout=0.4):
            running.add(t)      # it waits for a lock held by a suspended thread: let the others run
        step += 1
    for t in ts:
        t.thread.join(1)
    return ts, abstract
