"""A deterministic line-granularity scheduler for real threads (sys.settrace line events + semaphores).

Exactly one thread runs at a time; before every traced line of the library the running thread
stops and the schedule function picks who goes next. No hook in /repo is needed."""
import dis
import sys
import threading

FILES = ('license_expression/__init__.py', 'license_expression/_pyahocorasick.py', 'boolean/boolean.py')

ATTR = 'advanced_tokenizer'
_attr_cache = {}


def attr_lines(code):
    """{line: {'load', 'store'}} for the instructions of `code` that read / write the attribute `advanced_tokenizer`"""
    key = id(code)          # hashing a code object is slow; library code objects live as long as the module
    if key not in _attr_cache:
        d = {}
        line = None
        for ins in dis.get_instructions(code):
            if ins.starts_line is not None:
                line = ins.starts_line
            if ins.argval == ATTR:
                if ins.opname in ('LOAD_ATTR', 'LOAD_METHOD'):
                    d.setdefault(line, set()).add('load')
                elif ins.opname == 'STORE_ATTR':
                    d.setdefault(line, set()).add('store')
        _attr_cache[key] = d
    return _attr_cache[key]


CALLS = {'__init__': 'alloc', 'add': 'add', 'make_automaton': 'make', 'tokenize': 'use'}


def call_marker(frame):
    """protocol step named by a call into the matcher class: its creation, add(), make_automaton(), tokenize()"""
    code = frame.f_code
    if not code.co_filename.endswith(FILES[1]) or code.co_name not in CALLS:
        return None
    if not code.co_qualname.startswith('Trie.'):
        return None
    return CALLS[code.co_name]


def marker_of(frame, t):
    """protocol step of the line about to run: read of the shared attribute (once per protocol round), publication
    (a store to it outside __init__), or the first line of a call into the matcher. Recognised from the bytecode and
    the call structure, not from the source text, so that equivalent rewrites of the source keep the trace."""
    if t.entered:
        m, t.entered = t.entered, None
        if m == 'use':
            t.in_round = False
        return m
    code = frame.f_code
    if not code.co_filename.endswith(FILES[0]):
        return None
    kinds = attr_lines(code).get(frame.f_lineno)
    if not kinds:
        return None
    if 'store' in kinds and code.co_name != '__init__':
        return 'publish'
    if 'load' in kinds and not t.in_round:
        t.in_round = True
        return 'start'
    return None


class T:
    def __init__(self, name, fn):
        self.name = name
        self.fn = fn
        self.go = threading.Semaphore(0)
        self.yielded = threading.Semaphore(0)
        self.done = False
        self.result = None
        self.steps = 0
        self.thread = None
        self.at = None          # marker of the line the thread is stopped at
        self.use_obs = None     # (entries, converted) of the tokenizer at the `use` line
        self.entered = None     # protocol step of the call just entered, reported at its first line
        self.in_round = False   # between the read of the shared attribute and the use of the matcher
        self.quota = 0          # further line events this thread may pass without handing control back


def run(fns, schedule_fn):
    """fns: callables, one per thread. schedule_fn(step, runnable names, steps per thread) -> name, or (name, n) to let
    that thread run n lines before the next decision (same schedule as n single decisions, fewer hand-overs).
    Returns (threads, abstract schedule = [(thread index, marker)] in execution order)."""
    ts = [T('t%d' % i, f) for i, f in enumerate(fns)]
    abstract = []

    def tracer_for(t):
        def local(frame, event, arg):
            if event == 'line':
                t.at = marker_of(frame, t)
                if t.at == 'use':
                    tok = frame.f_locals.get('self')
                    try:
                        t.use_obs = (len(list(tok.items())), bool(getattr(tok, '_converted', True)))   # a private flag: read while it exists under that name
                    except Exception as e:  # a half-built object
                        t.use_obs = ('error', type(e).__name__)
                t.steps += 1
                if t.quota > 0:
                    t.quota -= 1        # still the scheduler's choice: it granted several lines at once
                else:
                    t.yielded.release()
                    t.go.acquire()
                if t.at:
                    abstract.append((int(t.name[1:]), t.at))
                    t.at = None
            return local

        def glob(frame, event, arg):
            if event == 'call' and frame.f_code.co_filename.endswith(FILES):
                m = call_marker(frame)
                if m:
                    t.entered = m
                return local
            return None
        return glob

    def body(t):
        t.go.acquire()
        sys.settrace(tracer_for(t))
        try:
            try:
                t.result = ('ok', t.fn())
            except BaseException as e:  # noqa
                t.result = ('exc', type(e).__name__, str(e)[:80])
        finally:
            sys.settrace(None)
            t.done = True
            t.yielded.release()

    for t in ts:
        t.thread = threading.Thread(target=body, args=(t,), daemon=True)
        t.thread.start()
    step = 0
    running = set()       # threads released and not yet back at a line event: blocked on a real lock
    while True:
        for t in list(running):
            if t.yielded.acquire(blocking=False):
                running.discard(t)
        runnable = [t for t in ts if not t.done and t not in running]
        if not runnable:
            if all(t.done for t in ts):
                break
            # everybody left is blocked: wait for one of them, or report the deadlock
            woke = False
            for _ in range(100):
                for t in list(running):
                    if t.yielded.acquire(timeout=0.05):
                        running.discard(t)
                        woke = True
                        break
                if woke:
                    break
            if not woke:
                raise RuntimeError('deadlock: every remaining thread is blocked')
            continue
        name = schedule_fn(step, [t.name for t in runnable], {t.name: t.steps for t in ts})
        quota = 1
        if isinstance(name, tuple):
            name, quota = name
        t = next((x for x in runnable if x.name == name), runnable[0])
        t.quota = max(quota, 1) - 1
        t.go.release()
        if not t.yielded.acquire(timeout=0.4):
            running.add(t)      # it waits for a lock held by a suspended thread: let the others run
        step += 1
    for t in ts:
        t.thread.join(1)
    return ts, abstract
