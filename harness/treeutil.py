"""helpers shared by the tree-level checks (C06-C10)"""
import itertools

import impl
from proto import T

le = impl.le


def all_trees(atoms, leaves):
    """all trees with exactly `leaves` leaves over `atoms`, nodes AND/OR with >= 2 operands"""
    if leaves == 1:
        for a in atoms:
            yield a
        return
    for parts in compositions(leaves):
        if len(parts) < 2:
            continue
        for kids in itertools.product(*[list(all_trees(atoms, p)) for p in parts]):
            for op in ('and', 'or'):
                yield [T(op)] + list(kids)


def compositions(n):
    if n == 0:
        yield []
        return
    for first in range(1, n + 1):
        for rest in compositions(n - first):
            yield [first] + rest


def keys_decomposed(t):
    out = []
    if t[0] == 'sym':
        return [t[1]]
    if t[0] == 'with':
        return [t[1], t[3]]
    for x in t[1:]:
        out += keys_decomposed(x)
    return out


def nf_problem(e):
    """None if the expression is in the normal form of C07 under the implementation's own ==, < :
    no operand of the node's own kind, no two equal operands, adjacent operands never descending"""
    if isinstance(e, le.BaseSymbol):
        return None
    args = e.args
    if len(args) < 2:
        return 'node with fewer than two operands'
    for a in args:
        if type(a) is type(e):
            return 'operand of the node\'s own kind'
        p = nf_problem(a)
        if p:
            return p
    for a, b in itertools.combinations(args, 2):
        if a == b:
            return 'two equal operands'
    for a, b in zip(args, args[1:]):
        if b < a:
            return 'operands out of order'
    return None
