"""Line protocol between the harness and the Lean driver (lean/Driver.lean).

S-expressions over numbers, tags and strings. A data string travels as `c` followed by its code
points in decimal joined by `.`; Python `str` is always a data string, `Tag` is a bare tag.
"""
import os
import subprocess
import threading

HERE = os.path.dirname(os.path.abspath(__file__))
VERIF = os.path.dirname(HERE)
LEAN_DIR = os.path.join(VERIF, 'lean')
DRIVER_BIN = os.path.join(LEAN_DIR, '.lake', 'build', 'bin', 'driver')


class Tag(str):
    __slots__ = ()

    def __repr__(self):
        return 'Tag(%s)' % str.__repr__(self)


def T(s):
    return Tag(s)


NONE = Tag('none')
KNOWN_CPS = None    # code points of the character-class table sent to the driver (set by Driver.__init__)


def enc(x):
    if isinstance(x, Tag):
        return str(x)
    if x is None:
        return 'none'
    if isinstance(x, bool):
        return '1' if x else '0'
    if isinstance(x, int):
        if x < 0:
            return 'm%d' % (-x)
        return str(x)
    if isinstance(x, str):
        if KNOWN_CPS is not None and not x.isascii():
            for ch in x:
                if ord(ch) not in KNOWN_CPS:
                    # the driver would treat it as a caseless word character: a false alarm in the making
                    raise ValueError('character outside the alphabet the driver was given: %r' % ch)
        return 'c' + '.'.join(str(ord(ch)) for ch in x)
    if isinstance(x, (list, tuple)):
        return '(' + ' '.join(enc(y) for y in x) + ')'
    raise TypeError('cannot encode %r' % (x,))


def _atom(tok):
    if tok.isdigit():
        return int(tok)
    if tok[0] == 'c' and all(ch.isdigit() or ch == '.' for ch in tok[1:]):
        body = tok[1:]
        if not body:
            return ''
        return ''.join(chr(int(p)) for p in body.split('.'))
    if tok[0] == 'm' and tok[1:].isdigit():
        return -int(tok[1:])
    return Tag(tok)


def dec(s):
    """Decode one s-expression."""
    toks = s.replace('(', ' ( ').replace(')', ' ) ').split()
    stack = [[]]
    for t in toks:
        if t == '(':
            stack.append([])
        elif t == ')':
            top = stack.pop()
            stack[-1].append(top)
        else:
            stack[-1].append(_atom(t))
    assert len(stack) == 1 and len(stack[0]) == 1, s[:200]
    return stack[0][0]


class Driver:
    """One driver process; `call_many` sends a batch and returns the decoded replies in order."""

    def __init__(self, cls_rows=None):
        if not os.path.exists(DRIVER_BIN):
            raise RuntimeError('driver not built: ' + DRIVER_BIN)
        self.p = subprocess.Popen([DRIVER_BIN], stdin=subprocess.PIPE, stdout=subprocess.PIPE,
                                  bufsize=1 << 20)
        self.n = 0
        if cls_rows is not None:
            r = self.call_many([(T('cls'), cls_rows)])
            assert r == [Tag('ok')], r
            global KNOWN_CPS
            KNOWN_CPS = set(range(128)) | set(row[0] for row in cls_rows)
            # the hypothesis `ClsOK` of the text-level theorems, evaluated on the classes just sent (five clauses)
            ok = self.call_many([(T('clsok'), cls_rows)])[0]
            if not all(ok):
                raise RuntimeError('the character classes read off Python do not satisfy ClsOK: %r' % (ok,))
        # self test of the wire format
        probe = [T('a'), 'x (y)\t ', [3, '', T('b')], -1]
        r = self.call_many([(T('echo'), probe)])
        assert r == [probe], (r, probe)

    def call_many(self, reqs):
        lines = []
        ids = []
        for r in reqs:
            self.n += 1
            ids.append(self.n)
            op = r[0]
            lines.append('%d %s %s\n' % (self.n, op, ' '.join(enc(a) for a in r[1:])))
        data = ''.join(lines) + 'flush\n'
        w = threading.Thread(target=self._write, args=(data.encode('ascii'),))
        w.start()
        out = []
        for i in ids:
            line = self.p.stdout.readline()
            if not line:
                raise RuntimeError('driver died')
            line = line.decode('ascii').rstrip('\n')
            k, _, payload = line.partition('\t')
            assert int(k) == i, (k, i, line[:200])
            out.append(dec(payload))
        w.join()
        return out

    def _write(self, data):
        self.p.stdin.write(data)
        self.p.stdin.flush()

    def call(self, *req):
        return self.call_many([req])[0]

    def close(self):
        try:
            self.p.stdin.close()
            self.p.wait(timeout=5)
        except Exception:
            self.p.kill()
