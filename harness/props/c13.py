"""C13 - license symbols behave as values identified by key and exception flag."""
import copy
import itertools

import impl
from core import BaseProp, Verdict
from proto import T

RULE = ('all pairs and sampled triples from a pool of plain symbols, wrappers around three different user classes exposing key / '
        'is_exception (one also aliases), and WITH pairs, with keys chosen so that tuple order and string order of renderings '
        'differ, plain / wrapped / WITH symbols whose exception flag is not a bool (None, empty and non-empty strings, 2, 0, 1: the flag counts as it is), and plain / wrapped symbols whose key spells like the rendering of a WITH pair of the pool; Spec on the real code: == iff key and flag (both parts for WITH; plain never equals WITH), != its negation, equal '
        '=> same hash, truthy, copy equal with aliases kept, for different renderings exactly one of a<b, b<a and it is the string '
        'order (so sorting is consistent across kinds). Key normalisation: every key string over a small alphabet (exhaustive up to '
        'length 3 quick / 4 thorough) and malformed keys (empty, blank, bytes, None, numbers) against the model\'s normKey. '
        'non-trivial = the two symbols are of different kinds or differ in one component; distinct by pair')
ASSUMPTIONS = []

le = impl.le


class U1:
    def __init__(self, key, is_exception=False):
        self.key, self.is_exception = key, is_exception


class U2:
    aliases = ('al1', 'al 2')

    def __init__(self, key, is_exception=False):
        self.key, self.is_exception = key, is_exception


class U3(U1):
    extra = 1


KEYS = ['GPL', 'GPL 2.0', 'GPL 3.0', 'gpl', 'mit', 'Classpath', 'GPL W']


def pool():
    out = []
    for k in KEYS:
        for ex in (False, True):
            out.append(('plain', [T('sym'), k, ex], le.LicenseSymbol(k, aliases=('x', 'y z'), is_exception=ex)))
    for i, U in enumerate((U1, U2, U3)):
        for k in KEYS[:4]:
            out.append(('like%d' % i, [T('sym'), k, i == 1], le.LicenseSymbolLike(U(k, i == 1))))
    for l, e in [('GPL', 'Classpath'), ('GPL 2.0', 'Classpath'), ('GPL', 'mit'), ('mit', 'GPL'), ('GPL', 'Classpath')]:
        out.append(('with', [T('with'), l, False, e, True], le.LicenseWithExceptionSymbol(le.LicenseSymbol(l), le.LicenseSymbol(e, is_exception=True))))
    out.append(('with', [T('with'), 'GPL', True, 'Classpath', True], le.LicenseWithExceptionSymbol(le.LicenseSymbol('GPL', is_exception=True), le.LicenseSymbol('Classpath', is_exception=True))))
    # plain and wrapped symbols whose key spells like the rendering of a WITH pair of the pool: never equal to that pair
    for k in ('GPL WITH Classpath', 'GPL WITH mit', 'GPL with Classpath'):
        for ex in (False, True):
            out.append(('plain', [T('sym'), k, ex], le.LicenseSymbol(k, is_exception=ex)))
        out.append(('like0', [T('sym'), k, False], le.LicenseSymbolLike(U1(k, False))))
    # flags that are not bools (user objects with nullable or integer flags): the flag counts as it is - None is not False,
    # 2 is not True, 0 is False, 1 is True - and equal symbols still hash equally
    for k in KEYS[:2]:
        for ex in (None, '', 'yes', 2, 0, 1):
            out.append(('plainx', [T('sym'), k, ex], le.LicenseSymbol(k, is_exception=ex)))
            out.append(('likex', [T('sym'), k, ex], le.LicenseSymbolLike(U1(k, ex))))
    out.append(('withx', [T('with'), 'GPL', None, 'Classpath', 2], le.LicenseWithExceptionSymbol(le.LicenseSymbol('GPL', is_exception=None), le.LicenseSymbol('Classpath', is_exception=2))))
    out.append(('withx', [T('with'), 'GPL', 0, 'Classpath', 1], le.LicenseWithExceptionSymbol(le.LicenseSymbol('GPL', is_exception=0), le.LicenseSymbol('Classpath', is_exception=1))))
    return out


class Prop(BaseProp):
    def eval_pair(self, drv, i, j, P):
        ka, ca, a = P[i]
        kb, cb, b = P[j]
        case = {'a': [ka, ca], 'b': [kb, cb]}
        eq_want = ca == cb
        try:
            eq, ne = (a == b), (a != b)
            lt, gt = (a < b), (b < a)
            ha, hb = hash(a), hash(b)
        except BaseException as e:  # noqa
            return Verdict('spec', case, 'comparison raised ' + type(e).__name__)
        if eq != eq_want:
            return Verdict('spec', case, '== is not (key, flag) equality', impl=eq, model=eq_want)
        if ne == eq:
            return Verdict('spec', case, '!= is not the negation of ==', impl=[eq, ne])
        if eq and ha != hb:
            return Verdict('spec', case, 'equal symbols hash differently')
        if not a or not b:
            return Verdict('spec', case, 'a symbol is falsy')
        ra, rb = str(a), str(b)
        if ra != rb:
            if lt == gt or lt != (ra < rb):
                return Verdict('spec', case, '< is not the string order of the renderings', impl=[lt, gt], model=[ra < rb, rb < ra])
        if ka.endswith('x') or kb.endswith('x'):
            # the model's flags are booleans: no correspondence for the others
            return Verdict('ok', case, impl=[eq, lt, gt], nontrivial=True, tags=['kinds=%s/%s' % (ka[:4], kb[:4]), 'non-bool flag'])
        m = drv.call(T('symrel'), ca, cb)
        if [eq, lt, gt] != [bool(m[0]), bool(m[1]), bool(m[2])]:
            return Verdict('diverge', case, 'symbol relations', impl=[eq, lt, gt], model=m)
        return Verdict('ok', case, impl=[eq, lt, gt], nontrivial=(ka != kb) or (ca != cb), tags=['kinds=%s/%s' % (ka[:4], kb[:4])])

    def eval_copy(self, drv, i, P):
        k, c, a = P[i]
        case = {'copy': [k, c]}
        b = copy.copy(a)
        if not (a == b and b == a and hash(a) == hash(b)):
            return Verdict('spec', case, 'a copy does not equal its original')
        if k != 'with' and tuple(getattr(b, 'aliases', ())) != tuple(getattr(a, 'aliases', ())):
            return Verdict('spec', case, 'a copy loses the aliases', impl=[getattr(a, 'aliases', None), getattr(b, 'aliases', None)])
        if k == 'with' and (tuple(b.license_symbol.aliases) != tuple(a.license_symbol.aliases)):
            return Verdict('spec', case, 'a copy loses the aliases of a part')
        return Verdict('ok', case, nontrivial=False)

    def eval_sorted(self, drv, idx, P):
        items = [P[i][2] for i in idx]
        case = {'sorted': [P[i][1] for i in idx]}
        rs = [str(x) for x in items]
        if len(set(rs)) != len(rs):
            return Verdict('skip', case)
        want = sorted(rs)
        for perm in itertools.permutations(items):
            got = [str(x) for x in sorted(perm)]
            if got != want:
                return Verdict('spec', case, 'sorting is not the string order of the renderings', impl=got, model=want)
        return Verdict('ok', case, impl=want, nontrivial=True, tags=['sorted'])

    def eval_key(self, drv, raw):
        case = {'key': raw if isinstance(raw, str) else repr(raw)}
        try:
            s = le.LicenseSymbol(raw)
            got = [T('ok'), s.key]
        except le.ExpressionError:
            got = T('err')
        except BaseException as e:  # noqa
            return Verdict('spec', case, 'LicenseSymbol raised ' + type(e).__name__)
        if not isinstance(raw, str):
            # non-text keys are rejected (bytes are turned into their repr by the source: b'ab' -> "b'ab'", which has a quote)
            if got != 'err':
                return Verdict('spec', case, 'a non-text key was accepted', impl=got)
            return Verdict('ok', case, impl=got, nontrivial=False, tags=['nontext'])
        # the rule, stated directly
        k = raw.strip()
        import re
        ok = bool(k) and all(re.match(r'[-:\w\s\.\+]', ch, re.UNICODE) for ch in k) and ' '.join(k.split()).lower() not in ('and', 'or', 'with', '(', ')')
        want = [T('ok'), ' '.join(k.split())] if ok else T('err')
        if got != want:
            return Verdict('spec', case, 'key normalisation / validation', impl=got, model=want)
        if ok:
            # creating a symbol from a symbol's key gives that key again (C13_normKey_idem)
            try:
                again = le.LicenseSymbol(s.key).key
            except BaseException as e:  # noqa
                return Verdict('spec', case, 'the key of a symbol is refused as a key: ' + type(e).__name__, impl=got)
            if again != s.key:
                return Verdict('spec', case, 'key normalisation is not idempotent', impl=[s.key, again])
        m = drv.call(T('normkey'), raw)
        if got != m:
            return Verdict('diverge', case, 'LicenseSymbol.__init__', impl=got, model=m)
        return Verdict('ok', case, impl=got, nontrivial=True, tags=['key=' + ('ok' if ok else 'err')])

    def run(self, drv, rng, tier, index, nworkers, scale):
        P = pool()
        n = len(P)
        k = 0
        for i in range(n):
            for j in range(n):
                k += 1
                if k % nworkers == index:
                    self.record(self.eval_pair(drv, i, j, P))
        if index == 0:
            # the two facts about the character classes that C13_normKey_idem assumes, as the implementation has them
            row = [r for r in impl.cls_rows() if r[0] == 32][0]
            if not (row[1] and row[2]):
                self.record(Verdict('diverge', {'cls': row}, 'U+0020 is not both a blank and a key character: a hypothesis of C13_normKey_idem fails'))
            for i in range(n):
                self.record(self.eval_copy(drv, i, P))
        for _ in range(self.budget(tier, 400, 4000, nworkers, scale)):
            self.record(self.eval_sorted(drv, rng.sample(range(n), 3), P))
        alpha = ['a', 'A', ' ', '\t', '+', '$', 'o', 'r', 'İ']
        maxlen = 4 if tier == 'thorough' else 3
        k = 0
        count = 0
        for L in range(0, maxlen + 1):
            for chars in itertools.product(alpha, repeat=L):
                k += 1
                if k % nworkers == index:
                    self.record(self.eval_key(drv, ''.join(chars)))
                    count += 1
        self.res['exhaustive'].append({'scope': 'all key strings of length <= %d over {a,A,space,tab,+,$,o,r,I-dot}' % maxlen, 'cases': count, 'complete': True, 'worker': index})
        if index == 0:
            for raw in ['and', ' AND ', 'Or', 'wITh', 'with x', 'a  b\tc', ' a.b:c-d_e+ ', 'a/b', '(', 'a(b)', '', ' ', None, 5, b'ab', 'android', 'GPL 2.0 or later', 'caf\xe9', 'x y']:
                self.record(self.eval_key(drv, raw))
        return self.res

    def replay(self, drv, data):
        return []
