"""C05 - rendered expressions re-parse to themselves; rendering is a fixed point."""
import gen
import impl
import pipeline as P
from core import BaseProp, Verdict
from proto import T

RULE = ('random operator-word-free tables and trees over their keys and over multi-word unknown keys (depth <= 4, arity 2-4, WITH '
        'pairs, same-operator nesting), taken as built and after simplify / dedup / combine_expressions (one case in eight: combine_expressions over operand *texts* in any letter case, read by the simple tokenizer, over a table of one-word keys); Spec on the real code: '
        'parse(str(e)) has the structure, operand order and symbols of e and renders to the same text; the readable rendering '
        're-parses to e; render(template) equals the default rendering with every key replaced by the template applied to it, also for templates that give the empty text for some licenses. '
        'The renderings are asked in varying order on the same object (default first; readable first; renderings of a derived expression first). '
        'Correspondence: the three renderings with the model. non-trivial = not a single symbol; distinct by tree')
ASSUMPTIONS = ['table names and unknown keys contain no operator words; templates are format strings over symbol.key']

TEMPLATES = [('', ''), ('<', '>'), ('[', '|x]'), ('<a href="', '">k</a>')]


class PartialTemplate(str):
    """a template whose format() gives pre + key + post for exceptions only (or for the other licenses only) and '' otherwise"""

    def __new__(cls, pre, post, for_exceptions):
        o = str.__new__(cls, pre + '{symbol.key}' + post)
        o.pre, o.post, o.for_exceptions = pre, post, for_exceptions
        return o

    def format(self, *args, **kw):
        s = kw['symbol']
        return (self.pre + s.key + self.post) if bool(s.is_exception) == self.for_exceptions else ''


class Prop(BaseProp):
    def case_strings(self, rng):
        """combine_expressions over *strings* (read with the simple tokenizer): a table of one-word keys, the operands written
        as texts in any letter case"""
        table = gen.gen_table(rng, allow_op=False, aliases=False, single_word=True)
        keys = [k for k, _, _ in table] + ['u1', 'Zq9']
        parts = [gen.gen_tree(rng, keys, depth=rng.randint(0, 2), maxar=3, flags=False) for _ in range(rng.randint(1, 3))]

        def text(t):
            if t[0] == 'sym':
                return gen.recase(rng, t[1])
            if t[0] == 'with':
                return gen.recase(rng, t[1]) + ' with ' + gen.recase(rng, t[3])
            return '(' + (' %s ' % t[0]).join(text(x) for x in t[1:]) + ')'
        return {'table': table, 'tree': parts[0], 'texts': [text(t) for t in parts], 'via': 'combine-strings', 'tmpl': rng.randrange(len(TEMPLATES)), 'order': 0}

    def case_attr(self, rng):
        """a table of LicenseSymbol subclass instances that carry an extra attribute, a text over its keys with WITH pairs, and a
        template that shows that attribute"""
        table = gen.gen_table(rng, allow_op=False, aliases=False)
        if not table:
            table = [['mit', [], False], ['cp', [], True]]
        keys = [k for k, _, _ in table]
        t = gen.gen_tree(rng, keys, depth=rng.randint(1, 3), maxar=3, with_p=0.5, flags=False)
        return {'table': table, 'tree': t, 'text': gen.tree_text(rng, t), 'via': rng.choice(['attr', 'attr-simplify', 'attr-dedup']), 'tmpl': 0, 'order': 0}

    def eval_attr(self, drv, case):
        class Sub(impl.le.LicenseSymbol):
            def __init__(self, key, **kw):
                impl.le.LicenseSymbol.__init__(self, key, **kw)
                self.kind = 'lic'
        table, text = case['table'], case['text']
        if not impl.lower_is_charwise(text):
            return Verdict('skip', case)
        lic = impl.le.Licensing([Sub(k, aliases=tuple(al), is_exception=ex) for k, al, ex in table])
        try:
            e = lic.parse(text)
        except impl.le.ExpressionError:
            return Verdict('skip', case)
        if case['via'] == 'attr-simplify':
            e = e.simplify()
        elif case['via'] == 'attr-dedup':
            e = lic.dedup(e)
        t0 = impl.tree_c(e)
        tags = ['via=' + case['via']]
        want_t, want_r = drv.call_many([(T('rendert'), 'lic:', '', t0), (T('readablet'), 'lic:', '', t0)])
        for name, fn, want in (('render', lambda: e.render('{symbol.kind}:{symbol.key}'), want_t),
                               ('render_as_readable', lambda: e.render_as_readable('{symbol.kind}:{symbol.key}'), want_r)):
            try:
                got = fn()
            except BaseException as ex:  # noqa
                got = 'raised ' + type(ex).__name__
            if got != want:
                return Verdict('spec', case, '%s with a template over an attribute the symbols of the table carry' % name, impl=got, model=want, tags=tags)
        return Verdict('ok', case, impl=want_t, nontrivial=True, key=[table, t0, 'attr'], tags=tags)

    def case_random(self, rng):
        if rng.random() < 0.08:
            return self.case_attr(rng)
        if rng.random() < 0.12:
            return self.case_strings(rng)
        table = gen.gen_table(rng, allow_op=False, aliases=False)
        keys = [k for k, _, _ in table]
        flags = {k: ex for k, _, ex in table}
        unk = ['u1', 'zed q-1', 'Kx u1 zed']
        pool = keys + unk if keys else unk

        def fix(t):
            if t[0] == 'sym':
                return [t[0], t[1], flags.get(t[1], False)]
            if t[0] == 'with':
                return [t[0], t[1], flags.get(t[1], False), t[3], flags.get(t[3], False)]
            return [t[0]] + [fix(x) for x in t[1:]]
        tree = fix(gen.gen_tree(rng, pool, depth=rng.randint(1, 4), maxar=4))
        return {'table': table, 'tree': tree, 'via': rng.choice(['asis', 'asis', 'simplify', 'dedup', 'combine']), 'tmpl': rng.randrange(len(TEMPLATES)),
                'order': rng.choice([0, 0, 1, 2])}

    def eval_case(self, drv, case):
        table, tree = case['table'], case['tree']
        via = case['via']
        if via.startswith('attr'):
            return self.eval_attr(drv, case)
        lic = P.licensing(table)
        if via == 'combine-strings':
            if not all(impl.lower_is_charwise(t) for t in case['texts']):
                return Verdict('skip', case)
            try:
                e = impl.le.combine_expressions(list(case['texts']), rng_op(case), licensing=lic)
            except impl.le.ExpressionError:
                return Verdict('skip', case)
        else:
            e = impl.build_tree(tree, lic.AND, lic.OR)
        if via == 'simplify':
            e = e.simplify()
        elif via == 'dedup':
            e = lic.dedup(e)
        elif via == 'combine':
            e = impl.le.combine_expressions([e, e.args[-1] if e.args else e, e], rng_op(case), licensing=lic)
        t0 = impl.tree_c(e)
        pre, post = TEMPLATES[case['tmpl']]
        tmpl = pre + '{symbol.key}' + post
        order = case.get('order', 0)
        if order == 1:          # the readable renderings first, on the same object
            e.render_as_readable()
            e.render_as_readable(tmpl)
        elif order == 2:        # renderings of an expression derived from it first
            d = lic.dedup(e)
            d.render_as_readable(tmpl)
            d.render_as_readable()
            str(d)
        text = e.render()
        tags = ['via=' + via, 'order=%d' % order]
        ip = impl.parse_c(lic, text)
        if ip != [T('ok'), t0]:
            return Verdict('spec', case, 're-parse of the default rendering', impl=[text, ip], model=t0, tags=tags)
        if str(lic.parse(text)) != text:
            return Verdict('spec', case, 'rendering is not a fixed point', impl=[text, str(lic.parse(text))], tags=tags)
        rd = e.render_as_readable()
        ir = impl.parse_c(lic, rd)
        if ir != [T('ok'), t0]:
            return Verdict('spec', case, 're-parse of the readable rendering', impl=[rd, ir], model=t0, tags=tags)
        tm = e.render(tmpl)
        # default rendering with every key replaced: rebuild from the structure
        want_t, want_d, want_r = drv.call_many([(T('rendert'), pre, post, t0), (T('render'), t0), (T('readable'), t0)])
        if tm != want_t:
            return Verdict('spec', case, 'template rendering', impl=tm, model=want_t, tags=tags)
        # templates that give the empty text for some licenses (like '{symbol.wrapped.spdx_id}' over records where that field
        # is blank): a format-string object that shows the key of exceptions only / of the other licenses only
        for which in ('exc', 'lic'):
            got = e.render(PartialTemplate(pre, post, which == 'exc'))
            want = drv.call(T('rendertf'), pre, post, T(which), t0)
            if got != want:
                return Verdict('spec', case, 'template rendering (a template that is empty for some licenses: shown for %s only)' % which,
                               impl=got, model=want, tags=tags)
        if text != want_d:
            return Verdict('diverge', case, 'render', impl=text, model=want_d, tags=tags)
        if rd != want_r:
            return Verdict('diverge', case, 'render_as_readable', impl=rd, model=want_r, tags=tags)
        again = e.render()
        if again != text and (impl.parse_c(lic, again) != [T('ok'), t0] or str(lic.parse(again)) != again):
            return Verdict('spec', case, 'the default rendering after the other renderings is not a fixed point', impl=[text, again], tags=tags)
        if str(e) != text:
            return Verdict('diverge', case, 'str() differs from render()', impl=[str(e), text], tags=tags)
        return Verdict('ok', case, impl=text, nontrivial=t0[0] in ('and', 'or'), key=[table, t0], tags=tags)

    def run(self, drv, rng, tier, index, nworkers, scale):
        n = self.budget(tier, 5000, 80000, nworkers, scale)
        if index == 0:
            for c in CORPUS:
                self.record(self.eval_case(drv, c))
        for _ in range(n):
            self.record(self.eval_case(drv, self.case_random(rng)))
        return self.res

    def replay(self, drv, data):
        v = data.get('first') or (data.get('diverging') or [None])[0]
        yield self.eval_case(drv, v['case'])


def rng_op(case):
    return 'AND' if case['tmpl'] % 2 == 0 else 'or'


def S(k, e=False):
    return [T('sym'), k, e]


CORPUS = [
    {'table': [], 'tree': [T('or'), S('a'), [T('or'), S('b'), S('c')]], 'via': 'asis', 'tmpl': 1},
    {'table': [], 'tree': [T('and'), [T('and'), S('mit'), S('gpl-2.0')], S('apache-2.0')], 'via': 'asis', 'tmpl': 0},
    {'table': [], 'tree': [T('and'), [T('with'), 'a', False, 'b c', False], [T('or'), S('x y'), S('z')]], 'via': 'asis', 'tmpl': 2},
    {'table': [], 'tree': [T('and'), [T('and'), S('mit'), S('gpl')], [T('and'), S('apache'), S('bsd')]], 'via': 'combine', 'tmpl': 0},
]
