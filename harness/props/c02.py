"""C02 - valid expressions parse to the tree fixed by grammar and precedence."""
import itertools

import gen
import impl
import pipeline as P
from core import BaseProp, Verdict
from proto import T

RULE = ('trees generated from the grammar (depth <= 4, arity 2-5, WITH pairs, same-operator nesting, redundant parentheses around '
        'single licenses and compounds, multi-word unknown licenses) rendered with operators in random case and random Unicode '
        'blank runs, over random operator-word-free tables (name variants of keys and aliases), and (a quarter of the cases) over '
        'tables whose names share words and contain operator words inside, with unknown licenses that are prefixes of names; Spec: '
        'Licensing.parse returns exactly the generating tree (where every occurrence of a known name lies inside an operand meant '
        'as a known name; otherwise only the model is compared); correspondence: the same tree from the model. Exhaustive in thorough: every token string of length '
        '<= 6 over {a, zz, and, or, with, (, )} against an independent recursive-descent reference grammar. non-trivial = depth >= 2 '
        'or a WITH pair or a redundant parenthesis; distinct by (table, text)')
ASSUMPTIONS = ['for tables with operator words inside names the generating tree is the expectation only where no known name occurs across operand boundaries']

UNK = ['u1', 'zed', 'q-1', 'Kx', 'Zed', 'ZED', 'kx', 'or-newer', 'with:y', 'and+z', 'And.co']     # the last four: an operator word glued to the rest


def unknown_key(rng):
    return ' '.join(rng.choice(UNK) for _ in range(rng.choice([1, 1, 2, 3])))


def merge_words(toks):
    """token strings -> kinds after unknown merging and greedy WITH grouping; None if a WITH is misplaced"""
    syms = []
    for t in toks:
        if t in ('and', 'or', 'with', '(', ')'):
            syms.append(t)
        elif syms and isinstance(syms[-1], list):
            syms[-1].append(t)
        else:
            syms.append([t])
    out = []
    i = 0
    while i < len(syms):
        a = syms[i]
        if isinstance(a, list) and i + 2 < len(syms) and syms[i + 1] == 'with' and isinstance(syms[i + 2], list):
            out.append(('sym', [T('with'), ' '.join(a), False, ' '.join(syms[i + 2]), False]))
            i += 3
            continue
        if a == 'with':
            return None
        if isinstance(a, list):
            out.append(('sym', [T('sym'), ' '.join(a), False]))
        else:
            out.append(({'and': 'and', 'or': 'or', '(': 'lpar', ')': 'rpar'}[a],))
        i += 1
    return out


OPW = ['and', 'or', 'with']
POOL = ['gnu', 'gpl', 'lesser', '2.0', 'bsd', 'x11', 'later', 'only', 'v2']


def occurrences(names, words):
    """brute force: every (start, end, name index) at which a name (a word list) occurs in `words`"""
    out = []
    for ni, ws in enumerate(names):
        for i in range(len(words) - len(ws) + 1):
            if words[i:i + len(ws)] == ws:
                out.append((i, i + len(ws), ni))
    return out


class Prop(BaseProp):
    def case_opwords(self, rng):
        """tables whose names share words with each other and contain operator words inside; unknown licenses made of the
        same words (so they may be proper prefixes of names). The expected tree is the generating tree whenever every
        occurrence of a known name in the final word sequence lies inside an operand meant to be a known name."""
        for _ in range(30):
            pool = rng.sample(POOL, rng.randint(3, 5))
            names = []
            for _ in range(rng.randint(2, 5)):
                n = rng.choice([1, 2, 2, 3, 3, 4, 5])
                ws = [rng.choice(pool) for _ in range(n)]
                if n >= 3 and rng.random() < 0.6:
                    ws[rng.randint(1, n - 2)] = rng.choice(OPW)
                names.append(ws)
            if len(set(map(tuple, names))) < len(names):
                continue
            table = [['K%d' % i, [' '.join(ws)], False] for i, ws in enumerate(names)]
            if gen.valid_table(table):
                break
        else:
            table, names, pool = [], [], POOL[:3]

        def atom():
            if names and rng.random() < 0.55:
                i = rng.randrange(len(names))
                return {'words': names[i], 'canon': ['K%d' % i, False], 'known': True}
            if names and rng.random() < 0.5:          # a proper prefix of a name, without operator words
                ws = rng.choice(names)
                k = rng.randint(1, len(ws))
                pre = [w for w in ws[:k] if w not in OPW] or [rng.choice(pool)]
                shown = [gen.recase(rng, w) for w in pre]
                return {'words': pre, 'shown': shown, 'canon': [' '.join(shown), False], 'known': False}
            ws = [rng.choice(pool + ['zq']) for _ in range(rng.choice([1, 1, 2, 3]))]
            shown = [gen.recase(rng, w) for w in ws]
            return {'words': ws, 'shown': shown, 'canon': [' '.join(shown), False], 'known': False}

        def go(d):
            if d == 0 or rng.random() < 0.4:
                if rng.random() < 0.15:
                    a, b = atom(), atom()
                    return [a, {'op': 'with'}, b], [T('with')] + a['canon'] + b['canon']
                a = atom()
                return [a], [T('sym')] + a['canon']
            op = rng.choice(['and', 'or'])
            items, kids = [], []
            for j in range(rng.randint(2, 3)):
                it, t = go(d - 1)
                if t[0] in ('and', 'or'):
                    it = [{'p': '('}] + it + [{'p': ')'}]
                if j:
                    items.append({'op': op})
                items += it
                kids.append(t)
            return items, [T(op)] + kids
        items, tree = go(rng.randint(1, 3))
        words, spans, parts = [], [], []
        for it in items:
            if 'op' in it:
                words.append(it['op'])
                parts.append(gen.recase(rng, it['op']))
            elif 'p' in it:
                words.append(it['p'])
                parts.append(it['p'])
            else:
                if it['known']:
                    spans.append((len(words), len(words) + len(it['words'])))
                words += it['words']
                parts.append(gen.blank_run(rng, simple=True).join(it.get('shown') or [gen.recase(rng, w) for w in it['words']]))
        occ = occurrences(names, words)
        determined = all(any(s <= i and j <= e for s, e in spans) for i, j, _ in occ)
        text = ' '.join(parts)
        return {'table': table, 'text': text, 'expected': tree if determined else None, 'nt': True, 'stream': 'opwords'}

    def case_random(self, rng):
        if rng.random() < 0.25:
            return self.case_opwords(rng)
        table = gen.gen_table(rng, allow_op=False)
        # aliases with parentheses inside are names like any other ('GNU GPL (v2)'); only an alias that is one word wrapped in
        # parentheses is left out (the grammar writes a parenthesised operand the same way)
        table = [[k, [a for a in al if not (a.strip().startswith('(') and a.strip().endswith(')')) and not set(a.lower().split()) & {'and', 'or', 'with'}], ex]
                 for k, al, ex in table]
        if not gen.valid_table(table):
            table = [[k, [a for a in al if '(' not in a and ')' not in a], ex] for k, al, ex in table]
        # atoms: (text variant, canonical atom)
        choices = []
        for k, al, ex in table:
            for nm in [k] + [a for a in al if a.strip()]:
                choices.append((nm, [k, ex]))

        def atom():
            if choices and rng.random() < 0.7:
                nm, c = rng.choice(choices)
                return gen.variant(rng, nm), c
            u = ' '.join(gen.recase(rng, w) for w in unknown_key(rng).split(' '))
            return u.replace(' ', gen.blank_run(rng)) if rng.random() < 0.3 else u, [u, False]

        def go(d, parent):
            if d == 0 or rng.random() < 0.35:
                if rng.random() < 0.2:
                    (t1, c1), (t2, c2) = atom(), atom()
                    return ('atom', t1 + gen.blank_run(rng) + gen.recase(rng, 'with') + gen.blank_run(rng) + t2, [T('with')] + c1 + c2)
                t1, c1 = atom()
                return ('atom', t1, [T('sym')] + c1)
            op = rng.choice(['and', 'or'])
            return ('node', op, [go(d - 1, op) for _ in range(rng.randint(2, 4))])

        def text(n, parent):
            """returns (text, expected tree, nontrivial)"""
            if n[0] == 'atom':
                s = n[1]
                if rng.random() < 0.15:
                    return '(' + (' ' if rng.random() < 0.3 else '') + s + ')', n[2], True
                return s, n[2], n[2][0] == 'with'
            op = n[1]
            parts, kids, nt = [], [], False
            for ch in n[2]:
                s, t, x = text(ch, op)
                nt = nt or x
                if ch[0] == 'node':
                    need = not (op == 'or' and ch[1] == 'and')
                    if need or rng.random() < 0.3:
                        s = '(' + s + ')'
                        kids.append(t)
                    else:
                        kids.append(t)
                    nt = True
                else:
                    kids.append(t)
                parts.append(s)
            s = (gen.blank_run(rng) + gen.recase(rng, op) + gen.blank_run(rng)).join(parts)
            tree = [T(op)] + kids
            if rng.random() < 0.1:
                return '(' + s + ')', tree, True
            return s, tree, nt
        s, tree, nt = text(go(rng.randint(1, 4), None), None)
        if rng.random() < 0.2:
            s = gen.blank_run(rng) + s + gen.blank_run(rng)
        return {'table': table, 'text': s, 'expected': tree, 'nt': nt}

    def eval_case(self, drv, case):
        table, text = case['table'], case['text']
        if not impl.lower_is_charwise(text):
            return Verdict('skip', case)
        lic = P.licensing(table)
        ip = impl.parse_c(lic, text)
        mp = impl.model_outcome_c(drv.call(T('parse'), table, False, False, False, text))
        tags = ['out=' + P.err_class(ip), case.get('stream', 'plain')]
        if case['expected'] is not None:
            want = [T('ok'), case['expected']]
            if ip != want:
                return Verdict('spec', case, 'tree', impl=ip, model=want, tags=tags)
        else:
            tags.append('undetermined')
        if ip != mp:
            return Verdict('diverge', case, 'Licensing.parse', impl=ip, model=mp, tags=tags)
        # over a table without aliases whose keys are single words every name in the text is a key or unknown, which is what the
        # simple tokenizer reads: it yields the same tree when every license of the tree is one word
        if case['expected'] is not None and all(not al and len(k.split()) == 1 for k, al, _ in table) and \
                all(len(a[i].split()) == 1 for a in gen.atoms_of(case['expected']) for i in ([1] if a[0] == 'sym' else [1, 3])):
            isimple = impl.parse_c(lic, text, simple=True)
            if isimple != [T('ok'), case['expected']]:
                return Verdict('spec', case, 'tree (simple tokenizer, one-word licenses)', impl=isimple, model=[T('ok'), case['expected']], tags=tags)
            tags.append('simple-too')
        return Verdict('ok', case, impl=ip, nontrivial=case.get('nt', True), tags=tags)

    def eval_tokens(self, drv, toks, table=()):
        """exhaustive scope: a token string against the reference grammar"""
        text = ' '.join(toks)
        case = {'table': list(table), 'text': text, 'tokens': toks}
        lic = P.licensing(list(table))
        ip = impl.parse_c(lic, text)
        mp = impl.model_outcome_c(drv.call(T('parse'), list(table), False, False, False, text))
        kinds = merge_words(toks)
        want = P.ref_parse(kinds) if kinds is not None else None
        if want is not None:
            if ip != [T('ok'), want]:
                return Verdict('spec', case, 'tree (reference grammar)', impl=ip, model=[T('ok'), want])
        a = ip if P.is_ok(ip) else P.err_class(ip)
        b = mp if P.is_ok(mp) else P.err_class(mp)
        if a != b:
            return Verdict('diverge', case, 'Licensing.parse', impl=ip, model=mp)
        return Verdict('ok', case, impl=ip, nontrivial=want is not None and len(toks) >= 3, tags=['derivable' if want is not None else 'not-derivable'])

    def exhaustive(self, drv, index, nworkers, maxlen):
        alpha = ['a', 'A', 'zz', 'and', 'or', 'with', '(', ')']
        k = 0
        count = 0
        for n in range(1, maxlen + 1):
            for toks in itertools.product(alpha, repeat=n):
                k += 1
                if k % nworkers != index:
                    continue
                self.record(self.eval_tokens(drv, list(toks)))
                count += 1
        self.res['exhaustive'].append({'scope': 'token strings of length <= %d over {a,A,zz,and,or,with,(,)}' % maxlen, 'cases': count, 'complete': True, 'worker': index})

    def run(self, drv, rng, tier, index, nworkers, scale):
        n = self.budget(tier, 5000, 60000, nworkers, scale)
        if index == 0:
            for c in CORPUS:
                self.record(self.eval_case(drv, c))
        for _ in range(n):
            self.record(self.eval_case(drv, self.case_random(rng)))
        self.exhaustive(drv, index, nworkers, 6 if tier == 'thorough' else 4)   # 8^4 = 4 096 quick, 8^6 = 262 144 thorough
        return self.res

    def replay(self, drv, data):
        v = data.get('first') or (data.get('diverging') or [None])[0]
        c = v['case']
        yield self.eval_tokens(drv, c['tokens'], c['table']) if 'tokens' in c else self.eval_case(drv, c)


CORPUS = [
    {'table': [], 'text': 'a and ( b and c )', 'expected': [T('and'), [T('sym'), 'a', False], [T('and'), [T('sym'), 'b', False], [T('sym'), 'c', False]]]},
    {'table': [], 'text': 'a or b and c', 'expected': [T('or'), [T('sym'), 'a', False], [T('and'), [T('sym'), 'b', False], [T('sym'), 'c', False]]]},
    {'table': [['GPL-2.0', ['gnu gpl v2'], False], ['cp', [], True]], 'text': 'gnu  GPL\tV2 WiTh cp OR (foo  bar)',
     'expected': [T('or'), [T('with'), 'GPL-2.0', False, 'cp', True], [T('sym'), 'foo bar', False]]},
]
