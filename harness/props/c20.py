"""C20 - a shared Licensing is safe to use from several threads, first use included."""
import os

import impl
import sched
from core import BaseProp, Verdict
from proto import T

RULE = ('real threads under a deterministic line-granularity scheduler (sys.settrace): thread A makes the first parse on a fresh '
        'shared Licensing and is preempted before its k-th library line, for every k of the first-use window (every k of the whole parse, '
        'plus sampled pairs of preemptions); while A is suspended '
        'thread B parses on the same Licensing to completion and thread C constructs another Licensing and parses; then A resumes. '
        'The subsequent parse: on a Licensing that has already parsed one text, A parses another text (or the same) and is preempted '
        'before every k-th line while B parses the previous (or another) text. Construction meanwhile: A is preempted before every k-th '
        'line of its first parse while another thread constructs a Licensing over 1200 keys never seen before; the simple tokenizer (tokenize / parse / combine_expressions with simple=True) from two threads with every single preemption; queries (key listings, validation of keys, dedup, is_equivalent) on nested expression objects (depths 12, 120, 600) from two threads with two preemption points (counted from the first and from the last line of each call) and with a schedule found on the run (the first thread is stopped as soon as a setting all threads share differs from what it was, the second as soon as it changes again); the index loaders (build_licensing, build_spdx_licensing over a small index) preempted before their k-th line while another thread parses a text with words that are not valid keys on a warm Licensing. '
        'Spec: every result equals the result of the call run alone. Correspondence: the sequence of protocol steps the threads '
        'took (read shared / allocate / add / make_automaton / publish / use) is replayed on the Lean protocol model and the '
        'tokenizer each thread used (entries, finalised) must be the one the model says. non-trivial = the preemption falls inside '
        'the first-use window; distinct by (table, k)')
ASSUMPTIONS = ['line granularity, as the property says; bytecode-level preemption, free-threaded builds and memory effects below the GIL are not exhibited']
TRUSTED_EXTRA = ['the deterministic thread scheduler harness/sched.py (sys.settrace + semaphores)']

le = impl.le
BIG = 10 ** 9

TABLES = [
    ([['GPL 2.0', ['gplv2'], False], ['mit', [], False], ['gnu gpl', [], False]], 'gnu  gpl or MIT and gpl 2.0'),
    ([['GPL-2.0', ['GPLv2', 'GNU GPL 2'], False], ['Classpath-exception-2.0', ['Classpath', 'GNU Classpath'], True], ['MIT', ['MIT License'], False]],
     'GPLv2 with Classpath or mit or foo bar'),
]
# the other text of the `subsequent parse` scenarios, per table
TEXTS2 = ['mit and (gplv2 or unknown thing)', 'MIT License and (GNU GPL 2 or foo bar)']


def canon(r):
    if r[0] == 'ok':
        return ['ok', impl.tree_c(r[1]) if r[1] is not None else None]
    return list(r)


class Prop(BaseProp):
    def solo(self, table, text):
        L = le.Licensing(impl.table_objs(table))
        ts, abstract = sched.run([lambda: L.parse(text)], lambda i, r, st: (r[0], BIG))
        return ts[0].steps, canon(ts[0].result), abstract

    def eval_warm(self, drv, case, solo_cache={}):
        """the subsequent parse: the shared Licensing has already parsed `text` (thread 2 runs first, alone); then thread A is
        preempted before its k-th line while thread B parses to completion. scn 'warm-new': A parses another text, B the
        previous one; 'warm-prev': A parses the previous text, B another one."""
        ti, ks, scn = case['table'], case['ks'], case['scn']
        table, text = TABLES[ti]
        text2 = TEXTS2[ti]
        for tx in (text, text2):
            if (ti, tx) not in solo_cache:
                solo_cache[(ti, tx)] = self.solo(table, tx)
        nadd = len([m for _, m in solo_cache[(ti, text)][2] if m == 'add'])
        ta, tb = (text2, text) if scn == 'warm-new' else (text, text2)
        L = le.Licensing(impl.table_objs(table))
        k0 = ks[0]

        def sf(i, runnable, steps):
            if 't2' in runnable:
                return ('t2', BIG)
            if 't0' in runnable and steps['t0'] < k0:
                return ('t0', k0 - steps['t0'])
            if 't1' in runnable:
                return ('t1', BIG)
            return ('t0', BIG)
        try:
            ts, abstract = sched.run([lambda: L.parse(ta), lambda: L.parse(tb), lambda: L.parse(text)], sf)
        except RuntimeError as e:
            return Verdict('spec', case, str(e))
        got = [canon(t.result) for t in ts]
        want = [solo_cache[(ti, ta)][1], solo_cache[(ti, tb)][1], solo_cache[(ti, text)][1]]
        tags = [scn]
        if got != want:
            return Verdict('spec', case, 'a call on a used shared Licensing returns something else than when run alone', impl=got, model=want, tags=tags)
        pcs = drv.call(T('sched'), T('new'), nadd, 3, [t for t, m in abstract])
        for i in (0, 1, 2):
            obs = ts[i].use_obs
            if pcs[i] != [T('done'), nadd, 1] or obs is None or obs[1] is not True:
                return Verdict('diverge', case, 'protocol trace (thread %d, %s)' % (i, scn), impl=[obs, [m for t, m in abstract if t == i][:12]], model=pcs[i], tags=tags)
        return Verdict('ok', case, impl=got[0], nontrivial=True, tags=tags)

    def eval_heavy(self, drv, case, solo_cache={}, counter=[0]):
        """while other threads construct further Licensing objects: A makes the first parse on a fresh shared Licensing and is
        preempted before its k-th line; meanwhile C constructs a Licensing over a large table of keys never seen before
        (and parses with it); then A resumes."""
        ti, ks = case['table'], case['ks']
        table, text = TABLES[ti]
        if (ti, text) not in solo_cache:
            solo_cache[(ti, text)] = self.solo(table, text)
        want = solo_cache[(ti, text)][1]
        counter[0] += 1
        big = ['zz-%d-%d-%d' % (os.getpid(), counter[0], i) for i in range(case.get('size', 1200))]
        L = le.Licensing(impl.table_objs(table))
        k0 = ks[0]

        def fc():
            return le.Licensing(big).parse('%s or %s' % (big[0], big[-1]))

        def sf(i, runnable, steps):
            if 't0' in runnable and steps['t0'] < k0:
                return ('t0', k0 - steps['t0'])
            if 't1' in runnable:
                return ('t1', BIG)
            return ('t0', BIG)
        try:
            ts, abstract = sched.run([lambda: L.parse(text), fc], sf)
        except RuntimeError as e:
            return Verdict('spec', case, str(e))
        got = canon(ts[0].result)
        if got != want:
            return Verdict('spec', case, 'a call returns something else than when run alone (another thread constructed a large Licensing meanwhile)',
                           impl=got, model=want, tags=['heavy'])
        if ts[1].result[0] != 'ok':
            return Verdict('spec', case, 'the constructing thread failed', impl=list(ts[1].result)[:3], tags=['heavy'])
        return Verdict('ok', case, impl=got, nontrivial=True, tags=['heavy'])

    LOADER_INDEX = [{'license_key': 'lic-%d' % i, 'spdx_license_key': 'SPDX-%d' % i if i % 3 else None,
                     'other_spdx_license_keys': ['old-%d' % i] if i % 2 else [], 'is_exception': i % 4 == 0,
                     'is_deprecated': i % 5 == 0} for i in range(8)]
    LOADER_TEXTS = ['mit and foo/bar', 'gpl 2.0 or a$ and mit', 'mit or and', 'GPLv2 with Classpath or mit or foo bar']

    def eval_loader(self, drv, case, solo_cache={}):
        """while another thread builds a Licensing from a license index: the loading thread is preempted before its k-th line,
        meanwhile A parses a text - well formed or not, with words that are not valid keys - on a warm shared Licensing to
        completion; then the loader resumes. A's outcome is its outcome alone (the same error for the same fault), and the
        loader's table is the table of the index."""
        ti, k0, which = case['table'], case['ks'][0], case.get('loader', 'spdx')
        table, text0 = TABLES[ti]
        text = self.LOADER_TEXTS[case.get('text', 0)]
        if ('loader', ti, text) not in solo_cache:
            solo_cache[('loader', ti, text)] = self.solo(table, text)[1]
        want = solo_cache[('loader', ti, text)]
        build = le.build_spdx_licensing if which == 'spdx' else le.build_licensing
        if ('table', which) not in solo_cache:
            solo_cache[('table', which)] = sorted(build([dict(r) for r in self.LOADER_INDEX]).known_symbols)
        L = le.Licensing(impl.table_objs(table))
        L.parse(text0)

        def fl():
            return sorted(build([dict(r) for r in self.LOADER_INDEX]).known_symbols)

        def sf(i, runnable, steps):
            if 't0' in runnable and steps['t0'] < k0:
                return ('t0', k0 - steps['t0'])
            if 't1' in runnable:
                return ('t1', BIG)
            return ('t0', BIG)
        try:
            ts, abstract = sched.run([fl, lambda: L.parse(text)], sf)
        except RuntimeError as e:
            return Verdict('spec', case, str(e))
        got = canon(ts[1].result)
        if got != want:
            return Verdict('spec', case, 'a call returns something else than when run alone (another thread was loading a license index meanwhile)',
                           impl=got, model=want, tags=['loader'])
        if ts[0].result[0] != 'ok' or ts[0].result[1] != solo_cache[('table', which)]:
            return Verdict('spec', case, 'the loading thread did not build the table of the index', impl=list(ts[0].result)[:2], tags=['loader'])
        return Verdict('ok', case, impl=got, nontrivial=True, tags=['loader'])

    SIMPLE_TEXTS = [('mit or gpl-2.0 and (foo with bar)', 'zz top and mit'), ('mit gpl-2.0', '(apache-2.0 or mit) and ( x'),
                    ('a or b or c or d', 'mit with')]

    def eval_simple(self, drv, case, solo_cache={}):
        """the simple tokenizer from two threads on one warm Licensing: A is preempted before its k-th line while B tokenizes and
        parses another text to completion; tokens with their positions, trees and located errors are what they are alone"""
        ti, k0, pi, which = case['table'], case['ks'][0], case['pair'], case['call']
        table, text0 = TABLES[ti]
        ta, tb = self.SIMPLE_TEXTS[pi]
        L = le.Licensing(impl.table_objs(table))
        L.parse(text0)
        calls = {'tokenize': lambda t: [(str(a), b, c) for a, b, c in L.tokenize(t, simple=True)],
                 'parse': lambda t: impl.outcome(lambda: L.parse(t, simple=True)),
                 'combine': lambda t: str(le.combine_expressions([t, 'mit'], licensing=L))}
        fn = calls[which]

        def res(r):
            if r[0] != 'ok':
                return list(r)
            v = r[1]
            if isinstance(v, list) and v and v[0] in ('ok', 'parseerr', 'exprerr', 'other', 'blank'):
                return ['ok', [v[0]] + ([impl.tree_c(v[1])] if v[0] == 'ok' and v[1] is not None else [str(x) for x in v[1:]])]
            return ['ok', v]
        key = ('simple', ti, pi, which)
        if key not in solo_cache:
            solo_cache[key] = [res(sched.run([lambda: fn(ta)], lambda i, r, st: (r[0], BIG))[0][0].result),
                               res(sched.run([lambda: fn(tb)], lambda i, r, st: (r[0], BIG))[0][0].result)]
        want = solo_cache[key]

        def sf(i, runnable, steps):
            if 't0' in runnable and steps['t0'] < k0:
                return ('t0', k0 - steps['t0'])
            if 't1' in runnable:
                return ('t1', BIG)
            return ('t0', BIG)
        try:
            ts, abstract = sched.run([lambda: fn(ta), lambda: fn(tb)], sf)
        except RuntimeError as e:
            return Verdict('spec', case, str(e))
        got = [res(t.result) for t in ts]
        if got != want:
            return Verdict('spec', case, 'a simple-tokenizer call on a shared Licensing returns something else than when run alone (%s)' % which,
                           impl=got, model=want, tags=['simple'])
        return Verdict('ok', case, impl=got[0][0], nontrivial=True, tags=['simple'])

    # nesting depths of the expression objects of the `deep` scenario: well inside what the interpreter walks by default, and well
    # beyond it (nothing near the limit: there an equivalent rewrite that adds a frame per level changes the outcome)
    @staticmethod
    def settings():
        """what every thread of the process shares beside the Licensing: interpreter-wide settings and the plain-valued globals and
        class attributes of the library's modules"""
        import sys
        out = [sys.getrecursionlimit(), sys.getswitchinterval()]
        for mod in (le, impl.ac):
            for name, v in sorted(vars(mod).items()):
                if isinstance(v, (bool, int, float, str, type(None))) and not name.startswith('__'):
                    out.append((mod.__name__, name, v))
                elif isinstance(v, type) and getattr(v, '__module__', None) == mod.__name__:
                    for a, w in sorted(vars(v).items()):
                        if isinstance(w, (bool, int, float, str, type(None))) and not a.startswith('__'):
                            out.append((v.__name__, a, w))
        return out

    def eval_adaptive(self, drv, case, solo_cache={}):
        """two queries on nested expression objects, the schedule found on the run: A runs line by line until something every
        thread shares (an interpreter-wide setting, a plain global or class attribute of the library) differs from what it was;
        then B runs line by line until that changes again; then A finishes, then B. On code that changes no shared setting this is
        A, then B. Each must return what it returns alone, and the settings must be back afterwards."""
        import sys
        ti, depth, qi = case['table'], case['depth'], case['query']
        table, text0 = TABLES[ti]
        qname, q = self.QUERIES[qi]
        L = le.Licensing(impl.table_objs(table))
        L.parse(text0)
        ea, eb = L.parse(self.deep_text(depth, 'mit')), L.parse(self.deep_text(max(depth - 7, 1), 'gpl 2.0'))
        base = self.settings()
        limit = sys.getrecursionlimit()

        def res(r):
            return ['ok', r[1]] if r[0] == 'ok' else [r[0], r[1]]
        key = ('adaptive', ti, depth, qi)
        if key not in solo_cache:
            solo_cache[key] = [res(sched.run([lambda: q(L, ea)], lambda i, r, st: (r[0], BIG))[0][0].result),
                               res(sched.run([lambda: q(L, eb)], lambda i, r, st: (r[0], BIG))[0][0].result)]
        want = solo_cache[key]
        state = {'phase': 1, 'seen': None}

        def sf(i, runnable, steps):
            cur = self.settings()
            if state['phase'] == 1:
                if 't0' in runnable and cur == base:
                    return ('t0', 1)
                state['phase'], state['seen'] = 2, cur
            if state['phase'] == 2:
                if 't1' in runnable and cur == state['seen']:
                    return ('t1', 1)
                state['phase'] = 3
            if 't0' in runnable:
                return ('t0', BIG)
            return ('t1', BIG)
        try:
            ts, abstract = sched.run([lambda: q(L, ea), lambda: q(L, eb)], sf)
        except RuntimeError as e:
            return Verdict('spec', case, str(e))
        finally:
            after = self.settings()
            sys.setrecursionlimit(limit)
        got = [res(t.result) for t in ts]
        tags = ['adaptive', 'shared setting touched=%s' % (state['seen'] is not None and state['seen'] != base)]
        if got != want:
            return Verdict('spec', case, 'a query on a shared Licensing returns something else than when run alone (%s on nested expression objects; the other thread ran while this one had changed a setting all threads share)' % qname,
                           impl=[g[:2] if g[0] != 'ok' else ['ok', str(g[1])[:60]] for g in got],
                           model=[g[:2] if g[0] != 'ok' else ['ok', str(g[1])[:60]] for g in want], tags=tags)
        if after != base:
            return Verdict('spec', case, 'after two overlapping queries a setting that all threads share is not what it was',
                           impl=[x for x in after if x not in base][:4], model=[x for x in base if x not in after][:4], tags=tags)
        return Verdict('ok', case, impl=got[0][0], nontrivial=True, tags=tags)

    DEEP = [12, 120, 600]

    @staticmethod
    def deep_text(n, tail):
        return ''.join('a%d and (' % (i % 7) if i % 2 else 'b%d or (' % (i % 5) for i in range(n)) + tail + ')' * n

    QUERIES = [('license_keys', lambda L, e: L.license_keys(e)), ('unknown_license_keys', lambda L, e: L.unknown_license_keys(e)),
               ('validate_license_keys', lambda L, e: L.validate_license_keys(e)), ('primary_license_key', lambda L, e: L.primary_license_key(e)),
               ('dedup+str', lambda L, e: str(L.dedup(e))[-40:]), ('is_equivalent', lambda L, e: L.is_equivalent(e, e))]

    def eval_deep(self, drv, case, solo_cache={}):
        """two queries on already parsed, deeply nested expression objects, on a warm shared Licensing: thread A runs k0 lines,
        then thread B k1 lines, then A to completion, then B. Each returns what it returns alone - a list, or RecursionError for
        a nesting the interpreter cannot walk - whatever per-process or per-instance setting the other call touches meanwhile."""
        import sys
        ti, (k0, k1), depth, qi = case['table'], case['ks'], case['depth'], case['query']
        table, text0 = TABLES[ti]
        qname, q = self.QUERIES[qi]
        L = le.Licensing(impl.table_objs(table))
        L.parse(text0)
        ea, eb = L.parse(self.deep_text(depth, 'mit')), L.parse(self.deep_text(max(depth - 7, 1), 'gpl 2.0'))
        limit = sys.getrecursionlimit()

        def res(r):
            return ['ok', r[1]] if r[0] == 'ok' else [r[0], r[1]]
        key = ('deep', ti, depth, qi)
        if key not in solo_cache:
            sa = sched.run([lambda: q(L, ea)], lambda i, r, st: (r[0], BIG))[0][0]
            sb = sched.run([lambda: q(L, eb)], lambda i, r, st: (r[0], BIG))[0][0]
            solo_cache[key] = [res(sa.result), res(sb.result), sa.steps, sb.steps]
        want = solo_cache[key][:2]
        if case.get('from_end'):
            # preemption points counted back from the last line of each call run alone
            k0, k1 = max(0, solo_cache[key][2] - k0), max(0, solo_cache[key][3] - k1)

        def sf(i, runnable, steps):
            if 't0' in runnable and steps['t0'] < k0:
                return ('t0', k0 - steps['t0'])
            if 't1' in runnable and steps['t1'] < k1:
                return ('t1', k1 - steps['t1'])
            if 't0' in runnable:
                return ('t0', BIG)
            return ('t1', BIG)
        try:
            ts, abstract = sched.run([lambda: q(L, ea), lambda: q(L, eb)], sf)
        except RuntimeError as e:
            return Verdict('spec', case, str(e))
        finally:
            if sys.getrecursionlimit() != limit:
                changed = sys.getrecursionlimit()
                sys.setrecursionlimit(limit)
                return Verdict('spec', case, 'a query left the interpreter-wide recursion limit changed (%d -> %d)' % (limit, changed), tags=['deep'])
        got = [res(t.result) for t in ts]
        if got != want:
            return Verdict('spec', case, 'a query on a shared Licensing returns something else than when run alone (%s on nested expression objects)' % qname,
                           impl=[g[:2] if g[0] != 'ok' else ['ok', str(g[1])[:60]] for g in got],
                           model=[g[:2] if g[0] != 'ok' else ['ok', str(g[1])[:60]] for g in want], tags=['deep'])
        return Verdict('ok', case, impl=got[0][0], nontrivial=True, tags=['deep', 'deep=%d:%s' % (depth, got[0][0])])

    def eval_case(self, drv, case, solo_cache={}):
        if case.get('scn', 'first') == 'adaptive':
            return self.eval_adaptive(drv, case)
        if case.get('scn', 'first') == 'simple':
            return self.eval_simple(drv, case)
        if case.get('scn', 'first') == 'deep':
            return self.eval_deep(drv, case)
        if case.get('scn', 'first') == 'loader':
            return self.eval_loader(drv, case)
        if case.get('scn', 'first') == 'heavy':
            return self.eval_heavy(drv, case)
        if case.get('scn', 'first') != 'first':
            return self.eval_warm(drv, case)
        ti, ks = case['table'], case['ks']
        table, text = TABLES[ti]
        key = ti
        if key not in solo_cache:
            solo_cache[key] = self.solo(table, text)
        nsteps, want, solo_abs = solo_cache[key]
        nadd = len([m for _, m in solo_abs if m == 'add'])
        other_table = [['zzz', ['gplv2'], False]]
        L = le.Licensing(impl.table_objs(table))

        def fa():
            return L.parse(text)

        def fb():
            return L.parse(text)

        def fc():
            return le.Licensing(impl.table_objs(other_table)).parse('GPLv2 or zzz')
        want_c = ['ok', [T('or'), [T('sym'), 'zzz', False], [T('sym'), 'zzz', False]]]
        # schedule: A runs until it has made ks[0] steps, then B to completion (but B itself is preempted after ks[1] steps
        # in favour of C when given), then C, then A.
        k0 = ks[0]
        k1 = ks[1] if len(ks) > 1 else None

        def sf(i, runnable, steps):
            if 't0' in runnable and steps['t0'] < k0:
                return ('t0', k0 - steps['t0'])
            if k1 is not None and 't1' in runnable and steps['t1'] < k1:
                return ('t1', k1 - steps['t1'])
            if k1 is not None and 't2' in runnable:
                return ('t2', BIG)
            if 't1' in runnable:
                return ('t1', BIG)
            if 't2' in runnable:
                return ('t2', BIG)
            return ('t0', BIG)
        try:
            ts, abstract = sched.run([fa, fb, fc], sf)
        except RuntimeError as e:
            return Verdict('spec', case, str(e))
        got = [canon(t.result) for t in ts]
        tags = ['window' if k0 <= nsteps else 'after']
        if got[0] != want or got[1] != want or got[2] != want_c:
            return Verdict('spec', case, 'a call returns something else than when run alone', impl=got, model=[want, want, want_c], tags=tags)
        # correspondence with the protocol model: threads 0 and 1 share L; thread 2 has its own instance (not in this model run)
        sch = [t for t, m in abstract if t in (0, 1)]
        pcs = drv.call(T('sched'), T('new'), nadd, 2, sch)
        for i in (0, 1):
            obs = ts[i].use_obs
            want_pc = [T('done'), obs[0], obs[1]] if obs and obs[0] != 'error' else None
            # entries in the trie = distinct names added; the model counts add steps: compare completeness
            if pcs[i] != [T('done'), nadd, 1] or obs is None or obs[1] is not True:
                return Verdict('diverge', case, 'protocol trace (thread %d)' % i, impl=[obs, [m for t, m in abstract if t == i][:12]], model=pcs[i], tags=tags)
        return Verdict('ok', case, impl=got[0], nontrivial=k0 <= nsteps, tags=tags)

    def run(self, drv, rng, tier, index, nworkers, scale):
        cases = []
        for ti, (table, text) in enumerate(TABLES):
            nsteps, _, solo_abs = self.solo(table, text)
            # the first-use window ends when the automaton is published: find the step count at `publish`
            L = le.Licensing(impl.table_objs(table))
            stride = 1
            for k in range(0, nsteps + 1, stride):
                cases.append({'table': ti, 'ks': [k]})
            for scn, tx in (('warm-new', TEXTS2[ti]), ('warm-prev', text)):
                n2 = self.solo(table, tx)[0]
                for k in range(0, n2 + 1):
                    cases.append({'table': ti, 'ks': [k], 'scn': scn})
            for k in range(0, nsteps + 1):
                cases.append({'table': ti, 'ks': [k], 'scn': 'heavy'})
            # the simple tokenizer from two threads: every single preemption of A (every second line in the quick tier)
            if ti == 0:
                for pi in range(len(self.SIMPLE_TEXTS)):
                    for which in ('tokenize', 'parse', 'combine'):
                        for k in range(0, 260, 1 if tier == 'thorough' else 2):
                            cases.append({'table': ti, 'ks': [k], 'scn': 'simple', 'pair': pi, 'call': which})
            if ti == 0:
                for depth in self.DEEP[1:]:
                    for qi in range(4):          # the listings and the key validation (stepping line by line through dedup or simplify of a deep tree takes minutes)
                        cases.append({'table': ti, 'ks': [0], 'scn': 'adaptive', 'depth': depth, 'query': qi})
            # queries on deeply nested expression objects: all pairs of preemption points of two short calls (a sample in the quick tier)
            if ti == 0:
                for depth in self.DEEP:
                    for qi in range(len(self.QUERIES)):
                        pairs = [(a, b) for a in range(0, 14) for b in range(0, 14)]
                        if tier != 'thorough':
                            pairs = [p for j, p in enumerate(pairs) if (j + qi + depth) % 11 == 0]
                        for a, b in pairs:
                            cases.append({'table': ti, 'ks': [a, b], 'scn': 'deep', 'depth': depth, 'query': qi})
                        for a, b in pairs:
                            cases.append({'table': ti, 'ks': [a, b], 'scn': 'deep', 'depth': depth, 'query': qi, 'from_end': True})
            # the index loaders, preempted before each of their lines (every third line in the quick tier)
            for which in ('spdx', 'scancode'):
                build = le.build_spdx_licensing if which == 'spdx' else le.build_licensing
                nl = sched.run([lambda: build([dict(r) for r in self.LOADER_INDEX])], lambda i, r, st: (r[0], BIG))[0][0].steps
                for j, k in enumerate(range(0, nl + 1, 1 if tier == 'thorough' else 3)):
                    cases.append({'table': ti, 'ks': [k], 'scn': 'loader', 'loader': which, 'text': (j + ti) % len(self.LOADER_TEXTS)})
            if tier == 'thorough':
                for _ in range(1500):
                    cases.append({'table': ti, 'ks': [rng.randint(0, nsteps), rng.randint(0, nsteps)]})
            else:
                for _ in range(100):
                    cases.append({'table': ti, 'ks': [rng.randint(0, nsteps), rng.randint(0, nsteps)]})
        n = 0
        for i, c in enumerate(cases):
            if i % nworkers != index:
                continue
            self.record(self.eval_case(drv, c))
            n += 1
        self.res['exhaustive'].append({'scope': 'every single preemption of thread A (first use; subsequent parse of a new and of the previous text), 2 tables', 'cases': n, 'complete': True, 'worker': index})
        return self.res

    def replay(self, drv, data):
        v = data.get('first') or (data.get('diverging') or [None])[0]
        yield self.eval_case(drv, v['case'])
