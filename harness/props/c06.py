"""C06 - simplification preserves the meaning of the expression."""
import gen
import impl
import pipeline as P
import treeutil as U
from core import BaseProp, Verdict
from proto import T

RULE = ('random trees (depth <= 4, arity 2-5) over atoms that include keys differing only by letter case, the same key with both '
        'exception flags, and WITH pairs next to their parts; Spec (in Lean, on the implementation\'s result): same truth table over '
        'all assignments of the input\'s atoms, atoms of the result are atoms of the input; correspondence: result structure up to '
        'operand order with the model. Exhaustive: all trees with <= 4 (quick) / <= 5 (thorough) leaves over {a, A, a[exc]} plus a '
        'WITH pair. Entry point used by comparisons: texts over tables with aliases, Licensing._parse_and_simplify(text, **flags) on a '
        'shared instance under every flag combination given explicitly, in random order, twice: the result has the truth table and no '
        'license beyond those of parse(text, **flags) on a fresh instance (or fails the same way); and on an expression object a table-less Licensing built from the same text (names as written: a key and its alias are two licenses there) the entry point keeps the truth table of that object. non-trivial = not a single atom; '
        'distinct by tree')
ASSUMPTIONS = ['expressions are NOT-free (all a license expression can be)']

KEYS = ['a', 'A', 'b', 'mit', 'MIT', 'gpl 2.0', 'c']


class Prop(BaseProp):
    def case_random(self, rng):
        keys = rng.sample(KEYS, rng.randint(2, 5))
        return {'tree': gen.gen_tree(rng, keys, depth=rng.randint(1, 4), maxar=rng.choice([2, 3, 3, 4, 5]), with_p=0.15, flags=True)}

    def eval_case(self, drv, case):
        tree = case['tree']
        import random as _random
        e = impl.build_tree(tree, rng=_random.Random(len(repr(tree))) if len(repr(tree)) % 3 == 0 else None)
        try:
            r = e.simplify()
        except BaseException as ex:  # noqa
            return Verdict('spec', case, 'simplify raised ' + type(ex).__name__)
        rt = impl.tree_c(r)
        atoms = gen.atoms_of(tree)[:10]
        ti, tr, ms = drv.call_many([(T('ttable'), tree, atoms), (T('ttable'), rt, atoms), (T('simplify'), tree)])
        if ti != tr:
            return Verdict('spec', case, 'truth table changed', impl=rt, model=ms)
        if tree[0] in ('and', 'or'):
            # the unsorted variant is a simplification too: same truth table, no new license
            try:
                ru = impl.tree_c(impl.build_tree(tree).simplify(sort=False))
            except BaseException as ex:  # noqa
                return Verdict('spec', case, 'simplify(sort=False) raised ' + type(ex).__name__)
            tu = drv.call(T('ttable'), ru, atoms)
            if tu != ti or [a for a in gen.atoms_of(ru) if a not in gen.atoms_of(tree)]:
                return Verdict('spec', case, 'simplify(sort=False): truth table changed or a license appeared', impl=ru, model=ms)
        extra = [a for a in gen.atoms_of(rt) if a not in gen.atoms_of(tree)]
        if extra:
            return Verdict('spec', case, 'result mentions a license absent from the input', impl=rt, model=ms)
        if impl.tree_sorted(rt) != impl.tree_sorted(ms):
            return Verdict('diverge', case, 'simplify (structure up to operand order)', impl=rt, model=ms)
        return Verdict('ok', case, impl=rt, nontrivial=tree[0] in ('and', 'or'), tags=['atoms=%d' % len(atoms)])

    def case_text(self, rng):
        table = gen.gen_table(rng, allow_op=False, single_word=rng.random() < 0.7)
        table = [[k, [a for a in al if '(' not in a and ')' not in a and not set(a.lower().split()) & {'and', 'or', 'with'}], ex] for k, al, ex in table]
        names = [n for k, al, ex in table for n in [k] + [a for a in al if a.strip()]] or ['zz']
        keys = [rng.choice(names) if rng.random() < 0.8 else 'u%d' % rng.randint(0, 2) for _ in range(rng.randint(2, 4))]
        t = gen.gen_tree(rng, keys, depth=rng.randint(1, 3), maxar=3, with_p=0.15, flags=False)
        order = [dict(f) for f in impl._FLAGS]
        rng.shuffle(order)
        return {'table': table, 'text': gen.tree_text(rng, t), 'order': order + order[:3]}

    def eval_text(self, drv, case):
        table, text = case['table'], case['text']
        if not impl.lower_is_charwise(text):
            return Verdict('skip', case)
        lic = P.licensing(table)
        # the entry point is a private helper: it is observed directly while it exists under its name; after a rewrite that
        # renames it, through the public comparisons it serves (the text is equivalent to what a fresh instance parses it to,
        # and not to that joined with a license it does not mention)
        hook = getattr(lic, '_parse_and_simplify', None)
        if hook is None:
            return self.eval_text_public(drv, case, lic)
        for kw in case['order']:
            want = impl.outcome(lambda: P.fresh_licensing(table).parse(text, **kw))
            got = impl.outcome(lambda: hook(text, **kw))
            if not P.is_ok(want) or not P.is_ok(got):
                if P.err_class(want) != P.err_class(got):
                    return Verdict('spec', case, '_parse_and_simplify(%r) fails differently from parse' % (kw,), impl=P.err_class(got), model=P.err_class(want))
                continue
            wt, gt = impl.tree_c(want[1]), impl.tree_c(got[1])
            atoms = gen.atoms_of(wt)[:10]
            extra = [a for a in gen.atoms_of(gt) if a not in gen.atoms_of(wt)]
            if extra:
                return Verdict('spec', case, '_parse_and_simplify(%r): result mentions a license absent from the parsed input' % (kw,), impl=gt, model=wt)
            ti, tr = drv.call_many([(T('ttable'), wt, atoms), (T('ttable'), gt, atoms)])
            if ti != tr:
                return Verdict('spec', case, '_parse_and_simplify(%r): truth table differs from the parsed input' % (kw,), impl=gt, model=wt)
        # an expression object built elsewhere (a table-less Licensing read the same text: every name as it is written, a key and
        # its alias two different licenses): the entry point simplifies that object - same truth table over its own atoms, no
        # other license - whatever the table of the instance that is asked
        fo = impl.outcome(lambda: impl.le.Licensing().parse(text))
        if P.is_ok(fo):
            ft = impl.tree_c(fo[1])
            for kw in case['order'][:3]:
                got = impl.outcome(lambda: hook(fo[1], **kw))
                if not P.is_ok(got):
                    return Verdict('spec', case, '_parse_and_simplify(object parsed elsewhere, %r) fails' % (kw,), impl=got[:2])
                gt = impl.tree_c(got[1])
                atoms = gen.atoms_of(ft)[:10]
                if [a for a in gen.atoms_of(gt) if a not in gen.atoms_of(ft)]:
                    return Verdict('spec', case, '_parse_and_simplify(object parsed elsewhere): result mentions a license absent from the object', impl=gt, model=ft)
                ti, tr = drv.call_many([(T('ttable'), ft, atoms), (T('ttable'), gt, atoms)])
                if ti != tr:
                    return Verdict('spec', case, '_parse_and_simplify(object parsed elsewhere): truth table differs from the object', impl=gt, model=ft)
            if impl.tree_c(fo[1]) != ft:
                return Verdict('spec', case, '_parse_and_simplify changed the object it was given', impl=impl.tree_c(fo[1]), model=ft)
        return Verdict('ok', case, nontrivial=True, tags=['stream=entry-point'])

    def eval_text_public(self, drv, case, lic):
        table, text = case['table'], case['text']
        for kw in case['order']:
            want = impl.outcome(lambda: P.fresh_licensing(table).parse(text, **kw))
            if not P.is_ok(want):
                got = impl.outcome(lambda: lic.is_equivalent(text, text, **kw))
                if P.err_class(got) != P.err_class(want):
                    return Verdict('spec', case, 'is_equivalent(text, text, %r) fails differently from parse' % (kw,), impl=P.err_class(got), model=P.err_class(want))
                continue
            ref = want[1]
            more = impl.le.AND(ref, impl.le.LicenseSymbol('zq9-not-in-the-text'))
            a = impl.outcome(lambda: lic.is_equivalent(text, ref, **kw))
            b = impl.outcome(lambda: lic.is_equivalent(text, more, **kw))
            if not (P.is_ok(a) and a[1] is True and P.is_ok(b) and b[1] is False):
                return Verdict('spec', case, 'is_equivalent(text, what a fresh instance parses the text to / that AND another license, %r)' % (kw,),
                               impl=[a[:2], b[:2]], model=[True, False])
        return Verdict('ok', case, nontrivial=True, tags=['stream=entry-point (public)'])

    def exhaustive(self, drv, index, nworkers, maxleaves):
        atoms = [[T('sym'), 'a', False], [T('sym'), 'A', False], [T('sym'), 'a', True], [T('with'), 'a', False, 'A', False]]
        k = 0
        count = 0
        for n in range(1, maxleaves + 1):
            for t in U.all_trees(atoms, n):
                k += 1
                if k % nworkers != index:
                    continue
                self.record(self.eval_case(drv, {'tree': t}))
                count += 1
        self.res['exhaustive'].append({'scope': 'all trees with <= %d leaves over {a, A, a[exc], a WITH A}' % maxleaves, 'cases': count, 'complete': True, 'worker': index})

    def run(self, drv, rng, tier, index, nworkers, scale):
        n = self.budget(tier, 6000, 80000, nworkers, scale)
        for _ in range(n):
            self.record(self.eval_case(drv, self.case_random(rng)))
        for _ in range(max(1, n // 10)):
            self.record(self.eval_text(drv, self.case_text(rng)))
        self.exhaustive(drv, index, nworkers, 5 if tier == 'thorough' else 4)
        return self.res

    def replay(self, drv, data):
        v = data.get('first') or (data.get('diverging') or [None])[0]
        yield self.eval_text(drv, v['case']) if 'text' in v['case'] else self.eval_case(drv, v['case'])
