"""C17 - token selection yields disjoint, exactly positioned tokens covering the text."""
import itertools

import gen
import impl
from core import BaseProp, Verdict
from proto import T
from props.c16 import name_text

RULE = ('name sets built to overlap (chains of 2-5 mutually overlapping matches, ties, containment, one-letter shared words, '
        'parentheses, letters whose lower-case form is longer) and texts with varying blank runs; Trie.tokenize compared with '
        'the model token by token, filter_overlapping compared on raw interval lists, and the Spec of C17 (ordered, disjoint, '
        'slices, cover exactly once, leftmost-longest, isolated, pair) evaluated in Lean on the implementation tokens; '
        'non-trivial = at least two overlapping matches in the text; distinct by (names, text)')
ASSUMPTIONS = ['tokens are compared in the mode Licensing uses: include_unmatched=True, include_space=False']

POOL = ['a', 'b', 'c', 'dd', 'e', '(', ')', 'İx', 'or']


def overlapping_names(rng):
    """a text and names that occur in it with overlaps"""
    pool = rng.sample(POOL, rng.randint(2, 6))
    n = rng.randint(2, 10)
    ws = [rng.choice(pool) for _ in range(n)]
    names = []
    for _ in range(rng.randint(1, 6)):
        i = rng.randrange(n)
        k = rng.choice([1, 2, 2, 3, 3, 4])
        seg = ws[i:i + k]
        if rng.random() < 0.15:
            seg = seg + [rng.choice(pool)]
        names.append(seg)
    return ws, names


class Prop(BaseProp):
    def case_random(self, rng):
        ws, names = overlapping_names(rng)
        if rng.random() < 0.2:
            ws = ws + ['zz'] + ws[:2]
        return {'names': [[name_text(rng, nm), i + 1] for i, nm in enumerate(names)], 'text': name_text(rng, ws)}

    def case_intervals(self, rng):
        n = rng.randint(0, 7)
        toks = []
        for i in range(n):
            s = rng.randint(0, 9)
            toks.append([s, s + rng.randint(0, 5), i + 1])
        return {'intervals': toks}

    def eval_intervals(self, drv, case):
        toks = [impl.ac.Token(s, e, 'x', i) for s, e, i in case['intervals']]
        got = [t.value for t in impl.ac.filter_overlapping(list(toks))]
        want = drv.call(T('select'), case['intervals'])
        res = impl.ac.filter_overlapping(list(toks))
        # the property at this level: what is kept is pairwise disjoint
        for a, b in itertools.combinations(res, 2):
            if not (a.end < b.start or b.end < a.start):
                return Verdict('spec', case, 'filter_overlapping keeps overlapping tokens', impl=got, model=want)
        if got != want:
            return Verdict('diverge', case, 'filter_overlapping', impl=got, model=want)
        return Verdict('ok', case, impl=got, nontrivial=len(case['intervals']) >= 2, tags=['intervals'])

    def eval_case(self, drv, case):
        if 'intervals' in case:
            return self.eval_intervals(drv, case)
        trie = impl.ac.Trie()
        for nm, v in case['names']:
            trie.add(nm, v)
        trie.make_automaton()
        text = case['text']
        try:
            if len(text) % 3 == 0:
                # the same text asked for with other switches first: the answer below must not depend on it
                list(trie.tokenize(text, include_unmatched=False))
                list(trie.tokenize(text, include_unmatched=True, include_space=True))
            toks = [[t.start, t.end, t.string, T('none') if t.value is None else t.value] for t in trie.tokenize(text)]
        except Exception as e:
            return Verdict('spec', case, 'tokenize raised ' + type(e).__name__)
        matches = [t for t in trie.iter(text)]
        ops = [[T('add'), nm, v] for nm, v in case['names']] + [[T('make')], [T('tokenize'), text]]
        rm, rs = drv.call_many([(T('trie'), ops), (T('spec_c17'), case['names'], text, toks)])
        model = rm[-1]
        nover = sum(1 for a, b in itertools.combinations(matches, 2) if not (a.end < b.start or b.end < a.start))
        tags = ['overlaps=%d' % min(nover, 5)]
        if rs != 1:
            return Verdict('spec', case, rs[1], impl=toks, model=model, tags=tags)
        if toks != model:
            return Verdict('diverge', case, 'Trie.tokenize', impl=toks, model=model, tags=tags)
        return Verdict('ok', case, impl=toks, nontrivial=nover >= 1, tags=tags)

    def exhaustive(self, drv, index, nworkers):
        """all interval configurations of <= 4 tokens with endpoints in 0..5 through filter_overlapping"""
        ivs = [(s, e) for s in range(6) for e in range(s, 6)]
        count = 0
        k = 0
        for n in range(0, 4):
            for combo in itertools.product(ivs, repeat=n):
                k += 1
                if k % nworkers != index:
                    continue
                v = self.eval_intervals(drv, {'intervals': [[s, e, i + 1] for i, (s, e) in enumerate(combo)]})
                self.record(v)
                count += 1
        self.res['exhaustive'].append({'scope': 'filter_overlapping on all lists of <= 3 intervals with endpoints in 0..5', 'cases': count, 'complete': True, 'worker': index})

    def run(self, drv, rng, tier, index, nworkers, scale):
        n = self.budget(tier, 5000, 80000, nworkers, scale)
        if index == 0:
            for c in CORPUS:
                self.record(self.eval_case(drv, c))
        for i in range(n):
            c = self.case_intervals(rng) if i % 4 == 0 else self.case_random(rng)
            self.record(self.eval_case(drv, c))
        if tier == 'thorough':
            self.exhaustive(drv, index, nworkers)
        return self.res

    def replay(self, drv, data):
        v = data.get('first') or (data.get('diverging') or [None])[0]
        yield self.eval_case(drv, v['case'])


CORPUS = [
    {'intervals': [[0, 2, 1], [2, 5, 2], [5, 9, 3]]},
    {'names': [['GNU GPL', 1], ['GPL 2.0', 2]], 'text': 'GNU GPL 2.0 or mit'},
    {'names': [['GPL 2.0', 1], ['mit', 2]], 'text': 'mit or gpl    2.0'},
    {'names': [['mit x', 1], ['x gpl', 2]], 'text': 'mit x gpl'},
    {'names': [['a b', 1], ['b c', 2], ['c dd dd', 3]], 'text': 'a b c dd dd'},
    {'names': [['İ and', 1], ['mit', 2]], 'text': 'İ and mit'},
    {'names': [['gnu gpl (v2)', 1], ['(', 2], [')', 3]], 'text': 'gnu gpl (v2) and mit'},
]
