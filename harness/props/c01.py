"""C01 - parsing never drops, duplicates or alters any word of the input."""
import gen
import impl
import pipeline as P
from core import BaseProp, Verdict
from proto import T

RULE = ('[one case in twelve: known names that overlap by a word and a text that holds their union, also at its very end] '
        'random valid tables (0-6 entries, keys of 1-3 words, aliases of 1-4 words, some with parentheses, names containing '
        'and/or/with, shared leading/trailing words, letters whose lower case is longer) x texts of 1-12 items (name variants in '
        'random case with random Unicode blank runs, operators, parentheses, unknown words; one case in four: a grammar-derived expression after 1-2 token edits - near-valid, sometimes still accepted), default and simple tokenizer, strict '
        'and not; compared: the (kind, symbol, words) triples of Licensing.tokenize and the parse outcome with the model; Spec '
        '(in Lean, on the implementation triples): word concatenation, every token stands for its words, literals of the tree = '
        'license tokens in order; non-trivial = tokenize succeeded with >= 2 tokens; distinct by (table, text, flags)')
ASSUMPTIONS = ['the table passes Licensing() validation; per-character lower-casing (no final-sigma context rule in the alphabet)']


class Prop(BaseProp):
    def case_near_valid(self, rng):
        """a grammar-derived expression over a small table after 1-2 token edits (a parenthesised group, a WITH pair or an
        operand inserted, deleted, doubled, swapped): mostly malformed, sometimes still accepted - and whenever it is
        accepted every word and every license must be accounted for"""
        table = [['gpl', ['gnu gpl'], False], ['mit', [], False], ['cpe', [], True]]
        t = gen.gen_tree(rng, ['gpl', 'mit', 'cpe', 'foo', 'gnu gpl'], depth=rng.randint(1, 3), maxar=3, with_p=0.3, flags=False)
        toks = gen.mutate_tokens(rng, gen.tree_tokens(rng, t), ['gpl', 'mit', 'cpe', 'foo', 'and', 'or', 'with', '(', ')'])
        if rng.random() < 0.3:
            toks = ['('] + toks + [')']
        return {'table': table, 'text': ' '.join(toks), 'simple': rng.random() < 0.3, 'strict': False}

    def case_overlap(self, rng):
        """known names that overlap by a word (neither inside the other) and a text that holds their union - at its very end, in
        the middle, in parentheses: whichever name is recognised, the words of the other that are left over are still there"""
        ws = rng.sample(['gnu', 'lesser', 'gpl', '2.0', 'v3', 'free', 'lib', 'x1'], rng.randint(3, 5))
        j = rng.randint(1, len(ws) - 2)
        i = rng.randint(j, len(ws) - 2)
        a, b = ' '.join(ws[:i + 1]), ' '.join(ws[j:])
        table = [['lic-a', [a], False], ['lic-b', [b], False], ['mit', [], False]]
        if rng.random() < 0.5:
            table.reverse()
        text = rng.choice(['', 'mit or ', '(mit) and ', 'mit and (']) + gen.variant(rng, ' '.join(ws))
        if text.count('(') > text.count(')'):
            text += ')'
        text += rng.choice(['', '', ' ', ' \t', ' or mit', ' and mit'])
        return {'table': table, 'text': text, 'simple': False, 'strict': rng.random() < 0.3}

    def case_random(self, rng):
        r = rng.random()
        if r < 0.08:
            return self.case_overlap(rng)
        if r < 0.3:
            return self.case_near_valid(rng)
        table = gen.gen_table(rng)
        text = gen.gen_text(rng, table, bad=0.02)
        return {'table': table, 'text': text, 'simple': rng.random() < 0.3, 'strict': rng.random() < 0.3}

    def eval_case(self, drv, case):
        table, text, simple, strict = case['table'], case['text'], case['simple'], case['strict']
        if not impl.lower_is_charwise(text):
            return Verdict('skip', case)
        lic = P.licensing(table)
        il = impl.ltok_c(lic, text, strict=strict, simple=simple)
        ip = impl.parse_c(lic, text, strict=strict, simple=simple)
        reqs = [(T('ltok'), table, simple, strict, text), (T('parse'), table, simple, strict, False, text)]
        tree = ip[1] if P.is_ok(ip) else T('none')
        if P.is_ok(il):
            reqs.append((T('spec_c01'), table, simple, text, il[1], tree))
        rep = drv.call_many(reqs)
        ml, mp = rep[0], impl.model_outcome_c(rep[1])
        tags = ['ltok=' + P.err_class(il), 'mode=' + ('simple' if simple else 'default')]
        if P.is_ok(il):
            if rep[2] != 1:
                return Verdict('spec', case, str(rep[2][1]), impl=[il, ip], model=[ml, mp], tags=tags)
        if not P.is_ok(il) and P.is_ok(ip) and ip[0] == 'ok':
            # parse() reads the very tokens tokenize() yields: when those cannot be produced, an expression can only have lost words
            return Verdict('spec', case, 'parse returns an expression although Licensing.tokenize raises for the same text and flags', impl=[il, ip], model=[ml, mp], tags=tags)
        # correspondence on the projection C01 reads
        a = [P.ptok_proj(p) for p in il[1]] if P.is_ok(il) else P.err_class(il)
        b = [P.ptok_proj(p) for p in ml[1]] if P.is_ok(ml) else P.err_class(ml)
        if a != b:
            return Verdict('diverge', case, 'Licensing.tokenize', impl=il, model=ml, tags=tags)
        # C01 speaks of successful parses only: the trees are compared when both sides parse
        if P.is_ok(ip) and P.is_ok(mp) and ip != mp:
            return Verdict('diverge', case, 'Licensing.parse', impl=ip, model=mp, tags=tags)
        return Verdict('ok', case, impl=il, nontrivial=P.is_ok(il) and len(il[1]) >= 2, tags=tags)

    def run(self, drv, rng, tier, index, nworkers, scale):
        n = self.budget(tier, 6000, 100000, nworkers, scale)
        if index == 0:
            for c in CORPUS:
                self.record(self.eval_case(drv, c))
        for _ in range(n):
            self.record(self.eval_case(drv, self.case_random(rng)))
        return self.res

    def replay(self, drv, data):
        v = data.get('first') or (data.get('diverging') or [None])[0]
        yield self.eval_case(drv, v['case'])


CORPUS = [
    {'table': [['GNU GPL', [], False], ['GPL 2.0', [], False]], 'text': 'GNU GPL 2.0 or mit', 'simple': False, 'strict': False},
    {'table': [['GPL 2.0', [], False], ['mit', [], False]], 'text': 'mit or gpl    2.0', 'simple': False, 'strict': False},
    {'table': [['mit', [], False]], 'text': 'İ and mit', 'simple': False, 'strict': False},
    {'table': [['mit-or-apache-2.0', ['MIT or Apache 2.0 (dual licensed)'], False], ['mit', [], False]],
     'text': 'MIT or Apache 2.0 (dual licensed)', 'simple': False, 'strict': False},
    {'table': [['a', [], False], ['b', [], True]], 'text': 'a  WITH\tb and (foo bar)', 'simple': True, 'strict': True},
]
