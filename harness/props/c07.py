"""C07 - simplification yields one canonical form per rewrite class."""
import gen
import impl
import treeutil as U
from core import BaseProp, Verdict
from proto import T

RULE = ('random render-distinct trees (depth <= 4, arity 2-5, WITH pairs, multi-word keys whose order differs between tuple and '
        'string comparison; one tree in seven over keys that differ only in how a number is written: leading zeros, digit runs of other lengths, a non-ASCII digit, a ligature) and 1-4 random rewrites of each (permute, regroup by associativity, repeat an operand, add an operand '
        'absorbed by a single license, anywhere in the tree); one object in three has had simplify(sort=False) called on it before; Spec on the real code: simplify is idempotent, all rewrites give the '
        'same text, and the result has no operand of its node\'s kind, no two equal operands, and operands ascending under the '
        'implementation\'s own <; correspondence: the full result (order included) with the model. The two listed known findings '
        '(render-colliding operands) are replayed first; 40 % of the trees mix plain symbols with wrappers around user objects. non-trivial = a rewrite changed the tree; distinct by tree')
ASSUMPTIONS = ['RenderDistinct: unequal atoms of one tree render differently (what one Licensing produces from text); the excluded '
               'point is known finding K2']

KEYS = ['a', 'b', 'c', 'mit', 'GPL', 'GPL 2.0', 'GPL 3.0', 'gpl-2.0', 'gpl-2.0-plus', 'x']
# keys that differ only in how a number is written (leading zeros, digit runs of other lengths, a non-ASCII digit, a ligature):
# distinct strings that any order "by value" would tie or reorder
NUMKEYS = ['lgpl-2.1', 'lgpl-2.01', 'lgpl-2.10', 'gpl-2', 'gpl-02', 'gpl-10', 'gpl-3', 'gpl-\u0663', 'cc-by-3.0', 'cc-by-3.00',
           'file-lic', '\ufb01le-lic']   # ... or only by a Unicode compatibility form (the fi ligature)


class Prop(BaseProp):
    def case_random(self, rng):
        keys = rng.sample(NUMKEYS, rng.randint(2, 5)) if rng.random() < 0.15 else rng.sample(KEYS, rng.randint(2, 6))
        exc = {k: rng.random() < 0.2 for k in keys}

        def fix(t):
            if t[0] == 'sym':
                return [t[0], t[1], exc[t[1]]]
            if t[0] == 'with':
                return [t[0], t[1], exc[t[1]], t[3], exc[t[3]]]
            return [t[0]] + [fix(x) for x in t[1:]]
        tree = fix(gen.gen_tree(rng, keys, depth=rng.randint(1, 4), maxar=rng.choice([2, 3, 4, 5]), with_p=0.25))
        vs = []
        t = tree
        for _ in range(rng.randint(1, 4)):
            t = gen.rewrite(rng, t)
            vs.append(t)
        return {'tree': tree, 'variants': vs, 'wrap': rng.randrange(1 << 30) if rng.random() < 0.4 else None}

    def eval_case(self, drv, case):
        tree = case['tree']
        if not gen.render_distinct(tree) and not case.get('known'):
            return Verdict('skip', case)
        import random as _random
        wr = _random.Random(case['wrap']) if case.get('wrap') is not None else None
        e = impl.build_tree(tree, rng=wr)
        if len(repr(tree)) % 3 == 1 and tree[0] in ('and', 'or'):
            # one object in three has been simplified without sorting before: what the plain call returns must not depend on it
            e.simplify(sort=False)
        r = e.simplify()
        rt = impl.tree_c(r)
        text = str(r)
        r2 = impl.build_tree(rt).simplify()
        if impl.tree_c(r2) != rt or impl.tree_c(r.simplify()) != rt:
            return Verdict('spec', case, 'simplify is not idempotent', impl=[rt, impl.tree_c(r2)])
        p = U.nf_problem(r)
        if p:
            return Verdict('spec', case, 'normal form: ' + p, impl=rt)
        changed = False
        for v in case.get('variants', []):
            if v != tree:
                changed = True
            tv = str(impl.build_tree(v, rng=wr).simplify())
            if tv != text:
                return Verdict('spec', case, 'a rewrite changes the text of the simplified expression', impl=[text, tv])
        if case.get('known'):
            return Verdict('ok', case, impl=rt, nontrivial=True)
        ms = drv.call(T('simplify'), tree)
        if rt != ms:
            return Verdict('diverge', case, 'simplify', impl=rt, model=ms)
        return Verdict('ok', case, impl=rt, nontrivial=changed, key=[tree, case.get('variants')], tags=['variants=%d' % len(case.get('variants', []))])

    def run(self, drv, rng, tier, index, nworkers, scale):
        n = self.budget(tier, 5000, 80000, nworkers, scale)
        if index == 0:
            for c in CORPUS:
                self.record(self.eval_case(drv, c))
        for _ in range(n):
            self.record(self.eval_case(drv, self.case_random(rng)))
        return self.res

    def replay(self, drv, data):
        v = data.get('first') or (data.get('diverging') or [None])[0]
        yield self.eval_case(drv, v['case'])


def S(k, e=False):
    return [T('sym'), k, e]


K2 = [T('or'), [T('and'), S('a', True), S('b')], [T('and'), S('a'), S('c')], [T('and'), S('a'), S('d')]]

CORPUS = [
    {'tree': K2, 'variants': [[T('or'), K2[2], K2[3], K2[1]], [T('or'), K2[3], K2[1], K2[2]], [T('or'), K2[2], K2[1], K2[3]]], 'known': True},
    {'tree': [T('or'), S('gpl-2.0'), [T('with'), 'gpl-2.0', False, 'cp', True]], 'variants': [[T('or'), [T('with'), 'gpl-2.0', False, 'cp', True], S('gpl-2.0')]]},
    {'tree': [T('and'), S('GPL 3.0'), [T('with'), 'GPL', False, 'Classpath', False], [T('with'), 'GPL 2.0', False, 'Classpath', False]],
     'variants': [[T('and'), [T('with'), 'GPL 2.0', False, 'Classpath', False], S('GPL 3.0'), [T('with'), 'GPL', False, 'Classpath', False]]]},
]
