"""C03 - malformed input is rejected with an ExpressionError that locates the fault."""
import itertools

import gen
import impl
import pipeline as P
from core import BaseProp, Verdict
from proto import T
from props.c02 import merge_words

RULE = ('[one case in ten: two known names that overlap by a word and a text holding their union - must be rejected whichever name wins] random tables x texts (half of them valid grammar-derived expressions with one or two token-level edits: delete, insert, duplicate, swap, replace) over operators, parentheses, known names, unknown words, words with invalid characters and blank '
        'runs, under every combination of strict/simple/validate; Spec on the real code: (a) only ExpressionError / '
        'ExpressionParseError escape from parse, validate never raises and dedup / is_equivalent / contains / the key listings '
        'raise nothing else either; (b) a token sequence that the reference grammar does not derive (and that is not a derivable '
        'expression followed by one dangling AND/OR) is never turned into an expression; (c) the words of a reported token string '
        'occur in the input at the reported position, which is the start of a word. Correspondence: outcome class, code, token '
        'words, position, and the validate report with the model. Exhaustive: all token strings of length <= 4 (quick) / <= 5 '
        '(thorough) over {a, zz, and, or, with, (, )} x 8 flag combinations. non-trivial = non-blank text; distinct by (table, text, flags)')
ASSUMPTIONS = ['a single dangling AND/OR at the very end is outside the claim (model and code are still compared on it)']

le = impl.le


def safe(fn):
    """None if fn returns or raises within the ExpressionError family, else the foreign exception's name"""
    try:
        fn()
    except le.ExpressionError:
        return None
    except BaseException as e:  # noqa
        return type(e).__name__
    return None


def info_c(info):
    return [T('info'), info.normalized_expression if info.normalized_expression is not None else T('none'),
            len(info.errors), list(info.invalid_symbols)]


class Prop(BaseProp):
    def case_random(self, rng):
        table = gen.gen_table(rng)
        text = gen.gen_text(rng, table, bad=0.08)
        r = rng.random()
        if r < 0.05:
            text = rng.choice(['', ' ', '\t\n'])
        return {'table': table, 'text': text, 'simple': rng.random() < 0.4, 'strict': rng.random() < 0.5, 'validate': rng.random() < 0.4}

    def case_mutated(self, rng):
        """a valid expression with one or two token-level edits: inputs next to the accept / reject boundary"""
        table = rng.choice([[], [['gpl', [], False], ['cpe', ['cp e'], True], ['mit', [], False]]])
        keys = ['gpl', 'mit', 'cpe', 'foo', 'zz top']
        t = gen.gen_tree(rng, keys, depth=rng.randint(1, 3), maxar=3, with_p=0.3, flags=False)
        toks = gen.mutate_tokens(rng, gen.tree_tokens(rng, t), ['gpl', 'mit', 'cpe', 'foo', 'and', 'or', 'with', '(', ')', 'a$'])
        text = ' '.join(toks) if rng.random() < 0.8 else gen.blank_run(rng).join(toks)
        return {'table': table, 'text': text, 'simple': rng.random() < 0.3, 'strict': rng.random() < 0.3, 'validate': rng.random() < 0.3}

    def case_overlap(self, rng):
        """two known names that overlap by a word, neither inside the other, and a text that holds their union (at its end, or
        followed by something): whichever of the two is recognised, a word is left over beside it - two operands with no operator
        between them"""
        ws = rng.sample(['gnu', 'lesser', 'gpl', '2.0', 'v3', 'free', 'lib', 'x1'], rng.randint(3, 5))
        j = rng.randint(1, len(ws) - 2)
        i = rng.randint(j, len(ws) - 2)
        a, b = ' '.join(ws[:i + 1]), ' '.join(ws[j:])
        table = [['lic-a', [a], False], ['lic-b', [b], False], ['mit', [], False]]
        if rng.random() < 0.5:
            table.reverse()
        text = rng.choice(['', 'mit or ', '(mit) and ', 'mit and (']) + gen.variant(rng, ' '.join(ws))
        if text.count('(') > text.count(')'):
            text += ')'
        text += rng.choice(['', '', ' ', ' \t', ' or mit', ' and mit'])
        return {'table': table, 'text': text, 'simple': False, 'strict': rng.random() < 0.3, 'validate': rng.random() < 0.3, 'must_reject': True}

    def eval_case(self, drv, case, full_api=True):
        table, text = case['table'], case['text']
        simple, strict, validate = case['simple'], case['strict'], case['validate']
        if not impl.lower_is_charwise(text):
            return Verdict('skip', case)
        lic = P.licensing(table)
        ip = impl.parse_c(lic, text, strict=strict, simple=simple, validate=validate)
        tags = ['out=' + P.err_class(ip)]
        blank = not text.strip()
        # (a) only the ExpressionError family escapes
        if P.err_class(ip) == 'other':
            return Verdict('spec', case, 'parse raised ' + ip[1], impl=ip, tags=tags)
        if blank:
            if ip != 'blank':
                return Verdict('spec', case, 'blank input does not parse to None', impl=ip, tags=tags)
        if case.get('must_reject') and P.is_ok(ip):
            return Verdict('spec', case, 'two known names that overlap by a word: whichever is recognised, the left-over word stands beside it with no operator, yet an expression is returned', impl=ip, tags=tags)
        # (b) faulty token sequences are never accepted
        il = impl.ltok_c(lic, text, strict=strict, simple=simple)
        if P.is_ok(il) and P.is_ok(ip):
            kinds = P.kinds_of_ptoks(il[1])
            if P.ref_parse(kinds) is None and not P.dangling_only(kinds):
                return Verdict('spec', case, 'malformed token sequence accepted', impl=[il, ip], tags=tags)
        # (c) the reported token string is in the input at the reported position
        if P.err_class(ip) == 'parseerr' and ip[2] and ip[3] >= 0:
            pos = ip[3]
            if pos not in P.word_starts(text) or P.fwords(text[pos:])[:len(P.fwords(ip[2]))] != P.fwords(ip[2]):
                return Verdict('spec', case, 'token string not at the reported position', impl=ip, tags=tags)
        iv = None
        if not blank:
            # (d) validate reports instead of raising
            try:
                iv = info_c(lic.validate(text, strict=strict))
            except BaseException as e:  # noqa
                return Verdict('spec', case, 'validate raised ' + type(e).__name__, impl=ip, tags=tags)
            if full_api:
                for name, fn in (('dedup', lambda: lic.dedup(text)), ('is_equivalent', lambda: lic.is_equivalent(text, text)),
                                 ('contains', lambda: lic.contains(text, text)), ('license_keys', lambda: lic.license_keys(text)),
                                 ('license_symbols', lambda: lic.license_symbols(text)),
                                 ('unknown_license_keys', lambda: lic.unknown_license_keys(text)),
                                 ('primary_license_key', lambda: lic.primary_license_key(text))):
                    bad = safe(fn)
                    if bad:
                        return Verdict('spec', case, '%s raised %s' % (name, bad), impl=ip, tags=tags)
        # correspondence
        reqs = [(T('parse'), table, simple, strict, validate, text)]
        if not blank:
            reqs.append((T('validate'), table, strict, text))
        rep = drv.call_many(reqs)
        mp = impl.model_outcome_c(rep[0])

        def proj(o):
            if P.err_class(o) == 'parseerr':
                return ['parseerr', o[1], P.fwords(o[2]), o[3]]
            return o
        if proj(ip) != proj(mp):
            return Verdict('diverge', case, 'Licensing.parse', impl=ip, model=mp, tags=tags)
        if not blank:
            mv = rep[1]

            def vproj(v):
                # C03 says of validate only that it reports instead of raising (the content of the report is C11's)
                if v[0] == 'info':
                    return ['info', v[2] > 0]
                return v
            if vproj(iv) != vproj(mv):
                return Verdict('diverge', case, 'Licensing.validate', impl=iv, model=mv, tags=tags)
        return Verdict('ok', case, impl=ip, nontrivial=not blank, tags=tags)

    def exhaustive(self, drv, index, nworkers, maxlen):
        alpha = ['a', 'zz', 'and', 'or', 'with', '(', ')']
        table = [['a', [], True]]
        k = 0
        count = 0
        for n in range(1, maxlen + 1):
            for toks in itertools.product(alpha, repeat=n):
                k += 1
                if k % nworkers != index:
                    continue
                text = ' '.join(toks)
                for simple, strict, validate in itertools.product([False, True], repeat=3):
                    v = self.eval_case(drv, {'table': table, 'text': text, 'simple': simple, 'strict': strict, 'validate': validate},
                                       full_api=(simple, strict, validate) == (False, False, False))
                    self.record(v)
                    count += 1
        self.res['exhaustive'].append({'scope': 'token strings of length <= %d over {a,zz,and,or,with,(,)} x 8 flag combinations, table {a: exception}' % maxlen,
                                       'cases': count, 'complete': True, 'worker': index})

    def run(self, drv, rng, tier, index, nworkers, scale):
        n = self.budget(tier, 3000, 40000, nworkers, scale)
        if index == 0:
            for c in CORPUS:
                self.record(self.eval_case(drv, c))
        for i in range(n):
            self.record(self.eval_case(drv, self.case_overlap(rng) if i % 10 == 9 else self.case_mutated(rng) if i % 2 else self.case_random(rng)))
        self.exhaustive(drv, index, nworkers, 5 if tier == 'thorough' else 4)
        return self.res

    def replay(self, drv, data):
        v = data.get('first') or (data.get('diverging') or [None])[0]
        yield self.eval_case(drv, v['case'])


def _c(text, table=(), simple=False, strict=False, validate=False):
    return {'table': list(table), 'text': text, 'simple': simple, 'strict': strict, 'validate': validate}


CORPUS = [_c('()'), _c('a and (or b)'), _c('a or (b) c'), _c('mit or'), _c('a$'), _c('gpl with ('), _c('a with and'),
          _c('mit or (gpl with) classpath'), _c('(a))'), _c('((a)'), _c('a b', [['a', [], False], ['b', [], False]]),
          _c('with a'), _c('a with'), _c('a and and b'), _c('and a'), _c('a (b)'), _c('İ and mit', [['mit', [], False]])]
