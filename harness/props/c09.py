"""C09 - deduplication removes exactly the repeated operands and nothing else."""
import gen
import impl
import pipeline as P
from core import BaseProp, Verdict
from proto import T

RULE = ('random trees with duplicates at every depth (repeated atoms, repeated compound operands written identically, written '
        'in another order, and regrouped siblings that are not repeats: the same licenses and operators in the same order under other parentheses; WITH pairs; one case in six with operands that render alike without being equal - the same key with and without the exception flag - where the rendering decides and the truth-table clause is not asserted) and lists of expressions to combine; Spec: dedup() of the real code equals the reference '
        'deduplication dedupRef (stated in Lean: at every node, leaves up, drop each operand whose rendering repeats an earlier '
        'sibling, replace a node left with one operand by it); operand order kept; truth table unchanged; applying it twice changes '
        'nothing; combine_expressions accepts AND/OR in any letter case, refuses anything else with TypeError, keeps duplicates '
        'when asked to, returns a sole input as it is. Correspondence: dedup and combine with the model. The listed known finding '
        '(render-colliding operands) is replayed first. non-trivial = the tree has a repeated operand; distinct by tree')
ASSUMPTIONS = ['RenderFaithful: unequal operands of one node render differently; the excluded point is known finding K1']


def inorder(t):
    """leaves and operators of a tree, left to right (what is left of a rendering when its parentheses are dropped)"""
    if t[0] not in ('and', 'or'):
        return [t]
    out = []
    for i, x in enumerate(t[1:]):
        if i:
            out.append(t[0])
        out += inorder(x)
    return out


def rebracket(rng, seq):
    """another tree with the same leaves and operators in the same order: a random binary bracketing"""
    if len(seq) == 1:
        return seq[0]
    i = rng.randrange(1, len(seq), 2)
    return [T(seq[i]), rebracket(rng, seq[:i]), rebracket(rng, seq[i + 1:])]


def with_dups(rng, t):
    if t[0] not in ('and', 'or'):
        return t
    args = [with_dups(rng, x) for x in t[1:]]
    r = rng.random()
    if r > 0.85:
        # a sibling that is NOT a repeat: the same licenses and operators in the same order, grouped differently
        x = rng.choice(args)
        if x[0] in ('and', 'or') and len(inorder(x)) >= 5:
            y = rebracket(rng, inorder(x))
            if y != x:
                args.insert(rng.randrange(len(args) + 1), y)
    if r < 0.4:
        x = rng.choice(args)
        args.insert(rng.randrange(len(args) + 1), x)
    elif r < 0.55:
        x = rng.choice(args)
        if x[0] in ('and', 'or'):
            y = [x[0]] + list(reversed(x[1:]))
            args.append(y)
    return [t[0]] + args


class Prop(BaseProp):
    def case_random(self, rng):
        keys = rng.sample(['a', 'b', 'c', 'mit', 'gpl 2.0', 'x', 'A', 'MIT', 'GPL 2.0'], rng.randint(2, 5))     # keys that differ by letter case only are different licenses
        # one case in six: the same key with and without the exception flag in one tree (objects of two Licensings):
        # operands that render alike without being equal; the rule of the property goes by the rendering
        collide = rng.random() < 0.17
        t = with_dups(rng, gen.gen_tree(rng, keys[:2] if collide else keys, depth=rng.randint(1, 3), maxar=3, with_p=0.2, flags=collide))
        return {'tree': t, 'rel': rng.choice(['AND', 'and', 'Or', 'OR', 'xor', '', None, 'aNd']), 'unique': rng.random() < 0.7}

    def eval_case(self, drv, case):
        tree = case['tree']
        known = case.get('known')
        collide = not gen.render_distinct(tree)
        lic = impl.le.Licensing()
        import random as _random
        # one tree in three: some symbols are wrappers around user objects that bring a render() of their own, under which all
        # licenses display alike (str() of a wrapper is still its key: that is what decides)
        e = impl.build_tree(tree, lic.AND, lic.OR, rng=_random.Random(len(repr(tree))) if len(repr(tree)) % 3 == 0 else None, own_render=True)
        before = impl.tree_c(e)
        try:
            d = lic.dedup(e)
        except BaseException as ex:  # noqa
            return Verdict('spec', case, 'dedup raised ' + type(ex).__name__)
        dt = impl.tree_c(d)
        atoms = gen.atoms_of(tree)[:10]
        ref, md, t0, t1 = drv.call_many([(T('dedupref'), tree), (T('dedup'), tree), (T('ttable'), tree, atoms), (T('ttable'), dt, atoms)])
        if impl.tree_c(e) != before:
            return Verdict('spec', case, 'dedup mutated its argument', impl=impl.tree_c(e))
        if dt != ref:
            return Verdict('spec', case, 'dedup differs from the reference deduplication', impl=dt, model=ref)
        if t0 != t1 and not collide:
            return Verdict('spec', case, 'truth table changed', impl=dt, model=ref)
        if impl.tree_c(lic.dedup(d)) != dt:
            return Verdict('spec', case, 'dedup is not idempotent', impl=[dt, impl.tree_c(lic.dedup(d))])
        if known:
            return Verdict('ok', case, impl=dt)
        if dt != md:
            return Verdict('diverge', case, 'dedup', impl=dt, model=md)
        # combine_expressions on the operands of the tree
        if tree[0] in ('and', 'or'):
            parts = [impl.build_tree(x, lic.AND, lic.OR) for x in tree[1:]]
            rel, unique = case.get('rel', 'AND'), case.get('unique', True)
            good = isinstance(rel, str) and rel.upper() in ('AND', 'OR')
            try:
                c = impl.le.combine_expressions(parts, relation=rel, unique=unique, licensing=lic)
                ct = impl.tree_c(c)
                if not good:
                    return Verdict('spec', case, 'combine_expressions accepted relation %r' % (rel,), impl=ct)
            except TypeError:
                if good:
                    return Verdict('spec', case, 'combine_expressions refused relation %r' % (rel,))
                ct = None
            except BaseException as ex:  # noqa
                return Verdict('spec', case, 'combine_expressions raised %s for relation %r' % (type(ex).__name__, rel))
            if good:
                mc = drv.call(T('combine'), T(rel.lower()), unique, list(tree[1:]))
                # Spec, directly: first occurrences in order under the operator; all of them when unique is off
                seen, keep = [], []
                for x in parts:
                    if unique and str(x) in seen:
                        continue
                    seen.append(str(x))
                    keep.append(x)
                want = impl.tree_c(keep[0]) if len(keep) == 1 else [T(rel.lower())] + [impl.tree_c(x) for x in keep]
                if ct != want:
                    return Verdict('spec', case, 'combine_expressions result', impl=ct, model=want)
                if len(parts) == 1 and c is not parts[0]:
                    return Verdict('spec', case, 'a sole input is not returned as it is')
                if ct != mc:
                    return Verdict('diverge', case, 'combine_expressions', impl=ct, model=mc)
                # the same inputs given as strings (any spelling the grammar allows: operator case, blank runs, redundant
                # parentheses, padding) or as a mix of strings and objects: the same duplicate rule, the same result
                r = _random.Random(len(repr(tree)) * 7 + 1)
                mixed = []
                for x, o in zip(tree[1:], parts):
                    # combine_expressions reads strings with the simple tokenizer: one word per license there
                    if r.random() < 0.75 and all(len(k.split()) == 1 for a in gen.atoms_of(x) for k in ([a[1]] if a[0] == 'sym' else [a[1], a[3]])):
                        tx = gen.tree_text(r, x, redundant=0.3)
                        if r.random() < 0.3:
                            tx = gen.blank_run(r) + tx + gen.blank_run(r)
                        mixed.append(tx)
                    else:
                        mixed.append(o)
                # (a string carries no exception flag: only for trees without flags)
                noflags = all(not (a[2] if a[0] == 'sym' else (a[2] or a[4])) for a in gen.atoms_of(tree))
                if noflags and all(impl.lower_is_charwise(m) for m in mixed if isinstance(m, str)):
                    try:
                        c2 = impl.tree_c(impl.le.combine_expressions(mixed, relation=rel, unique=unique, licensing=lic))
                    except BaseException as ex:  # noqa
                        return Verdict('spec', dict(case, inputs=[m if isinstance(m, str) else str(m) for m in mixed]),
                                       'combine_expressions raised %s on string inputs' % type(ex).__name__)
                    if c2 != want:
                        return Verdict('spec', dict(case, inputs=[m if isinstance(m, str) else str(m) for m in mixed]),
                                       'combine_expressions result on string inputs', impl=c2, model=want)
        # dedup of a *string*: what dedup gives for the expression the same instance parses the string to - over a table with
        # aliases and a key of two words, the licenses written through any of their names
        T2 = [['gpl-2.0', ['GPL2', 'GNU GPL v2'], False], ['mit', ['expat'], False], ['lesser gpl', [], False]]
        L2 = P.licensing(T2)
        names = {'a': 'GPL2', 'b': 'gnu gpl v2', 'c': 'expat', 'mit': 'mit', 'gpl 2.0': 'Lesser GPL', 'x': 'gpl-2.0', 'A': 'u1', 'MIT': 'MIT', 'GPL 2.0': 'zed'}

        def ren(t):
            if t[0] == 'sym':
                return [t[0], names.get(t[1], t[1]), False]
            if t[0] == 'with':
                return [t[0], names.get(t[1], t[1]), False, names.get(t[3], t[3]), False]
            return [t[0]] + [ren(x) for x in t[1:]]
        text = gen.tree_text(_random.Random(len(repr(tree))), ren(tree))
        po = impl.outcome(lambda: L2.parse(text))
        if P.is_ok(po) and po[1] is not None:
            want_s = impl.tree_c(L2.dedup(po[1]))
            got_s = impl.outcome(lambda: L2.dedup(text))
            got_s = impl.tree_c(got_s[1]) if P.is_ok(got_s) else got_s[:2]
            if got_s != want_s:
                return Verdict('spec', dict(case, text=text), 'dedup(string) differs from dedup of the expression the string parses to', impl=got_s, model=want_s)
        return Verdict('ok', case, impl=dt, nontrivial=dt != before, tags=['changed=%s' % (dt != before), 'render-colliding=%s' % collide])

    def run(self, drv, rng, tier, index, nworkers, scale):
        n = self.budget(tier, 5000, 80000, nworkers, scale)
        if index == 0:
            for c in CORPUS:
                self.record(self.eval_case(drv, c))
            sole = impl.le.LicenseSymbol('mit')
            if impl.le.combine_expressions([sole]) is not sole:
                self.record(Verdict('spec', {'combine': ['mit']}, 'a sole input is not returned as it is'))
            for bad in (5, 'nand'):
                try:
                    impl.le.combine_expressions(['a', 'b'], relation=bad)
                    self.record(Verdict('spec', {'combine': ['a', 'b'], 'relation': repr(bad)}, 'relation accepted'))
                except TypeError:
                    pass
                except BaseException as ex:  # noqa
                    if isinstance(bad, str):
                        self.record(Verdict('spec', {'combine': ['a', 'b'], 'relation': repr(bad)}, 'raised ' + type(ex).__name__))
        for _ in range(n):
            self.record(self.eval_case(drv, self.case_random(rng)))
        return self.res

    def replay(self, drv, data):
        v = data.get('first') or (data.get('diverging') or [None])[0]
        yield self.eval_case(drv, v['case'])


def S(k, e=False):
    return [T('sym'), k, e]


CORPUS = [
    {'tree': [T('and'), S('a', True), S('a')], 'known': True},
    {'tree': [T('and'), [T('or'), S('mit'), S('gpl-2.0')], S('bsd-new'), [T('or'), S('gpl-2.0'), S('mit')]], 'rel': 'and', 'unique': True},
    {'tree': [T('or'), [T('and'), S('mit'), S('apache-2.0')], [T('and'), S('apache-2.0'), S('mit')]], 'rel': 'OR', 'unique': True},
    {'tree': [T('and'), S('a'), S('b')], 'rel': 'and', 'unique': True},
]
