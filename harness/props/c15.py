"""C15 - bundled SPDX and ScanCode tables load and recognise every name."""
import json
import random

import impl
import pipeline as P
from core import BaseProp, Verdict
from proto import T

RULE = ('index loading: get_license_index() and the ready-made factories against the bundled JSON file read independently, again after a '
        'caller customised the list it was given, and for a custom location whose file is replaced; the shipped index, exhaustively: both ready-made Licensings build; every non-deprecated entry\'s key in 4 letter cases and '
        'every alias in 3 parse to that entry\'s symbol with the flag of the index, render as the canonical key and validate '
        'without errors (exceptions: non-strictly alone, strictly on the right of a WITH); deprecated entries and SPDX entries without '
        'SPDX key are unknown; random compound expressions over the entries; synthetic indexes (one name in five with a sharp s, a ligature or a final sigma) with random deprecated / missing-key / '
        'alias / exception fields (including a missing is_exception, and a live entry listing the SPDX key of a deprecated one). Correspondence: the loaders\' (key, aliases, flag) tables with '
        'the model\'s buildSpdx / buildScancode, indexOK evaluated by the driver, and a sample of the parses with the model. '
        'non-trivial = a name of a non-deprecated entry; distinct by (table kind, name variant)')
ASSUMPTIONS = ['"validates without errors" for an exception entry means non-strict validation alone and strict validation on the right of a WITH (C12)',
               'indexOK of the shipped index is established by running the compiled driver on the JSON, not by the kernel (DESIGN.md, C15)']

le = impl.le


def recs_c(idx):
    return [[r.get('license_key') or '', r.get('spdx_license_key') or '', list(r.get('other_spdx_license_keys') or []),
             bool(r.get('is_exception', '')), bool(r.get('is_deprecated', False))] for r in idx]


def cases_of(s):
    out = [s, s.lower(), s.upper(), s.swapcase()]
    return [x for i, x in enumerate(out) if x not in out[:i] and x.lower() == s.lower() and impl.lower_is_charwise(x)]


def table_of(lic):
    return sorted([[s.key, [a for a in s.aliases], bool(s.is_exception)] for s in lic.known_symbols.values()])


class Prop(BaseProp):
    def check_index(self, drv, idx, label, sample_rng, exhaustive):
        """all clauses of C15 for one index; yields verdicts"""
        case0 = {'index': label}
        try:
            lics = {'scancode': le.build_licensing(idx), 'spdx': le.build_spdx_licensing(idx)}
        except BaseException as e:  # noqa
            yield Verdict('spec', dict(case0, records=idx if len(idx) < 10 else None), 'a Licensing does not build: ' + type(e).__name__ + ': ' + str(e)[:200])
            return
        recs = recs_c(idx)
        for kind, lic in lics.items():
            m = drv.call(T('index'), T(kind), recs)
            it = table_of(lic)
            table = it
            if m == 'keyerr' or m[1]:
                yield Verdict('diverge', dict(case0, kind=kind), 'the model refuses an index the code accepts', model=str(m)[:200])
            else:
                mt = sorted([[k, al, bool(ex)] for k, al, ex in m[2]])
                if it != mt:
                    diff = [x for x in it if x not in mt][:3] + [x for x in mt if x not in it][:3]
                    yield Verdict('diverge', dict(case0, kind=kind), 'loader table', impl=diff)
                else:
                    ok = drv.call(T('indexok'), m[2])
                    if not ok:
                        yield Verdict('diverge', dict(case0, kind=kind), 'indexOK is false for this index: the general theorem does not apply to it')
                    table = m[2]
            known = set(lic.known_symbols)
            mreqs = []
            for r in idx:
                dep = bool(r.get('is_deprecated', False))
                ex = bool(r.get('is_exception', ''))
                if kind == 'scancode':
                    key, aliases = r.get('license_key') or '', []
                else:
                    key, aliases = r.get('spdx_license_key') or '', list(r.get('other_spdx_license_keys') or [])
                if not key:
                    continue
                case = dict(case0, kind=kind, key=key)
                if dep:
                    # unknown, unless another live entry legitimately owns the same name
                    owners = [q for q in idx if not q.get('is_deprecated', False) and (
                        (kind == 'scancode' and q.get('license_key') == key) or
                        (kind == 'spdx' and q.get('spdx_license_key') and (q.get('spdx_license_key') == key or key in (q.get('other_spdx_license_keys') or []))))]
                    if key in known and not owners:
                        yield Verdict('spec', case, 'a deprecated entry is known')
                    else:
                        yield Verdict('ok', case, nontrivial=False, tags=['deprecated'])
                    continue
                names = [(key, v) for v in cases_of(key)] + [(a, v) for a in aliases if a.strip() for v in cases_of(a)[:3]]
                for nm, v in names:
                    case = dict(case0, kind=kind, key=key, text=v)
                    try:
                        e = lic.parse(v)
                    except BaseException as x:  # noqa
                        yield Verdict('spec', case, 'a name of the index does not parse: ' + type(x).__name__)
                        continue
                    got = impl.tree_c(e)
                    if got != [T('sym'), key, ex]:
                        yield Verdict('spec', case, 'a name does not parse to its entry\'s license', impl=got, model=[T('sym'), key, ex])
                        continue
                    if str(e) != key:
                        yield Verdict('spec', case, 'does not render as the canonical key', impl=str(e))
                        continue
                    i1 = lic.validate(v, strict=False)
                    if i1.errors or i1.normalized_expression != key:
                        yield Verdict('spec', case, 'non-strict validation reports errors', impl=i1.errors)
                        continue
                    if not ex:
                        i2 = lic.validate(v, strict=True)
                        if i2.errors:
                            yield Verdict('spec', case, 'strict validation of a license reports errors', impl=i2.errors)
                            continue
                    yield Verdict('ok', case, impl=got, nontrivial=True, key=[label, kind, v], tags=['name'])
                    if not exhaustive or sample_rng.random() < 0.02:
                        mreqs.append((case, got, (T('parse'), table, False, False, False, v)))
            if kind == 'spdx':
                for r in idx:
                    if not r.get('spdx_license_key') and not r.get('is_deprecated', False):
                        lk = r.get('license_key') or ''
                        spdx_names = set()
                        for q in idx:
                            if q.get('spdx_license_key') and not q.get('is_deprecated', False):
                                spdx_names.add(q['spdx_license_key'])
                        if lk in known and lk not in spdx_names:
                            yield Verdict('spec', dict(case0, kind=kind, key=lk), 'an entry without SPDX key is known to the SPDX Licensing')
            # exceptions: strictly valid on the right of a WITH
            excs = [s for s in lic.known_symbols.values() if s.is_exception][:40]
            plain = [s for s in lic.known_symbols.values() if not s.is_exception][:1]
            for s in excs:
                if plain:
                    tx = plain[0].key + ' WITH ' + s.key
                    i = lic.validate(tx, strict=True)
                    if i.errors:
                        yield Verdict('spec', dict(case0, kind=kind, text=tx), 'strict validation of license WITH exception reports errors', impl=i.errors)
                    else:
                        yield Verdict('ok', dict(case0, kind=kind, text=tx), nontrivial=True, tags=['with'])
            if mreqs:
                rep = drv.call_many([r for _, _, r in mreqs])
                for (case, got, _), mo in zip(mreqs, rep):
                    if [T('ok'), got] != impl.model_outcome_c(mo):
                        yield Verdict('diverge', case, 'Licensing.parse', impl=got, model=mo)
                    else:
                        yield Verdict('ok', case, nontrivial=False, tags=['model-parse'])

    def compound(self, drv, lic, rng, n):
        syms = list(lic.known_symbols.values())
        lics = [s for s in syms if not s.is_exception]
        excs = [s for s in syms if s.is_exception]
        for _ in range(n):
            parts, want = [], []
            for _ in range(rng.randint(2, 4)):
                s = rng.choice(lics)
                if excs and rng.random() < 0.3:
                    x = rng.choice(excs)
                    parts.append(rng.choice([s.key, s.key.upper()]) + ' with ' + x.key.lower())
                    want.append([T('with'), s.key, False, x.key, True])
                else:
                    parts.append(rng.choice([s.key, s.key.lower()]))
                    want.append([T('sym'), s.key, False])
            op = rng.choice(['and', 'OR'])
            text = (' %s ' % op).join(parts)
            case = {'index': 'shipped', 'text': text}
            if not impl.lower_is_charwise(text):
                continue
            got = impl.parse_c(lic, text, strict=True, validate=True)
            if got != [T('ok'), [T(op.lower())] + want]:
                yield Verdict('spec', case, 'compound expression over index entries', impl=got, model=[T(op.lower())] + want)
            else:
                yield Verdict('ok', case, nontrivial=True, tags=['compound'])

    def synthetic(self, rng):
        n = rng.randint(1, 6)
        idx = []
        for i in range(n):
            # one name in five is not ASCII: letters that str.lower() leaves alone and other caseless foldings do not
            odd = rng.random() < 0.2
            r = {'license_key': rng.choice(['stra\u00dfe-%d', '\ufb01le-lic-%d', 'lic-\u03bf\u03c2-%d']) % i if odd else 'lic-%d' % i}
            if rng.random() < 0.7:
                r['spdx_license_key'] = (rng.choice(['Gru\u00df-%d', 'LicenseRef-\ufb01le-%d', 'LicenseRef-\u039f\u03bf\u03c2-%d']) % i if odd
                                         else rng.choice(['SPDX-%d' % i, 'LicenseRef-x-%d' % i]))
            elif rng.random() < 0.5:
                r['spdx_license_key'] = None
            if rng.random() < 0.5:
                al = ['old-%d' % i] + (['Older-%d.0' % i] if rng.random() < 0.5 else [])
                if rng.random() < 0.3:
                    al.append(('Stra\u00dfen Lizenz %d' if odd else 'old license %d') % i)                       # several words
                if rng.random() < 0.3:                                       # the same alias again, other case / spacing
                    a = rng.choice(al)
                    al.append(rng.choice([a.upper(), a.swapcase(), a.replace(' ', '  '), ' ' + a, a]))
                if rng.random() < 0.15:
                    al.insert(rng.randrange(len(al) + 1), rng.choice(['', ' ']))   # an empty alias
                r['other_spdx_license_keys'] = al
            if rng.random() < 0.8:
                r['is_exception'] = rng.random() < 0.3
            if rng.random() < 0.3:
                r['is_deprecated'] = True
            idx.append(r)
        # a live entry that lists, as an other SPDX key, the SPDX key of a deprecated entry (the deprecated entry is not
        # loaded, so the name belongs to the live one)
        dead = [r for r in idx if r.get('is_deprecated') and r.get('spdx_license_key')]
        live = [r for r in idx if not r.get('is_deprecated') and r.get('spdx_license_key')]
        if dead and live and rng.random() < 0.5:
            r = rng.choice(live)
            r['other_spdx_license_keys'] = list(r.get('other_spdx_license_keys') or []) + [rng.choice(dead)['spdx_license_key']]
        return idx

    def loading(self, rng):
        """index loading and the ready-made factories, against the JSON file read here with json.load: whatever was
        loaded, customised or built before, and when the file at a location is replaced"""
        import os
        import tempfile
        path = os.path.join(os.path.dirname(le.__file__), 'data', 'scancode-licensedb-index.json')
        with open(path) as f:
            file_idx = json.load(f)
        want = {'spdx': table_of(le.build_spdx_licensing(json.loads(json.dumps(file_idx)))),
                'scancode': table_of(le.build_licensing(json.loads(json.dumps(file_idx))))}

        def ready(label):
            if le.get_license_index() != file_idx:
                return Verdict('spec', {'index': 'shipped', 'step': label}, 'get_license_index() is not the content of the bundled file')
            for kind, fn in (('spdx', le.get_spdx_licensing), ('scancode', le.get_scancode_licensing)):
                if table_of(fn()) != want[kind]:
                    return Verdict('spec', {'index': 'shipped', 'kind': kind, 'step': label}, 'the ready-made Licensing is not the one the bundled file describes')
            return Verdict('ok', {'index': 'shipped', 'step': label}, nontrivial=True, tags=['loading'])
        yield ready('first use')
        mine = le.get_license_index()          # a caller customises its own copy of the index ...
        for r in mine[:50]:
            r['is_deprecated'] = True
        mine.append({'license_key': 'my-own-license', 'spdx_license_key': 'LicenseRef-my-own', 'is_exception': False})
        del mine[60:80]
        yield ready('after a caller customised the list get_license_index() returned')     # ... the bundled tables are what they were
        # an index at another location; then another index at that same location
        a, b = self.synthetic(rng), self.synthetic(rng)
        with tempfile.TemporaryDirectory(prefix='c15-') as d:
            loc = os.path.join(d, 'index.json')
            for label, idx in (('custom location', a), ('custom location, file replaced', b), ('custom location, first file again', a)):
                with open(loc, 'w') as f:
                    json.dump(idx, f)
                case = {'index': 'synthetic', 'step': label, 'records': idx}
                try:
                    ok = (le.get_license_index(loc) == idx and table_of(le.get_spdx_licensing(loc)) == table_of(le.build_spdx_licensing(idx))
                          and table_of(le.get_scancode_licensing(loc)) == table_of(le.build_licensing(idx)))
                except BaseException as e:  # noqa
                    yield Verdict('spec', case, 'loading from a location raised ' + type(e).__name__)
                    continue
                yield (Verdict('ok', case, nontrivial=True, tags=['loading']) if ok else
                       Verdict('spec', case, 'the Licensing built from a location is not the one the file there describes'))
            # the same through locations relative to the current directory (a bare file name, ./name, a sub-directory), also a file
            # in the current directory that is named like the bundled one
            cwd = os.getcwd()
            try:
                os.chdir(d)
                os.makedirs('indexes', exist_ok=True)
                for rel in ('my-index.json', './my-index.json', os.path.join('indexes', 'index.json'), 'scancode-licensedb-index.json'):
                    with open(rel, 'w') as f:
                        json.dump(a, f)
                    case = {'index': 'synthetic', 'step': 'relative location ' + rel, 'records': a}
                    try:
                        ok = (le.get_license_index(rel) == a and table_of(le.get_spdx_licensing(rel)) == table_of(le.build_spdx_licensing(a))
                              and table_of(le.get_scancode_licensing(rel)) == table_of(le.build_licensing(a)))
                    except BaseException as e:  # noqa
                        yield Verdict('spec', case, 'loading from a relative location raised ' + type(e).__name__)
                        continue
                    yield (Verdict('ok', case, nontrivial=True, tags=['loading']) if ok else
                           Verdict('spec', case, 'the Licensing built from a relative location is not the one the file there describes'))
            finally:
                os.chdir(cwd)
        yield ready('after loading other locations')

    def run(self, drv, rng, tier, index, nworkers, scale):
        if index == 0:
            for v in self.loading(rng):
                self.record(v)
            idx = le.get_license_index()
            for v in self.check_index(drv, idx, 'shipped', random.Random(1), True):
                self.record(v)
            self.res['exhaustive'].append({'scope': 'every entry of the shipped index (%d records), keys in <= 4 casings, aliases in <= 3' % len(idx),
                                           'cases': self.res['evaluations'], 'complete': True, 'worker': 0})
            try:
                for v in self.compound(drv, le.get_spdx_licensing(), rng, 300):
                    self.record(v)
                for v in self.compound(drv, le.get_scancode_licensing(), rng, 300):
                    self.record(v)
            except BaseException as e:  # noqa
                self.record(Verdict('spec', {'index': 'shipped'}, 'ready-made Licensing failed: ' + type(e).__name__))
        n = self.budget(tier, 400, 6000, nworkers, scale)
        for i in range(n):
            idx = self.synthetic(rng)
            for v in self.check_index(drv, idx, 'synthetic', rng, False):
                if v.status != 'ok':
                    v.case = dict(v.case, records=idx)
                self.record(v)
        return self.res

    def replay(self, drv, data):
        v = data.get('first') or (data.get('diverging') or [None])[0]
        c = v['case']
        if c.get('step'):
            for x in self.loading(random.Random(0)):
                yield x
        elif c.get('records'):
            for x in self.check_index(drv, c['records'], 'synthetic', random.Random(0), False):
                yield x
        else:
            for x in self.check_index(drv, le.get_license_index(), 'shipped', random.Random(1), True):
                if x.status != 'ok':
                    yield x
