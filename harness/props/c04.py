"""C04 - known keys and aliases are recognised whatever the case and spacing."""
import gen
import impl
import pipeline as P
from core import BaseProp, Verdict
from proto import T

RULE = ('for random valid tables (single- and multi-word keys, aliases, parentheses in aliases, names containing and/or/with): '
        'every name of the table in a random case / Unicode-blank variant, placed bare, on either side of AND / OR / WITH, and in '
        'parentheses, next to an unknown word; cases where a longer known name extends beyond the operand are generated too and '
        'counted apart (the proviso of the property); one case in eight over a table whose names nest as suffixes of one another through an operator word (gnu gpl-2.0 or later / gpl-2.0 or later / or later, in any order of insertion) with the stem (gnu gpl-2.0) a complete operand followed by that operator word. Spec (for a one-word key also with the simple tokenizer): the operand resolves to the entry\'s symbol and the rendering shows '
        'the canonical key; operator words inside longer words are not operators. Correspondence: tree and rendering with the model. '
        'non-trivial = the variant differs from the stored spelling; distinct by (table, text)')
ASSUMPTIONS = ['cases where another known name overlaps the operand and extends beyond it are outside the claim (counted, compared with the model only)']


def occurrences(W, name):
    n = len(name)
    return [(i, i + n) for i in range(len(W) - n + 1) if W[i:i + n] == name]


class Prop(BaseProp):
    def case_chain(self, rng):
        """a complete operand followed by an operator word, in a table where that operand and the operator word start
        longer names that nest as suffixes of one another (the automaton reports the operator through a chain of links)"""
        r = gen.gen_chain_table(rng)
        if not r:
            return None
        table, stems, op = r
        v = gen.variant(rng, rng.choice(stems))
        other = rng.choice(['zq', 'mit', 'MIT license' if ['MIT', ['mit license'], False] in table else 'mit', 'Zq9'])
        ex = [e for e in table if e[0] == 'stem-lic'][0][2]
        me = ['stem-lic', ex]
        ot = ['MIT', False] if other.lower().startswith('mit') else [other, False]
        sp = lambda: gen.blank_run(rng)  # noqa
        text = v + sp() + gen.recase(rng, op) + sp() + other
        exp = [T('with')] + me + ot if op == 'with' else [T(op), [T('sym')] + me, [T('sym')] + ot]
        if rng.random() < 0.3:
            text = 'zz' + sp() + gen.recase(rng, 'and') + sp() + '(' + text + ')'
            exp = [T('and'), [T('sym'), 'zz', False], exp]
        return {'table': table, 'text': text, 'expected': exp, 'operand': v, 'ctx': 'chain-' + op, 'variant_differs': True}

    def case_random(self, rng):
        if rng.random() < 0.12:
            c = self.case_chain(rng)
            if c:
                return c
        while True:
            table = gen.gen_table(rng)
            if table:
                break
        ei = rng.randrange(len(table))
        k, al, ex = table[ei]
        names = [k] + [a for a in al if a.strip()]
        nm = rng.choice(names)
        v = gen.variant(rng, nm)
        other = rng.choice(['zq', 'Zq9', 'android', 'orgpl', 'withx'])
        ctx = rng.choice(['bare', 'bare', 'l-and', 'r-and', 'l-or', 'r-or', 'l-with', 'r-with', 'paren', 'paren-and'])
        sp = lambda: gen.blank_run(rng)  # noqa
        kw = lambda w: gen.recase(rng, w)  # noqa
        me = [k, ex]
        ot = [other, False]
        if ctx == 'bare':
            text, exp = v, [T('sym')] + me
        elif ctx in ('l-and', 'l-or'):
            op = ctx[2:]
            text, exp = v + sp() + kw(op) + sp() + other, [T(op), [T('sym')] + me, [T('sym')] + ot]
        elif ctx in ('r-and', 'r-or'):
            op = ctx[2:]
            text, exp = other + sp() + kw(op) + sp() + v, [T(op), [T('sym')] + ot, [T('sym')] + me]
        elif ctx == 'l-with':
            text, exp = v + sp() + kw('with') + sp() + other, [T('with')] + me + ot
        elif ctx == 'r-with':
            text, exp = other + sp() + kw('with') + sp() + v, [T('with')] + ot + me
        elif ctx == 'paren':
            text, exp = '(' + (sp() if rng.random() < 0.5 else '') + v + (sp() if rng.random() < 0.5 else '') + ')', [T('sym')] + me
        else:
            text, exp = other + sp() + kw('and') + sp() + '(' + v + ')', [T('and'), [T('sym')] + ot, [T('sym')] + me]
        return {'table': table, 'text': text, 'expected': exp, 'operand': v, 'ctx': ctx, 'variant_differs': v != nm, 'key': k}

    def proviso(self, table, text, operand):
        """True when no known name overlaps the operand and extends beyond it, and no other entry has the same words"""
        W = P.fwords(text)
        ow = P.fwords(operand)
        spans = occurrences(W, ow)
        if not spans:
            return False
        # the operand as placed by the generator: the occurrence consistent with the context (first or last)
        names = []
        for k, al, ex in table:
            for nm in [k] + [' '.join(a.split()) for a in al if a.strip()]:
                names.append((P.fwords(nm), k))
        owners = set(k for w, k in names if w == ow)
        if len(owners) != 1:
            return False
        for (i, j) in spans:
            for w, k in names + [(['and'], None), (['or'], None), (['with'], None), (['('], None), ([')'], None)]:
                for (p, q) in occurrences(W, w):
                    if p < j and i < q and not (i <= p and q <= j):
                        return False
        return True

    def eval_case(self, drv, case):
        table, text = case['table'], case['text']
        if not impl.lower_is_charwise(text):
            return Verdict('skip', case)
        lic = P.licensing(table)
        ok = self.proviso(table, text, case['operand'])
        tags = ['ctx=' + case.get('ctx', '?'), 'proviso=' + ('holds' if ok else 'fails')]
        try:
            impl.prewarm(lic, text, {})
            e = lic.parse(text)
            ip = [T('ok'), impl.tree_c(e)]
            rend = str(e)
        except impl.le.ExpressionError as ex:
            ip, rend = impl.outcome(lambda: (_ for _ in ()).throw(ex)), None
        except BaseException as ex:  # noqa
            ip, rend = [T('other'), type(ex).__name__], None
        rep = drv.call_many([(T('parse'), table, False, False, False, text), (T('premises'), table)])
        mp = impl.model_outcome_c(rep[0])
        # the table premises of the theorems C04_in_context / C04_alone, evaluated by the Lean definitions (distribution only)
        tags.append('thm-premises: opwordfree=%d kwowned=%d namesunique=%d' % tuple(int(bool(x)) for x in rep[1]))
        if ok:
            want = [T('ok'), case['expected']]
            if ip != want:
                return Verdict('spec', case, 'operand not resolved to its symbol', impl=ip, model=want, tags=tags)
            wr = drv.call(T('render'), case['expected'])
            if rend != wr:
                return Verdict('spec', case, 'rendering does not show the canonical key', impl=rend, model=wr, tags=tags)
            # a key of one word is recognised in any letter case by the simple tokenizer too
            k = case.get('key')
            if k and len(k.split()) == 1 and case['operand'].lower() == k.lower() and '(' not in k and ')' not in k:
                i2 = impl.parse_c(lic, text, simple=True)
                if i2 != want:
                    return Verdict('spec', case, 'the simple tokenizer does not resolve a one-word key written in another letter case', impl=i2, model=want, tags=tags)
                tags.append('simple-too')
        a = ip if P.is_ok(ip) else P.err_class(ip)
        b = mp if P.is_ok(mp) else P.err_class(mp)
        if a != b:
            return Verdict('diverge', case, 'Licensing.parse', impl=ip, model=mp, tags=tags)
        return Verdict('ok', case, impl=ip, nontrivial=ok and case.get('variant_differs', True), tags=tags)

    def run(self, drv, rng, tier, index, nworkers, scale):
        n = self.budget(tier, 6000, 100000, nworkers, scale)
        if index == 0:
            for c in CORPUS:
                self.record(self.eval_case(drv, c))
        for _ in range(n):
            self.record(self.eval_case(drv, self.case_random(rng)))
        return self.res

    def replay(self, drv, data):
        v = data.get('first') or (data.get('diverging') or [None])[0]
        yield self.eval_case(drv, v['case'])


CORPUS = [
    {'table': [['GPL 2.0', [], False], ['mit', [], False]], 'text': 'mit or gpl    2.0', 'operand': 'gpl    2.0', 'ctx': 'r-or',
     'expected': [T('or'), [T('sym'), 'mit', False], [T('sym'), 'GPL 2.0', False]]},
    {'table': [['gpl-2.0', ['GPL 2.0 or any later version'], False], ['any-osi', ['any OSI approved'], False]],
     'text': 'gpl-2.0 or any OSI approved', 'operand': 'any OSI approved', 'ctx': 'r-or',
     'expected': [T('or'), [T('sym'), 'gpl-2.0', False], [T('sym'), 'any-osi', False]]},
    {'table': [['GPL-2.0 or later', [], False]], 'text': 'gpl-2.0   OR\tLater and android', 'operand': 'gpl-2.0   OR\tLater', 'ctx': 'l-and',
     'expected': [T('and'), [T('sym'), 'GPL-2.0 or later', False], [T('sym'), 'android', False]]},
    {'table': [['gpl-2.0', ['GNU GPL (v2)'], False]], 'text': 'gnu gpl (v2) and mit', 'operand': 'gnu gpl (v2)', 'ctx': 'l-and',
     'expected': [T('and'), [T('sym'), 'gpl-2.0', False], [T('sym'), 'mit', False]]},
]
