"""C08 - equivalence and containment obey their algebraic laws."""
import gen
import impl
import pipeline as P
import treeutil as U
from core import BaseProp, Verdict
from proto import T

RULE = ('[string level: the two trees written as texts (any spelling, sometimes an empty or blank side) through is_equivalent / contains of the table-backed instance vs the model equivText / containsText] '
        'pairs and triples of render-distinct trees: random, related by 1-4 rewrites (commutativity, associativity, repetition, '
        'single-license absorption), and same truth table but not rewrite-related (distributivity); asked on a Licensing with a '
        'table (keys and aliases, two exception entries), on one built from the same table given as user records (wrapped symbols), on one '
        'without a table, and on one created in between, as strings, as parsed objects, and as objects parsed by different instances; Spec on the '
        'real code: is_equivalent reflexive, symmetric, sound against truth tables (computed in Lean), True on rewrite-related '
        'pairs, same answer on every instance and for strings as for objects; contains(a,a), contains invariant under replacing '
        'either side by an equivalent (a rewrite; the same expression simplified beforehand, with and without sorting), a WITH pair contains its parts, contains(a,b) => licenses of simplified b occur in a. '
        'Correspondence: both answers with the model. non-trivial = both trees are nodes; distinct by pair')
ASSUMPTIONS = ['RenderDistinct, as for C07; strings are the default renderings of the trees over operator-word-free keys']

KEYS = ['a', 'b', 'c', 'mit', 'gpl-2.0', 'x1', 'a-alias', 'b-alias']
EXC = {'c', 'x1'}       # the exception flag is a function of the key, so equal renderings mean equal symbols


def flag(t):
    if t[0] == 'sym':
        return [t[0], t[1], t[1] in EXC]
    if t[0] == 'with':
        return [t[0], t[1], t[1] in EXC, t[3], t[3] in EXC]
    return [t[0]] + [flag(x) for x in t[1:]]


class UserRecord:
    """a symbol-like record of a user's own license database (Licensing wraps these in LicenseSymbolLike)"""

    def __init__(self, key, aliases, is_exception):
        self.key, self.aliases, self.is_exception = key, tuple(aliases), is_exception


class Prop(BaseProp):
    def case_random(self, rng):
        keys = rng.sample(KEYS, rng.randint(2, 5))
        mk = lambda: flag(gen.gen_tree(rng, keys, depth=rng.randint(0, 3), maxar=3, with_p=0.2, flags=False))  # noqa
        a = mk()
        r = rng.random()
        if r < 0.08:
            # one operator nested three or four levels over licenses that are all different (nothing to deduplicate or absorb),
            # possibly below the other operator, against the same licenses in one flat group: associativity only
            ks = rng.sample(KEYS[:6], rng.randint(3, 5))
            op = rng.choice(['and', 'or'])
            leaves = [flag([T('sym'), k, False]) for k in ks]
            nested = leaves[-1]
            for x in reversed(leaves[:-1]):
                nested = [T(op), x, nested] if rng.random() < 0.7 else [T(op), nested, x]
            flat = [T(op)] + leaves
            if rng.random() < 0.5:
                dual = 'or' if op == 'and' else 'and'
                z = flag([T('sym'), 'zz9', False])
                nested, flat = [T(dual), z, nested], [T(dual), z, flat]
            return {'a': nested, 'b': flat, 'a2': nested, 'b2': flat, 'rel': 'rewrite'}
        if r < 0.4:
            b = a
            for _ in range(rng.randint(1, 4)):
                b = gen.rewrite(rng, b)
            rel = 'rewrite'
        elif r < 0.5 and a[0] in ('and', 'or') and len(a) >= 3:
            # distribute: x OP (y DUAL z)  ->  (x OP y) DUAL (x OP z): same truth table, not a listed rewrite
            x, y, z = a[1], a[2], mk()
            dual = 'or' if a[0] == 'and' else 'and'
            a = [a[0], x, [T(dual), y, z]]
            b = [T(dual), [a[0], x, y], [a[0], x, z]]
            rel = 'distributive'
        else:
            b = mk()
            rel = 'random'
        a2 = gen.rewrite(rng, a)
        b2 = gen.rewrite(rng, b)
        return {'a': a, 'b': b, 'a2': a2, 'b2': b2, 'rel': rel}

    def eval_case(self, drv, case):
        a, b, a2, b2 = case['a'], case['b'], case['a2'], case['b2']
        for t in (a, b, a2, b2):
            if not gen.render_distinct([T('and'), a, b]):
                return Verdict('skip', case)
        table = [[k, [k + '-alias'], k in EXC] for k in KEYS[:3]]   # 'a-alias' resolves to 'a' on this instance only
        l1 = P.licensing(table)
        l4 = impl.le.Licensing([UserRecord(k, al, ex) for k, al, ex in table])    # the same table as user records
        l2 = impl.le.Licensing()
        import random as _random
        wr = _random.Random(len(repr(a))) if len(repr(a)) % 3 == 0 else None
        ea, eb, ea2, eb2 = [impl.build_tree(t, rng=wr) for t in (a, b, a2, b2)]
        sa, sb = str(ea), str(eb)
        tags = ['rel=' + case.get('rel', '?')]
        try:
            eq = l1.is_equivalent(ea, eb)
            l3 = impl.le.Licensing(['zzz'])
            answers = {'obj/l1': eq, 'obj/l2': l2.is_equivalent(ea, eb), 'obj/l3': l3.is_equivalent(ea, eb), 'obj/l4': l4.is_equivalent(ea, eb)}
            # the same table on two instances (plain symbols / wrapped user records): whoever parsed the two sides, the answer is one
            xanswers = {'strings/l1': l1.is_equivalent(sa, sb), 'strings/l4': l4.is_equivalent(sa, sb),
                        'l4-parsed vs l1-parsed/l1': l1.is_equivalent(l4.parse(sa), l1.parse(sb)),
                        'l4-parsed vs l1-parsed/l4': l4.is_equivalent(l4.parse(sa), l1.parse(sb)),
                        'l4-parsed vs l1-parsed/l2': l2.is_equivalent(l4.parse(sa), l1.parse(sb)),
                        'l1-parsed vs string/l4': l4.is_equivalent(l1.parse(sa), sb)}
            xcanswers = {'strings/l1': l1.contains(sa, sb), 'strings/l4': l4.contains(sa, sb),
                         'l4-parsed vs l1-parsed/l1': l1.contains(l4.parse(sa), l1.parse(sb)),
                         'l1-parsed vs l4-parsed/l2': l2.contains(l1.parse(sa), l4.parse(sb))}
            ct = l1.contains(ea, eb)
            canswers = {'obj/l1': ct, 'obj/l2': l2.contains(ea, eb), 'obj/l3': l3.contains(ea, eb), 'obj/l4': l4.contains(ea, eb)}
            # strings: the answer on the objects the same instance parses them to (the table-backed instance asks first)
            sanswers = {}
            for name, l in (('l1', l1), ('l2', l2), ('l3', l3), ('l4', l4)):
                sanswers[name] = [l.is_equivalent(sa, sb), l.is_equivalent(l.parse(sa), l.parse(sb)), l.is_equivalent(sa, l.parse(sb)),
                                  l.contains(sa, sb), l.contains(l.parse(sa), l.parse(sb)), l.contains(l.parse(sa), sb)]
        except BaseException as e:  # noqa
            return Verdict('spec', case, 'raised ' + type(e).__name__, tags=tags)
        if len(set(answers.values())) != 1:
            return Verdict('spec', case, 'is_equivalent on parsed objects depends on the instance', impl=answers, tags=tags)
        if len(set(canswers.values())) != 1:
            return Verdict('spec', case, 'contains on parsed objects depends on the instance', impl=canswers, tags=tags)
        if len(set(xanswers.values())) != 1:
            return Verdict('spec', case, 'is_equivalent depends on which instance (same table, plain or wrapped symbols) parsed the sides', impl=xanswers, tags=tags)
        if len(set(xcanswers.values())) != 1:
            return Verdict('spec', case, 'contains depends on which instance (same table, plain or wrapped symbols) parsed the sides', impl=xcanswers, tags=tags)
        for name, v in sanswers.items():
            if len(set(v[:3])) != 1 or len(set(v[3:])) != 1:
                return Verdict('spec', case, 'strings are answered differently from their parsed objects (instance %s)' % name, impl=sanswers, tags=tags)
        if not l1.is_equivalent(ea, ea) or not l1.is_equivalent(eb, eb):
            return Verdict('spec', case, 'is_equivalent is not reflexive', tags=tags)
        if l1.is_equivalent(eb, ea) != eq:
            return Verdict('spec', case, 'is_equivalent is not symmetric', tags=tags)
        atoms = gen.atoms_of([T('and'), a, b])[:10]
        ta, tb, meq, mct = drv.call_many([(T('ttable'), a, atoms), (T('ttable'), b, atoms), (T('equiv'), a, b), (T('contains'), a, b)])
        if eq and ta != tb:
            return Verdict('spec', case, 'is_equivalent is not sound', impl=[ta, tb], tags=tags)
        if case.get('rel') == 'rewrite' and not eq:
            return Verdict('spec', case, 'rewrite-related expressions are not equivalent', impl=eq, tags=tags)
        if not l1.contains(ea, ea):
            return Verdict('spec', case, 'contains(a, a) is False', tags=tags)
        # a2 ~ a and b2 ~ b by construction (rewrites): containment must not change
        if l1.contains(ea2, eb) != ct or l1.contains(ea, eb2) != ct:
            return Verdict('spec', case, 'contains changes under an equivalent argument', impl=[ct, l1.contains(ea2, eb), l1.contains(ea, eb2)], tags=tags)
        # equivalent arguments the caller simplified beforehand, with and without sorting (boolean.py: simplify(sort=False)
        # marks its unsorted result canonical, so a later simplify() returns it as it is)
        try:
            ns = lambda x: x.simplify(sort=False) if isinstance(x, (impl.boolean.AND, impl.boolean.OR)) else x.simplify()  # noqa (symbols take no `sort`)
            pre = [ea.simplify(), ns(ea), ns(ea2)], [eb.simplify(), ns(eb), ns(eb2)]
            got = [[l1.contains(x, y), l1.is_equivalent(x, y)] for x in pre[0] for y in pre[1]]
        except BaseException as e:  # noqa
            return Verdict('spec', case, 'raised %s on arguments simplified beforehand' % type(e).__name__, tags=tags)
        if any(g != [ct, eq] for g in got):
            return Verdict('spec', case, 'contains / is_equivalent change when an argument was simplified beforehand (sorted or unsorted)', impl=got, model=[ct, eq], tags=tags)
        if ct:
            need = set(U.keys_decomposed(impl.tree_c(eb.simplify())))
            have = set(U.keys_decomposed(a))
            if not need <= have:
                return Verdict('spec', case, 'contains(a, b) although a license of b does not occur in a', impl=[sorted(need), sorted(have)], tags=tags)
        for t in atoms:
            if t[0] == 'with':
                w = impl.build_tree(t)
                if not (l1.contains(w, impl.build_tree([T('sym'), t[1], t[2]])) and l1.contains(w, impl.build_tree([T('sym'), t[3], t[4]]))):
                    return Verdict('spec', case, 'a WITH pair does not contain its parts', impl=t, tags=tags)
                # a single license whose key spells like the rendering of the pair is another license: not equivalent to the
                # pair in either direction (soundness, symmetry), and neither contains the other
                twin = impl.le.LicenseSymbol(t[1] + ' WITH ' + t[3])
                ans = [l1.is_equivalent(twin, w), l1.is_equivalent(w, twin), l1.contains(twin, w), l1.contains(w, twin),
                       l2.is_equivalent(twin, w), l2.is_equivalent(w, twin)]
                if any(ans):
                    return Verdict('spec', case, 'a WITH pair and the single license whose key spells like it: [equiv(s,p), equiv(p,s), contains(s,p), contains(p,s), ...]',
                                   impl=ans, model=[False] * 6, tags=tags)
        # the string level against the model's equivText / containsText: the two trees written as texts in any spelling the
        # grammar allows (the table-backed instance parses them), now and then an empty or blank side
        r = _random.Random(len(repr(b)) * 3 + len(repr(a)))
        ta, tb = gen.tree_text(r, a, redundant=0.3), gen.tree_text(r, b, redundant=0.3)
        if r.random() < 0.15:
            tb = ta.swapcase() if r.random() < 0.5 else ta.upper()      # the same text in another letter case: unknown names differ
        if r.random() < 0.08:
            tb = r.choice(['', ' ', '\t '])
        if r.random() < 0.04:
            ta = r.choice(['', '  '])
        if impl.lower_is_charwise(ta + tb):
            def ask(fn):
                try:
                    return bool(fn())
                except (impl.le.ExpressionError, TypeError):
                    return 'raises'
            gots = [ask(lambda: l1.is_equivalent(ta, tb)), ask(lambda: l1.contains(ta, tb))]
            # strings are answered as the objects they parse to (on the same instance)
            po_a, po_b = impl.outcome(lambda: l1.parse(ta)), impl.outcome(lambda: l1.parse(tb))
            if P.is_ok(po_a) and P.is_ok(po_b) and po_a[1] is not None and po_b[1] is not None:
                objs = [ask(lambda: l1.is_equivalent(po_a[1], po_b[1])), ask(lambda: l1.contains(po_a[1], po_b[1]))]
                if gots != objs:
                    return Verdict('spec', dict(case, texts=[ta, tb]), 'is_equivalent / contains answer two strings differently from the objects the strings parse to',
                                   impl=gots, model=objs, tags=tags)
            ms = drv.call_many([(T('equivtext'), table, ta, tb), (T('containstext'), table, ta, tb)])
            ms = [x if x == 'raises' else bool(x) for x in ms]
            if gots != ms:
                return Verdict('diverge', dict(case, texts=[ta, tb]), 'is_equivalent / contains on strings', impl=gots, model=ms, tags=tags)
            tags.append('strings=%s' % ('raises' if 'raises' in gots else 'blank' if not (ta.strip() and tb.strip()) else 'answered'))
            # parse options given to the comparison are the options both sides are parsed with: the answer on the two strings
            # under simple=True / strict=True is the answer on the objects parse() returns under the same options (an alias
            # of the table is an unknown license to the simple tokenizer), in either argument order
            for kw in ({'simple': True}, {'strict': True}):
                pa, pb = impl.outcome(lambda: l1.parse(ta, **kw)), impl.outcome(lambda: l1.parse(tb, **kw))
                for x, y, px, py in ((ta, tb, pa, pb), (tb, ta, pb, pa)):
                    if P.is_ok(px) and P.is_ok(py):
                        wanted = [ask(lambda: l1.is_equivalent(px[1], py[1])), ask(lambda: l1.contains(px[1], py[1]))]
                    elif P.err_class(px) in ('exprerr', 'parseerr') or P.err_class(py) in ('exprerr', 'parseerr'):
                        wanted = ['raises', 'raises']
                    else:
                        continue
                    under = [ask(lambda: l1.is_equivalent(x, y, **kw)), ask(lambda: l1.contains(x, y, **kw))]
                    if under != wanted:
                        return Verdict('spec', dict(case, texts=[x, y], options=kw), 'is_equivalent / contains on strings under parse options differ from the answers on the objects parsed under the same options',
                                       impl=under, model=wanted, tags=tags)
        if bool(meq) != eq:
            return Verdict('diverge', case, 'is_equivalent', impl=eq, model=meq, tags=tags)
        if bool(mct) != ct:
            return Verdict('diverge', case, 'contains', impl=ct, model=mct, tags=tags)
        tags.append('equiv=%s' % eq)
        tags.append('contains=%s' % ct)
        return Verdict('ok', case, impl=[eq, ct], nontrivial=a[0] in ('and', 'or') and b[0] in ('and', 'or'), tags=tags)

    def run(self, drv, rng, tier, index, nworkers, scale):
        n = self.budget(tier, 4000, 60000, nworkers, scale)
        if index == 0:
            for c in CORPUS:
                self.record(self.eval_case(drv, c))
        for _ in range(n):
            self.record(self.eval_case(drv, self.case_random(rng)))
        return self.res

    def replay(self, drv, data):
        v = data.get('first') or (data.get('diverging') or [None])[0]
        yield self.eval_case(drv, v['case'])


def S(k, e=False):
    return [T('sym'), k, e]


CORPUS = [
    {'a': S('a-alias'), 'b': S('a'), 'a2': S('a-alias'), 'b2': S('a'), 'rel': 'random'},
    {'a': [T('with'), 'a', False, 'b', False], 'b': S('a'), 'a2': [T('with'), 'a', False, 'b', False], 'b2': S('a'), 'rel': 'random'},
    {'a': [T('and'), S('a'), [T('or'), S('b'), S('c')]], 'b': [T('or'), S('c'), S('b')], 'a2': [T('and'), [T('or'), S('c'), S('b')], S('a')], 'b2': [T('or'), S('b'), S('c'), S('b')], 'rel': 'random'},
]
