"""C11 - validation verdicts agree with each other and with parsing."""
import gen
import impl
import pipeline as P
from core import BaseProp, Verdict
from proto import T

RULE = ('random tables x strings (valid, malformed, with unknown licenses - also 5 to 60 different ones in one expression -, with misplaced exceptions, a single known key alone in any '
        'case), both strictness settings; Spec on the real code: parse(validate=True) raises "Unknown license key(s)" exactly when the '
        'unknown-license listing is non-empty and names those keys in order; validate() has no errors exactly when '
        'parse(validate=True) with the same strictness succeeds, then normalized = rendering of that parse, otherwise normalized '
        'is absent, errors are present and (unknown case) invalid_symbols are the unknown keys in order. Correspondence: parse and '
        'the validate report with the model. non-trivial = non-blank text with >= 1 license; distinct by (table, text, strict)')
ASSUMPTIONS = ['blank strings are outside the validate claim']


class Prop(BaseProp):
    def case_random(self, rng):
        table = gen.gen_table(rng, maxn=5)
        r = rng.random()
        if table and r < 0.15:
            text = gen.recase(rng, rng.choice(table)[0])
            if rng.random() < 0.5:
                text = ' ' + text + ' '
        elif r < 0.2:
            # many unknown licenses in one expression (every one of them has to be named, in order)
            n = rng.choice([5, 9, 12, 13, 14, 17, 20, 33, 60])
            ks = ['u%d' % i for i in range(n)]
            if rng.random() < 0.5:
                ks += [k.upper() for k in ks[:rng.randint(1, 3)]]        # the same unknown key in another letter case is another key
            rng.shuffle(ks)
            keys = [k for k, _, _ in table]
            items = ks + [rng.choice(keys) for _ in range(rng.randint(0, 3)) if keys] + [rng.choice(ks) for _ in range(rng.randint(0, 3))]
            rng.shuffle(items)
            text = rng.choice([' and ', ' or ', ' AND ']).join(items)
        elif r < 0.55:
            keys = [k for k, _, _ in table] or ['mit']
            t = gen.gen_tree(rng, keys + ['foo', 'zq bar', 'Foo', 'FOO'], depth=2, maxar=3, flags=False)
            text = gen.tree_text(rng, t)
        else:
            text = gen.gen_text(rng, table, maxitems=7, bad=0.05)
        return {'table': table, 'text': text, 'strict': rng.random() < 0.6}

    def eval_case(self, drv, case):
        table, text, strict = case['table'], case['text'], case['strict']
        if not impl.lower_is_charwise(text) or not text.strip():
            return Verdict('skip', case)
        lic = P.licensing(table)
        p0 = impl.outcome(lambda: lic.parse(text, strict=strict))
        pv = impl.parse_c(lic, text, strict=strict, validate=True)
        tags = ['parse=' + P.err_class(p0), 'validate=' + P.err_class(pv)]
        if P.err_class(p0) == 'other' or P.err_class(pv) == 'other':
            return Verdict('spec', case, 'foreign exception', impl=[str(p0), pv], tags=tags)
        unknown = None
        if P.is_ok(p0):
            unknown = lic.unknown_license_keys(p0[1])
            if unknown:
                if pv != [T('exprerr'), T('unknown'), ', '.join(unknown)]:
                    return Verdict('spec', case, 'parse(validate=True) does not name the unknown keys', impl=[pv, unknown], tags=tags)
            else:
                if pv != [T('ok'), impl.tree_c(p0[1])]:
                    return Verdict('spec', case, 'parse(validate=True) differs from parse() although nothing is unknown', impl=[pv], tags=tags)
        else:
            if P.err_class(pv) != P.err_class(p0):
                return Verdict('spec', case, 'parse(validate=True) fails differently from parse()', impl=[str(p0), pv], tags=tags)
        try:
            info = lic.validate(text, strict=strict)
        except BaseException as e:  # noqa
            return Verdict('spec', case, 'validate raised ' + type(e).__name__, tags=tags)
        iv = [T('info'), info.normalized_expression if info.normalized_expression is not None else T('none'), len(info.errors), list(info.invalid_symbols)]
        if (not info.errors) != P.is_ok(pv):
            return Verdict('spec', case, 'validate and parse(validate=True) disagree', impl=[iv, pv], tags=tags)
        if P.is_ok(pv):
            if info.normalized_expression != str(lic.parse(text, strict=strict, validate=True)):
                return Verdict('spec', case, 'normalized expression is not the rendering of the parse', impl=[iv, pv], tags=tags)
        else:
            if info.normalized_expression is not None or not info.errors:
                return Verdict('spec', case, 'failed validation with a normalized expression or without a message', impl=[iv, pv], tags=tags)
            if unknown and list(info.invalid_symbols) != unknown:
                return Verdict('spec', case, 'invalid symbols are not the unknown keys', impl=[iv, unknown], tags=tags)
        # validate() takes its strictness from `strict` and nothing else: handing it a parse option gives the same report
        for extra in ({'validate': True}, {'validate': False}):
            try:
                i2 = lic.validate(text, strict=strict, **extra)
                iv2 = [T('info'), i2.normalized_expression if i2.normalized_expression is not None else T('none'), len(i2.errors), list(i2.invalid_symbols)]
            except BaseException as e:  # noqa
                iv2 = 'raised ' + type(e).__name__
            if iv2 != iv:
                return Verdict('spec', dict(case, options=extra), 'validate(text, strict, **options) reports something else than validate(text, strict)', impl=iv2, model=iv, tags=tags)
        mp, mv = drv.call_many([(T('parse'), table, False, strict, True, text), (T('validate'), table, strict, text)])
        mp = impl.model_outcome_c(mp)

        def proj(o):
            if P.err_class(o) == 'parseerr':
                return ['parseerr', o[1], P.fwords(o[2]), o[3]]
            return o

        def vproj(v):
            if v[0] == 'info':
                return ['info', v[1], v[2] > 0, [P.fwords(x) for x in v[3]]]
            return v
        if proj(pv) != proj(mp):
            return Verdict('diverge', case, 'Licensing.parse(validate=True)', impl=pv, model=mp, tags=tags)
        if vproj(iv) != vproj(mv):
            return Verdict('diverge', case, 'Licensing.validate', impl=iv, model=mv, tags=tags)
        return Verdict('ok', case, impl=[pv, iv], nontrivial=True, tags=tags)

    def run(self, drv, rng, tier, index, nworkers, scale):
        n = self.budget(tier, 5000, 80000, nworkers, scale)
        if index == 0:
            for c in CORPUS:
                self.record(self.eval_case(drv, c))
        for _ in range(n):
            self.record(self.eval_case(drv, self.case_random(rng)))
        return self.res

    def replay(self, drv, data):
        v = data.get('first') or (data.get('diverging') or [None])[0]
        yield self.eval_case(drv, v['case'])


CORPUS = [
    {'table': [['WxWindows-exception-3.1', [], True], ['mit', [], False]], 'text': 'WxWindows-exception-3.1', 'strict': True},
    {'table': [['WxWindows-exception-3.1', [], True], ['mit', [], False]], 'text': ' wxwindows-EXCEPTION-3.1', 'strict': True},
    {'table': [['mit', [], False]], 'text': 'mit or', 'strict': True},
    {'table': [['mit', [], False]], 'text': 'a$', 'strict': False},
    {'table': [['mit', [], False]], 'text': 'mit and foo with bar and foo', 'strict': True},
]
