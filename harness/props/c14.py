"""C14 - a Licensing accepts exactly the unambiguous symbol tables, in any form."""
import itertools

import gen
import impl
import pipeline as P
from core import BaseProp, Verdict
from proto import T

RULE = ('random lists of (key, aliases, flag) entries (aliases of several words, two in five with parentheses) - about half deliberately '
        'ambiguous (same key in another case, an alias shared by two keys in another case / spacing, also around parentheses, an alias equal to another key, '
        'an operator word as alias) - each in 3 entry orders and in 8 representations (lists and one-shot iterables; key strings where possible, objects of a plain class, named tuples with the fields in another order or with an extra field, LicenseSymbol '
        'objects, arbitrary objects with key/aliases/is_exception); Spec: Licensing() raises ValueError exactly when the table is '
        'Ambiguous (the order-free definition in Lean), the same in every order and representation, an accepted table is unambiguous for the matcher too (namesUniqueB in Lean: no word sequence stored for two licenses), and accepted tables answer '
        'parse / license_keys / validate identically in every representation; correspondence: the order-dependent bookkeeping of '
        'the model (validate_symbols) gives the same verdict. Exhaustive: all ordered tables of <= 3 entries from a pool of 8. '
        'non-trivial = >= 2 entries; distinct by table')
ASSUMPTIONS = ['entries have valid keys']

le = impl.le


class Obj:
    def __init__(self, key, aliases, is_exception):
        self.key, self.aliases, self.is_exception = key, tuple(aliases), is_exception


import collections
# objects that expose key / aliases / is_exception and are tuples as well (database rows): fields in another order, an extra field
Row = collections.namedtuple('Row', 'key is_exception aliases')
Row4 = collections.namedtuple('Row4', 'key name aliases is_exception')


def build(table, rep):
    if rep == 'rows':
        return le.Licensing([Row(k, ex, tuple(al)) for k, al, ex in table])
    if rep == 'rows4':
        return le.Licensing([Row4(k, 'The ' + k, tuple(al), ex) for k, al, ex in table])
    if rep == 'symbols-shared':      # entries that are alike are one and the same LicenseSymbol object
        objs = {}
        return le.Licensing([objs.setdefault((k, tuple(al), ex), le.LicenseSymbol(k, aliases=tuple(al), is_exception=ex)) for k, al, ex in table])
    if rep == 'gen-symbols':      # a table handed over as a one-shot iterable
        return le.Licensing(s for s in impl.table_objs(table))
    if rep == 'iter-objects':
        return le.Licensing(iter([Obj(k, al, ex) for k, al, ex in table]))
    if rep == 'map-strings':
        return le.Licensing(map(str, [k for k, al, ex in table]))
    if rep == 'symbols':
        return le.Licensing(impl.table_objs(table))
    if rep == 'objects':
        return le.Licensing([Obj(k, al, ex) for k, al, ex in table])
    if rep == 'strings':
        return le.Licensing([k for k, al, ex in table])
    raise ValueError(rep)


def verdict(table, rep):
    try:
        return ['ok', build(table, rep)]
    except ValueError:
        return ['valueerror', None]
    except BaseException as e:  # noqa
        return ['other:' + type(e).__name__, None]


class Prop(BaseProp):
    def case_random(self, rng):
        n = rng.randint(1, 5)
        table = []
        for _ in range(n):
            key = gen.gen_key(rng, pool=['a', 'b', 'gpl', '2.0', 'mit'], allow_op=True)
            al = [gen.gen_alias(rng, pool=['a', 'b', 'gpl', '2.0', 'mit', 'x'], parens=rng.random() < 0.4) for _ in range(rng.choice([0, 0, 1, 2]))]
            table.append([key, al, rng.random() < 0.3])
        r = rng.random()
        if table and r < 0.5:
            i = rng.randrange(len(table))
            k, al, ex = table[i]
            m = rng.random()
            if m < 0.1:
                table.append([k, list(al), ex])        # the very same entry once more
            elif m < 0.3:
                table.append([gen.recase(rng, k) if rng.random() < 0.7 else k, [], False])
            elif m < 0.55 and al:
                table.append(['zz' + str(i), [gen.variant(rng, rng.choice(al))], False])
            elif m < 0.8:
                table.append(['yy' + str(i), [gen.variant(rng, k)], False])
            else:
                al.append(rng.choice(['and', 'OR', ' With ']))
            rng.shuffle(table)
        return {'table': table}

    def eval_case(self, drv, case):
        table = case['table']
        for k, al, ex in table:
            if not impl.lower_is_charwise(k) or any(not impl.lower_is_charwise(a) for a in al):
                return Verdict('skip', case)
            try:
                le.LicenseSymbol(k)
            except le.ExpressionError:
                return Verdict('skip', case)
        amb, ref, uniq = drv.call_many([(T('ambiguous'), table), (T('table'), table), (T('namesunique'), table)])
        amb, ref, uniq = bool(amb), bool(ref), bool(uniq)
        tags = ['ambiguous=%s' % amb, 'entries=%d' % len(table)]
        orders = [table, list(reversed(table))]
        if len(table) > 2:
            orders.append(table[1:] + table[:1])
        plain = all(not al and not ex for k, al, ex in table)
        lics = {}
        for oi, t in enumerate(orders):
            for rep in ['symbols', 'symbols-shared', 'objects', 'rows', 'rows4', 'gen-symbols', 'iter-objects'] + (['strings', 'map-strings'] if plain else []):
                v, lic = verdict(t, rep)
                if v.startswith('other'):
                    return Verdict('spec', case, 'constructor raised %s (order %d, %s)' % (v, oi, rep), tags=tags)
                if (v == 'valueerror') != amb:
                    return Verdict('spec', case, 'accepts an ambiguous table / refuses an unambiguous one (order %d, %s)' % (oi, rep),
                                   impl=v, model='valueerror' if amb else 'ok', tags=tags)
                if lic is not None and oi == 0:
                    lics[rep] = lic
        if ref != (amb):
            return Verdict('diverge', case, 'validate_symbols', impl='valueerror' if amb else 'ok', model=ref, tags=tags)
        if not amb and not uniq:
            # the hypothesis of C04_alone / C15_general (Lean: namesUniqueB): what Licensing() accepts must be unambiguous
            # for the matcher too - no word sequence stored for two different licenses (this is how defect F9 was found)
            return Verdict('spec', case, 'an accepted table stores one word sequence for two different licenses (ambiguous for the matcher)', tags=tags)
        if lics:
            names = gen.names_of(table)
            texts = [' or '.join(names[:3]) or 'mit', (names[0] if names else 'x') + ' with foo and (bar)', 'zq and ' + (names[-1] if names else 'x')]
            answers = {}
            for rep, lic in lics.items():
                a = []
                for tx in texts:
                    a.append(impl.parse_c(lic, tx))
                    a.append(impl.outcome(lambda: lic.license_keys(tx)))
                    try:
                        i = lic.validate(tx)
                        a.append([i.normalized_expression, len(i.errors), list(i.invalid_symbols)])
                    except BaseException as e:  # noqa
                        a.append(type(e).__name__)
                answers[rep] = repr(a)
            if len(set(answers.values())) != 1:
                return Verdict('spec', case, 'representations of one table answer differently', impl=answers, tags=tags)
        return Verdict('ok', case, impl='valueerror' if amb else 'ok', nontrivial=len(table) >= 2, tags=tags)

    def exhaustive(self, drv, index, nworkers):
        pool = [['mit', [], False], ['MIT', [], True], ['gpl', ['mit'], False], ['bsd', ['GNU  gpl', 'x'], False], ['lgpl', ['gnu gpl'], False],
                ['gnu gpl', [], False], ['apache', ['or'], False], ['x', ['y'], True]]
        k = 0
        count = 0
        for n in (1, 2, 3):
            for t in itertools.permutations(pool, n):
                k += 1
                if k % nworkers != index:
                    continue
                self.record(self.eval_case(drv, {'table': [list(e) for e in t]}))
                count += 1
        self.res['exhaustive'].append({'scope': 'all ordered tables of <= 3 entries from a pool of 8 (with colliding keys, aliases, operator alias)', 'cases': count, 'complete': True, 'worker': index})

    def run(self, drv, rng, tier, index, nworkers, scale):
        n = self.budget(tier, 2500, 40000, nworkers, scale)
        if index == 0:
            for c in CORPUS:
                self.record(self.eval_case(drv, c))
        for _ in range(n):
            self.record(self.eval_case(drv, self.case_random(rng)))
        self.exhaustive(drv, index, nworkers)
        return self.res

    def replay(self, drv, data):
        v = data.get('first') or (data.get('diverging') or [None])[0]
        yield self.eval_case(drv, v['case'])


CORPUS = [
    {'table': [['gpl', ['mit'], False], ['mit', [], False]]},
    {'table': [['mit', [], False], ['gpl', ['mit'], False]]},
    {'table': [['a', ['x  y'], False], ['b', ['X y'], False]]},
    {'table': [['a', ['x'], False], ['b', ['y'], False], ['a2', ['x'], False]]},
    {'table': [['a', ['x (y)'], False], ['b', ['x(y)'], False]]},            # repaired (F9): one alias for the matcher
    {'table': [['a', ['x (y)', 'X(Y)', 'x ( y )'], False], ['b', ['x y'], False]]},
]
