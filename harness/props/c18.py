"""C18 - simple and default tokenizers agree on space-free symbols."""
import itertools

import gen
import impl
import pipeline as P
from core import BaseProp, Verdict
from proto import T

RULE = ('tables without aliases whose keys have no whitespace (keys in mixed case, exception flags) x texts over those keys in '
        'random letter case, unknown words (also words in which an operator word is joined to the rest by - . : +, and words that equal a key up to a compatibility form: fi ligature, fullwidth digit), operators and parentheses in which no two plain words are adjacent, valid or not, strict '
        'and not; Spec on the real code: parse(simple=True) and parse() have the same outcome - same tree, or same error kind, code, '
        'token and position. Correspondence: both outcomes with the model. Exhaustive: all token strings of length <= 4 (quick) / '
        '<= 5 (thorough) over {mit, MIT, Cp, foo, or-later, and, OR, with, (, )} without adjacent plain words. non-trivial = >= 2 tokens; '
        'distinct by (table, text, strict)')
ASSUMPTIONS = ['inputs outside the premise (aliases, keys with blanks, adjacent plain words) are not generated']


# words in which an operator word is joined to the rest by a character that is legal in a key but not a letter:
# one word, not an operator
OPGLUED = ['or-later', 'OR-LATER', 'with:foo', 'and.more', 'and+', 'gpl-or', 'x.with', 'with-classpath', 'Or+', '-and-',
           '&', '|', '~', '!', 'g&l']     # ... and the operator signs of boolean.py, which are no operators here


class Prop(BaseProp):
    def case_random(self, rng):
        table = gen.gen_table(rng, aliases=False, single_word=True)
        keys = [k for k, _, _ in table]
        n = rng.randint(1, 9)
        items = []
        prev_plain = False
        for _ in range(n):
            r = rng.random()
            if r < 0.5 and not prev_plain:
                w = gen.recase(rng, rng.choice(keys)) if keys and rng.random() < 0.6 else rng.choice(gen.WORDS + gen.ODDWORDS + gen.BADWORDS[:1] + OPGLUED)
                if keys and rng.random() < 0.1:
                    # an unknown word that is a key of the table up to a Unicode compatibility form
                    w = gen.compat_twin(rng.choice(keys)) or w
                items.append(w)
                prev_plain = True
            elif r < 0.8:
                items.append(gen.recase(rng, rng.choice(gen.OPWORDS)))
                prev_plain = False
            else:
                items.append(rng.choice('()'))
                prev_plain = False
        out = []
        for i, it in enumerate(items):
            if i > 0:
                if items[i - 1] in '()' or it in '()':
                    if rng.random() < 0.5:
                        out.append(gen.blank_run(rng))
                else:
                    out.append(gen.blank_run(rng))
            out.append(it)
        return {'table': table, 'text': ''.join(out), 'strict': rng.random() < 0.5}

    def eval_case(self, drv, case):
        table, text, strict = case['table'], case['text'], case['strict']
        if not impl.lower_is_charwise(text):
            return Verdict('skip', case)
        lic = P.licensing(table)
        a = impl.parse_c(lic, text, strict=strict, simple=True)
        b = impl.parse_c(lic, text, strict=strict, simple=False)
        tags = ['out=' + P.err_class(b)]
        if a != b:
            return Verdict('spec', case, 'simple and default outcomes differ', impl={'simple': a, 'default': b}, tags=tags)
        ma, mb = drv.call_many([(T('parse'), table, True, strict, False, text), (T('parse'), table, False, strict, False, text)])
        ma, mb = impl.model_outcome_c(ma), impl.model_outcome_c(mb)
        if a != ma or b != mb:
            return Verdict('diverge', case, 'Licensing.parse', impl=[a, b], model=[ma, mb], tags=tags)
        return Verdict('ok', case, impl=b, nontrivial=len(P.words(text)) >= 2, tags=tags)

    def exhaustive(self, drv, index, nworkers, maxlen):
        alpha = ['mit', 'MIT', 'Cp', 'foo', 'or-later', 'and', 'OR', 'with', '(', ')']
        plain = {'mit', 'MIT', 'Cp', 'foo', 'or-later'}
        table = [['mit', [], False], ['cp', [], True]]
        k = 0
        count = 0
        for n in range(1, maxlen + 1):
            for toks in itertools.product(alpha, repeat=n):
                if any(toks[i] in plain and toks[i + 1] in plain for i in range(n - 1)):
                    continue
                k += 1
                if k % nworkers != index:
                    continue
                for strict in (False, True):
                    self.record(self.eval_case(drv, {'table': table, 'text': ' '.join(toks), 'strict': strict}))
                    count += 1
        self.res['exhaustive'].append({'scope': 'token strings of length <= %d over {mit,MIT,Cp,foo,and,OR,with,(,)} without adjacent plain words x strict' % maxlen,
                                       'cases': count, 'complete': True, 'worker': index})

    def run(self, drv, rng, tier, index, nworkers, scale):
        n = self.budget(tier, 6000, 80000, nworkers, scale)
        if index == 0:
            for c in CORPUS:
                self.record(self.eval_case(drv, c))
        for _ in range(n):
            self.record(self.eval_case(drv, self.case_random(rng)))
        self.exhaustive(drv, index, nworkers, 5 if tier == 'thorough' else 4)
        return self.res

    def replay(self, drv, data):
        v = data.get('first') or (data.get('diverging') or [None])[0]
        yield self.eval_case(drv, v['case'])


CORPUS = [
    {'table': [['mit', [], False]], 'text': 'MIT', 'strict': False},
    {'table': [['Classpath-exception-2.0', [], True]], 'text': 'CLASSPATH-Exception-2.0', 'strict': True},
    {'table': [['mit', [], False]], 'text': 'İ and mit', 'strict': False},
    {'table': [['mit', [], False]], 'text': 'İİ or  (mit', 'strict': False},
]
