"""C16 - the name matcher finds every occurrence of every stored name."""
import itertools

import gen
import impl
from core import BaseProp, Verdict
from proto import T

RULE = ('histories of add/get/exists/is_prefix/items on a Trie (names of 0-4 words from a pool with shared prefixes/suffixes and words with sharp s, a ligature, a final sigma, '
        'parentheses, case and blank variants, empty/blank/non-text names, re-insertion), make_automaton, add after it, then '
        'iter over 1-3 texts with items() again after scans; compared: every answer with the model, the fail links with the BFS recurrence of the model, and '
        '(Spec, in Lean) the set of reported (start, end, value) with the brute-force occurrences; non-trivial = at least two '
        'stored names sharing a word; distinct by canonical history')
ASSUMPTIONS = ['look-ups are compared before finalisation only (observation O1 in DESIGN.md)',
               'iter is compared in the mode Licensing uses: include_space=False']

# the last three: words that str.lower() leaves alone and other caseless normalisations (casefold, NFKC) do not
POOL = ['a', 'b', 'c', 'gpl', '2.0', '(', ')', 'or', 'x', 'fu\u00df', '\ufb01le', '\u03bf\u03c2']


def gen_name(rng, pool):
    r = rng.random()
    if r < 0.04:
        return ''
    if r < 0.08:
        return rng.choice([' ', '\t ', '  '])
    n = rng.choice([1, 1, 2, 2, 3, 3, 4])
    ws = [rng.choice(pool) for _ in range(n)]
    return name_text(rng, ws)


def name_text(rng, ws):
    out = []
    for i, w in enumerate(ws):
        if i > 0:
            prev = ws[i - 1]
            if prev in '()' or w in '()':
                out.append(rng.choice(['', ' ', '  ']))
            else:
                out.append(gen.blank_run(rng))
        out.append(gen.recase(rng, w))
    return ''.join(out)


def trie_paths(trie):
    """node -> path of words, for the original (non self-loop) nodes"""
    paths = {id(trie.root): ()}
    order = [trie.root]
    i = 0
    while i < len(order):
        n = order[i]
        i += 1
        for w, ch in n.children.items():
            if ch is trie.root or id(ch) in paths:
                continue
            paths[id(ch)] = paths[id(n)] + (w,)
            order.append(ch)
    return paths, order


class Prop(BaseProp):
    def case_random(self, rng):
        pool = rng.sample(POOL, rng.randint(2, 5))
        nadd = rng.randint(0, 6)
        ops = []
        names = []
        for i in range(nadd):
            if names and rng.random() < 0.15:
                nm = gen.variant(rng, rng.choice(names)) if rng.random() < 0.7 else rng.choice(names)
            else:
                nm = gen_name(rng, pool)
            if nm.strip():
                names.append(nm)
            if rng.random() < 0.05:
                ops.append(['addbad', rng.choice(['none', 'int', 'bytes'])])
            ops.append(['add', nm, i + 1 if rng.random() < 0.7 else rng.choice([1, 2])])      # now and then a value several names share (a key and its aliases)
            if rng.random() < 0.3:
                q = gen.variant(rng, rng.choice(names)) if names and rng.random() < 0.6 else gen_name(rng, pool)
                ops.append([rng.choice(['get', 'exists', 'prefix']), q])
        ops.append(['items'])
        ops.append(['make'])
        ops.append(['items'])
        if rng.random() < 0.5:
            ops.append(['add', gen_name(rng, pool) or 'zz', 99])
        for _ in range(rng.randint(1, 3)):
            n = rng.randint(0, 8)
            ws = [rng.choice(pool + ['zz']) for _ in range(n)]
            ops.append(['iter', name_text(rng, ws), rng.random() < 0.5])
            if rng.random() < 0.5:
                ops.append(['items'])          # enumeration after scanning: still exactly the stored names
        return {'ops': ops}

    def eval_case(self, drv, case):
        ops = case['ops']
        trie = impl.ac.Trie()
        impl_out = []
        mreq = []
        finalised = False
        spec_names = {}
        for op in ops:
            k = op[0]
            if k == 'addbad':
                bad = {'none': None, 'int': 5, 'bytes': b'ab'}[op[1]]
                try:
                    trie.add(bad, 7)
                    impl_out.append(T('ok'))
                except Exception as e:
                    impl_out.append(T('refused') if finalised else [T('other'), type(e).__name__])
                mreq.append(None)
            elif k == 'add':
                try:
                    trie.add(op[1], op[2])
                    impl_out.append(T('ok'))
                except Exception:
                    impl_out.append(T('refused'))
                mreq.append([T('add'), op[1], op[2]])
            elif k == 'get':
                r = trie.get(op[1], None)
                impl_out.append(T('none') if r is None else [T('some'), r[0], r[1]])
                mreq.append([T('get'), op[1]])
            elif k == 'exists':
                impl_out.append(int(trie.exists(op[1])))
                mreq.append([T('exists'), op[1]])
            elif k == 'prefix':
                impl_out.append(int(trie.is_prefix(op[1])))
                mreq.append([T('prefix'), op[1]])
            elif k == 'items':
                try:
                    impl_out.append(sorted([[a, b] for a, b in trie.items()]))
                except RecursionError:
                    impl_out.append([T('other'), 'RecursionError'])
                mreq.append([T('items')])
            elif k == 'make':
                trie.make_automaton()
                finalised = True
                impl_out.append(T('ok'))
                mreq.append([T('make')])
            elif k == 'iter':
                toks = list(trie.iter(op[1], include_unmatched=op[2]))
                impl_out.append(sorted([[t.start, t.end, t.string, T('none') if t.value is None else t.value] for t in toks], key=repr))
                mreq.append([T('iter'), op[1], op[2]])
        # fail links of the implementation
        paths, order = trie_paths(trie)
        impl_fail = sorted([[list(paths[id(n)]), list(paths.get(id(n.fail), ('?',)))] for n in order if n is not trie.root], key=repr)
        reqs = [r for r in mreq if r is not None] + [[T('fail')]]
        # Spec: occurrences by brute force, for every iter
        for op in ops:
            if op[0] == 'iter':
                reqs.append([T('iterspec'), op[1]])
        replies = drv.call(T('trie'), reqs)
        n_model = len([r for r in mreq if r is not None])
        model_out = []
        it = iter(replies[:n_model])
        for r in mreq:
            if r is None:
                model_out.append(T('ok'))     # a non-text name is ignored (refused after finalisation, like every add)
            else:
                x = next(it)
                if r[0] == 'items':
                    x = sorted(x)
                elif r[0] == 'iter':
                    x = sorted(x, key=repr)
                model_out.append(x)
        # after finalisation, non-text additions are refused too
        fin = False
        for i, op in enumerate(ops):
            if op[0] == 'make':
                fin = True
            if op[0] == 'addbad' and fin:
                model_out[i] = T('refused')
        model_fail = sorted([[p, f] for p, f in replies[n_model] if p], key=repr)
        specs = replies[n_model + 1:]
        nontrivial = len([o for o in ops if o[0] == 'add' and len(o[1].split()) >= 1]) >= 2
        tags = ['names=%d' % len(trie_paths(trie)[1])] if False else []
        tags.append('adds=%d' % len([o for o in ops if o[0] == 'add']))
        # Spec first: the property itself, on the implementation's answers
        j = 0
        for i, op in enumerate(ops):
            if op[0] == 'iter':
                occ = sorted([[s, e, st, v] for s, e, st, v in specs[j]], key=repr)
                j += 1
                got = [x for x in impl_out[i] if x[3] != 'none']
                if got != occ:
                    return Verdict('spec', case, 'occurrences', impl=got, model=occ, tags=tags)
                if op[2]:
                    # unmatched tokens: every word that ends no match, once
                    pass
        # the map clauses on the implementation: items = last write per word sequence (checked through the model below)
        for i, (a, b) in enumerate(zip(impl_out, model_out)):
            if ops[i][0] in ('get', 'exists', 'prefix') and any(o[0] == 'make' for o in ops[:i]):
                continue
            if a != b:
                clause = {'add': 'add', 'addbad': 'nontext', 'items': 'items', 'get': 'lookup', 'exists': 'lookup', 'prefix': 'lookup',
                          'make': 'make', 'iter': 'iter'}[ops[i][0]]
                status = 'spec' if clause in ('items', 'add', 'nontext', 'lookup') else 'diverge'
                return Verdict(status, case, clause + ' (op %d)' % i, impl=a, model=b, tags=tags)
        # two scans of the same matcher consumed in turns (iter is lazy): each reports what it reports alone
        texts = [op[1] for op in ops if op[0] == 'iter']
        if len(texts) >= 2 and any(o[0] == 'make' for o in ops):
            def canon(ts):
                return [[t.start, t.end, t.string, T('none') if t.value is None else t.value] for t in ts]
            alone = [canon(list(trie.iter(tx, include_unmatched=True))) for tx in texts[:2]]
            turn = [[], []]
            try:
                for a, b in itertools.zip_longest(trie.iter(texts[0], include_unmatched=True), trie.iter(texts[1], include_unmatched=True)):
                    if a is not None:
                        turn[0].append(a)
                    if b is not None:
                        turn[1].append(b)
                turn = [canon(x) for x in turn]
            except BaseException as e:  # noqa
                turn = 'raised ' + type(e).__name__
            if turn != alone:
                return Verdict('spec', case, 'two scans of one matcher consumed in turns do not report what each reports alone', impl=turn, model=alone, tags=tags)
        if impl_fail != model_fail:
            return Verdict('diverge', case, 'fail links', impl=impl_fail, model=model_fail, tags=tags)
        return Verdict('ok', case, impl=impl_out[-1], nontrivial=nontrivial, tags=tags)

    def exhaustive(self, drv, index, nworkers):
        """all sets of <= 2 names of <= 3 words over {a, b, (} in both insertion orders, against all texts of <= 5 words"""
        alpha = ['a', 'b', '(']
        names = [' '.join(ws) for n in (1, 2, 3) for ws in itertools.product(alpha, repeat=n)]
        texts = [' '.join(ws) for n in range(1, 6) for ws in itertools.product(alpha, repeat=n)]
        sets = [(x,) for x in names] + list(itertools.permutations(names, 2))
        count = 0
        for si, ns in enumerate(sets):
            if si % nworkers != index:
                continue
            # one history per name set, all texts at once would be too long a line: chunks of 60 texts
            for k in range(0, len(texts), 60):
                ops = [['add', n, i + 1] for i, n in enumerate(ns)] + [['make']] + [['iter', t, False] for t in texts[k:k + 60]]
                v = self.eval_case(drv, {'ops': ops})
                v.nontrivial = len(ns) > 1
                v.key = [ns, k]
                self.record(v)
                count += 60
        self.res['exhaustive'].append({'scope': 'names<=2 of <=3 words over {a,b,(} x texts<=5 words', 'cases': count, 'complete': True, 'worker': index})

    def run(self, drv, rng, tier, index, nworkers, scale):
        n = self.budget(tier, 4000, 60000, nworkers, scale)
        if index == 0:
            for c in CORPUS:
                self.record(self.eval_case(drv, c))
        for _ in range(n):
            self.record(self.eval_case(drv, self.case_random(rng)))
        if tier == 'thorough':
            self.exhaustive(drv, index, nworkers)
        return self.res

    def replay(self, drv, data):
        v = data.get('first') or (data.get('diverging') or [None])[0]
        yield self.eval_case(drv, v['case'])


CORPUS = [
    {'ops': [['add', 'a', 1], ['add', 'b a a', 2], ['make'], ['iter', 'b a a', False]]},
    {'ops': [['add', 'gpl gpl plus', 1], ['add', 'plus', 2], ['make'], ['iter', 'gpl gpl plus', False]]},
    {'ops': [['add', ' ', 1], ['add', 'a', 2], ['items'], ['make'], ['iter', 'a b a', True]]},
    {'ops': [['add', 'GPL  2.0', 1], ['add', 'gpl 2.0', 2], ['get', 'Gpl\t2.0'], ['items'], ['make'], ['items'], ['add', 'x', 3], ['iter', 'gpl    2.0', False]]},
    {'ops': [['add', 'a b', 1], ['add', 'b c', 2], ['add', 'c', 3], ['add', 'a b c d', 4], ['make'], ['iter', 'a b c a b c d', False]]},
]
