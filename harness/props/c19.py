"""C19 - answers depend only on table and input; arguments are never mutated."""
import copy

import gen
import impl
import pipeline as P
from core import BaseProp, Verdict
from proto import T

RULE = ('[two fresh interpreters: expressions built by hand from the public classes before / after the first Licensing of the process answer alike] random histories of 5-40 API calls (parse in all modes, listings, simplify, dedup, is_equivalent, contains, validate, '
        'rendering, combine_expressions, construction of further Licensing objects - including ones with the same keys and other '
        'aliases - successful and failing calls mixed) on 1-3 shared instances and shared expression objects; Spec: each answer '
        'equals the answer of a freshly built instance with the same table and the answer of the model (a pure function of table and '
        'input, i.e. the answer in a pristine process); every expression object passed to a call has the same structure, text and '
        'operand identities afterwards; parse(expression) returns that very object. non-trivial = >= 2 instances or a failing call '
        'before the query; distinct by history')
ASSUMPTIONS = ['non-mutation is checked on the implementation only (a functional model cannot express it)']

le = impl.le

TABLES = [
    [['GPL-2.0', ['gplv2', 'GNU GPL 2'], False], ['MIT', ['expat'], False], ['Classpath', ['cp'], True]],
    [['GPL-2.0', ['GNU GPL v2'], False], ['MIT', ['MIT License'], False], ['Classpath', [], True]],
    [],
    [['mit', [], False], ['gpl or later', ['gpl+'], False]],
]
TEXTS = ['gplv2 and expat', 'GNU GPL 2 with cp or MIT License', 'MIT License and mit', 'gpl or later', 'gpl-2.0 with classpath',
         'mit and (gpl-2.0 or MIT) and mit', 'mit or', '()', 'a$ and b', 'Classpath', 'foo bar and mit', 'mit and gpl-2.0 and mit',
         # repeats inside nested groups that keep two operands (what an in-place rewrite of a nested node would change)
         'mit or (gpl-2.0 and foo and gpl-2.0)', 'mit and (gpl-2.0 or (mit and foo and mit) or gpl-2.0)',
         '(mit or gpl-2.0) and (gpl-2.0 with classpath or mit or gpl-2.0 with classpath)',
         # alternating operators four levels deep (what a normal-form computation would rewrite)
         'mit and (gpl-2.0 or (foo and (bar or mit)))', 'gpl-2.0 or (mit and (foo or (bar and gpl-2.0)))']


def snap(e):
    return (impl.tree_c(e), str(e), [id(a) for a in getattr(e, 'args', ())], e.iscanonical)


class Prop(BaseProp):
    def case_random(self, rng):
        ninst = rng.randint(1, 3)
        insts = [rng.randrange(len(TABLES)) for _ in range(ninst)]
        ops = []
        for _ in range(rng.randint(5, 40 if rng.random() < 0.3 else 15)):
            kind = rng.choice(['parse', 'parse', 'keys', 'symbols', 'unknown', 'validate', 'equiv', 'contains', 'dedup', 'simplify', 'render',
                               'combine', 'construct', 'reparse', 'resimplify'])
            # the same texts in other letter cases too: known names resolve alike, unknown names keep the spelling of the text
            recase = lambda t: rng.choice([t, t, t.upper(), t.lower(), t.title(), t.swapcase()])  # noqa
            ops.append({'op': kind, 'inst': rng.randrange(ninst), 'text': recase(rng.choice(TEXTS)), 'text2': recase(rng.choice(TEXTS)),
                        'simple': rng.random() < 0.2, 'strict': rng.random() < 0.3, 'validate': rng.random() < 0.2,
                        'table': rng.randrange(len(TABLES)), 'unique': rng.random() < 0.5, 'shared': rng.random() < 0.4})
        return {'insts': insts, 'ops': ops}

    def answer(self, lic, op, shared):
        """the canonical answer of one query on one instance; `shared` maps texts to shared expression objects"""
        k = op['op']
        text = op['text']
        arg = shared.get(text, text) if op.get('shared') else text
        if k == 'parse':
            return impl.parse_c(lic, text, simple=op['simple'], strict=op['strict'], validate=op['validate'])
        if k == 'keys':
            return impl.outcome(lambda: lic.license_keys(arg, unique=op['unique']))
        if k == 'symbols':
            o = impl.outcome(lambda: lic.license_symbols(arg, unique=op['unique']))
            return [o[0], [impl.atom_c(s) for s in o[1]]] if P.is_ok(o) else o
        if k == 'unknown':
            return impl.outcome(lambda: lic.unknown_license_keys(arg, unique=op['unique']))
        if k == 'validate':
            if not text.strip():
                return T('blank')
            try:
                i = lic.validate(text, strict=op['strict'])
                return [T('info'), i.normalized_expression if i.normalized_expression is not None else T('none'), len(i.errors) > 0, list(i.invalid_symbols)]
            except BaseException as e:  # noqa
                return [T('other'), type(e).__name__]
        if k == 'equiv':
            return impl.outcome(lambda: lic.is_equivalent(arg, op['text2']))
        if k == 'contains':
            return impl.outcome(lambda: lic.contains(arg, op['text2']))
        if k == 'dedup':
            o = impl.outcome(lambda: lic.dedup(arg))
            return [o[0], impl.tree_c(o[1])] if P.is_ok(o) else o
        if k == 'simplify':
            o = impl.outcome(lambda: lic.parse(arg).simplify())
            return [o[0], impl.tree_c(o[1])] if P.is_ok(o) else o
        if k == 'render':
            o = impl.outcome(lambda: lic.parse(arg).render('<{symbol.key}>'))
            return o
        if k == 'combine':
            o = impl.outcome(lambda: le.combine_expressions([arg, op['text2']], relation='OR', unique=op['unique'], licensing=lic))
            return [o[0], impl.tree_c(o[1])] if P.is_ok(o) else o
        return None

    def model_answer(self, drv, table, op):
        k = op['op']
        text = op['text']
        if k == 'parse':
            return impl.model_outcome_c(drv.call(T('parse'), table, op['simple'], op['strict'], op['validate'], text))
        p = drv.call(T('parse'), table, False, False, False, text)
        if k == 'validate':
            m = drv.call(T('validate'), table, op['strict'], text)
            return [m[0], m[1], m[2] > 0, m[3]] if m[0] == 'info' else m
        if not P.is_ok(p):
            return None     # error class compared through the fresh instance only
        t = p[1]
        if k == 'keys':
            return [T('ok'), drv.call(T('keys'), t, op['unique'])]
        if k == 'symbols':
            return [T('ok'), drv.call(T('symbols'), t, op['unique'], True)]
        if k == 'unknown':
            return [T('ok'), drv.call(T('unknownkeys'), [e[0] for e in table], t, op['unique'])]
        if k == 'dedup':
            return [T('ok'), drv.call(T('dedup'), t)]
        if k == 'simplify':
            return [T('ok'), drv.call(T('simplify'), t)]
        if k == 'render':
            return [T('ok'), drv.call(T('rendert'), '<', '>', t)]
        if k in ('equiv', 'contains'):
            p2 = drv.call(T('parse'), table, False, False, False, op['text2'])
            if not P.is_ok(p2):
                return None
            return [T('ok'), bool(drv.call(T(k), t, p2[1]))]
        return None

    def eval_case(self, drv, case):
        insts = [le.Licensing(impl.table_objs(TABLES[i])) for i in case['insts']]
        # the same history on the Lean world of instances with cached tokenizers (parse and validate calls)
        wcalls, wgot = [], []
        shared = {}
        failed_before = False
        for n, op in enumerate(case['ops']):
            k = op['op']
            if k == 'construct':
                wcalls.append([T('construct'), TABLES[op['table']]])
                wgot.append(T('unit'))
                x = le.Licensing(impl.table_objs(TABLES[op['table']]))
                try:
                    x.parse(op['text'])
                except le.ExpressionError:
                    pass
                continue
            lic = insts[op['inst'] % len(insts)]
            table = TABLES[case['insts'][op['inst'] % len(insts)]]
            if k == 'resimplify':
                # a shared object that is the (canonical) result of simplify(): what later calls are handed
                o = impl.outcome(lambda: lic.parse(op['text']))
                if P.is_ok(o) and o[1] is not None:
                    shared[op['text']] = o[1].simplify()
                continue
            if k == 'reparse':
                o = impl.outcome(lambda: lic.parse(op['text']))
                if P.is_ok(o):
                    shared[op['text']] = o[1]
                    for who in (lic, insts[0], insts[-1]):
                        for simple in (False, True):
                            for strict in (False, True):
                                for validate in (False, True):
                                    r = impl.outcome(lambda: who.parse(o[1], simple=simple, strict=strict, validate=validate))
                                    if not (P.is_ok(r) and r[1] is o[1]):
                                        return Verdict('spec', case, 'parse(expression, simple=%s, strict=%s, validate=%s) does not return that very object (op %d)'
                                                       % (simple, strict, validate, n), impl=r[0] if not P.is_ok(r) else impl.tree_c(r[1]))
                continue
            before = {t: snap(e) for t, e in shared.items()}
            got = self.answer(lic, op, shared)
            for t, e in shared.items():
                if snap(e) != before[t]:
                    return Verdict('spec', case, 'an expression object changed during call %d (%s)' % (n, k), impl=[before[t][:2], snap(e)[:2]])
            fresh = le.Licensing(impl.table_objs(table))
            want = self.answer(fresh, op, shared)
            if got != want:
                return Verdict('spec', case, 'a used Licensing answers differently from a fresh one (op %d, %s)' % (n, k), impl=got, model=want)
            if not (isinstance(got, list) and got and got[0] == 'ok') and got not in (True, False):
                failed_before = True
            if k == 'parse':
                wcalls.append([T('parse'), op['inst'] % len(insts), op['simple'], op['strict'], op['validate'], op['text']])
                wgot.append(got)
            elif k == 'validate' and op['text'].strip():
                wcalls.append([T('validate'), op['inst'] % len(insts), op['strict'], op['text']])
                wgot.append([got[0], got[1], got[2], [P.fwords(x) for x in got[3]]] if isinstance(got, list) and got and got[0] == 'info' else got)
            if not op.get('shared') or op['text'] not in shared:
                m = self.model_answer(drv, table, op)
                if m is not None:
                    g = got
                    if isinstance(g, list) and g and g[0] == 'parseerr':
                        g = ['parseerr', g[1], P.fwords(g[2]), g[3]]
                    if isinstance(m, list) and m and m[0] == 'parseerr':
                        m = ['parseerr', m[1], P.fwords(m[2]), m[3]]
                    if isinstance(g, list) and g and g[0] == 'info':
                        g = [g[0], g[1], g[2], [P.fwords(x) for x in g[3]]]
                        m = [m[0], m[1], m[2], [P.fwords(x) for x in m[3]]]
                    if g != m:
                        return Verdict('spec', case, 'the answer differs from the answer in a pristine process (op %d, %s)' % (n, k), impl=got, model=m)
        if wcalls:
            wm = drv.call(T('world'), [TABLES[i] for i in case['insts']], wcalls)

            def norm(o):
                o = impl.model_outcome_c(o)
                if isinstance(o, list) and o and o[0] == 'parseerr':
                    return ['parseerr', o[1], P.fwords(o[2]), o[3]]
                if isinstance(o, list) and o and o[0] == 'info':
                    return [o[0], o[1], (o[2] > 0) if not isinstance(o[2], bool) else o[2], [P.fwords(x) if isinstance(x, str) else x for x in o[3]]]
                return o
            for i, (a, b) in enumerate(zip(wgot, wm)):
                if norm(a) != norm(b):
                    return Verdict('diverge', case, 'world model (call %d of the parse/validate/construct subsequence)' % i, impl=a, model=b)
        return Verdict('ok', case, nontrivial=len(insts) >= 2 or failed_before, tags=['ops=%d' % (len(case['ops']) // 10 * 10)])

    PRISTINE = '''
import json, sys
import license_expression as le
from license_expression import AND, OR, LicenseSymbol, LicenseWithExceptionSymbol
order = sys.argv[1]
def build():
    return [AND(LicenseSymbol('mit'), OR(LicenseSymbol('gpl'), LicenseSymbol('mit'))), OR(LicenseSymbol('gpl'), LicenseSymbol('mit'), LicenseSymbol('gpl')),
            AND(LicenseWithExceptionSymbol(LicenseSymbol('gpl'), LicenseSymbol('cp', is_exception=True)), LicenseSymbol('mit'))]
if order == 'expressions-first':
    es = build()
    l = le.Licensing(['mit', 'gpl'])
else:
    l = le.Licensing(['mit', 'gpl'])
    other = le.Licensing()
    es = build()
out = []
for e in es:
    for name, fn in (('str', lambda: str(e)), ('simplify', lambda: str(e.simplify())), ('dedup', lambda: str(l.dedup(e))),
                     ('is_equivalent', lambda: l.is_equivalent(e, e)), ('contains', lambda: l.contains(e, 'mit')),
                     ('license_keys', lambda: l.license_keys(e)), ('combine', lambda: str(le.combine_expressions([e, 'mit'])))):
        try:
            out.append([name, fn()])
        except Exception as x:
            out.append([name, 'raised ' + type(x).__name__])
print(json.dumps(out))
'''

    def pristine(self):
        """the answers on expressions built by hand from the public classes do not depend on whether any Licensing existed in the
        process when they were built: two fresh interpreters, the expressions built before / after the first Licensing"""
        import json as _json
        import os
        import subprocess
        import sys
        env = dict(os.environ, PYTHONPATH=impl.REPO_SRC)
        outs = {}
        for order in ('expressions-first', 'licensing-first'):
            p = subprocess.run([sys.executable, '-c', self.PRISTINE, order], capture_output=True, text=True, env=env, timeout=120)
            outs[order] = _json.loads(p.stdout) if p.returncode == 0 and p.stdout.strip() else 'exit %d: %s' % (p.returncode, p.stderr[-300:])
        case = {'pristine process': 'expressions built by hand before / after the first Licensing of the process'}
        if outs['expressions-first'] != outs['licensing-first'] or not isinstance(outs['licensing-first'], list):
            return Verdict('spec', case, 'answers on hand-built expressions depend on which Licensing instances were created before',
                           impl=outs['expressions-first'], model=outs['licensing-first'])
        return Verdict('ok', case, nontrivial=True, tags=['pristine-process'])

    def run(self, drv, rng, tier, index, nworkers, scale):
        n = self.budget(tier, 1200, 20000, nworkers, scale)
        if index == 0:
            self.record(self.pristine())
            for c in CORPUS:
                self.record(self.eval_case(drv, c))
        for _ in range(n):
            self.record(self.eval_case(drv, self.case_random(rng)))
        return self.res

    def replay(self, drv, data):
        v = data.get('first') or (data.get('diverging') or [None])[0]
        yield self.pristine() if 'pristine process' in v['case'] else self.eval_case(drv, v['case'])


def _op(kind, inst=0, text='gplv2 and expat', **kw):
    d = {'op': kind, 'inst': inst, 'text': text, 'text2': 'MIT', 'simple': False, 'strict': False, 'validate': False, 'table': 0, 'unique': True, 'shared': False}
    d.update(kw)
    return d


CORPUS = [
    {'insts': [0, 1], 'ops': [_op('parse', 0, 'GNU GPL 2 with cp or MIT'), _op('parse', 1, 'gplv2 and expat'), _op('parse', 1, 'MIT License and mit'), _op('validate', 1, 'GPL-2.0 with Classpath', strict=True)]},
    {'insts': [0, 2], 'ops': [_op('equiv', 0, 'gplv2', text2='GPL-2.0'), _op('equiv', 1, 'gplv2', text2='GPL-2.0'), _op('contains', 1, 'gplv2 and mit', text2='GPL-2.0')]},
    {'insts': [2], 'ops': [_op('keys', 0, 'mit and gpl'), _op('keys', 0, 'gpl and mit'), _op('symbols', 0, 'mit and gpl and mit', unique=False)]},
    {'insts': [0], 'ops': [_op('reparse', 0, 'mit and (gpl-2.0 or MIT) and mit'), _op('dedup', 0, 'mit and (gpl-2.0 or MIT) and mit', shared=True),
                           _op('simplify', 0, 'mit and (gpl-2.0 or MIT) and mit', shared=True), _op('render', 0, 'mit and (gpl-2.0 or MIT) and mit', shared=True)]},
]
