"""C10 - license key and symbol listings follow text order."""
import gen
import impl
import pipeline as P
from core import BaseProp, Verdict
from proto import T

RULE = ('random tables x grammar-derived texts with repeated licenses, the same operand sets in different orders, WITH pairs and '
        'unknown licenses (one case in ten: a table with a license whose key spells like a WITH pair next to that pair, so that two different entries render alike), each listing call (license_symbols, license_keys, primary_license_symbol, primary_license_key, '
        'unknown_license_symbols, unknown_license_keys) under every combination of unique / decompose, on the string and on the parsed '
        'object and on an expression parsed by another Licensing in another letter case, with earlier calls on permuted expressions in the same process; one table in three has aliases and the text names licenses by them; every listing of the string under simple=True / strict=True equals the listing of what parse returns under the same options; Spec: the listing is computed independently from '
        'the license tokens of Licensing.tokenize in text order; correspondence: every listing with the model. non-trivial = a '
        'license occurs twice or a WITH pair occurs; distinct by (table, text)')
ASSUMPTIONS = []


_PLAIN = []


def le_plain():
    if not _PLAIN:
        _PLAIN.append(impl.le.Licensing())
    return _PLAIN[0]


def uniq(l):
    out = []
    for x in l:
        if x not in out:
            out.append(x)
    return out


def decomp(a):
    if a[0] == 'with':
        return [[T('sym'), a[1], a[2]], [T('sym'), a[3], a[4]]]
    return [a]


def akey(a):
    return a[1] if a[0] == 'sym' else a[1] + ' WITH ' + a[3]


class Prop(BaseProp):
    def case_collide(self, rng):
        """a table with a single license whose key spells like a WITH pair, next to the two parts (one reachable through
        an alias): the text then holds the plain license 'X WITH Y' and the pair (X WITH Y), which render alike"""
        x, y = rng.sample(['gpl', 'cp', 'mit', 'x11'], 2)
        table = [[x, [x + '-only'], False], [y, [], rng.random() < 0.5], [x + ' WITH ' + y, [], False]]
        rng.shuffle(table)
        ops = [x + ' WITH ' + y, x + '-only with ' + y, x, y, x + '-only', 'foo']
        items = [rng.choice(ops[:2]) for _ in range(2)] + [rng.choice(ops) for _ in range(rng.randint(0, 3))]
        rng.shuffle(items)
        op = rng.choice([' and ', ' or ', ' AND '])
        return {'table': table, 'text': op.join(items), 'first': op.join(reversed(items))}

    def case_random(self, rng):
        if rng.random() < 0.1:
            return self.case_collide(rng)
        # one table in three has aliases, and the text then names some licenses by an alias
        table = gen.gen_table(rng, maxn=4, allow_op=False, aliases=rng.random() < 0.33)
        names = [k for k, _, _ in table] + [a for _, al, _ in table for a in al if a.strip() and '(' not in a and ')' not in a]
        rng.shuffle(names)
        keys = names[:4] + ['foo', 'zq bar', 'LicenseRef-zq9']      # unknown licenses, one of them spelled like a user-defined reference
        t = gen.gen_tree(rng, keys, depth=rng.randint(1, 3), maxar=4, with_p=0.25, flags=False)
        text = gen.tree_text(rng, t)
        # a permuted sibling listed first (a cache keyed on ==/hash of expressions would confuse the two)
        t2 = gen.rewrite(rng, t)
        return {'table': table, 'text': text, 'first': gen.tree_text(rng, t2)}

    def eval_case(self, drv, case):
        table, text = case['table'], case['text']
        if not impl.lower_is_charwise(text):
            return Verdict('skip', case)
        lic = P.licensing(table)
        il = impl.ltok_c(lic, text)
        impl.prewarm(lic, text, {})
        ip = impl.outcome(lambda: lic.parse(text))
        if not (P.is_ok(il) and P.is_ok(ip)):
            return Verdict('skip', case, tags=['unparsable'])
        try:
            lic.license_keys(case.get('first', text))
            lic.license_symbols(case.get('first', text), unique=False)
        except impl.le.ExpressionError:
            pass
        L = [a[1] for a in P.kinds_of_ptoks(il[1]) if a[0] == 'sym']
        tree = impl.tree_c(ip[1])
        known = [k for k, _, _ in table]
        reqs = []
        for arg_name, arg in (('string', text), ('object', ip[1])):
            for un in (True, False):
                D = [y for x in L for y in decomp(x)]
                for dec in (True, False):
                    base = D if dec else L
                    want = uniq(base) if un else base
                    got = [impl.atom_c(s) for s in lic.license_symbols(arg, unique=un, decompose=dec)]
                    if got != want:
                        return Verdict('spec', case, 'license_symbols(unique=%s, decompose=%s) on the %s' % (un, dec, arg_name), impl=got, model=want)
                    reqs.append(((T('symbols'), tree, un, dec), got))
                    ps = lic.primary_license_symbol(arg, decompose=dec)
                    wantp = (uniq(base) or [None])[0]
                    gotp = impl.atom_c(ps) if ps is not None else None
                    if gotp != wantp:
                        return Verdict('spec', case, 'primary_license_symbol(decompose=%s) on the %s' % (dec, arg_name), impl=gotp, model=wantp)
                wk = [akey(x) for x in D]
                wk = uniq(wk) if un else wk
                gk = lic.license_keys(arg, unique=un)
                if gk != wk:
                    return Verdict('spec', case, 'license_keys(unique=%s) on the %s' % (un, arg_name), impl=gk, model=wk)
                reqs.append(((T('keys'), tree, un), gk))
                wu = [x for x in (uniq(D) if un else D) if x[1] not in known]
                gu = [impl.atom_c(s) for s in lic.unknown_license_symbols(arg, unique=un)]
                if gu != wu:
                    return Verdict('spec', case, 'unknown_license_symbols(unique=%s) on the %s' % (un, arg_name), impl=gu, model=wu)
                reqs.append(((T('unknownsyms'), known, tree, un), gu))
                wuk = [x[1] for x in D if x[1] not in known]
                wuk = uniq(wuk) if un else wuk
                guk = lic.unknown_license_keys(arg, unique=un)
                if guk != wuk:
                    return Verdict('spec', case, 'unknown_license_keys(unique=%s) on the %s' % (un, arg_name), impl=guk, model=wuk)
                reqs.append(((T('unknownkeys'), known, tree, un), guk))
            pk = lic.primary_license_key(arg)
            wpk = ([akey(x) for x in uniq([y for x in L for y in decomp(x)])] or [None])[0]
            if pk != wpk:
                return Verdict('spec', case, 'primary_license_key on the %s' % arg_name, impl=pk, model=wpk)
        # an expression parsed elsewhere (another Licensing, other letter case): the listings read only the expression and the table
        foreign_text = text.swapcase() if impl.lower_is_charwise(text.swapcase()) and text.swapcase().lower() == text.lower() else text
        fo = impl.outcome(lambda: le_plain().parse(foreign_text))
        if P.is_ok(fo):
            fe = fo[1]
            FL = [impl.atom_c(s) for s in fe.get_literals()]
            FD = [y for x in FL for y in decomp(x)]
            for un in (True, False):
                wu = [x for x in (uniq(FD) if un else FD) if x[1] not in known]
                gu = [impl.atom_c(s) for s in lic.unknown_license_symbols(fe, unique=un)]
                if gu != wu:
                    return Verdict('spec', dict(case, foreign=foreign_text), 'unknown_license_symbols(unique=%s) on an expression parsed elsewhere' % un, impl=gu, model=wu)
                wuk = [x[1] for x in FD if x[1] not in known]
                wuk = uniq(wuk) if un else wuk
                guk = lic.unknown_license_keys(fe, unique=un)
                if guk != wuk:
                    return Verdict('spec', dict(case, foreign=foreign_text), 'unknown_license_keys(unique=%s) on an expression parsed elsewhere' % un, impl=guk, model=wuk)
                wk = [akey(x) for x in FD]
                wk = uniq(wk) if un else wk
                if lic.license_keys(fe, unique=un) != wk:
                    return Verdict('spec', dict(case, foreign=foreign_text), 'license_keys(unique=%s) on an expression parsed elsewhere' % un, impl=lic.license_keys(fe, unique=un), model=wk)
        # the options of a listing call are handed down to parse(): the listing of a string under simple=True / strict=True is
        # the listing of the expression parse(text, simple=True / strict=True) returns (or the same error)
        calls = [('license_symbols', lambda a, **kw: [impl.atom_c(x) for x in lic.license_symbols(a, unique=False, **kw)]),
                 ('license_keys', lambda a, **kw: lic.license_keys(a, unique=False, **kw)),
                 ('unknown_license_symbols', lambda a, **kw: [impl.atom_c(x) for x in lic.unknown_license_symbols(a, unique=False, **kw)]),
                 ('unknown_license_keys', lambda a, **kw: lic.unknown_license_keys(a, unique=True, **kw)),
                 ('primary_license_key', lambda a, **kw: lic.primary_license_key(a, **kw))]
        for kw in ({'simple': True}, {'strict': True}, {'simple': True, 'strict': True}):
            po = impl.outcome(lambda: lic.parse(text, **kw))
            for name, fn in calls:
                so = impl.outcome(lambda: fn(text, **kw))
                if P.is_ok(po):
                    wanto = impl.outcome(lambda: fn(po[1]))
                    if so != wanto:
                        return Verdict('spec', dict(case, options=kw), '%s(text, **options) is not %s of parse(text, **options)' % (name, name), impl=so, model=wanto)
                elif P.is_ok(so):
                    return Verdict('spec', dict(case, options=kw), '%s(text, **options) answers although parse(text, **options) raises' % name, impl=so, model=po[:2])
        rep = drv.call_many([r for r, _ in reqs])
        for (r, got), m in zip(reqs, rep):
            if got != m:
                return Verdict('diverge', case, str(r[0]), impl=got, model=m)
        nt = len(L) != len(uniq(L)) or any(a[0] == 'with' for a in L)
        return Verdict('ok', case, impl=[impl.atom_c(s) for s in lic.license_symbols(text)], nontrivial=nt, tags=['licenses=%d' % min(len(L), 8)])

    def run(self, drv, rng, tier, index, nworkers, scale):
        n = self.budget(tier, 3000, 50000, nworkers, scale)
        if index == 0:
            for c in CORPUS:
                self.record(self.eval_case(drv, c))
        for _ in range(n):
            self.record(self.eval_case(drv, self.case_random(rng)))
        return self.res

    def replay(self, drv, data):
        v = data.get('first') or (data.get('diverging') or [None])[0]
        yield self.eval_case(drv, v['case'])


CORPUS = [
    {'table': [], 'text': 'gpl and mit', 'first': 'mit and gpl'},
    {'table': [], 'text': 'mit and gpl and mit', 'first': 'mit and gpl'},
    {'table': [['mit', [], False]], 'text': ' GPL-2.0 and mit+ with blabla and mit or LGPL-2.1 and mit and mit+ with GPL-2.0', 'first': 'mit'},
]
