"""C12 - strict mode enforces the license WITH exception roles exactly."""
import itertools

import gen
import impl
import pipeline as P
from core import BaseProp, Verdict
from proto import T

RULE = ('random tables under random assignments of the exception flags (and, exhaustively, every assignment for tables of <= 4 '
        'symbols) x texts with WITH in every position (valid, misplaced, chained, in parentheses), default and simple tokenizer; three tables in ten given as symbol-like user objects (wrapped by Licensing) instead of LicenseSymbols; roles judged by the flags of the table as given; half of the tables write their flags as a loader or user object may (empty string / None / 0 for no, a string / 1 for yes); '
        'Spec on the real code: strict accepted <=> non-strict accepted and every WITH has a non-exception on the left and an '
        'exception on the right and no exception stands alone; accepted => same result; rejected for roles => code 101/102 and the '
        'token is an offending license at its position; non-strict outcome does not depend on the flags. Correspondence: outcomes with '
        'the model. non-trivial = the text contains a WITH or an exception symbol; distinct by (table, text, simple)')
ASSUMPTIONS = ['unknown licenses count as non-exceptions']


def roles(ptoks, table):
    """the licenses whose role is wrong *by the flags of the table* (an unknown license is not an exception)"""
    flag = {k: bool(ex) for k, al, ex in table}
    bad = []
    for p in ptoks:
        p = list(p)
        if p[0] == 'sym':
            p[2] = flag.get(p[1], False)
        elif p[0] == 'with':
            p[2], p[4] = flag.get(p[1], False), flag.get(p[3], False)
        if p[0] == 'sym' and p[2]:
            bad.append(('bare', p))
        elif p[0] == 'with':
            if p[2]:
                bad.append(('left', p))
            if not p[4]:
                bad.append(('right', p))
    return bad


def flip(table, mask):
    return [[k, al, bool((mask >> i) & 1)] for i, (k, al, ex) in enumerate(table)]


def strip_flags(t):
    if isinstance(t, list):
        if t and t[0] == 'sym':
            return [t[0], t[1]]
        if t and t[0] == 'with':
            return [t[0], t[1], t[3]]
        return [strip_flags(x) for x in t]
    return t


class Prop(BaseProp):
    def case_random(self, rng):
        table = gen.gen_table(rng, maxn=4, allow_op=rng.random() < 0.3)
        names = gen.names_of(table)
        if rng.random() < 0.5:
            keys = [k for k, _, _ in table if not set(k.lower().split()) & {'and', 'or', 'with'}] + ['zq', 'foo']
            t = gen.gen_tree(rng, keys, depth=rng.randint(0, 2), maxar=3, with_p=0.5, flags=False)
            return {'table': table, 'text': gen.tree_text(rng, t), 'simple': rng.random() < 0.2, 'mask': rng.randrange(16), 'records': rng.random() < 0.3, 'flagstyle': rng.choice([None, None, None, 'empty', 'none', 'int'])}
        n = rng.randint(1, 7)
        items = []
        for _ in range(n):
            r = rng.random()
            if r < 0.5:
                items.append(gen.variant(rng, rng.choice(names)) if names and rng.random() < 0.75 else rng.choice(['zq', 'foo', 'u1', 'AdditionRef-x', 'LicenseRef-y']))
            elif r < 0.75:
                items.append(gen.recase(rng, 'with'))
            elif r < 0.9:
                items.append(gen.recase(rng, rng.choice(['and', 'or'])))
            else:
                items.append(rng.choice('()'))
        text = ' '.join(items) if rng.random() < 0.7 else gen.blank_run(rng).join(items)
        return {'table': table, 'text': text, 'simple': rng.random() < 0.3, 'mask': rng.randrange(16), 'records': rng.random() < 0.3, 'flagstyle': rng.choice([None, None, None, 'empty', 'none', 'int'])}

    def eval_case(self, drv, case):
        table, text, simple = case['table'], case['text'], case['simple']
        if not impl.lower_is_charwise(text):
            return Verdict('skip', case)
        style = case.get('flagstyle')
        if style:
            # the same table with its flags written as a loader or a user object may write them: '' / None / 0 for no, 'yes' / 1 for yes
            no, yes = {'empty': ('', 'yes'), 'none': (None, 1), 'int': (0, 1)}[style]
            rows = [(k, al, yes if ex else no) for k, al, ex in table]
            lic = impl.le.Licensing(impl.table_records(rows) if case.get('records') else [impl.le.LicenseSymbol(k, aliases=tuple(al), is_exception=ex) for k, al, ex in rows])
        else:
            lic = P.licensing(table, records=bool(case.get('records')))
        lax = impl.parse_c(lic, text, strict=False, simple=simple)
        strict = impl.parse_c(lic, text, strict=True, simple=simple)
        il = impl.ltok_c(lic, text, strict=False, simple=simple)
        tags = ['lax=' + P.err_class(lax), 'strict=' + P.err_class(strict)]
        for o in (lax, strict):
            if P.err_class(o) == 'other':
                return Verdict('spec', case, 'foreign exception ' + o[1], impl=[lax, strict], tags=tags)
        bad = roles(il[1], table) if P.is_ok(il) else []
        nontrivial = P.is_ok(il) and any(p[0] == 'with' or (p[0] == 'sym' and p[2]) for p in il[1])
        if P.is_ok(strict):
            if not P.is_ok(lax) or bad:
                return Verdict('spec', case, 'strict accepts what the roles forbid', impl=[lax, strict], tags=tags)
            if strict != lax:
                return Verdict('spec', case, 'strict result differs from the non-strict result', impl=[lax, strict], tags=tags)
        else:
            if P.is_ok(lax) and not bad:
                return Verdict('spec', case, 'strict rejects an expression whose roles are right', impl=[lax, strict], tags=tags)
            if P.is_ok(lax) and bad:
                if P.err_class(strict) != 'parseerr' or strict[1] not in (impl.le.PARSE_INVALID_EXCEPTION, impl.le.PARSE_INVALID_SYMBOL_AS_EXCEPTION):
                    return Verdict('spec', case, 'role error is not reported as such', impl=[lax, strict], tags=tags)
                pos, tstr = strict[3], strict[2]
                starts = P.word_starts(text)
                if pos not in starts or P.fwords(text[pos:])[:len(P.fwords(tstr))] != P.fwords(tstr):
                    return Verdict('spec', case, 'error token is not at its position', impl=[lax, strict], tags=tags)
                # the position lies inside an offending token
                inside = False
                for kind, p in bad:
                    wi = starts.index(p[-1]) if p[-1] in starts else None
                    if wi is None:
                        continue
                    nw = len(P.fwords(p[-2]))
                    if pos in starts[wi:wi + nw]:
                        inside = True
                if not inside:
                    return Verdict('spec', case, 'error does not name an offending license', impl=[lax, strict, bad], tags=tags)
        # non-strict parsing does not read the flags
        t2 = flip(table, case.get('mask', 0))
        lax2 = impl.parse_c(P.licensing(t2), text, strict=False, simple=simple)
        if strip_flags(lax2) != strip_flags(lax):
            return Verdict('spec', case, 'non-strict outcome depends on the exception flags', impl=[lax, lax2], tags=tags)
        ml, ms = drv.call_many([(T('parse'), table, simple, False, False, text), (T('parse'), table, simple, True, False, text)])
        ml, ms = impl.model_outcome_c(ml), impl.model_outcome_c(ms)

        def proj(o):
            if P.err_class(o) == 'parseerr':
                return ['parseerr', o[1], P.fwords(o[2]), o[3]]
            return o
        if proj(lax) != proj(ml) or proj(strict) != proj(ms):
            return Verdict('diverge', case, 'Licensing.parse', impl=[lax, strict], model=[ml, ms], tags=tags)
        return Verdict('ok', case, impl=[lax, strict], nontrivial=nontrivial, tags=tags)

    def exhaustive(self, drv, index, nworkers):
        base = [['a', [], False], ['b', [], False], ['c d', ['cd'], False]]
        texts = ['a', 'a with b', 'b with a', 'a with b with c d', 'a and b with cd', '(a with b) or c d', 'a with (b)', 'cd with cd',
                 'a with zq', 'zq with a', 'a or b', 'with a', 'a with', 'a b with a', 'c  d WITH  a and b']
        count = 0
        k = 0
        for mask in range(8):
            for text in texts:
                for simple in (False, True):
                    k += 1
                    if k % nworkers != index:
                        continue
                    self.record(self.eval_case(drv, {'table': flip(base, mask), 'text': text, 'simple': simple, 'mask': (mask * 5 + 3) % 8}))
                    count += 1
        self.res['exhaustive'].append({'scope': 'all 8 flag assignments of a 3-symbol table x 15 WITH shapes x 2 tokenizers', 'cases': count, 'complete': True, 'worker': index})

    def run(self, drv, rng, tier, index, nworkers, scale):
        n = self.budget(tier, 5000, 80000, nworkers, scale)
        if index == 0:
            for c in CORPUS:
                self.record(self.eval_case(drv, c))
        for _ in range(n):
            self.record(self.eval_case(drv, self.case_random(rng)))
        self.exhaustive(drv, index, nworkers)
        return self.res

    def replay(self, drv, data):
        v = data.get('first') or (data.get('diverging') or [None])[0]
        yield self.eval_case(drv, v['case'])


CORPUS = [
    {'table': [['Classpath-exception-2.0', [], True], ['GPL-2.0', [], False]], 'text': 'Classpath-exception-2.0', 'simple': False, 'mask': 0},
    {'table': [['Classpath-exception-2.0', [], True], ['GPL-2.0', [], False]], 'text': ' Classpath-exception-2.0 ', 'simple': False, 'mask': 1},
    {'table': [['cp', [], True], ['gpl', [], False]], 'text': 'gpl with cp and cp with gpl', 'simple': False, 'mask': 2},
]
