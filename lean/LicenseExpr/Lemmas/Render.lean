import LicenseExpr.Lemmas.BParse
/-!
# Lemmas/Render — the token list that rendering produces parses back to the same tree
-/
namespace LE
namespace BP
variable {α : Type}

/-- join with a separator token -/
def joinT (sep : Tok α) : List (List (Tok α)) → List (Tok α)
  | [] => []
  | [x] => x
  | x :: y :: r => x ++ sep :: joinT sep (y :: r)

def opTok : Op → Tok α | .and => .and | .or => .or

variable (p : α → Bool)

mutual
/-- the token skeleton of `render`: operands that are not literals are parenthesised; `p a` says
    whether the literal `a` is parenthesised too (the readable rendering does that for WITH pairs) -/
def toksOf : Expr α → List (Tok α)
  | .atom a => [.sym a]
  | .node op es => joinT (opTok op) (wrapAll es)
def wrapAll : List (Expr α) → List (List (Tok α))
  | [] => []
  | e :: es => wrap e :: wrapAll es
def wrap : Expr α → List (Tok α)
  | .atom a => if p a then [.lpar, .sym a, .rpar] else [.sym a]
  | .node op es => .lpar :: (joinT (opTok op) (wrapAll es) ++ [.rpar])
end

mutual
/-- every AND/OR node has at least two operands -/
def WFE : Expr α → Prop
  | .atom _ => True
  | .node _ es => 2 ≤ es.length ∧ WFL es
def WFL : List (Expr α) → Prop
  | [] => True
  | e :: es => WFE e ∧ WFL es
end

omit p in
theorem andP_cons {ts : List (Tok α)} {e} (hp : Prim ts e) :
    ∀ {ts' es}, AndP ts' es → AndP (ts ++ .and :: ts') (e :: es)
  | _, _, .one h => by simpa using AndP.snoc (AndP.one hp) h
  | _, _, .snoc h1 h2 => by
    have := AndP.snoc (andP_cons hp h1) h2
    simpa [List.append_assoc] using this

omit p in
theorem orP_cons {ts : List (Tok α)} {es} (hp : AndP ts es) :
    ∀ {ts' gs}, OrP ts' gs → OrP (ts ++ .or :: ts') (es :: gs)
  | _, _, .one h => by simpa using OrP.snoc (OrP.one hp) h
  | _, _, .snoc h1 h2 => by
    have := OrP.snoc (orP_cons hp h1) h2
    simpa [List.append_assoc] using this

theorem andP_join : ∀ (es : List (Expr α)), es ≠ [] → (∀ e ∈ es, Prim (wrap p e) e) →
    AndP (joinT .and (wrapAll p es)) es
  | [e], _, h => by simpa [wrapAll, joinT] using AndP.one (h e (by simp))
  | e :: f :: es, _, h => by
    have ih := andP_join (f :: es) (by simp) (fun x hx => h x (List.mem_cons_of_mem _ hx))
    simpa [wrapAll, joinT] using andP_cons (h e (by simp)) ih

theorem orP_join : ∀ (es : List (Expr α)), es ≠ [] → (∀ e ∈ es, Prim (wrap p e) e) →
    OrP (joinT .or (wrapAll p es)) (es.map (fun e => [e]))
  | [e], _, h => by simpa [wrapAll, joinT] using OrP.one (AndP.one (h e (by simp)))
  | e :: f :: es, _, h => by
    have ih := orP_join (f :: es) (by simp) (fun x hx => h x (List.mem_cons_of_mem _ hx))
    simpa [wrapAll, joinT] using orP_cons (AndP.one (h e (by simp))) ih

omit p in
theorem WFL_mem : ∀ (es : List (Expr α)), WFL es → ∀ e ∈ es, WFE e
  | [], _, _, h => by simp at h
  | x :: xs, hw, e, h => by
    simp only [WFL] at hw
    simp only [List.mem_cons] at h
    rcases h with rfl | h
    · exact hw.1
    · exact WFL_mem xs hw.2 e h

omit p in
theorem orVal_singletons (es : List (Expr α)) (h : 2 ≤ es.length) : orVal (es.map (fun e => [e])) = .node .or es := by
  match es, h with
  | a :: b :: r, _ => simp [orVal, vals, andVal, Function.comp_def]

omit p in
theorem andVal_many (es : List (Expr α)) (h : 2 ≤ es.length) : andVal es = .node .and es := by
  match es, h with
  | a :: b :: r, _ => simp [andVal]

mutual
/-- the rendering of a well-formed tree is derivable from the grammar with that tree as its value -/
theorem toks_derives : ∀ (e : Expr α), WFE e → ∃ gs, OrP (toksOf p e) gs ∧ orVal gs = e
  | .atom a, _ => ⟨[[.atom a]], .one (.one (.sym a)), by simp [orVal, andVal]⟩
  | .node .and es, hw => by
    simp only [WFE] at hw
    have hp : ∀ e ∈ es, Prim (wrap p e) e := fun e he => wrap_prim e (WFL_mem es hw.2 e he)
    have hne : es ≠ [] := by intro h; simp [h] at hw
    exact ⟨[es], by simpa [toksOf, opTok] using OrP.one (andP_join p es hne hp), by simp [orVal, andVal_many es hw.1]⟩
  | .node .or es, hw => by
    simp only [WFE] at hw
    have hp : ∀ e ∈ es, Prim (wrap p e) e := fun e he => wrap_prim e (WFL_mem es hw.2 e he)
    have hne : es ≠ [] := by intro h; simp [h] at hw
    exact ⟨es.map (fun e => [e]), by simpa [toksOf, opTok] using orP_join p es hne hp, orVal_singletons es hw.1⟩
termination_by e => (sizeOf e, 0)
/-- every operand as rendered (parenthesised unless a literal) is a primary with that operand as its value -/
theorem wrap_prim : ∀ (e : Expr α), WFE e → Prim (wrap p e) e
  | .atom a, _ => by
    unfold wrap
    split
    · have := Prim.paren (OrP.one (AndP.one (Prim.sym a)))
      simpa [orVal, andVal] using this
    · exact Prim.sym a
  | .node op es, hw => by
    obtain ⟨gs, h1, h2⟩ := toks_derives (.node op es) hw
    have := Prim.paren h1
    rw [h2] at this
    simpa [wrap, toksOf] using this
termination_by e => (sizeOf e, 1)
end

/-- parsing the rendering of a well-formed tree returns that tree -/
theorem parse_render (e : Expr α) (h : WFE e) : parse (toksOf p e) = .ok e := by
  obtain ⟨gs, h1, h2⟩ := toks_derives p e h
  have := complete h1
  rw [h2] at this; exact this

end BP
end LE

namespace LE
namespace BP
variable {α : Type}

/-- the text of one token under a rendering `f` of the literals -/
def tokStr (f : α → Str) : Tok α → Str
  | .sym a => f a
  | .and => Op.text .and
  | .or => Op.text .or
  | .lpar => [LPAR]
  | .rpar => [RPAR]

/-- the text of a token list: tokens written one after the other (operators carry their own blanks) -/
def detok (f : α → Str) (ts : List (Tok α)) : Str := (ts.map (tokStr f)).flatten

theorem detok_append (f : α → Str) (a b : List (Tok α)) : detok f (a ++ b) = detok f a ++ detok f b := by
  simp [detok]

theorem detok_joinT (f : α → Str) (op : Op) (xs : List (List (Tok α))) :
    detok f (joinT (opTok op) xs) = joinStr op.text (xs.map (detok f)) := by
  match xs with
  | [] => simp [joinT, joinStr, detok]
  | [x] => simp [joinT, joinStr]
  | x :: y :: r =>
    have ih := detok_joinT f op (y :: r)
    simp only [joinT, List.map_cons, joinStr] at ih ⊢
    rw [detok_append]
    have : detok f (opTok op :: joinT (opTok op) (y :: r)) = op.text ++ detok f (joinT (opTok op) (y :: r)) := by
      cases op <;> simp [detok, tokStr, opTok]
    rw [this, ih]
    simp [List.append_assoc]

mutual
/-- rendering is the text of the token skeleton: with literals rendered by `f`, and by
    `"(" ++ f a ++ ")"` where `p a` asks for parentheses -/
theorem renderWith_detok (f : α → Str) (p : α → Bool) (g : α → Str)
    (hg : ∀ a, g a = if p a then [LPAR] ++ f a ++ [RPAR] else f a) :
    ∀ (op : Op) (es : List (Expr α)), renderWith g (.node op es) = detok f (toksOf p (.node op es))
  | op, es => by
    rw [renderWith, toksOf, detok_joinT, renderArgs_detok f p g hg es]
theorem renderArgs_detok (f : α → Str) (p : α → Bool) (g : α → Str)
    (hg : ∀ a, g a = if p a then [LPAR] ++ f a ++ [RPAR] else f a) :
    ∀ (es : List (Expr α)), renderArgs g es = (wrapAll p es).map (detok f)
  | [] => by simp [renderArgs, wrapAll]
  | e :: es => by
    rw [renderArgs, wrapAll, List.map_cons, renderArg_detok f p g hg e, renderArgs_detok f p g hg es]
theorem renderArg_detok (f : α → Str) (p : α → Bool) (g : α → Str)
    (hg : ∀ a, g a = if p a then [LPAR] ++ f a ++ [RPAR] else f a) :
    ∀ (e : Expr α), renderArg g e = detok f (wrap p e)
  | .atom a => by
    rw [renderArg, wrap, hg]
    split <;> simp [detok, tokStr]
  | .node op es => by
    rw [renderArg, wrap]
    have := renderArgs_detok f p g hg es
    rw [this]
    simp only [List.cons_append]
    rw [show (Tok.lpar :: (joinT (opTok op) (wrapAll p es) ++ [Tok.rpar])) = [Tok.lpar] ++ joinT (opTok op) (wrapAll p es) ++ [Tok.rpar] by simp]
    rw [detok_append, detok_append, detok_joinT]
    simp [detok, tokStr]
end

end BP
end LE
