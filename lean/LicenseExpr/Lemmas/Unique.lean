import LicenseExpr.Model.Dedup
/-!
# Lemmas/Unique — `ordered_unique` as the source writes it: first occurrences, in order, no duplicates;
it commutes with filtering
-/
namespace LE
variable {β : Type} [DecidableEq β]

theorem ouAcc_mem (acc l : List β) : ∀ x, x ∈ orderedUniqueAcc acc l ↔ x ∈ acc ∨ x ∈ l := by
  fun_induction orderedUniqueAcc acc l <;> simp_all
  all_goals grind

theorem ouAcc_nodup (acc l : List β) (h : acc.Nodup) : (orderedUniqueAcc acc l).Nodup := by
  fun_induction orderedUniqueAcc acc l
  · exact h
  · next acc x xs hx ih => exact ih h
  · next acc x xs hx ih =>
    apply ih
    rw [List.nodup_append]
    refine ⟨h, by simp, ?_⟩
    intro a ha b hb
    simp at hb; subst hb
    intro hab; subst hab
    simp at hx; exact hx ha

/-- the accumulator is a prefix of the result: what was kept stays, in order -/
theorem ouAcc_prefix (acc l : List β) : acc <+: orderedUniqueAcc acc l := by
  fun_induction orderedUniqueAcc acc l
  · exact List.prefix_refl _
  · next acc x xs hx ih => exact ih
  · next acc x xs hx ih => exact List.IsPrefix.trans (List.prefix_append _ _) ih

/-- the result beyond the accumulator is a subsequence of the input: order of first appearance -/
theorem ouAcc_sublist (acc l : List β) : ∃ r, orderedUniqueAcc acc l = acc ++ r ∧ r.Sublist l := by
  fun_induction orderedUniqueAcc acc l
  · exact ⟨[], by simp, List.Sublist.refl _⟩
  · next acc x xs hx ih =>
    obtain ⟨r, h1, h2⟩ := ih
    exact ⟨r, h1, List.Sublist.cons _ h2⟩
  · next acc x xs hx ih =>
    obtain ⟨r, h1, h2⟩ := ih
    exact ⟨x :: r, by simp [h1], List.Sublist.cons_cons _ h2⟩

/-- filtering commutes with order-preserving uniqueness -/
theorem ouAcc_filter (p : β → Bool) (acc l : List β) :
    (orderedUniqueAcc acc l).filter p = orderedUniqueAcc (acc.filter p) (l.filter p) := by
  fun_induction orderedUniqueAcc acc l
  · simp [orderedUniqueAcc]
  · next acc x xs hx ih =>
    rw [ih]
    by_cases hp : p x = true
    · have : (acc.filter p).contains x = true := by simp at hx ⊢; exact ⟨hx, hp⟩
      rw [List.filter_cons, if_pos hp, orderedUniqueAcc, if_pos this]
    · simp [List.filter_cons, hp]
  · next acc x xs hx ih =>
    rw [ih]
    by_cases hp : p x = true
    · have : ¬ (acc.filter p).contains x = true := by
        simp at hx ⊢; intro h; exact absurd h hx
      rw [List.filter_cons, if_pos hp, orderedUniqueAcc, if_neg this]
      simp [List.filter_append, hp]
    · simp [List.filter_cons, hp, List.filter_append]

end LE
