import LicenseExpr.Model.Simplify
/-!
# Lemmas/Simplify — truth preservation of every rule of `simp`
-/
namespace LE
variable {A : Type} [DecidableEq A]

theorem eqE_eval (v : A → Bool) (x y : Expr A) (h : eqE x y = true) : eval v x = eval v y := by
  fun_induction eqE x y
  · simp_all [eval]
  · next o1 as o2 bs ih1 ih2 =>
    simp only [Bool.and_eq_true, beq_iff_eq, List.all_eq_true, List.any_eq_true, List.mem_attach,
      true_and, Subtype.forall, Subtype.exists] at h
    obtain ⟨⟨rfl, h1⟩, h2⟩ := h
    simp only [eval]
    cases o1 <;> simp only [evalOp]
    · rw [Bool.eq_iff_iff]
      simp only [List.all_eq_true, List.mem_map, id]
      constructor
      · rintro H _ ⟨b, hb, rfl⟩
        obtain ⟨a, ha, hab⟩ := h2 b hb trivial
        rw [ih2 ⟨b, hb⟩ ⟨a, ha⟩ hab]
        exact H _ ⟨a, ha, rfl⟩
      · rintro H _ ⟨a, ha, rfl⟩
        obtain ⟨b, hb, hab⟩ := h1 a ha trivial
        rw [ih1 ⟨a, ha⟩ ⟨b, hb⟩ hab]
        exact H _ ⟨b, hb, rfl⟩
    · rw [Bool.eq_iff_iff]
      simp only [List.any_eq_true, List.mem_map, id]
      constructor
      · rintro ⟨_, ⟨a, ha, rfl⟩, hv⟩
        obtain ⟨b, hb, hab⟩ := h1 a ha trivial
        exact ⟨_, ⟨b, hb, rfl⟩, by rw [← ih1 ⟨a, ha⟩ ⟨b, hb⟩ hab]; exact hv⟩
      · rintro ⟨_, ⟨b, hb, rfl⟩, hv⟩
        obtain ⟨a, ha, hab⟩ := h2 b hb trivial
        exact ⟨_, ⟨a, ha, rfl⟩, by rw [← ih2 ⟨b, hb⟩ ⟨a, ha⟩ hab]; exact hv⟩
  · simp_all

def evalL (op : Op) (v : A → Bool) (l : List (Expr A)) : Bool := evalOp op (l.map (eval v))

theorem evalL_and (v : A → Bool) (l : List (Expr A)) : evalL .and v l = true ↔ ∀ x ∈ l, eval v x = true := by
  simp [evalL, evalOp]

theorem evalL_or (v : A → Bool) (l : List (Expr A)) : evalL .or v l = true ↔ ∃ x ∈ l, eval v x = true := by
  simp [evalL, evalOp]

theorem eval_node (v : A → Bool) (op : Op) (l : List (Expr A)) : eval v (.node op l) = evalL op v l := by
  simp [eval, evalL]

/-- `y` makes `x` redundant under `op` -/
def Covers (op : Op) (v : A → Bool) (y x : Expr A) : Prop :=
  match op with
  | .and => eval v y = true → eval v x = true
  | .or => eval v x = true → eval v y = true

/-- two lists with the same semantics under `op`: each element of one is covered by an element of the other -/
theorem evalL_congr (op : Op) (v : A → Bool) (l l' : List (Expr A))
    (h1 : ∀ x ∈ l, ∃ y ∈ l', Covers op v y x) (h2 : ∀ y ∈ l', ∃ x ∈ l, Covers op v x y) :
    evalL op v l = evalL op v l' := by
  rw [Bool.eq_iff_iff]
  cases op
  · simp only [evalL_and]
    constructor
    · intro H y hy
      obtain ⟨x, hx, hc⟩ := h2 y hy
      exact hc (H x hx)
    · intro H x hx
      obtain ⟨y, hy, hc⟩ := h1 x hx
      exact hc (H y hy)
  · simp only [evalL_or]
    constructor
    · rintro ⟨x, hx, hv⟩
      obtain ⟨y, hy, hc⟩ := h1 x hx
      exact ⟨y, hy, hc hv⟩
    · rintro ⟨y, hy, hv⟩
      obtain ⟨x, hx, hc⟩ := h2 y hy
      exact ⟨x, hx, hc hv⟩

theorem covers_refl (op : Op) (v : A → Bool) (x : Expr A) : Covers op v x x := by
  cases op <;> simp [Covers]

theorem covers_of_eq (op : Op) (v : A → Bool) (x y : Expr A) (h : eval v x = eval v y) : Covers op v y x := by
  cases op <;> simp [Covers, h]

theorem evalL_append (op : Op) (v : A → Bool) (l₁ l₂ : List (Expr A)) :
    evalL op v (l₁ ++ l₂) = (match op with | .and => evalL op v l₁ && evalL op v l₂ | .or => evalL op v l₁ || evalL op v l₂) := by
  cases op <;> simp [evalL, evalOp]

theorem evalL_cons (op : Op) (v : A → Bool) (x : Expr A) (l : List (Expr A)) :
    evalL op v (x :: l) = (match op with | .and => eval v x && evalL op v l | .or => eval v x || evalL op v l) := by
  cases op <;> simp [evalL, evalOp]

theorem flatten1_eval (op : Op) (v : A → Bool) (l : List (Expr A)) :
    evalL op v (flatten1 op l) = evalL op v l := by
  fun_induction flatten1 op l <;> simp_all [evalL_append, evalL_cons, eval_node]

theorem memE_covers (v : A → Bool) (x : Expr A) (l : List (Expr A)) (h : memE x l = true) :
    ∃ y ∈ l, eval v x = eval v y := by
  simp only [memE, List.any_eq_true] at h
  obtain ⟨y, hy, he⟩ := h
  exact ⟨y, hy, eqE_eval v x y he⟩

theorem dedupAux_sub (seen l : List (Expr A)) : ∀ x ∈ dedupAux seen l, x ∈ l := by
  fun_induction dedupAux seen l <;> simp_all
  all_goals grind

theorem dedupAux_cover (v : A → Bool) (seen l : List (Expr A)) :
    ∀ x ∈ l, ∃ y ∈ seen ++ dedupAux seen l, eval v x = eval v y := by
  fun_induction dedupAux seen l
  · simp
  · next seen a r h ih =>
    intro x hx
    simp only [List.mem_cons] at hx
    rcases hx with rfl | hx
    · obtain ⟨y, hy, he⟩ := memE_covers v x seen h
      exact ⟨y, List.mem_append_left _ hy, he⟩
    · exact ih x hx
  · next seen a r h ih =>
    intro x hx
    simp only [List.mem_cons] at hx
    rcases hx with rfl | hx
    · exact ⟨x, by simp, rfl⟩
    · obtain ⟨y, hy, he⟩ := ih x hx
      exact ⟨y, by simp at hy ⊢; grind, he⟩

theorem dedup_eval (op : Op) (v : A → Bool) (l : List (Expr A)) :
    evalL op v (dedupAux [] l) = evalL op v l := by
  apply evalL_congr
  · intro x hx
    exact ⟨x, dedupAux_sub [] l x hx, covers_refl op v x⟩
  · intro y hy
    obtain ⟨x, hx, he⟩ := dedupAux_cover v [] l y hy
    exact ⟨x, by simpa using hx, covers_of_eq op v y x he⟩

theorem containsE_covers (op : Op) (v : A → Bool) (t a : Expr A)
    (hd : isDual op t = true) (hc : containsE t a = true) : Covers op v a t := by
  cases t with
  | atom _ => simp [containsE] at hc
  | node o ts =>
    have ho : o = op.dual := by simpa [isDual] using hd
    subst ho
    simp only [containsE, Bool.or_eq_true] at hc
    rcases hc with hc | hc
    · obtain ⟨y, hy, he⟩ := memE_covers v a ts hc
      cases op
      · simp only [Covers, Op.dual, eval_node, evalL_or]
        intro ha; exact ⟨y, hy, by rw [← he]; exact ha⟩
      · simp only [Covers, Op.dual, eval_node, evalL_and]
        intro ht; rw [he]; exact ht y hy
    · cases a with
      | atom _ => simp at hc
      | node o' xs =>
        simp only [Bool.and_eq_true, beq_iff_eq, List.all_eq_true] at hc
        obtain ⟨rfl, hall⟩ := hc
        cases op
        · simp only [Covers, Op.dual, eval_node, evalL_or]
          rintro ⟨x, hx, hv⟩
          obtain ⟨y, hy, he⟩ := memE_covers v x ts (hall x hx)
          exact ⟨y, hy, by rw [← he]; exact hv⟩
        · simp only [Covers, Op.dual, eval_node, evalL_and]
          intro ht x hx
          obtain ⟨y, hy, he⟩ := memE_covers v x ts (hall x hx)
          rw [he]; exact ht y hy

theorem absorbStep_eval (op : Op) (v : A → Bool) (pre l l' : List (Expr A))
    (h : absorbStep op pre l = some l') : evalL op v l' = evalL op v (pre ++ l) := by
  fun_induction absorbStep op pre l
  · simp at h
  · next t post hcond =>
    simp only [Option.some.injEq] at h
    subst h
    simp only [Bool.and_eq_true, List.any_eq_true] at hcond
    obtain ⟨hd, a, ha, hc⟩ := hcond
    have hcov := containsE_covers op v t a hd hc
    apply evalL_congr
    · intro x hx
      exact ⟨x, by simp at hx ⊢; grind, covers_refl op v x⟩
    · intro y hy
      simp only [List.mem_append, List.mem_cons] at hy
      rcases hy with hy | rfl | hy
      · exact ⟨y, by simp [hy], covers_refl op v y⟩
      · exact ⟨a, ha, hcov⟩
      · exact ⟨y, by simp [hy], covers_refl op v y⟩
  · next t post hcond ih =>
    rw [ih h]; simp

theorem absorbN_eval (op : Op) (v : A → Bool) (n : Nat) (l : List (Expr A)) :
    evalL op v (absorbN op n l) = evalL op v l := by
  fun_induction absorbN op n l
  · rfl
  · rfl
  · next n l l' h ih => rw [ih]; simpa using absorbStep_eval op v [] l l' h

theorem insertBy_mem (lt : Expr A → Expr A → Bool) (x : Expr A) (l : List (Expr A)) :
    ∀ y, y ∈ insertBy lt x l ↔ y = x ∨ y ∈ l := by
  fun_induction insertBy lt x l <;> simp_all
  all_goals grind

theorem sortBy_mem (lt : Expr A → Expr A → Bool) (l : List (Expr A)) : ∀ y, y ∈ sortBy lt l ↔ y ∈ l := by
  fun_induction sortBy lt l
  · simp
  · next x xs ih => intro y; rw [insertBy_mem, ih]; simp

theorem sortBy_eval (lt : Expr A → Expr A → Bool) (op : Op) (v : A → Bool) (l : List (Expr A)) :
    evalL op v (sortBy lt l) = evalL op v l := by
  apply evalL_congr
  · intro x hx; exact ⟨x, (sortBy_mem lt l x).mp hx, covers_refl op v x⟩
  · intro y hy; exact ⟨y, (sortBy_mem lt l y).mpr hy, covers_refl op v y⟩

theorem evalL_singleton (op : Op) (v : A → Bool) (x : Expr A) : evalL op v [x] = eval v x := by
  cases op <;> simp [evalL, evalOp]

theorem finishNode_eval (lt : Expr A → Expr A → Bool) (op : Op) (v : A → Bool) (ab : List (Expr A)) :
    eval v (finishNode lt op ab) = evalL op v ab := by
  unfold finishNode
  split
  · rw [evalL_singleton]
  · rw [eval_node, sortBy_eval]

theorem afterDedup_eval (lt : Expr A → Expr A → Bool) (op : Op) (v : A → Bool) (dd : List (Expr A)) :
    eval v (afterDedup lt op dd) = evalL op v dd := by
  unfold afterDedup
  split
  · rw [evalL_singleton]
  · rw [finishNode_eval, absorbN_eval]

theorem simpNode_eval (lt : Expr A → Expr A → Bool) (op : Op) (v : A → Bool) (args : List (Expr A)) :
    eval v (simpNode lt op args) = evalL op v args := by
  unfold simpNode
  rw [afterDedup_eval, dedup_eval, flatten1_eval]

/-- simplification preserves the truth table, for every valuation of the atoms -/
theorem simp_eval (lt : Expr A → Expr A → Bool) (v : A → Bool) (e : Expr A) : eval v (simp lt e) = eval v e := by
  fun_induction simp lt e
  · rfl
  · next op args ih =>
    rw [simpNode_eval, eval_node]
    simp only [evalL, List.map_map]
    congr 1
    rw [← List.attach_map_val (l := args) (f := eval v)]
    apply List.map_congr_left
    intro a _
    exact ih a

end LE
