import LicenseExpr.Lemmas.Sweep
/-!
# Lemmas/SweepDom — a token that dominates everything it touches survives the sweep
-/
namespace LE
variable {V : Type}

/-! ### a token that dominates everything it touches survives the sweep -/

theorem absorbTok_keep_dom (c : Tok V) (l : List (Tok V)) (hs : SortedS (c :: l))
    (h : ∀ x ∈ l, (x.s ≤ x.e ∧ (c.e < x.s ∨ x.e < c.s)) ∨ x.ilen ≤ c.ilen) : (absorbTok c l).1 = true := by
  fun_induction absorbTok c l
  · rfl
  · rfl
  · next n rest _ _ ih => exact ih (sortedS_tail hs) (fun x hx => h x (List.mem_cons_of_mem _ hx))
  · next n rest _ _ _ _ ih => exact ih (sortedS_tail hs) (fun x hx => h x (List.mem_cons_of_mem _ hx))
  · next n rest h1 h2 h3 h4 =>
    exfalso
    simp [Tok.isAfter, Gen.isAfter] at h1
    simp [Tok.ilen, Gen.len] at h4
    have hcn : c.s ≤ n.s := (List.pairwise_cons.mp hs).1 n (by simp)
    rcases h n (by simp) with ⟨_, hd | hd⟩ | hl
    · omega
    · omega
    · simp [Tok.ilen, Gen.len] at hl; omega
  · next n rest _ _ _ r ih => exact ih (sortedS_tail hs) (fun x hx => h x (List.mem_cons_of_mem _ hx))

/-- if every other token is disjoint from `m`, strictly shorter than `m`, or no longer and starting strictly
    to the right of `m`, then `m` survives -/
theorem sweep_keeps_dom2 (l : List (Tok V)) (m : Tok V) (hm : m ∈ l) (hs : SortedS l) (hwf : m.s ≤ m.e)
    (h : ∀ x ∈ l, x = m ∨ (x.s ≤ x.e ∧ (m.e < x.s ∨ x.e < m.s)) ∨ x.ilen < m.ilen ∨ (x.ilen ≤ m.ilen ∧ m.s < x.s)) :
    m ∈ sweep l := by
  fun_induction sweep l
  · simp at hm
  all_goals
    next c rest r hr ih =>
    have hsub := absorbTok_sublist c rest
    have hs' : SortedS (absorbTok c rest).2 := List.Pairwise.sublist hsub (List.Pairwise.of_cons hs)
    have h' : ∀ x ∈ (absorbTok c rest).2, x = m ∨ (x.s ≤ x.e ∧ (m.e < x.s ∨ x.e < m.s)) ∨ x.ilen < m.ilen ∨ (x.ilen ≤ m.ilen ∧ m.s < x.s) :=
      fun x hx => h x (List.mem_cons_of_mem _ (absorbTok_sub c rest x hx))
    by_cases hcm : c = m
    · subst hcm
      have hk : (absorbTok c rest).1 = true := absorbTok_keep_dom c rest hs (by
        intro x hx
        rcases h x (List.mem_cons_of_mem _ hx) with rfl | h1 | h1 | h1
        · exact Or.inr (Int.le_refl _)
        · exact Or.inl h1
        · exact Or.inr (Int.le_of_lt h1)
        · exact Or.inr h1.1)
      first
        | (simp)
        | (exact absurd hk (by simpa using hr))
    · have hmr : m ∈ rest := by
        simp only [List.mem_cons] at hm
        rcases hm with rfl | hm
        · exact absurd rfl hcm
        · exact hm
      have hmem : m ∈ (absorbTok c rest).2 := by
        have hcs : c.s ≤ m.s := (List.pairwise_cons.mp hs).1 m hmr
        rcases h c (by simp) with rfl | ⟨_, h1⟩ | h1 | h1
        · exact absurd rfl hcm
        · exact absorbTok_keeps_disjoint c m rest hmr hwf (by
            rcases h1 with h1 | h1
            · exact Or.inr h1
            · exact Or.inl h1)
        · exact absorbTok_keeps_longer c m rest hmr h1
        · omega
      have := ih hmem hs' h'
      first
        | exact List.mem_cons_of_mem _ this
        | exact this

/-- if every other token is disjoint from `m` or strictly shorter than `m`, then `m` survives -/
theorem sweep_keeps_dominant (l : List (Tok V)) (m : Tok V) (hm : m ∈ l) (hs : SortedS l) (hwf : m.s ≤ m.e)
    (h : ∀ x ∈ l, x = m ∨ (x.s ≤ x.e ∧ (m.e < x.s ∨ x.e < m.s)) ∨ x.ilen < m.ilen) : m ∈ sweep l :=
  sweep_keeps_dom2 l m hm hs hwf (fun x hx => by
    rcases h x hx with h1 | h1 | h1
    · exact Or.inl h1
    · exact Or.inr (Or.inl h1)
    · exact Or.inr (Or.inr (Or.inl h1)))

end LE
