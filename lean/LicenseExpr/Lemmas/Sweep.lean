import LicenseExpr.Model.Select
/-!
# Lemmas/Sweep — `filter_overlapping` over the *generated* interval predicates (`Gen/Intervals.lean`):
on input sorted by start the kept tokens are pairwise disjoint and in text order, and the leftmost
of the longest tokens survives.
-/
namespace LE
variable {V : Type}

/-- sorted by start ascending -/
def SortedS (l : List (Tok V)) : Prop := l.Pairwise (fun a b => a.s ≤ b.s)

theorem absorbTok_sub (c : Tok V) (l : List (Tok V)) : ∀ x ∈ (absorbTok c l).2, x ∈ l := by
  fun_induction absorbTok c l <;> simp_all
  all_goals grind

theorem sortedS_tail {c n : Tok V} {rest : List (Tok V)} (h : SortedS (c :: n :: rest)) : SortedS (c :: rest) := by
  unfold SortedS at *
  simp only [List.pairwise_cons] at h ⊢
  grind

theorem absorbTok_keep_after (c : Tok V) (l : List (Tok V)) (hs : SortedS (c :: l)) (hk : (absorbTok c l).1 = true) :
    ∀ n ∈ (absorbTok c l).2, c.e < n.s := by
  fun_induction absorbTok c l
  · simp
  · next n rest h =>
    simp [Tok.isAfter, Gen.isAfter] at h
    unfold SortedS at hs
    simp only [List.pairwise_cons] at hs
    intro x hx
    simp at hx
    rcases hx with rfl | hx
    · omega
    · have := hs.2.1 x hx; omega
  · next n rest _ _ ih => exact ih (sortedS_tail hs) hk
  · next n rest _ _ _ _ ih => exact ih (sortedS_tail hs) hk
  · simp at hk
  · next n rest h1 _ h3 _ _ =>
    -- unreachable on sorted input: not after, and no overlap
    simp [Tok.isAfter, Gen.isAfter] at h1
    simp [Tok.overlap, Gen.overlap] at h3
    unfold SortedS at hs
    simp only [List.pairwise_cons] at hs
    have := hs.1 n (by simp)
    omega

theorem sweep_sub (l : List (Tok V)) : ∀ x ∈ sweep l, x ∈ l := by
  fun_induction sweep l
  · simp
  · next c rest r hr ih =>
    intro x hx
    simp at hx
    rcases hx with rfl | hx
    · simp
    · exact List.mem_cons_of_mem _ (absorbTok_sub c rest x (ih x hx))
  · next c rest r hr ih =>
    intro x hx
    exact List.mem_cons_of_mem _ (absorbTok_sub c rest x (ih x hx))

theorem absorbTok_sublist (c : Tok V) (l : List (Tok V)) : (absorbTok c l).2.Sublist l := by
  fun_induction absorbTok c l <;> simp_all
  all_goals (first | exact List.Sublist.cons _ ‹_› | assumption)

/-- on input sorted by start, the kept tokens are pairwise disjoint and ordered -/
theorem sweep_disjoint (l : List (Tok V)) (hs : SortedS l) : (sweep l).Pairwise (fun a b => a.e < b.s) := by
  fun_induction sweep l
  · simp
  · next c rest r hr ih =>
    have hsub := absorbTok_sublist c rest
    have hs' : SortedS (absorbTok c rest).2 := List.Pairwise.sublist hsub (List.Pairwise.of_cons hs)
    refine List.pairwise_cons.mpr ⟨?_, ih hs'⟩
    intro x hx
    exact absorbTok_keep_after c rest hs hr x (sweep_sub _ x hx)
  · next c rest r hr ih =>
    have hsub := absorbTok_sublist c rest
    exact ih (List.Pairwise.sublist hsub (List.Pairwise.of_cons hs))

/-- a token strictly longer than `c` is never discarded by `absorbTok c` -/
theorem absorbTok_keeps_longer (c m : Tok V) (l : List (Tok V)) (hm : m ∈ l) (hlt : c.ilen < m.ilen) :
    m ∈ (absorbTok c l).2 := by
  fun_induction absorbTok c l
  · simp at hm
  · exact hm
  · next n rest h1 h2 ih =>
    simp only [List.mem_cons] at hm
    rcases hm with rfl | hm
    · simp [Tok.contains, Gen.contains] at h2; simp [Tok.ilen, Gen.len] at hlt; omega
    · exact ih hm
  · next n rest h1 h2 h3 h4 ih =>
    simp only [List.mem_cons] at hm
    rcases hm with rfl | hm
    · omega
    · exact ih hm
  · exact hm
  · next n rest h1 h2 h3 r ih =>
    simp only [List.mem_cons] at hm ⊢
    rcases hm with rfl | hm
    · left; rfl
    · right; exact ih hm

/-- as the current token, a token at least as long as everything after it is kept -/
theorem absorbTok_keep_max (c : Tok V) (l : List (Tok V)) (hmax : ∀ x ∈ l, x.ilen ≤ c.ilen) : (absorbTok c l).1 = true := by
  fun_induction absorbTok c l
  · rfl
  · rfl
  · next n rest _ _ ih => exact ih (fun x hx => hmax x (List.mem_cons_of_mem _ hx))
  · next n rest _ _ _ _ ih => exact ih (fun x hx => hmax x (List.mem_cons_of_mem _ hx))
  · next n rest _ _ _ h4 => have := hmax n (by simp); omega
  · next n rest _ _ _ r ih => exact ih (fun x hx => hmax x (List.mem_cons_of_mem _ hx))

/-- on input sorted by start, if every other token is strictly shorter than `m`, or no longer and starting
    strictly to the right of `m`, then `m` survives -/
theorem sweep_keeps_longest (l : List (Tok V)) (m : Tok V) (hm : m ∈ l) (hs : SortedS l)
    (h : ∀ x ∈ l, x = m ∨ x.ilen < m.ilen ∨ (x.ilen ≤ m.ilen ∧ m.s < x.s)) : m ∈ sweep l := by
  fun_induction sweep l
  · simp at hm
  all_goals
    next c rest r hr ih =>
    have hsub := absorbTok_sublist c rest
    have hs' : SortedS (absorbTok c rest).2 := List.Pairwise.sublist hsub (List.Pairwise.of_cons hs)
    have h' : ∀ x ∈ (absorbTok c rest).2, x = m ∨ x.ilen < m.ilen ∨ (x.ilen ≤ m.ilen ∧ m.s < x.s) :=
      fun x hx => h x (List.mem_cons_of_mem _ (absorbTok_sub c rest x hx))
    by_cases hcm : c = m
    · subst hcm
      have hk : (absorbTok c rest).1 = true := absorbTok_keep_max c rest (by
        intro x hx
        rcases h x (List.mem_cons_of_mem _ hx) with rfl | h1 | h1 <;> omega)
      first
        | (simp)
        | (exact absurd hk (by simpa using hr))
    · have hmr : m ∈ rest := by
        simp only [List.mem_cons] at hm
        rcases hm with rfl | hm
        · exact absurd rfl hcm
        · exact hm
      have hcs : c.s ≤ m.s := (List.pairwise_cons.mp hs).1 m hmr
      have hlt : c.ilen < m.ilen := by
        rcases h c (by simp) with rfl | h1 | h1
        · exact absurd rfl hcm
        · exact h1
        · omega
      have := ih (absorbTok_keeps_longer c m rest hmr hlt) hs' h'
      first
        | exact List.mem_cons_of_mem _ this
        | exact this

end LE

namespace LE
variable {V : Type}

theorem insertTok_mem (x : Tok V) (l : List (Tok V)) : ∀ y, y ∈ insertTok x l ↔ y = x ∨ y ∈ l := by
  fun_induction insertTok x l <;> simp_all
  all_goals grind

theorem sortToks_mem (l : List (Tok V)) : ∀ y, y ∈ sortToks l ↔ y ∈ l := by
  fun_induction sortToks l
  · simp
  · next x xs ih => intro y; rw [insertTok_mem, ih]; simp

/-- the first component of the generated sort key is the start: `keyLt` refines the order of starts -/
theorem keyLt_start (a b : Tok V) (h : keyLt a.key b.key = true) : a.s ≤ b.s := by
  simp [keyLt, Tok.key, Gen.sortKey] at h
  rcases h with h | ⟨h, _⟩
  · omega
  · have := of_decide_eq_true h
    omega

theorem not_keyLt_start (a b : Tok V) (h : keyLt a.key b.key = false) : b.s ≤ a.s := by
  simp [keyLt, Tok.key, Gen.sortKey] at h
  exact h.1

theorem insertTok_sorted (x : Tok V) (l : List (Tok V)) (h : SortedS l) : SortedS (insertTok x l) := by
  fun_induction insertTok x l
  · simp [SortedS]
  · next y ys hlt ih =>
    unfold SortedS at h ⊢
    rw [List.pairwise_cons] at h ⊢
    refine ⟨?_, ih h.2⟩
    intro z hz
    rcases (insertTok_mem x ys z).mp hz with rfl | hz
    · exact keyLt_start _ _ hlt
    · exact h.1 z hz
  · next y ys hlt =>
    have hxy : x.s ≤ y.s := not_keyLt_start _ _ (by simpa using hlt)
    unfold SortedS at h ⊢
    rw [List.pairwise_cons] at h
    refine List.pairwise_cons.mpr ⟨?_, List.pairwise_cons.mpr h⟩
    intro z hz
    simp only [List.mem_cons] at hz
    rcases hz with rfl | hz
    · exact hxy
    · have := h.1 z hz; omega

theorem sortToks_sorted (l : List (Tok V)) : SortedS (sortToks l) := by
  fun_induction sortToks l
  · simp [SortedS]
  · next x xs ih => exact insertTok_sorted x _ ih

end LE

namespace LE
variable {V : Type}

/-- a token that is disjoint from `c` is never discarded by `absorbTok c` -/
theorem absorbTok_keeps_disjoint (c m : Tok V) (l : List (Tok V)) (hm : m ∈ l) (hwf : m.s ≤ m.e)
    (hd : c.e < m.s ∨ m.e < c.s) : m ∈ (absorbTok c l).2 := by
  fun_induction absorbTok c l
  · simp at hm
  · exact hm
  · next n rest h1 h2 ih =>
    simp only [List.mem_cons] at hm
    rcases hm with rfl | hm
    · simp [Tok.contains, Gen.contains] at h2; omega
    · exact ih hm
  · next n rest h1 h2 h3 h4 ih =>
    simp only [List.mem_cons] at hm
    rcases hm with rfl | hm
    · simp [Tok.overlap, Gen.overlap] at h3; omega
    · exact ih hm
  · exact hm
  · next n rest h1 h2 h3 r ih =>
    simp only [List.mem_cons] at hm ⊢
    rcases hm with rfl | hm
    · left; rfl
    · right; exact ih hm

/-- as the current token, a token whose followers are all equal to it in extent or disjoint from it is kept -/
theorem absorbTok_keep_isolated (c : Tok V) (l : List (Tok V)) (hs : SortedS (c :: l))
    (h : ∀ x ∈ l, (x.s = c.s ∧ x.e = c.e) ∨ (x.s ≤ x.e ∧ (c.e < x.s ∨ x.e < c.s))) : (absorbTok c l).1 = true := by
  fun_induction absorbTok c l
  · rfl
  · rfl
  · next n rest _ _ ih => exact ih (sortedS_tail hs) (fun x hx => h x (List.mem_cons_of_mem _ hx))
  · next n rest _ _ _ _ ih => exact ih (sortedS_tail hs) (fun x hx => h x (List.mem_cons_of_mem _ hx))
  · next n rest h1 h2 h3 h4 =>
    exfalso
    simp [Tok.isAfter, Gen.isAfter] at h1
    simp [Tok.ilen, Gen.len] at h4
    have hcn : c.s ≤ n.s := (List.pairwise_cons.mp hs).1 n (by simp)
    rcases h n (by simp) with ⟨e1, e2⟩ | ⟨_, hd | hd⟩ <;> omega
  · next n rest _ _ _ r ih => exact ih (sortedS_tail hs) (fun x hx => h x (List.mem_cons_of_mem _ hx))

/-- a token that touches no other token (tokens with the same extent aside) survives the sweep -/
theorem sweep_keeps_isolated (l : List (Tok V)) (m : Tok V) (hm : m ∈ l) (hs : SortedS l) (hwf : m.s ≤ m.e)
    (h : ∀ x ∈ l, x = m ∨ (x.s ≤ x.e ∧ (m.e < x.s ∨ x.e < m.s))) : m ∈ sweep l := by
  fun_induction sweep l
  · simp at hm
  all_goals
    next c rest r hr ih =>
    have hsub := absorbTok_sublist c rest
    have hs' : SortedS (absorbTok c rest).2 := List.Pairwise.sublist hsub (List.Pairwise.of_cons hs)
    have h' : ∀ x ∈ (absorbTok c rest).2, x = m ∨ (x.s ≤ x.e ∧ (m.e < x.s ∨ x.e < m.s)) :=
      fun x hx => h x (List.mem_cons_of_mem _ (absorbTok_sub c rest x hx))
    by_cases hcm : c = m
    · subst hcm
      have hk : (absorbTok c rest).1 = true := absorbTok_keep_isolated c rest hs (by
        intro x hx
        rcases h x (List.mem_cons_of_mem _ hx) with rfl | h1
        · exact Or.inl ⟨rfl, rfl⟩
        · exact Or.inr h1)
      first
        | (simp)
        | (exact absurd hk (by simpa using hr))
    · have hmr : m ∈ rest := by
        simp only [List.mem_cons] at hm
        rcases hm with rfl | hm
        · exact absurd rfl hcm
        · exact hm
      have hd : c.e < m.s ∨ m.e < c.s := by
        rcases h c (by simp) with rfl | ⟨_, h1⟩
        · exact absurd rfl hcm
        · rcases h1 with h1 | h1
          · exact Or.inr h1
          · exact Or.inl h1
      have := ih (absorbTok_keeps_disjoint c m rest hmr hwf hd) hs' h'
      first
        | exact List.mem_cons_of_mem _ this
        | exact this

end LE
