import LicenseExpr.Lemmas.BSound
/-!
# Lemmas/BReject — what an accepted token list looks like

If the stack machine accepts a token list then no adjacent pair is one of the forbidden pairs, the
list does not start with an operator, and the parentheses are balanced (no prefix closes more than
it opens; at the end everything is closed).
-/
namespace LE
namespace BP
variable {α : Type}

/-- the forbidden adjacent pairs: two operands with no operator between them (also across a
    parenthesis), adjacent operators, an operator directly after `(` or before `)`, and `()` -/
def badPair : Tok α → Tok α → Bool
  | .sym _, .sym _ => true
  | .rpar, .sym _ => true
  | .sym _, .lpar => true
  | .rpar, .lpar => true
  | .and, .and => true | .and, .or => true | .or, .and => true | .or, .or => true
  | .lpar, .and => true | .lpar, .or => true
  | .and, .rpar => true | .or, .rpar => true
  | .lpar, .rpar => true
  | _, _ => false

theorem stepS_prev (s s' : PState α) (t : Tok α) (h : stepS s t = .ok s') : s'.prev = some t := by
  unfold stepS at h
  cases hs : step s.prev s.st t with
  | error e => simp [hs, bind, Except.bind] at h
  | ok st' => simp [hs, bind, Except.bind, pure, Except.pure] at h; subst h; rfl

theorem stepS_pair (s s' : PState α) (p t : Tok α) (hp : s.prev = some p) (h : stepS s t = .ok s') :
    badPair p t = false := by
  obtain ⟨prev, st⟩ := s
  simp only at hp; subst hp
  cases p <;> cases t <;> simp_all [stepS, step, adjCheck, isSym, isOp, bind, Except.bind, badPair]

theorem stepS_first (s s' : PState α) (t : Tok α) (hp : s.prev = none) (h : stepS s t = .ok s') :
    isOp t = false := by
  obtain ⟨prev, st⟩ := s
  simp only at hp; subst hp
  cases t <;> simp_all [stepS, step, adjCheck, isSym, isOp, bind, Except.bind]

/-- every adjacent pair of an accepted run is allowed -/
theorem run_pairs (s s' : PState α) (ts : List (Tok α)) (h : run s ts = .ok s') :
    ∀ pre a b post, ts = pre ++ a :: b :: post → badPair a b = false := by
  intro pre a b post hts
  subst hts
  rw [run_append] at h
  cases h1 : run s pre with
  | error e => simp [h1, bind, Except.bind] at h
  | ok s1 =>
    simp only [h1, bind, Except.bind] at h
    rw [run_cons] at h
    cases h2 : stepS s1 a with
    | error e => simp [h2, bind, Except.bind] at h
    | ok s2 =>
      simp only [h2, bind, Except.bind] at h
      rw [run_cons] at h
      cases h3 : stepS s2 b with
      | error e => simp [h3, bind, Except.bind] at h
      | ok s3 => exact stepS_pair s2 s3 a b (stepS_prev s1 s2 a h2) h3

/-! ### parentheses -/

def lparCount : Stack α → Nat
  | [] => 0
  | f :: S => (if f.op = .lpar then 1 else 0) + lparCount S

def opens : List (Tok α) → Nat
  | [] => 0
  | .lpar :: ts => opens ts + 1
  | _ :: ts => opens ts

def closes : List (Tok α) → Nat
  | [] => 0
  | .rpar :: ts => closes ts + 1
  | _ :: ts => closes ts

theorem opens_append (xs ys : List (Tok α)) : opens (xs ++ ys) = opens xs + opens ys := by
  induction xs with
  | nil => simp [opens]
  | cons x xs ih => cases x <;> simp [opens, ih] <;> omega

theorem closes_append (xs ys : List (Tok α)) : closes (xs ++ ys) = closes xs + closes ys := by
  induction xs with
  | nil => simp [closes]
  | cons x xs ih => cases x <;> simp [closes, ih] <;> omega

theorem mk_ok_op (op : FOp) (l : List (Expr α)) (e : Expr α) (h : mk op l = .ok e) : op ≠ .lpar ∧ op ≠ .none := by
  cases op <;> simp_all [mk]

theorem startOp_lpar (op : FOp) (hop : op ≠ .lpar) (f : Frame α) (S st' : Stack α)
    (h : startOp op f S = .ok st') : lparCount st' = lparCount (f :: S) := by
  fun_induction startOp op f S generalizing st' <;> simp_all [lparCount]
  all_goals (first | (subst h; simp_all [lparCount, mk]; done) | skip)
  · have := (mk_ok_op _ _ _ ‹_›).1
    subst h; simp [lparCount, hop, this]
  · exact (mk_ok_op _ _ _ ‹_›).1


theorem closeParen_lpar (f : Frame α) (S st' : Stack α) (h : closeParen f S = .ok st') :
    lparCount st' + 1 = lparCount (f :: S) := by
  fun_induction closeParen f S generalizing st' <;> simp_all [lparCount]
  subst h; simp [lparCount]; omega

theorem finish_lpar (f : Frame α) (S : Stack α) (e : Expr α) (h : finish f S = .ok e) :
    lparCount (f :: S) = 0 := by
  fun_induction finish f S <;> simp_all [lparCount]
  · exact (mk_ok_op _ _ _ h).1
  · exact (mk_ok_op _ _ _ ‹_›).1


/-- the number of open parenthesis frames is the number of `(` minus the number of `)` read -/
theorem stepS_balance (s s' : PState α) (t : Tok α) (h : stepS s t = .ok s') :
    lparCount s'.st + closes [t] = lparCount s.st + opens [t] := by
  obtain ⟨prev, st⟩ := s
  unfold stepS at h
  cases hs : step prev st t with
  | error e => simp [hs, bind, Except.bind] at h
  | ok st1 =>
    simp [hs, bind, Except.bind, pure, Except.pure] at h; subst h
    simp only
    unfold step at hs
    cases hadj : adjCheck prev t with
    | error e => simp [hadj, bind, Except.bind] at hs
    | ok u =>
      simp only [hadj, bind, Except.bind] at hs
      cases t with
      | sym a =>
        cases st with
        | nil => simp at hs
        | cons cur rest => simp at hs; subst hs; simp [lparCount, opens, closes]
      | and =>
        cases st with
        | nil => simp at hs
        | cons cur rest => simp at hs; simp [startOp_lpar .and (by simp) cur rest st1 hs, opens, closes]
      | or =>
        cases st with
        | nil => simp at hs
        | cons cur rest => simp at hs; simp [startOp_lpar .or (by simp) cur rest st1 hs, opens, closes]
      | lpar =>
        cases prev with
        | none => simp at hs; subst hs; simp [lparCount, opens, closes]; omega
        | some p =>
          cases p <;> simp at hs <;> (subst hs; simp [lparCount, opens, closes]; omega)
      | rpar =>
        cases st with
        | nil => simp at hs
        | cons cur rest =>
          simp at hs
          have := closeParen_lpar cur rest st1 hs
          simp [opens, closes]; omega

theorem run_balance (s s' : PState α) (ts : List (Tok α)) (h : run s ts = .ok s') :
    lparCount s'.st + closes ts = lparCount s.st + opens ts := by
  induction ts generalizing s with
  | nil => simp [run_nil] at h; subst h; simp [opens, closes]
  | cons t ts ih =>
    rw [run_cons] at h
    cases h1 : stepS s t with
    | error e => simp [h1, bind, Except.bind] at h
    | ok s1 =>
      simp only [h1, bind, Except.bind] at h
      have a := stepS_balance s s1 t h1
      have b := ih s1 h
      have o : opens (t :: ts) = opens [t] + opens ts := opens_append [t] ts
      have c : closes (t :: ts) = closes [t] + closes ts := closes_append [t] ts
      omega

/-- accepted ⇒ every prefix closes at most what it opened, and the whole closes everything -/
theorem parse_balanced (ts : List (Tok α)) (e : Expr α) (h : parse ts = .ok e) :
    (∀ pre post, ts = pre ++ post → closes pre ≤ opens pre) ∧ opens ts = closes ts := by
  unfold parse at h
  cases hr : run (init : PState α) ts with
  | error e' => simp [hr, bind, Except.bind] at h
  | ok s' =>
    simp only [hr, bind, Except.bind] at h
    constructor
    · intro pre post hts
      subst hts
      rw [run_append] at hr
      cases h1 : run (init : PState α) pre with
      | error e' => simp [h1, bind, Except.bind] at hr
      | ok s1 =>
        have := run_balance _ _ _ h1
        simp [init, lparCount] at this
        omega
    · have hb := run_balance _ _ _ hr
      simp [init, lparCount] at hb
      cases hst : s'.st with
      | nil => simp [hst] at h
      | cons cur rest =>
        simp only [hst] at h
        have := finish_lpar cur rest e h
        rw [hst] at hb
        omega

theorem parse_pairs (ts : List (Tok α)) (e : Expr α) (h : parse ts = .ok e) :
    ∀ pre a b post, ts = pre ++ a :: b :: post → badPair a b = false := by
  unfold parse at h
  cases hr : run (init : PState α) ts with
  | error e' => simp [hr, bind, Except.bind] at h
  | ok s' => exact run_pairs _ _ _ hr

theorem parse_first (t : Tok α) (ts : List (Tok α)) (e : Expr α) (h : parse (t :: ts) = .ok e) :
    isOp t = false := by
  unfold parse at h
  cases hr : run (init : PState α) (t :: ts) with
  | error e' => simp [hr, bind, Except.bind] at h
  | ok s' =>
    rw [run_cons] at hr
    cases h1 : stepS (init : PState α) t with
    | error e' => simp [h1, bind, Except.bind] at hr
    | ok s1 => exact stepS_first _ _ t rfl h1

theorem parse_nonempty (e : Expr α) : parse ([] : List (Tok α)) ≠ .ok e := by
  simp [parse, run, init, finish, bind, Except.bind, pure, Except.pure]

end BP
end LE
