import LicenseExpr.Lemmas.Spelled
/-!
# The text an expression renders to is a spelling of its skeleton

`RenderText.lean` reads a rendered text back for keys that are single words. Here keys are arbitrary:
the words of a rendered skeleton are the words of its keys and operators one after the other
(`words_detokG`), the non-blank pieces of the text fall into one group per word list
(`split_groups`), and those groups are segments in the sense of `Spelled.lean` (`segsFor_render`):
so `parse_spelled` applies and rendering then parsing gives the expression back, for any table whose
multi-word names contain no operator word (`parse_render_general`).
-/
namespace LE

/-- the words of `a ++ rest` when `rest` begins with a character that ends a word -/
theorem splitW_append_nonword (c : Cls) (a rest : Str) (h : rest = [] ∨ ∃ x xs, rest = x :: xs ∧ ¬ kindOf c x = .word) :
    ∀ cur, splitW c cur (a ++ rest) = splitW c cur a ++ splitW c [] rest := by
  induction a with
  | nil =>
    intro cur
    simp only [List.nil_append, splitW_nil]
    exact splitW_flush c cur rest h
  | cons x a ih =>
    intro cur
    simp only [List.cons_append, splitW]
    by_cases h1 : x = LPAR ∨ x = RPAR
    · simp only [h1, ↓reduceIte, ih [], List.append_assoc, List.cons_append]
    · simp only [h1, ↓reduceIte]
      cases h3 : c.isSpace x
      · simp only [Bool.false_eq_true, ↓reduceIte]; exact ih _
      · simp only [↓reduceIte, ih [], List.append_assoc]

/-- the words of a token of a skeleton as it is rendered -/
def wordsOfTokG (c : Cls) : BP.Tok Atom → List Str
  | .sym (.lic s) => unfoldedWords c s.key
  | .sym (.withE l e) => unfoldedWords c l.key ++ [sWITHu] ++ unfoldedWords c e.key
  | .and => [sANDu]
  | .or => [sORu]
  | .lpar => [[LPAR]]
  | .rpar => [[RPAR]]

/-- **the words of a rendered skeleton**, whatever the keys are -/
theorem words_detokG (c : Cls) (hc : ClsOK c) : ∀ (ts : List (BP.Tok Atom)), NoSymSym ts →
    splitW c [] (BP.detok Atom.render ts) = ts.flatMap (wordsOfTokG c)
  | [], _ => by simp [BP.detok, splitW, flushW]
  | t :: ts, hn => by
    have ih := words_detokG c hc ts (by cases ts <;> first | trivial | exact hn.2)
    rw [detok_cons, List.flatMap_cons]
    have hsp : ∀ s, splitW c [] (SPACE :: s) = splitW c [] s := space_lead c hc
    cases t with
    | and =>
      have hw : WordKey c sANDu := upper_word c hc _ (by decide) (by decide)
      have : BP.tokStr Atom.render (BP.Tok.and : BP.Tok Atom) ++ BP.detok Atom.render ts =
          SPACE :: (sANDu ++ SPACE :: BP.detok Atom.render ts) := by simp [BP.tokStr, Op.text, sANDu]
      rw [this, hsp, splitW_word_then c _ hw _ (Or.inr ⟨SPACE, _, rfl, space_not_word c hc⟩), hsp, ih]
      rfl
    | or =>
      have hw : WordKey c sORu := upper_word c hc _ (by decide) (by decide)
      have : BP.tokStr Atom.render (BP.Tok.or : BP.Tok Atom) ++ BP.detok Atom.render ts =
          SPACE :: (sORu ++ SPACE :: BP.detok Atom.render ts) := by simp [BP.tokStr, Op.text, sORu]
      rw [this, hsp, splitW_word_then c _ hw _ (Or.inr ⟨SPACE, _, rfl, space_not_word c hc⟩), hsp, ih]
      rfl
    | lpar =>
      simp only [BP.tokStr, List.cons_append, List.nil_append, splitW, true_or, ↓reduceIte, flushW, List.isEmpty_nil, ih, wordsOfTokG]
    | rpar =>
      simp only [BP.tokStr, List.cons_append, List.nil_append, splitW, or_true, ↓reduceIte, flushW, List.isEmpty_nil, ih, wordsOfTokG]
    | sym a =>
      have hafter := after_sym c hc (.sym a) ts rfl hn
      cases a with
      | lic s =>
        simp only [BP.tokStr, Atom.render, wordsOfTokG]
        rw [splitW_append_nonword c _ _ hafter, ih, unfoldedWords_splitW]
      | withE l e =>
        have hwu : WordKey c sWITHu := upper_word c hc _ (by decide) (by decide)
        have : BP.tokStr Atom.render (BP.Tok.sym (Atom.withE l e)) ++ BP.detok Atom.render ts =
            l.key ++ (SPACE :: (sWITHu ++ SPACE :: (e.key ++ BP.detok Atom.render ts))) := by
          simp [BP.tokStr, Atom.render, sWITHu, List.append_assoc]
        rw [this, splitW_append_nonword c _ _ (Or.inr ⟨SPACE, _, rfl, space_not_word c hc⟩), hsp,
          splitW_word_then c _ hwu _ (Or.inr ⟨SPACE, _, rfl, space_not_word c hc⟩), hsp,
          splitW_append_nonword c _ _ hafter, ih]
        simp [wordsOfTokG, unfoldedWords_splitW, List.append_assoc]

/-! ### the symbols an expression may contain -/

/-- a license symbol that reads back from its rendered key: the words of the key are a stored name
    that belongs to this license only, or — for a license the table does not know — none of them occurs
    in a stored name and the key is what they spell -/
def SymOKG (c : Cls) (T : Table) (s : Sym) : Prop :=
  unfoldedWords c s.key ≠ [] ∧
  (OwnedByV c T (wordsOf c s.key) (.sym s) ∨
   ((∀ w ∈ unfoldedWords c s.key, ∀ a ∈ addsOf c T, c.fold w ∉ wordsOf c a.1) ∧
    normKey c (joinStr [SPACE] (unfoldedWords c s.key)) = some s.key ∧ s.exc = false))

def AtomOKG (c : Cls) (T : Table) : Atom → Prop
  | .lic s => SymOKG c T s
  | .withE l e => SymOKG c T l ∧ SymOKG c T e

theorem wordsOf_unfolded (c : Cls) (s : Str) : wordsOf c s = (unfoldedWords c s).map c.fold := by
  simp [wordsOf, unfoldedWords, List.map_map, Function.comp_def]

/-- a group of pieces that reads as the key of such a symbol is an operand segment for it -/
theorem operandSeg_of_key (c : Cls) (T : Table) (s : Sym) (hs : SymOKG c T s) (g : List Piece)
    (hg : g.map (·.text) = unfoldedWords c s.key) : ∃ sg, sg.1 = g ∧ OperandSeg c T s sg := by
  have hne : g ≠ [] := by
    intro h; subst h
    exact hs.1 (by simpa using hg.symm)
  have hfolds : foldsOf c g = wordsOf c s.key := by
    rw [wordsOf_unfolded, ← hg]; simp [foldsOf, List.map_map, Function.comp_def]
  rcases hs.2 with hown | ⟨hunk, hkey, hexc⟩
  · exact ⟨(g, some (.sym s)), rfl, OperandSeg.known g hne (by rw [hfolds]; exact hown)⟩
  · refine ⟨(g, none), rfl, OperandSeg.unknown g hne ?_ (by rw [hg]; exact hkey) hexc⟩
    intro p hp a ha
    exact hunk p.text (by rw [← hg]; exact List.mem_map_of_mem hp) a ha

/-- a list of pieces whose texts are `A ++ B` splits accordingly -/
theorem split_texts (ps : List Piece) (A B : List Str) (h : ps.map (·.text) = A ++ B) :
    ∃ p1 p2, ps = p1 ++ p2 ∧ p1.map (·.text) = A ∧ p2.map (·.text) = B := by
  obtain ⟨p1, p2, h1, h2, h3⟩ := List.map_eq_append_iff.mp h
  exact ⟨p1, p2, h1, h2, h3⟩

theorem single_text (ps : List Piece) (w : Str) (h : ps.map (·.text) = [w]) : ∃ p, ps = [p] ∧ p.text = w := by
  cases ps with
  | nil => simp at h
  | cons p r =>
    cases r with
    | nil => exact ⟨p, rfl, by simpa using h⟩
    | cons _ _ => simp at h

/-- **the segments of a rendered skeleton**: pieces whose texts are the words of the skeleton fall into
    segments that spell it -/
theorem segsFor_render (c : Cls) (hc : ClsOK c) (T : Table) : ∀ (ts : List (BP.Tok Atom)) (ps : List Piece),
    (∀ a, BP.Tok.sym a ∈ ts → AtomOKG c T a) → ps.map (·.text) = ts.flatMap (wordsOfTokG c) →
    ∃ segs, SegsFor c T ts segs ∧ segPieces segs = ps
  | [], ps, _, h => by
    have : ps = [] := by simpa using h
    subst this
    exact ⟨[], SegsFor.nil, rfl⟩
  | t :: ts, ps, ha, h => by
    rw [List.flatMap_cons] at h
    obtain ⟨p1, p2, rfl, h1, h2⟩ := split_texts ps _ _ h
    obtain ⟨rest, hrest, hpr⟩ := segsFor_render c hc T ts p2 (fun a ha' => ha a (List.mem_cons_of_mem _ ha')) h2
    have hfu := fold_upper c hc
    suffices hsuf : ∃ sgs, SegFor c T t sgs ∧ segPieces sgs = p1 by
      obtain ⟨sgs, hsg, hp⟩ := hsuf
      exact ⟨sgs ++ rest, SegsFor.cons hsg hrest, by rw [segPieces_append, hp, hpr]⟩
    cases t with
    | and =>
      obtain ⟨p, rfl, hp⟩ := single_text p1 _ h1
      exact ⟨_, SegFor.and p (by rw [hp]; exact hfu.1), by simp [segPieces]⟩
    | or =>
      obtain ⟨p, rfl, hp⟩ := single_text p1 _ h1
      exact ⟨_, SegFor.or p (by rw [hp]; exact hfu.2.1), by simp [segPieces]⟩
    | lpar =>
      obtain ⟨p, rfl, hp⟩ := single_text p1 _ h1
      exact ⟨_, SegFor.lpar p (by rw [hp]; exact fold_lpar c hc), by simp [segPieces]⟩
    | rpar =>
      obtain ⟨p, rfl, hp⟩ := single_text p1 _ h1
      exact ⟨_, SegFor.rpar p (by rw [hp]; exact fold_rpar c hc), by simp [segPieces]⟩
    | sym a =>
      have hok := ha a (by simp)
      cases a with
      | lic s =>
        obtain ⟨sg, hsg1, hsg⟩ := operandSeg_of_key c T s hok p1 h1
        exact ⟨[sg], SegFor.lic s sg hsg, by simp [segPieces, hsg1]⟩
      | withE l e =>
        simp only [wordsOfTokG, List.append_assoc] at h1
        obtain ⟨g1, r1, rfl, hg1, hr1⟩ := split_texts p1 _ _ h1
        obtain ⟨gw, g2, rfl, hgw, hg2⟩ := split_texts r1 _ _ hr1
        obtain ⟨pw, rfl, hpw⟩ := single_text gw _ hgw
        obtain ⟨sgl, hsgl1, hsgl⟩ := operandSeg_of_key c T l hok.1 g1 hg1
        obtain ⟨sge, hsge1, hsge⟩ := operandSeg_of_key c T e hok.2 g2 hg2
        exact ⟨_, SegFor.withE l e sgl pw sge hsgl (by rw [hpw]; exact hfu.2.2) hsge, by simp [segPieces, hsgl1, hsge1]⟩

/-- **rendering, then parsing with the default tokenizer, gives the expression back** — for every
    table whose multi-word names contain no operator word or parenthesis and in which no name reads as a
    bare operator, every expression whose nodes have at least two operands and whose licenses read back
    from their keys (`AtomOKG`) -/
theorem parse_render_general (c : Cls) (hc : ClsOK c) (T : Table) (hop : OpWordFree c T) (hkw : KwOwned c T)
    (e : Expr Atom) (hwf : BP.WFE e) (ha : ∀ a ∈ literals e, AtomOKG c T a) :
    parseFull c T false false false (renderStr e) = .ok e := by
  have hparse := BP.parse_render (fun _ => false) e hwf
  have hn := noSymSym_of_pairs _ (BP.parse_pairs _ e hparse)
  have hlits := BP.parse_literals _ e hparse
  have ha' : ∀ a, BP.Tok.sym a ∈ BP.toksOf (fun _ => false) e → AtomOKG c T a := by
    intro a h; exact ha a (by rw [hlits]; exact sym_mem_tokLits _ a h)
  have hwords := words_detokG c hc _ hn
  rw [← unfoldedWords_splitW] at hwords
  obtain ⟨segs, hsegs, hcov⟩ := segsFor_render c hc T _ (wordPieces c (BP.detok Atom.render (BP.toksOf (fun _ => false) e))) ha' hwords
  rw [renderStr_detok]
  exact parse_spelled c hc T hop hkw _ segs hsegs _ hcov e hparse

/-- the same for any accepted table, under the proviso stated on the rendered text: no occurrence of a stored name
    in it reaches across the boundary between two rendered tokens -/
theorem parse_render_within (c : Cls) (hc : ClsOK c) (T : Table) (hkw : KwOwned c T)
    (e : Expr Atom) (hwf : BP.WFE e) (ha : ∀ a ∈ literals e, AtomOKG c T a)
    (hwithin : ∀ segs, SegsFor c T (BP.toksOf (fun _ => false) e) segs → segPieces segs = wordPieces c (renderStr e) →
      ∀ k ∈ (buildTrie c T).iter c (renderStr e) true, k.val.isSome = true →
        ∃ sg ∈ segs, ∃ p ∈ sg.1, ∃ p' ∈ sg.1, k.s = p.start ∧ k.e = p'.stop) :
    parseFull c T false false false (renderStr e) = .ok e := by
  have hparse := BP.parse_render (fun _ => false) e hwf
  have hn := noSymSym_of_pairs _ (BP.parse_pairs _ e hparse)
  have hlits := BP.parse_literals _ e hparse
  have ha' : ∀ a, BP.Tok.sym a ∈ BP.toksOf (fun _ => false) e → AtomOKG c T a := by
    intro a h; exact ha a (by rw [hlits]; exact sym_mem_tokLits _ a h)
  have hwords := words_detokG c hc _ hn
  rw [← unfoldedWords_splitW] at hwords
  obtain ⟨segs, hsegs, hcov⟩ := segsFor_render c hc T _ (wordPieces c (BP.detok Atom.render (BP.toksOf (fun _ => false) e))) ha' hwords
  rw [← renderStr_detok] at hcov
  exact parse_spelled_within c hc T hkw _ segs hsegs _ hcov (hwithin segs hsegs hcov) e hparse

end LE
