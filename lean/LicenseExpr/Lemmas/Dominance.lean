import LicenseExpr.Lemmas.EqTrans
import LicenseExpr.Lemmas.Idem
/-!
# Lemmas/Dominance — what absorption computes does not depend on order, grouping or repetition

Operands of an `op` node after flattening are atoms or dual nodes (`Elem`). `Dom op t a` ("`a` stands
for `t`"): `t == a`, or `t` is a dual node that contains the unequal operand `a` — then absorption
removes `t` in favour of `a`. `Dom` is transitive and antisymmetric up to `eqE`; the result of
duplicate removal + absorption is a set of `Dom`-minimal representatives, so two operand lists that
dominate each other have `SetEq` results (`core_setEq`).
-/
set_option linter.unusedSectionVars false
namespace LE
variable {A : Type} [DecidableEq A]

/-- the operand set an element stands for: itself for an atom, its operands for a node -/
def parts : Expr A → List (Expr A)
  | .atom a => [.atom a]
  | .node _ xs => xs

/-- an operand of an `op` node after flattening normal forms: an atom, or a dual node none of whose
    operands is a dual node -/
def Elem (op : Op) : Expr A → Prop
  | .atom _ => True
  | .node o xs => o = op.dual ∧ ∀ y ∈ xs, isOpNode op.dual y = false

theorem isDual_node (op o : Op) (xs : List (Expr A)) : isDual op (.node o xs) = true ↔ o = op.dual := by
  simp [isDual]

theorem eqE_isDual (op : Op) (x y : Expr A) (h : eqE x y = true) : isDual op x = isDual op y := by
  cases x with
  | atom a => cases y with
    | atom b => rfl
    | node o l => rw [eqE_atom_node] at h; cases h
  | node o l => cases y with
    | atom b => rw [eqE_node_atom] at h; cases h
    | node o' l' =>
      obtain ⟨rfl, _⟩ := (eqE_node_iff _ _ _ _).mp h
      rfl

theorem eqE_isOpNode (op : Op) (x y : Expr A) (h : eqE x y = true) : isOpNode op x = isOpNode op y := by
  cases x with
  | atom a => cases y with
    | atom b => rfl
    | node o l => rw [eqE_atom_node] at h; cases h
  | node o l => cases y with
    | atom b => rw [eqE_node_atom] at h; cases h
    | node o' l' =>
      obtain ⟨rfl, _⟩ := (eqE_node_iff _ _ _ _).mp h
      rfl

theorem eqE_parts (x y : Expr A) (h : eqE x y = true) : SetEq (parts x) (parts y) := by
  cases x with
  | atom a => cases y with
    | atom b =>
      rw [eqE_atom_atom] at h; subst h; exact SetEq.refl _
    | node o l => rw [eqE_atom_node] at h; cases h
  | node o l => cases y with
    | atom b => rw [eqE_node_atom] at h; cases h
    | node o' l' =>
      obtain ⟨rfl, _⟩ := (eqE_node_iff _ _ _ _).mp h
      exact (eqE_node_setEq _ _ _).mp h

/-- for operands in normal position, containment is inclusion of the parts -/
theorem containsE_iff (op : Op) (t a : Expr A) (ht : Elem op t) (ha : Elem op a) :
    containsE t a = true ↔ isDual op t = true ∧ SubE (parts a) (parts t) := by
  cases t with
  | atom x => simp [containsE, isDual]
  | node o ts =>
    obtain ⟨rfl, hts⟩ := ht
    cases a with
    | atom x =>
      simp only [containsE, Bool.or_false, isDual, beq_self_eq_true, true_and, parts, SubE,
        List.mem_singleton, forall_eq]
    | node o' xs =>
      obtain ⟨rfl, _⟩ := ha
      have hno : memE (Expr.node op.dual xs) ts = false := by
        cases hm : memE (Expr.node op.dual xs) ts with
        | false => rfl
        | true =>
          obtain ⟨y, hy, he⟩ := (memE_iff _ _).mp hm
          have := eqE_isOpNode op.dual _ _ he
          rw [hts y hy] at this
          simp [isOpNode] at this
      simp only [containsE, hno, Bool.false_or, beq_self_eq_true, Bool.true_and, List.all_eq_true,
        isDual, true_and, parts, SubE]

/-- `a` stands for `t` after duplicate removal and absorption -/
def Dom (op : Op) (t a : Expr A) : Prop :=
  eqE t a = true ∨ (isDual op t = true ∧ containsE t a = true ∧ eqE a t = false)

theorem Dom.refl (op : Op) (t : Expr A) : Dom op t t := Or.inl (eqE_refl t)

theorem Dom.le (op : Op) (t a : Expr A) (ht : Elem op t) (ha : Elem op a) (h : Dom op t a) : SubE (parts a) (parts t) := by
  rcases h with h | ⟨_, hc, _⟩
  · exact (eqE_parts t a h).2
  · exact ((containsE_iff op t a ht ha).mp hc).2

/-- two dual nodes with the same parts are equal -/
theorem eqE_of_parts (op : Op) (t a : Expr A) (ht : Elem op t) (ha : Elem op a)
    (hdt : isDual op t = true) (hda : isDual op a = true)
    (h1 : SubE (parts a) (parts t)) (h2 : SubE (parts t) (parts a)) : eqE a t = true := by
  cases t with
  | atom x => simp [isDual] at hdt
  | node o ts =>
    cases a with
    | atom x => simp [isDual] at hda
    | node o' xs =>
      obtain ⟨rfl, _⟩ := ht
      obtain ⟨rfl, _⟩ := ha
      exact (eqE_node_setEq _ _ _).mpr ⟨h1, h2⟩

theorem Elem_congr (op : Op) (x y : Expr A) (h : eqE x y = true) (hx : Elem op x) : Elem op y := by
  cases x with
  | atom a => cases y with
    | atom b => trivial
    | node o l => rw [eqE_atom_node] at h; cases h
  | node o l => cases y with
    | atom b => rw [eqE_node_atom] at h; cases h
    | node o' l' =>
      obtain ⟨rfl, _, h2⟩ := (eqE_node_iff _ _ _ _).mp h
      obtain ⟨rfl, hl⟩ := hx
      refine ⟨rfl, ?_⟩
      intro y hy
      obtain ⟨a, ha, hya⟩ := h2 y hy
      rw [eqE_isOpNode _ _ _ hya]; exact hl a ha

theorem Dom.trans (op : Op) (t u a : Expr A) (ht : Elem op t) (hu : Elem op u) (ha : Elem op a)
    (h1 : Dom op t u) (h2 : Dom op u a) : Dom op t a := by
  rcases h1 with h1 | ⟨hdt, hct, hne1⟩
  · rcases h2 with h2 | ⟨hdu, hcu, hne2⟩
    · exact Or.inl (eqE_trans _ _ _ h1 h2)
    · right
      refine ⟨by rw [eqE_isDual op t u h1]; exact hdu, ?_, ?_⟩
      · rw [containsE_iff op t a ht ha]
        obtain ⟨_, hs⟩ := (containsE_iff op u a hu ha).mp hcu
        exact ⟨by rw [eqE_isDual op t u h1]; exact hdu, hs.trans (eqE_parts t u h1).2⟩
      · cases h : eqE a t with
        | false => rfl
        | true => rw [eqE_trans _ _ _ h h1] at hne2; cases hne2
  · obtain ⟨_, hs1⟩ := (containsE_iff op t u ht hu).mp hct
    rcases h2 with h2 | ⟨hdu, hcu, hne2⟩
    · right
      refine ⟨hdt, ?_, ?_⟩
      · rw [containsE_iff op t a ht ha]
        exact ⟨hdt, (eqE_parts u a h2).2.trans hs1⟩
      · cases h : eqE a t with
        | false => rfl
        | true => rw [eqE_trans _ _ _ h2 h] at hne1; cases hne1
    · obtain ⟨_, hs2⟩ := (containsE_iff op u a hu ha).mp hcu
      right
      refine ⟨hdt, ?_, ?_⟩
      · rw [containsE_iff op t a ht ha]
        exact ⟨hdt, hs2.trans hs1⟩
      · cases h : eqE a t with
        | false => rfl
        | true =>
          -- t ≤ a ≤ u ≤ t, so u == t
          have h3 : SubE (parts t) (parts u) := (eqE_parts a t h).2.trans hs2
          have := eqE_of_parts op t u ht hu hdt hdu hs1 h3
          rw [this] at hne1; cases hne1

/-- the closing step: if `t` is dominated by `a'`, `a'` by `c`, and `c == t`, then `t == a'` -/
theorem Dom.antisymm (op : Op) (t a' c : Expr A) (ht : Elem op t) (ha' : Elem op a') (hc : Elem op c)
    (h1 : Dom op t a') (h2 : Dom op a' c) (h3 : eqE t c = true) : eqE t a' = true := by
  rcases h1 with h1 | ⟨hdt, hct, hne1⟩
  · exact h1
  · exfalso
    obtain ⟨_, hs1⟩ := (containsE_iff op t a' ht ha').mp hct
    rcases h2 with h2 | ⟨hda, hca, hne2⟩
    · rw [eqE_trans _ _ _ h2 (eqE_symm_imp _ _ h3)] at hne1; cases hne1
    · obtain ⟨_, hs2⟩ := (containsE_iff op a' c ha' hc).mp hca
      have h4 : SubE (parts t) (parts a') := (eqE_parts t c h3).1.trans hs2
      have := eqE_of_parts op t a' ht ha' hdt hda hs1 h4
      rw [this] at hne1; cases hne1

/-! ### what one absorption step and the whole loop leave behind -/

theorem absorbStep_dom (op : Op) (pre l l' : List (Expr A)) (hd : Distinct (pre ++ l))
    (h : absorbStep op pre l = some l') : ∀ t ∈ pre ++ l, ∃ a ∈ l', Dom op t a := by
  fun_induction absorbStep op pre l
  · simp at h
  · next pre t post hc =>
    simp at h; subst h
    simp only [Bool.and_eq_true, List.any_eq_true] at hc
    obtain ⟨hdual, a, ha, hca⟩ := hc
    intro t' ht'
    simp only [List.mem_append, List.mem_cons] at ht'
    rcases ht' with h1 | rfl | h1
    · exact ⟨t', by simp [h1], Dom.refl op t'⟩
    · exact ⟨a, ha, Or.inr ⟨hdual, hca, distinct_other pre post t' a hd ha⟩⟩
    · exact ⟨t', by simp [h1], Dom.refl op t'⟩
  · next pre t post hc ih =>
    have hd' : Distinct ((pre ++ [t]) ++ post) := by simpa [List.append_assoc] using hd
    intro t' ht'
    exact ih hd' h t' (by simpa [List.append_assoc] using ht')

theorem absorbN_dom (op : Op) (n : Nat) (l : List (Expr A)) (hd : Distinct l) (he : ∀ x ∈ l, Elem op x) :
    ∀ t ∈ l, ∃ a ∈ absorbN op n l, Dom op t a := by
  fun_induction absorbN op n l
  · intro t ht; exact ⟨t, ht, Dom.refl op t⟩
  · intro t ht; exact ⟨t, ht, Dom.refl op t⟩
  · next n l l' hs ih =>
    have hsub : l'.Sublist l := by simpa using absorbStep_sublist op [] l l' hs
    have hd' := distinct_sublist hsub hd
    have he' : ∀ x ∈ l', Elem op x := fun x hx => he x (hsub.subset hx)
    intro t ht
    obtain ⟨u, hu, htu⟩ := absorbStep_dom op [] l l' (by simpa using hd) hs t (by simpa using ht)
    obtain ⟨a, ha, hua⟩ := ih hd' he' u hu
    have hau : a ∈ l' := (absorbN_sublist op n l').subset ha
    exact ⟨a, ha, Dom.trans op t u a (he t ht) (he' u hu) (he' a hau) htu hua⟩

theorem absorbN_mabsFree (op : Op) (l : List (Expr A)) (hd : Distinct l) : MAbsFree op (absorbN op l.length l) := by
  have hfix := absorbN_fix op l.length l (Nat.le_refl _)
  have hd' : Distinct (absorbN op l.length l) := distinct_sublist (absorbN_sublist op _ l) hd
  rw [absorbStep_none_iff op [] _ (by simpa using hd')] at hfix
  intro t ht hdual a ha hne
  exact hfix t ht hdual a (by simpa using ha) hne

theorem dedupAux_memE (seen l : List (Expr A)) : ∀ x ∈ l, memE x seen = true ∨ memE x (dedupAux seen l) = true := by
  fun_induction dedupAux seen l
  · simp
  · next seen a r h ih =>
    intro x hx
    simp only [List.mem_cons] at hx
    rcases hx with rfl | hx
    · exact Or.inl h
    · exact ih x hx
  · next seen a r h ih =>
    intro x hx
    simp only [List.mem_cons] at hx
    rcases hx with rfl | hx
    · right; exact memE_of_mem _ _ (by simp)
    · rcases ih x hx with h1 | h1
      · simp only [memE, List.any_append, List.any_cons, List.any_nil, Bool.or_false, Bool.or_eq_true] at h1
        rcases h1 with h1 | h1
        · exact Or.inl (by simpa [memE] using h1)
        · right; exact (memE_iff _ _).mpr ⟨a, by simp, h1⟩
      · right
        obtain ⟨y, hy, hxy⟩ := (memE_iff _ _).mp h1
        exact (memE_iff _ _).mpr ⟨y, List.mem_cons_of_mem _ hy, hxy⟩

/-- duplicate removal followed by absorption -/
def core (op : Op) (L : List (Expr A)) : List (Expr A) :=
  absorbN op (dedupAux [] L).length (dedupAux [] L)

theorem core_sub (op : Op) (L : List (Expr A)) : ∀ x ∈ core op L, x ∈ L :=
  fun x hx => dedupAux_sub [] L x ((absorbN_sublist op _ _).subset hx)

theorem core_distinct (op : Op) (L : List (Expr A)) : Distinct (core op L) :=
  distinct_sublist (absorbN_sublist op _ _) (dedupAux_spec [] L).1

theorem core_mabsFree (op : Op) (L : List (Expr A)) : MAbsFree op (core op L) :=
  absorbN_mabsFree op _ (dedupAux_spec [] L).1

theorem core_dom (op : Op) (L : List (Expr A)) (he : ∀ x ∈ L, Elem op x) : ∀ t ∈ L, ∃ a ∈ core op L, Dom op t a := by
  intro t ht
  have hm := dedupAux_memE [] L t ht
  simp only [memE, List.any_nil, Bool.false_eq_true, false_or] at hm
  obtain ⟨d, hd, htd⟩ := (memE_iff _ _).mp hm
  have hdL : d ∈ L := dedupAux_sub [] L d hd
  obtain ⟨a, ha, hda⟩ := absorbN_dom op _ _ (dedupAux_spec [] L).1 (fun x hx => he x (dedupAux_sub [] L x hx)) d hd
  exact ⟨a, ha, Dom.trans op t d a (he t ht) (he d hdL) (he a (core_sub op L a ha)) (Or.inl htd) hda⟩

/-- every operand of one list is dominated by an operand of the other -/
def DomBy (op : Op) (L1 L2 : List (Expr A)) : Prop := ∀ t ∈ L1, ∃ u ∈ L2, Dom op t u

theorem core_subE (op : Op) (L1 L2 : List (Expr A)) (he1 : ∀ x ∈ L1, Elem op x) (he2 : ∀ x ∈ L2, Elem op x)
    (h12 : DomBy op L1 L2) (h21 : DomBy op L2 L1) : SubE (core op L1) (core op L2) := by
  intro t ht
  have htL := core_sub op L1 t ht
  obtain ⟨u, hu, htu⟩ := h12 t htL
  obtain ⟨a', ha', hua'⟩ := core_dom op L2 he2 u hu
  have ha'L := core_sub op L2 a' ha'
  obtain ⟨w, hw, ha'w⟩ := h21 a' ha'L
  obtain ⟨c, hc, hwc⟩ := core_dom op L1 he1 w hw
  have hcL := core_sub op L1 c hc
  have hta' : Dom op t a' := Dom.trans op t u a' (he1 t htL) (he2 u hu) (he2 a' ha'L) htu hua'
  have ha'c : Dom op a' c := Dom.trans op a' w c (he2 a' ha'L) (he1 w hw) (he1 c hcL) ha'w hwc
  have htc : Dom op t c := Dom.trans op t a' c (he1 t htL) (he2 a' ha'L) (he1 c hcL) hta' ha'c
  -- t and c are both in the absorption-free core of L1: t == c
  have hteq : eqE t c = true := by
    rcases htc with h | ⟨hdual, hcon, hne⟩
    · exact h
    · have := core_mabsFree op L1 t ht hdual c hc hne
      rw [this] at hcon; cases hcon
  exact (memE_iff _ _).mpr ⟨a', ha', Dom.antisymm op t a' c (he1 t htL) (he2 a' ha'L) (he1 c hcL) hta' ha'c hteq⟩

/-- **the canonical core**: operand lists that dominate each other have the same core up to `eqE` -/
theorem core_setEq (op : Op) (L1 L2 : List (Expr A)) (he1 : ∀ x ∈ L1, Elem op x) (he2 : ∀ x ∈ L2, Elem op x)
    (h12 : DomBy op L1 L2) (h21 : DomBy op L2 L1) : SetEq (core op L1) (core op L2) :=
  ⟨core_subE op L1 L2 he1 he2 h12 h21, core_subE op L2 L1 he2 he1 h21 h12⟩

end LE
