import LicenseExpr.Lemmas.Cover
import LicenseExpr.Lemmas.Tiles
/-!
# Lemmas/CoverTiles — an ordered, disjoint, piece-aligned, covering token list tiles the pieces

`FinalOK ps l` (what C17 says of `Trie.tokenize`) gives `Tiles ps (l.map ofTok)` (what C01 needs of
the first stage of the default tokenizer).
-/
namespace LE

theorem mem_takeWhile_imp' {α : Type} {P : α → Bool} {l : List α} {x : α} (h : x ∈ l.takeWhile P) : P x = true := by
  have := @List.all_takeWhile α P l
  rw [List.all_eq_true] at this
  exact this x h

theorem mem_takeWhile_sorted (P : Piece → Bool) (ps : List Piece)
    (hanti : ps.Pairwise (fun a b => P b = true → P a = true)) :
    ∀ p ∈ ps, P p = true → p ∈ ps.takeWhile P := by
  induction ps with
  | nil => simp
  | cons x xs ih =>
    rw [List.pairwise_cons] at hanti
    intro p hp hP
    by_cases hx : P x = true
    · rw [List.takeWhile_cons_of_pos hx]
      rcases List.mem_cons.mp hp with rfl | hp
      · simp
      · exact List.mem_cons_of_mem _ (ih hanti.2 p hp hP)
    · rcases List.mem_cons.mp hp with rfl | hp
      · exact absurd hP hx
      · exact absurd (hanti.1 p hp hP) hx

theorem not_of_mem_dropWhile_sorted (P : Piece → Bool) (ps : List Piece)
    (hanti : ps.Pairwise (fun a b => P b = true → P a = true)) :
    ∀ p ∈ ps.dropWhile P, ¬ P p = true := by
  induction ps with
  | nil => simp
  | cons x xs ih =>
    rw [List.pairwise_cons] at hanti
    intro p hp hP
    by_cases hx : P x = true
    · rw [List.dropWhile_cons_of_pos hx] at hp
      exact ih hanti.2 p hp hP
    · rw [List.dropWhile_cons_of_neg hx] at hp
      rcases List.mem_cons.mp hp with rfl | hp
      · exact hx hP
      · exact hx (hanti.1 p hp hP)

theorem groupEnd_of_last (g : List Piece) (b : Piece) (hb : b ∈ g)
    (hg : g.Pairwise (fun p q => p.stop < q.start)) (hle : ∀ p ∈ g, p.start ≤ b.stop) :
    groupEnd g = b.stop := by
  induction g with
  | nil => simp at hb
  | cons p g ih =>
    cases g with
    | nil => simp at hb; subst hb; rfl
    | cons q r =>
      rw [List.pairwise_cons] at hg
      rw [groupEnd]
      rcases List.mem_cons.mp hb with rfl | hb'
      · have := hg.1 q (by simp)
        have := hle q (by simp)
        omega
      · exact ih hb' hg.2 (fun p hp => hle p (List.mem_cons_of_mem _ hp))

theorem finalOK_tiles {V : Type} (f : Tok V → STok) (hfs : ∀ t, (f t).s = t.s) (hfe : ∀ t, (f t).e = t.e)
    (l : List (Tok V)) : ∀ (ps : List Piece), PiecesOK ps → FinalOK ps l → Tiles ps (l.map f) := by
  induction l with
  | nil =>
    intro ps _ ⟨_, _, hcov⟩
    cases ps with
    | nil => exact Tiles.nil
    | cons p ps => obtain ⟨t, ht, _⟩ := hcov p (by simp); simp at ht
  | cons t ts ih =>
    intro ps hok ⟨hpw, hal, hcov⟩
    rw [List.pairwise_cons] at hpw
    let P : Piece → Bool := fun p => decide (p.start ≤ t.e)
    have hanti : ps.Pairwise (fun a b => P b = true → P a = true) := by
      refine hok.1.imp_of_mem ?_
      intro a b ha _ hab hb
      have := hok.2 a ha
      simp only [P, decide_eq_true_eq] at *
      omega
    have hsplit : ps.takeWhile P ++ ps.dropWhile P = ps := List.takeWhile_append_dropWhile
    have htne : t.s ≤ t.e := aligned_ne ps hok t (hal t (by simp))
    obtain ⟨a, ha, b, hb, hta, htb, hab⟩ := hal t (by simp)
    have hbne := hok.2 b hb
    have hbg : b ∈ ps.takeWhile P :=
      mem_takeWhile_sorted P ps hanti b hb (by simp only [P, decide_eq_true_eq]; omega)
    have hgne : ps.takeWhile P ≠ [] := List.ne_nil_of_mem hbg
    -- the first piece is where `t` starts
    have hstart : t.s = groupStart (ps.takeWhile P) := by
      cases hps : ps with
      | nil => rw [hps] at hb; simp at hb
      | cons p0 rest =>
        have hp0 : p0 ∈ ps := by rw [hps]; simp
        have hfirst : ∀ q ∈ ps, p0.start ≤ q.start := by
          intro q hq
          rw [hps] at hq
          rcases List.mem_cons.mp hq with rfl | hq
          · exact Nat.le_refl _
          · have h1 := hok.1; rw [hps, List.pairwise_cons] at h1
            have := h1.1 q hq
            have := hok.2 p0 hp0
            omega
        have hts : t.s = p0.start := by
          obtain ⟨u, hu, hu1, hu2⟩ := hcov p0 hp0
          obtain ⟨a', ha', _, _, hua, _, _⟩ := hal u hu
          have h1 := hfirst a' ha'
          have h2 := hfirst a ha
          rcases List.mem_cons.mp hu with rfl | hu'
          · omega
          · have := hpw.1 u hu'; omega
        have hP0 : P p0 = true := by simp only [P, decide_eq_true_eq]; omega
        rw [List.takeWhile_cons_of_pos hP0]
        exact hts
    have hend : t.e = groupEnd (ps.takeWhile P) := by
      rw [groupEnd_of_last _ b hbg (hok.1.sublist (List.takeWhile_sublist P)) ?_]
      · exact htb
      · intro p hp
        have := mem_takeWhile_imp' hp
        simp only [P, decide_eq_true_eq] at this
        omega
    have hdrop_not : ∀ p ∈ ps.dropWhile P, ¬ p.start ≤ t.e := by
      intro p hp h
      exact not_of_mem_dropWhile_sorted P ps hanti p hp (by simp only [P, decide_eq_true_eq]; exact h)
    have hmem_drop : ∀ q ∈ ps, t.e < q.start → q ∈ ps.dropWhile P := by
      intro q hq hlt
      rw [← hsplit] at hq
      rcases List.mem_append.mp hq with h | h
      · have := mem_takeWhile_imp' h
        simp only [P, decide_eq_true_eq] at this
        omega
      · exact h
    have hok' : PiecesOK (ps.dropWhile P) :=
      ⟨hok.1.sublist (List.dropWhile_sublist P), fun p hp => hok.2 p ((List.dropWhile_sublist P).subset hp)⟩
    have hrest : FinalOK (ps.dropWhile P) ts := by
      refine ⟨hpw.2, ?_, ?_⟩
      · intro u hu
        obtain ⟨a', ha', b', hb', h1, h2, h3⟩ := hal u (List.mem_cons_of_mem _ hu)
        have := hpw.1 u hu
        exact ⟨a', hmem_drop a' ha' (by omega), b', hmem_drop b' hb' (by omega), h1, h2, h3⟩
      · intro p hp
        have hp' : p ∈ ps := (List.dropWhile_sublist P).subset hp
        obtain ⟨u, hu, hu1, hu2⟩ := hcov p hp'
        rcases List.mem_cons.mp hu with rfl | hu'
        · exfalso
          apply hdrop_not p hp
          have := hok.2 p hp'
          omega
        · exact ⟨u, hu', hu1, hu2⟩
    have := Tiles.cons (ps.takeWhile P) (ps.dropWhile P) (f t) (ts.map f) hgne
      (by rw [hfs]; exact hstart) (by rw [hfe]; exact hend) (ih _ hok' hrest)
    rw [hsplit] at this
    exact this

end LE
