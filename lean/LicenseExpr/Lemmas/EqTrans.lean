import LicenseExpr.Lemmas.NormalForm
/-!
# Lemmas/EqTrans — `eqE` is transitive; inclusion of operand lists up to `eqE`
-/
set_option linter.unusedSectionVars false
namespace LE
variable {A : Type} [DecidableEq A]

theorem eqE_atom_node (a : A) (o : Op) (l : List (Expr A)) : eqE (.atom a) (.node o l) = false := by
  rw [eqE] <;> simp
theorem eqE_node_atom (a : A) (o : Op) (l : List (Expr A)) : eqE (.node o l) (.atom a) = false := by
  rw [eqE] <;> simp
theorem eqE_atom_atom (a b : A) : eqE (.atom a : Expr A) (.atom b) = true ↔ a = b := by
  rw [eqE]; simp

theorem eqE_trans_aux (n : Nat) : ∀ (x y z : Expr A), sizeOf x ≤ n → eqE x y = true → eqE y z = true → eqE x z = true := by
  induction n with
  | zero =>
    intro x y z hx
    cases x <;> simp at hx <;> omega
  | succ n ih =>
    intro x y z hx hxy hyz
    cases x with
    | atom a =>
      cases y with
      | atom b =>
        cases z with
        | atom c => rw [eqE_atom_atom] at *; exact hxy.trans hyz
        | node o l => rw [eqE_atom_node] at hyz; cases hyz
      | node o l => rw [eqE_atom_node] at hxy; cases hxy
    | node o1 as =>
      cases y with
      | atom b => rw [eqE_node_atom] at hxy; cases hxy
      | node o2 bs =>
        cases z with
        | atom c => rw [eqE_node_atom] at hyz; cases hyz
        | node o3 cs =>
          obtain ⟨rfl, h1, h2⟩ := (eqE_node_iff _ _ _ _).mp hxy
          obtain ⟨rfl, h3, h4⟩ := (eqE_node_iff _ _ _ _).mp hyz
          have hsz : ∀ a ∈ as, sizeOf a ≤ n := by
            intro a ha
            have := List.sizeOf_lt_of_mem ha
            simp at hx; omega
          refine (eqE_node_iff _ _ _ _).mpr ⟨rfl, ?_, ?_⟩
          · intro a ha
            obtain ⟨b, hb, hab⟩ := h1 a ha
            obtain ⟨c, hc, hbc⟩ := h3 b hb
            exact ⟨c, hc, ih a b c (hsz a ha) hab hbc⟩
          · intro c hc
            obtain ⟨b, hb, hcb⟩ := h4 c hc
            obtain ⟨a, ha, hba⟩ := h2 b hb
            refine ⟨a, ha, ?_⟩
            apply eqE_symm_imp
            exact ih a b c (hsz a ha) (eqE_symm_imp _ _ hba) (eqE_symm_imp _ _ hcb)

theorem eqE_trans (x y z : Expr A) : eqE x y = true → eqE y z = true → eqE x z = true :=
  eqE_trans_aux (sizeOf x) x y z (Nat.le_refl _)

theorem eqE_false_of_eq_left (x y z : Expr A) (hxy : eqE x y = true) (hxz : eqE x z = false) : eqE y z = false := by
  cases h : eqE y z with
  | false => rfl
  | true => rw [eqE_trans x y z hxy h] at hxz; cases hxz

theorem memE_iff (x : Expr A) (l : List (Expr A)) : memE x l = true ↔ ∃ y ∈ l, eqE x y = true := by
  simp [memE]

theorem memE_of_mem (x : Expr A) (l : List (Expr A)) (h : x ∈ l) : memE x l = true :=
  (memE_iff x l).mpr ⟨x, h, eqE_refl x⟩

theorem memE_congr (x x' : Expr A) (l : List (Expr A)) (he : eqE x x' = true) (h : memE x l = true) : memE x' l = true := by
  obtain ⟨y, hy, hxy⟩ := (memE_iff x l).mp h
  exact (memE_iff x' l).mpr ⟨y, hy, eqE_trans _ _ _ (eqE_symm_imp _ _ he) hxy⟩

/-- every element of `l` is (up to `eqE`) an element of `l'` -/
def SubE (l l' : List (Expr A)) : Prop := ∀ a ∈ l, memE a l' = true

theorem SubE.refl (l : List (Expr A)) : SubE l l := fun a ha => memE_of_mem a l ha

theorem SubE.trans {l1 l2 l3 : List (Expr A)} (h12 : SubE l1 l2) (h23 : SubE l2 l3) : SubE l1 l3 := by
  intro a ha
  obtain ⟨b, hb, hab⟩ := (memE_iff _ _).mp (h12 a ha)
  exact memE_congr b a l3 (eqE_symm_imp _ _ hab) (h23 b hb)

theorem SubE.of_subset {l l' : List (Expr A)} (h : ∀ a ∈ l, a ∈ l') : SubE l l' :=
  fun a ha => memE_of_mem a l' (h a ha)

theorem memE_subE (x : Expr A) {l l' : List (Expr A)} (h : SubE l l') (hx : memE x l = true) : memE x l' = true := by
  obtain ⟨y, hy, hxy⟩ := (memE_iff _ _).mp hx
  exact memE_congr y x l' (eqE_symm_imp _ _ hxy) (h y hy)

/-- the two operand lists are equal as sets up to `eqE` -/
def SetEq (l l' : List (Expr A)) : Prop := SubE l l' ∧ SubE l' l

theorem eqE_node_setEq (o : Op) (l l' : List (Expr A)) : eqE (.node o l) (.node o l') = true ↔ SetEq l l' := by
  rw [eqE_node_iff]
  simp only [true_and, SetEq, SubE, memE_iff]

theorem SetEq.refl (l : List (Expr A)) : SetEq l l := ⟨SubE.refl l, SubE.refl l⟩
theorem SetEq.symm {l l' : List (Expr A)} (h : SetEq l l') : SetEq l' l := ⟨h.2, h.1⟩
theorem SetEq.trans {l1 l2 l3 : List (Expr A)} (h12 : SetEq l1 l2) (h23 : SetEq l2 l3) : SetEq l1 l3 :=
  ⟨h12.1.trans h23.1, h23.2.trans h12.2⟩
theorem SetEq.of_perm {l l' : List (Expr A)} (h : l.Perm l') : SetEq l l' :=
  ⟨SubE.of_subset (fun _ ha => h.mem_iff.mp ha), SubE.of_subset (fun _ ha => h.mem_iff.mpr ha)⟩

end LE
