import LicenseExpr.Lemmas.ACIter
/-!
# Lemmas/TrieMap — `Trie.add / get / items` refine a last-write-wins map keyed by the folded word sequence
-/
namespace LE
namespace AC
variable {V : Type}

/-- the abstract map: the entry stored under a word sequence -/
def lookupW (t : Trie V) (ws : List Word) : Option (TEntry V) := t.entries.find? (fun e => e.words = ws)

theorem replaceEntry_find_same (e : TEntry V) (l : List (TEntry V)) :
    (replaceEntry e l).find? (fun x => x.words = e.words) = some e := by
  fun_induction replaceEntry e l <;> simp_all

theorem replaceEntry_find_other (e : TEntry V) (l : List (TEntry V)) (ws : List Word) (h : ws ≠ e.words) :
    (replaceEntry e l).find? (fun x => x.words = ws) = l.find? (fun x => x.words = ws) := by
  fun_induction replaceEntry e l
  · have : ¬ e.words = ws := fun h' => h h'.symm
    simp [List.find?, this]
  · next x xs hx =>
    have : ¬ x.words = ws := fun h' => h (by rw [← h', hx])
    have : ¬ e.words = ws := fun h' => h h'.symm
    simp_all [List.find?]
  · next x xs hx ih =>
    simp only [List.find?]
    split <;> simp_all

theorem replaceEntry_mem (e : TEntry V) (l : List (TEntry V)) : ∀ x ∈ replaceEntry e l, x = e ∨ x ∈ l := by
  fun_induction replaceEntry e l <;> simp_all
  all_goals grind

theorem addKnown_mem (known ws : List Word) : ∀ w, (addKnown known ws).contains w = true ↔ (known.contains w = true ∨ w ∈ ws) := by
  fun_induction addKnown known ws <;> simp_all
  all_goals grind

/-- `add` keeps the invariant that every stored word is a known word -/
theorem add_knownOK (c : Cls) (t t' : Trie V) (name : Str) (v : V) (hk : KnownOK t) (h : t.add c name v = .ok t') : KnownOK t' := by
  unfold Trie.add at h
  split at h
  · simp at h
  · split at h
    · simp at h; subst h; exact hk
    · simp only at h
      split at h
      · simp at h; subst h; exact hk
      · simp at h; subst h
        intro e he w hw
        simp only at he ⊢
        rw [addKnown_mem]
        rcases replaceEntry_mem _ _ e he with rfl | he'
        · right; exact hw
        · left; exact hk e he' w hw

theorem empty_knownOK : KnownOK (Trie.empty : Trie V) := by
  intro e he; simp [Trie.empty] at he

theorem makeAutomaton_knownOK (t : Trie V) (hk : KnownOK t) : KnownOK t.makeAutomaton := hk

/-- **map refinement, write**: after `add(name, v)` with at least one word, the word sequence of `name`
    maps to `(name, v)` and every other word sequence maps to what it mapped to before -/
theorem add_lookup (c : Cls) (t t' : Trie V) (name : Str) (v : V) (h : t.add c name v = .ok t')
    (hw : wordsOf c name ≠ []) (hn : name ≠ []) :
    lookupW t' (wordsOf c name) = some ⟨name, wordsOf c name, v⟩ ∧
    ∀ ws, ws ≠ wordsOf c name → lookupW t' ws = lookupW t ws := by
  unfold Trie.add at h
  split at h
  · simp at h
  · have hn' : name.isEmpty = false := by cases name <;> simp_all
    have hw' : (wordsOf c name).isEmpty = false := by cases hws : wordsOf c name <;> simp_all
    simp [hn', hw'] at h
    subst h
    refine ⟨?_, fun ws hne => ?_⟩
    · exact replaceEntry_find_same ⟨name, wordsOf c name, v⟩ t.entries
    · exact replaceEntry_find_other ⟨name, wordsOf c name, v⟩ t.entries ws hne

/-- empty names and names without any word are ignored -/
theorem add_ignored (c : Cls) (t : Trie V) (name : Str) (v : V) (hc : t.converted = false)
    (h : name = [] ∨ wordsOf c name = []) : t.add c name v = .ok t := by
  unfold Trie.add
  rcases h with rfl | h
  · simp [hc]
  · simp [hc, h]

/-! ### look-ups read back the map (before finalisation) -/

theorem walkFrom_eq (t : Trie V) (hc : t.converted = false) (p ws q : List Word) (h : walkFrom t p ws = some q) :
    q = p ++ ws := by
  induction ws generalizing p with
  | nil => simp [walkFrom] at h; simp [h]
  | cons w ws ih =>
    simp only [walkFrom, hc, Bool.false_and, Bool.false_eq_true, ↓reduceIte] at h
    split at h
    · have := ih (p ++ [w]) h; simpa using this
    · cases h

theorem walkFrom_node (t : Trie V) (p ws : List Word) (h : isNodeB t.names (p ++ ws) = true) :
    walkFrom t p ws = some (p ++ ws) := by
  induction ws generalizing p with
  | nil => simp [walkFrom]
  | cons w ws ih =>
    have hn : isNodeB t.names (p ++ [w]) = true := by
      rw [isNodeB_iff] at h ⊢
      have : p ++ w :: ws = (p ++ [w]) ++ ws := by simp
      rw [this] at h
      exact node_prefix_closed h
    simp only [walkFrom, hn, ↓reduceIte]
    have := ih (p ++ [w]) (by simpa using h)
    simpa using this

/-- **map refinement, read**: before finalisation `get` returns what is stored under the folded word
    sequence of the name asked for — so look-ups ignore letter case and the amount of whitespace -/
theorem get_lookup (c : Cls) (t : Trie V) (hc : t.converted = false) (name : Str) (hw : wordsOf c name ≠ []) :
    t.get c name = (lookupW t (wordsOf c name)).map (fun e => (e.name, e.val)) := by
  have hn : name.isEmpty = false := by
    cases name with
    | nil => exact absurd (by simp [wordsOf, wordPieces, pieces, lexGo]) hw
    | cons _ _ => rfl
  unfold Trie.get Trie.getNode
  simp only [hn, Bool.false_eq_true, ↓reduceIte]
  cases hwalk : walkFrom t [] (wordsOf c name) with
  | some q =>
    have := walkFrom_eq t hc [] _ q hwalk
    simp only [List.nil_append] at this
    subst this
    have he : (wordsOf c name).isEmpty = false := by cases h : wordsOf c name <;> simp_all
    simp [Trie.outputAt, he, lookupW]
  | none =>
    simp only
    cases hl : lookupW t (wordsOf c name) with
    | none => rfl
    | some e =>
      exfalso
      have hmem := List.mem_of_find?_eq_some hl
      have hwe : e.words = wordsOf c name := by simpa using List.find?_some hl
      have hnode : isNodeB t.names ([] ++ wordsOf c name) = true := by
        rw [isNodeB_iff]
        right
        exact ⟨e.words, by simp [Trie.names]; exact ⟨e, hmem, rfl⟩, by simp [hwe]⟩
      rw [walkFrom_node t [] _ hnode] at hwalk
      cases hwalk

theorem exists_lookup (c : Cls) (t : Trie V) (hc : t.converted = false) (name : Str) (hw : wordsOf c name ≠ []) :
    t.exists_ c name = (lookupW t (wordsOf c name)).isSome := by
  unfold Trie.exists_
  rw [get_lookup c t hc name hw]
  cases lookupW t (wordsOf c name) <;> rfl

end AC
end LE
