import LicenseExpr.Lemmas.ACIter
/-!
# Lemmas/TrieMap — `Trie.add / get / items` refine a last-write-wins map keyed by the folded word sequence
-/
namespace LE
namespace AC
variable {V : Type}

/-- the abstract map: the entry stored under a word sequence -/
def lookupW (t : Trie V) (ws : List Word) : Option (TEntry V) := t.entries.find? (fun e => e.words = ws)

theorem replaceEntry_find_same (e : TEntry V) (l : List (TEntry V)) :
    (replaceEntry e l).find? (fun x => x.words = e.words) = some e := by
  fun_induction replaceEntry e l <;> simp_all

theorem replaceEntry_find_other (e : TEntry V) (l : List (TEntry V)) (ws : List Word) (h : ws ≠ e.words) :
    (replaceEntry e l).find? (fun x => x.words = ws) = l.find? (fun x => x.words = ws) := by
  fun_induction replaceEntry e l
  · have : ¬ e.words = ws := fun h' => h h'.symm
    simp [List.find?, this]
  · next x xs hx =>
    have : ¬ x.words = ws := fun h' => h (by rw [← h', hx])
    have : ¬ e.words = ws := fun h' => h h'.symm
    simp_all [List.find?]
  · next x xs hx ih =>
    simp only [List.find?]
    split <;> simp_all

theorem replaceEntry_mem (e : TEntry V) (l : List (TEntry V)) : ∀ x ∈ replaceEntry e l, x = e ∨ x ∈ l := by
  fun_induction replaceEntry e l <;> simp_all
  all_goals grind

theorem addKnown_mem (known ws : List Word) : ∀ w, (addKnown known ws).contains w = true ↔ (known.contains w = true ∨ w ∈ ws) := by
  fun_induction addKnown known ws <;> simp_all
  all_goals grind

/-- `add` keeps the invariant that every stored word is a known word -/
theorem add_knownOK (c : Cls) (t t' : Trie V) (name : Str) (v : V) (hk : KnownOK t) (h : t.add c name v = .ok t') : KnownOK t' := by
  unfold Trie.add at h
  split at h
  · simp at h
  · split at h
    · simp at h; subst h; exact hk
    · simp only at h
      split at h
      · simp at h; subst h; exact hk
      · simp at h; subst h
        intro e he w hw
        simp only at he ⊢
        rw [addKnown_mem]
        rcases replaceEntry_mem _ _ e he with rfl | he'
        · right; exact hw
        · left; exact hk e he' w hw

theorem empty_knownOK : KnownOK (Trie.empty : Trie V) := by
  intro e he; simp [Trie.empty] at he

theorem makeAutomaton_knownOK (t : Trie V) (hk : KnownOK t) : KnownOK t.makeAutomaton := hk

/-- **map refinement, write**: after `add(name, v)` with at least one word, the word sequence of `name`
    maps to `(name, v)` and every other word sequence maps to what it mapped to before -/
theorem add_lookup (c : Cls) (t t' : Trie V) (name : Str) (v : V) (h : t.add c name v = .ok t')
    (hw : wordsOf c name ≠ []) (hn : name ≠ []) :
    lookupW t' (wordsOf c name) = some ⟨name, wordsOf c name, v⟩ ∧
    ∀ ws, ws ≠ wordsOf c name → lookupW t' ws = lookupW t ws := by
  unfold Trie.add at h
  split at h
  · simp at h
  · have hn' : name.isEmpty = false := by cases name <;> simp_all
    have hw' : (wordsOf c name).isEmpty = false := by cases hws : wordsOf c name <;> simp_all
    simp [hn', hw'] at h
    subst h
    refine ⟨?_, fun ws hne => ?_⟩
    · exact replaceEntry_find_same ⟨name, wordsOf c name, v⟩ t.entries
    · exact replaceEntry_find_other ⟨name, wordsOf c name, v⟩ t.entries ws hne

/-- empty names and names without any word are ignored -/
theorem add_ignored (c : Cls) (t : Trie V) (name : Str) (v : V) (hc : t.converted = false)
    (h : name = [] ∨ wordsOf c name = []) : t.add c name v = .ok t := by
  unfold Trie.add
  rcases h with rfl | h
  · simp [hc]
  · simp [hc, h]

end AC
end LE
