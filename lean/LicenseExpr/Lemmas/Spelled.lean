import LicenseExpr.Lemmas.Segments
import LicenseExpr.Lemmas.RenderText
/-!
# Lemmas/Spelled — an expression whose licenses are written as any of their names parses to its tree

The text is a sequence of segments, one per token of a skeleton (`SegsFor`): an operator or a
parenthesis is one word; a license is a run of words that reads as a stored name of that license
(any name, in any letter case, with any blanks between the words); a pair is license, `with`,
exception. For a table in which no stored name of several words contains an operator word or a
parenthesis, every match of the scan lies within one segment (`within_of_table`), so the text is
tokenized into the skeleton (`tokenize_segments`) and parses to what the skeleton parses to.
-/
namespace LE

/-! ### the automaton of a table: where its entries come from, what it stores under a word sequence -/

theorem addD_entries (c : Cls) (t : Trie TVal) (name : Str) (v : TVal) :
    ∀ e ∈ (t.addD c name v).entries, e ∈ t.entries ∨ (e.words = wordsOf c name ∧ e.words ≠ []) := by
  intro e he
  unfold Trie.addD Trie.add at he
  split at he
  · next t' hadd =>
    split at hadd
    · cases hadd
    · split at hadd
      · simp at hadd; subst hadd; exact Or.inl he
      · simp only at hadd
        split at hadd
        · simp at hadd; subst hadd; exact Or.inl he
        · next hne =>
          simp at hadd; subst hadd
          simp only at he
          rcases AC.replaceEntry_mem _ _ e he with rfl | h
          · right; exact ⟨rfl, by simpa using hne⟩
          · exact Or.inl h
  · exact Or.inl he

theorem addAll_entries (c : Cls) (adds : List (Str × TVal)) : ∀ (t : Trie TVal),
    ∀ e ∈ (addAll c t adds).entries, e ∈ t.entries ∨ ∃ a ∈ adds, e.words = wordsOf c a.1 ∧ e.words ≠ [] := by
  induction adds with
  | nil => intro t e he; exact Or.inl he
  | cons a rest ih =>
    intro t e he
    have : addAll c t (a :: rest) = addAll c (t.addD c a.1 a.2) rest := rfl
    rw [this] at he
    rcases ih _ e he with h | ⟨b, hb, h⟩
    · rcases addD_entries c t a.1 a.2 e h with h1 | h1
      · exact Or.inl h1
      · exact Or.inr ⟨a, by simp, h1⟩
    · exact Or.inr ⟨b, List.mem_cons_of_mem _ hb, h⟩

theorem buildTrie_entries (c : Cls) (T : Table) : ∀ e ∈ (buildTrie c T).entries, ∃ a ∈ addsOf c T, e.words = wordsOf c a.1 ∧ e.words ≠ [] := by
  intro e he
  rw [buildTrie_adds] at he
  rcases addAll_entries c (addsOf c T) Trie.empty e (by simpa [Trie.makeAutomaton] using he) with h | h
  · simp [Trie.empty] at h
  · exact h

theorem buildTrie_knownOK (c : Cls) (T : Table) : AC.KnownOK (buildTrie c T) := by
  rw [buildTrie_adds]
  exact (addAll_lookup c (addsOf c T) [[]] (by simp) Trie.empty rfl AC.empty_knownOK).2.1

/-- every name stored under the word sequence `ws` carries the value `v` (and there is one) -/
def OwnedByV (c : Cls) (T : Table) (ws : List Word) (v : TVal) : Prop :=
  (∃ a ∈ addsOf c T, wordsOf c a.1 = ws) ∧ ∀ a ∈ addsOf c T, wordsOf c a.1 = ws → a.2 = v

theorem buildTrie_lookupV (c : Cls) (T : Table) (ws : List Word) (hws : ws ≠ []) (v : TVal) (hown : OwnedByV c T ws v) :
    ∃ e, (buildTrie c T).outputAt ws = some e ∧ e.val = v := by
  obtain ⟨_, _, h3⟩ := addAll_lookup c (addsOf c T) ws hws Trie.empty rfl AC.empty_knownOK
  rw [buildTrie_adds]
  have hout : (addAll c Trie.empty (addsOf c T)).makeAutomaton.outputAt ws = AC.lookupW (addAll c Trie.empty (addsOf c T)) ws := by
    have : ws.isEmpty = false := by cases ws <;> simp_all
    simp [Trie.outputAt, Trie.makeAutomaton, AC.lookupW, this]
  rw [hout, h3]
  cases hf : (addsOf c T).reverse.find? (fun a => wordsOf c a.1 = ws) with
  | none =>
    exfalso
    obtain ⟨a, ha, hwa⟩ := hown.1
    have := List.find?_eq_none.mp hf a (by simpa using ha)
    simp [hwa] at this
  | some a =>
    have ha : a ∈ addsOf c T := by simpa using List.mem_of_find?_eq_some hf
    have hwa : wordsOf c a.1 = ws := by simpa using List.find?_some hf
    exact ⟨_, rfl, hown.2 a ha hwa⟩

/-! ### splitting the pieces of a segmentation at a piece -/

theorem flatten_split {V : Type} : ∀ (segs : List (Seg V)) (pre : List Piece) (p : Piece) (post : List Piece),
    segPieces segs = pre ++ p :: post →
    ∃ S1 g1 g2 o S2, segs = S1 ++ (g1 ++ p :: g2, o) :: S2 ∧ pre = segPieces S1 ++ g1 ∧ post = g2 ++ segPieces S2
  | [], pre, p, post, h => by simp [segPieces] at h
  | sg :: rest, pre, p, post, h => by
    rw [segPieces_cons] at h
    rcases List.append_eq_append_iff.mp h with ⟨a', h1, h2⟩ | ⟨c', h1, h2⟩
    · -- the piece is in a later segment
      obtain ⟨S1, g1, g2, o, S2, i1, i2, i3⟩ := flatten_split rest a' p post h2
      exact ⟨sg :: S1, g1, g2, o, S2, by rw [i1]; rfl, by rw [h1, i2, segPieces_cons]; simp, i3⟩
    · cases c' with
      | nil =>
        simp only [List.nil_append] at h2
        simp only [List.append_nil] at h1
        obtain ⟨S1, g1, g2, o, S2, i1, i2, i3⟩ := flatten_split rest [] p post h2.symm
        exact ⟨sg :: S1, g1, g2, o, S2, by rw [i1]; rfl, by rw [← h1, segPieces_cons]; simpa using i2, i3⟩
      | cons x c'' =>
        simp only [List.cons_append, List.cons.injEq] at h2
        obtain ⟨rfl, h2⟩ := h2
        exact ⟨[], pre, c'', sg.2, rest, by simp [← h1], by simp [segPieces], h2⟩

/-! ### spelling a skeleton -/

def foldsOf (c : Cls) (g : List Piece) : List Word := g.map (fun p => c.fold p.text)

/-- an operand as written in the text: a run of words that reads as a stored name of the license, or —
    for a license the table does not know — a run of words none of which occurs in any stored name
    and which spell its key -/
inductive OperandSeg (c : Cls) (T : Table) (s : Sym) : Seg TVal → Prop
  | known (g : List Piece) : g ≠ [] → OwnedByV c T (foldsOf c g) (.sym s) → OperandSeg c T s (g, some (.sym s))
  | unknown (g : List Piece) : g ≠ [] → (∀ p ∈ g, ∀ a ∈ addsOf c T, c.fold p.text ∉ wordsOf c a.1) →
      normKey c (joinStr [SPACE] (g.map (·.text))) = some s.key → s.exc = false → OperandSeg c T s (g, none)

/-- the segments one token of a skeleton may be written as -/
inductive SegFor (c : Cls) (T : Table) : BP.Tok Atom → List (Seg TVal) → Prop
  | and (p : Piece) : c.fold p.text = sAND → SegFor c T .and [([p], some (.kw .and))]
  | or (p : Piece) : c.fold p.text = sOR → SegFor c T .or [([p], some (.kw .or))]
  | lpar (p : Piece) : c.fold p.text = sLPAR → SegFor c T .lpar [([p], some (.kw .lpar))]
  | rpar (p : Piece) : c.fold p.text = sRPAR → SegFor c T .rpar [([p], some (.kw .rpar))]
  | lic (s : Sym) (sg : Seg TVal) : OperandSeg c T s sg → SegFor c T (.sym (.lic s)) [sg]
  | withE (l e : Sym) (sgl : Seg TVal) (pw : Piece) (sge : Seg TVal) :
      OperandSeg c T l sgl → c.fold pw.text = sWITH → OperandSeg c T e sge →
      SegFor c T (.sym (.withE l e)) [sgl, ([pw], some (.kw .with)), sge]

inductive SegsFor (c : Cls) (T : Table) : List (BP.Tok Atom) → List (Seg TVal) → Prop
  | nil : SegsFor c T [] []
  | cons {t ts sgs rest} : SegFor c T t sgs → SegsFor c T ts rest → SegsFor c T (t :: ts) (sgs ++ rest)

/-- what each segment of a spelled skeleton is: a keyword on one word, a name owned by a license, or a
    run of words that occur in no stored name -/
def SegShape (c : Cls) (T : Table) (sg : Seg TVal) : Prop :=
  (∃ p k, sg = ([p], some (.kw k)) ∧ c.fold p.text = k.spelling) ∨
  (∃ g s, sg = (g, some (.sym s)) ∧ g ≠ [] ∧ OwnedByV c T (foldsOf c g) (.sym s)) ∨
  (∃ g, sg = (g, none) ∧ g ≠ [] ∧ ∀ p ∈ g, ∀ a ∈ addsOf c T, c.fold p.text ∉ wordsOf c a.1)

theorem operandSeg_shape (c : Cls) (T : Table) (s : Sym) (sg : Seg TVal) (h : OperandSeg c T s sg) : SegShape c T sg := by
  cases h with
  | known g hg ho => exact Or.inr (Or.inl ⟨g, s, rfl, hg, ho⟩)
  | unknown g hg hu _ _ => exact Or.inr (Or.inr ⟨g, rfl, hg, hu⟩)

theorem segFor_shape (c : Cls) (T : Table) (t : BP.Tok Atom) (sgs : List (Seg TVal)) (h : SegFor c T t sgs) :
    ∀ sg ∈ sgs, SegShape c T sg := by
  cases h with
  | and p hp => intro sg hsg; simp at hsg; subst hsg; exact Or.inl ⟨p, .and, rfl, hp⟩
  | or p hp => intro sg hsg; simp at hsg; subst hsg; exact Or.inl ⟨p, .or, rfl, hp⟩
  | lpar p hp => intro sg hsg; simp at hsg; subst hsg; exact Or.inl ⟨p, .lpar, rfl, hp⟩
  | rpar p hp => intro sg hsg; simp at hsg; subst hsg; exact Or.inl ⟨p, .rpar, rfl, hp⟩
  | lic s sg0 ho => intro sg hsg; simp at hsg; subst hsg; exact operandSeg_shape c T s _ ho
  | withE l e sgl pw sge hol hpw hoe =>
    intro sg hsg
    simp at hsg
    rcases hsg with rfl | rfl | rfl
    · exact operandSeg_shape c T l _ hol
    · exact Or.inl ⟨pw, .with, rfl, hpw⟩
    · exact operandSeg_shape c T e _ hoe

theorem segsFor_shape (c : Cls) (T : Table) {ts : List (BP.Tok Atom)} {segs : List (Seg TVal)} (h : SegsFor c T ts segs) :
    ∀ sg ∈ segs, SegShape c T sg := by
  induction h with
  | nil => intro sg hsg; cases hsg
  | cons h1 _ ih =>
    intro sg hsg
    rcases List.mem_append.mp hsg with h | h
    · exact segFor_shape c T _ _ h1 sg h
    · exact ih sg h

/-- an operand segment (a name or a run of unknown words), as opposed to a keyword -/
def isNameSeg (sg : Seg TVal) : Bool := match sg.2 with | some (.kw _) => false | _ => true

theorem operandSeg_isName (c : Cls) (T : Table) (s : Sym) (sg : Seg TVal) (h : OperandSeg c T s sg) : isNameSeg sg = true := by
  cases h <;> rfl

/-- no two operand segments follow each other directly -/
def AltOK : List (Seg TVal) → Prop
  | a :: b :: r => ¬ (isNameSeg a = true ∧ isNameSeg b = true) ∧ AltOK (b :: r)
  | _ => True

theorem altOK_cons_kw (k : Seg TVal) (l : List (Seg TVal)) (hk : isNameSeg k = false) (h : AltOK l) : AltOK (k :: l) := by
  cases l with
  | nil => trivial
  | cons b r => exact ⟨by simp [hk], h⟩

theorem altOK_head_kw (a : Seg TVal) (l : List (Seg TVal)) (hl : ∀ b ∈ l.head?, isNameSeg b = false) (h : AltOK l) : AltOK (a :: l) := by
  cases l with
  | nil => trivial
  | cons b r => exact ⟨by simp [hl b (by simp)], h⟩

theorem segsFor_alt (c : Cls) (T : Table) : ∀ {ts : List (BP.Tok Atom)} {segs : List (Seg TVal)}, SegsFor c T ts segs → NoSymSym ts →
    AltOK segs ∧ (∀ t r, ts = t :: r → isSymTok t = false → ∀ b ∈ segs.head?, isNameSeg b = false) := by
  intro ts segs h
  induction h with
  | nil => intro _; exact ⟨trivial, fun _ _ h => by cases h⟩
  | @cons t ts sgs rest h1 h2 ih =>
    intro hn
    have hn' : NoSymSym ts := by cases ts <;> first | trivial | exact hn.2
    obtain ⟨ih1, ih2⟩ := ih hn'
    have hhead : isSymTok t = true → ∀ b ∈ rest.head?, isNameSeg b = false := by
      intro ht
      cases ts with
      | nil => cases h2; intro b hb; simp at hb
      | cons u r =>
        have hu : isSymTok u = false := by
          cases hh : isSymTok u with
          | false => rfl
          | true => exact absurd ⟨ht, hh⟩ hn.1
        exact ih2 u r rfl hu
    cases h1 with
    | and p hp => exact ⟨altOK_cons_kw _ _ rfl ih1, fun _ _ _ _ b hb => by simp at hb; subst hb; rfl⟩
    | or p hp => exact ⟨altOK_cons_kw _ _ rfl ih1, fun _ _ _ _ b hb => by simp at hb; subst hb; rfl⟩
    | lpar p hp => exact ⟨altOK_cons_kw _ _ rfl ih1, fun _ _ _ _ b hb => by simp at hb; subst hb; rfl⟩
    | rpar p hp => exact ⟨altOK_cons_kw _ _ rfl ih1, fun _ _ _ _ b hb => by simp at hb; subst hb; rfl⟩
    | lic s sg ho =>
      exact ⟨altOK_head_kw _ _ (hhead rfl) ih1, fun t' r h hns => by simp at h; rw [← h.1] at hns; simp [isSymTok] at hns⟩
    | withE l e sgl pw sge hol hpw hoe =>
      refine ⟨?_, fun t' r h hns => by simp at h; rw [← h.1] at hns; simp [isSymTok] at hns⟩
      simp only [List.cons_append, List.nil_append]
      exact altOK_head_kw _ _ (by intro b hb; simp at hb; subst hb; rfl)
        (altOK_cons_kw _ _ rfl (altOK_head_kw _ _ (hhead rfl) ih1))

/-! ### no stored name reaches across a segment boundary -/

/-- no stored name of several words contains an operator word or a parenthesis -/
def OpWordFree (c : Cls) (T : Table) : Prop :=
  ∀ a ∈ addsOf c T, ∀ w ∈ wordsOf c a.1, keywordStrings.contains w = true → wordsOf c a.1 = [w]

theorem altOK_infix : ∀ (A : List (Seg TVal)) (a b : Seg TVal) (B : List (Seg TVal)), AltOK (A ++ a :: b :: B) →
    ¬ (isNameSeg a = true ∧ isNameSeg b = true)
  | [], _, _, _, h => h.1
  | [_], a, b, B, h => altOK_infix [] a b B h.2
  | _ :: y :: A, a, b, B, h => altOK_infix (y :: A) a b B h.2

theorem mem_of_long_suffix {α : Type} (X Y q : List α) (z : α) (hq : q <:+ X ++ z :: Y) (hlen : Y.length + 1 ≤ q.length) : z ∈ q := by
  have h1 : z :: Y <:+ X ++ z :: Y := List.suffix_append _ _
  have := List.suffix_of_suffix_length_le h1 hq (by simpa using hlen)
  exact this.subset (by simp)

theorem kw_spelling_keyword (k : Kw) : keywordStrings.contains k.spelling = true := by cases k <;> decide

theorem last_mem_of_suffix_snoc {α : Type} (X q : List α) (z : α) (hq : q <:+ X ++ [z]) (hne : q ≠ []) : z ∈ q := by
  rcases List.suffix_concat_iff.mp hq with rfl | ⟨u, rfl, _⟩
  · exact absurd rfl hne
  · simp

theorem within_of_table (c : Cls) (T : Table) (hop : OpWordFree c T) (ts : List (BP.Tok Atom)) (segs : List (Seg TVal))
    (hs : SegsFor c T ts segs) (hn : NoSymSym ts) (text : Str) (hcov : segPieces segs = wordPieces c text) :
    ∀ k ∈ (buildTrie c T).iter c text true, k.val.isSome = true →
      ∃ sg ∈ segs, ∃ p ∈ sg.1, ∃ p' ∈ sg.1, k.s = p.start ∧ k.e = p'.stop := by
  intro k hk hv
  have hkn := buildTrie_knownOK c T
  rw [AC.iter_specU c _ hkn text] at hk
  obtain ⟨pre, p', post, hsp, h1, _, h3⟩ := iterSpecGoU_mem c _ text _ [] k hk
  rcases h3 with ⟨hnone, _, _⟩ | ⟨e', he', hsb, _⟩
  · rw [hnone] at hv; cases hv
  simp only [List.mem_filterMap] at he'
  obtain ⟨q, hq, hoq⟩ := he'
  obtain ⟨_, hmem, hqw⟩ := AC.outputAt_node _ q e' hoq
  obtain ⟨a, ha, haw, hane⟩ := buildTrie_entries c T e' hmem
  have hqne : q ≠ [] := by rw [← hqw]; exact hane
  have hseen : p' :: pre.reverse ++ ([] : List Piece) = (pre ++ [p']).reverse := by simp
  have hwords : wordsOfSeen c (p' :: pre.reverse ++ ([] : List Piece)) = foldsOf c (pre ++ [p']) := by
    rw [hseen, wordsOfSeen_reverse]; rfl
  rw [hwords] at hq
  have hsuf := tails_suffix _ _ hq
  rw [hseen, startBack_reverse_idx] at hsb
  obtain ⟨n1, n2, p0, hp0, hp0s⟩ := hsb
  rw [hqw] at n1 n2 hp0
  -- the segment of p'
  obtain ⟨S1, g1, g2, o, S2, hsegs, hpre, hpost⟩ := flatten_split segs pre p' post (by rw [hcov]; exact hsp)
  have hshape := segsFor_shape c T hs
  have hcur := hshape (g1 ++ p' :: g2, o) (by rw [hsegs]; simp)
  -- a name of several words contains no operator word
  have hnokw : 2 ≤ q.length → ∀ w ∈ q, keywordStrings.contains w = false := by
    intro h2 w hw
    cases hkw : keywordStrings.contains w with
    | false => rfl
    | true =>
      have := hop a ha w (by rw [← haw, hqw]; exact hw) hkw
      rw [← haw, hqw] at this
      rw [this] at h2; simp at h2
  have hlast : c.fold p'.text ∈ q := last_mem_of_suffix_snoc _ q _ (by simpa [foldsOf] using hsuf) hqne
  -- the match does not reach back beyond the segment
  have hbound : q.length ≤ g1.length + 1 := by
    rcases Nat.lt_or_ge (g1.length + 1) q.length with hlt | hge
    · exfalso
      have h2 : 2 ≤ q.length := by omega
      rcases hcur with ⟨pz, kz, heq, hfold⟩ | ⟨g, s, heq, _, _⟩ | ⟨g, heq, _, hunk⟩
      · -- the segment is a keyword: its word would be in the name
        have hg : g1 ++ p' :: g2 = [pz] := by simpa using congrArg Prod.fst heq
        have : p' = pz := by
          cases g1 with
          | nil => simp at hg; exact hg.1
          | cons x r => simp at hg
        subst this
        have := hnokw h2 _ hlast
        rw [hfold, kw_spelling_keyword] at this; cases this
      · -- a name segment: the segment before it is a keyword, whose word would be in the name
        have ho : o = some (.sym s) := by simpa using congrArg Prod.snd heq
        have hS1 : S1 ≠ [] := by
          intro h0; subst h0
          simp [segPieces] at hpre
          subst hpre
          simp at n2; omega
        obtain ⟨S1', sgz, hS1'⟩ : ∃ S1' sgz, S1 = S1' ++ [sgz] :=
          ⟨S1.dropLast, S1.getLast hS1, (List.dropLast_concat_getLast hS1).symm⟩
        have halt := (segsFor_alt c T hs hn).1
        rw [hsegs, hS1'] at halt
        have hzn : isNameSeg sgz = false := by
          have := altOK_infix S1' sgz (g1 ++ p' :: g2, o) S2 (by simpa [List.append_assoc] using halt)
          cases hh : isNameSeg sgz with
          | false => rfl
          | true => exact absurd ⟨hh, by simp [isNameSeg, ho]⟩ this
        rcases hshape sgz (by rw [hsegs, hS1']; simp) with ⟨pz, kz, hz, hzf⟩ | ⟨gz, sz, hz, _, _⟩ | ⟨gz, hz, _, _⟩
        · have hzq : c.fold pz.text ∈ q := by
            apply mem_of_long_suffix (foldsOf c (segPieces S1')) (foldsOf c (g1 ++ [p'])) q _
            · have : pre ++ [p'] = segPieces S1' ++ pz :: (g1 ++ [p']) := by
                rw [hpre, hS1', segPieces_append, hz]; simp [segPieces]
              rw [this] at hsuf
              simpa [foldsOf] using hsuf
            · simp [foldsOf]; omega
          have := hnokw h2 _ hzq
          rw [hzf, kw_spelling_keyword] at this; cases this
        · rw [hz] at hzn; simp [isNameSeg] at hzn
        · rw [hz] at hzn; simp [isNameSeg] at hzn
      · -- a run of unknown words: none of them is a word of a stored name
        have hg : g1 ++ p' :: g2 = g := by simpa using congrArg Prod.fst heq
        exact hunk p' (by rw [← hg]; simp) a ha (by rw [← haw, hqw]; exact hlast)
    · exact hge
  -- so the match starts inside the segment
  refine ⟨(g1 ++ p' :: g2, o), by rw [hsegs]; simp, p0, ?_, p', by simp, hp0s.symm, h1⟩
  have hlen : (pre ++ [p']).length = (segPieces S1).length + g1.length + 1 := by rw [hpre]; simp; omega
  have hidx : (segPieces S1).length ≤ (pre ++ [p']).length - q.length := by omega
  have hl : pre ++ [p'] = segPieces S1 ++ (g1 ++ [p']) := by rw [hpre]; simp
  rw [hl, List.getElem?_append_right (by rw [← hl]; exact hidx)] at hp0
  have := List.mem_of_getElem? hp0
  simp only [List.mem_append, List.mem_singleton] at this
  simp only [List.mem_append, List.mem_cons]
  rcases this with h | h
  · exact Or.inl h
  · exact Or.inr (Or.inl h)

/-! ### the words the automaton knows are words of stored names -/

theorem addD_known (c : Cls) (t : Trie TVal) (name : Str) (v : TVal) (w : Word) (h : (t.addD c name v).known.contains w = true) :
    t.known.contains w = true ∨ w ∈ wordsOf c name := by
  unfold Trie.addD Trie.add at h
  split at h
  · next t' hadd =>
    split at hadd
    · cases hadd
    · split at hadd
      · simp at hadd; subst hadd; exact Or.inl h
      · simp only at hadd
        split at hadd
        · simp at hadd; subst hadd; exact Or.inl h
        · simp at hadd; subst hadd
          simp only at h
          exact (AC.addKnown_mem _ _ w).mp h
  · exact Or.inl h

theorem addAll_known (c : Cls) (adds : List (Str × TVal)) : ∀ (t : Trie TVal) (w : Word),
    (addAll c t adds).known.contains w = true → t.known.contains w = true ∨ ∃ a ∈ adds, w ∈ wordsOf c a.1 := by
  induction adds with
  | nil => intro t w h; exact Or.inl h
  | cons a rest ih =>
    intro t w h
    have : addAll c t (a :: rest) = addAll c (t.addD c a.1 a.2) rest := rfl
    rw [this] at h
    rcases ih _ w h with h1 | ⟨b, hb, h1⟩
    · rcases addD_known c t a.1 a.2 w h1 with h2 | h2
      · exact Or.inl h2
      · exact Or.inr ⟨a, by simp, h2⟩
    · exact Or.inr ⟨b, List.mem_cons_of_mem _ hb, h1⟩

theorem buildTrie_known (c : Cls) (T : Table) (w : Word) (h : (buildTrie c T).known.contains w = true) :
    ∃ a ∈ addsOf c T, w ∈ wordsOf c a.1 := by
  rw [buildTrie_adds] at h
  rcases addAll_known c (addsOf c T) Trie.empty w (by simpa [Trie.makeAutomaton] using h) with h1 | h1
  · simp [Trie.empty] at h1
  · exact h1

/-! ### merging the unknown words of a segmented text -/

theorem segToks_single (text : Str) (g : List Piece) (v : TVal) (hg : g ≠ []) :
    ∃ k : Tok TVal, segToks text (g, some v) = [k] ∧ k.val = some v := by
  obtain ⟨f, hf⟩ : ∃ f, g.head? = some f := by
    cases g with
    | nil => exact absurd rfl hg
    | cons a r => exact ⟨a, rfl⟩
  obtain ⟨l, hl⟩ : ∃ l, g.getLast? = some l := ⟨g.getLast hg, List.getLast?_eq_some_getLast hg⟩
  exact ⟨⟨f.start, l.stop, slice text f.start l.stop, some v⟩, by simp [segToks, hf, hl], rfl⟩

/-- the run accumulated by `build_symbols_from_unknown_tokens` after a list of unmatched tokens -/
def accRun : Option (Nat × Nat × List Str) → List STok → Option (Nat × Nat × List Str)
  | acc, [] => acc
  | none, t :: ts => accRun (some (t.s, t.e, [t.str])) ts
  | some (st, _, strs), t :: ts => accRun (some (st, t.e, strs ++ [t.str])) ts

theorem mergeUnknown_run (c : Cls) : ∀ (us : List STok) (acc : Option (Nat × Nat × List Str)) (R : List STok),
    (∀ u ∈ us, u.val = .none) → mergeUnknown c acc (us ++ R) = mergeUnknown c (accRun acc us) R
  | [], _, _, _ => rfl
  | u :: us, acc, R, h => by
    have hu := h u (by simp)
    have ih := fun acc' => mergeUnknown_run c us acc' R (fun x hx => h x (List.mem_cons_of_mem _ hx))
    cases acc with
    | none =>
      rw [List.cons_append, mergeUnknown.eq_def]; simp only [hu]
      exact ih _
    | some a =>
      obtain ⟨st, en, strs⟩ := a
      rw [List.cons_append, mergeUnknown.eq_def]; simp only [hu]
      exact ih _

theorem accRun_strs : ∀ (us : List STok) (st en : Nat) (strs : List Str),
    ∃ en', accRun (some (st, en, strs)) us = some (st, en', strs ++ us.map (·.str))
  | [], st, en, strs => ⟨en, by simp [accRun]⟩
  | u :: us, st, en, strs => by
    obtain ⟨en', h⟩ := accRun_strs us st u.e (strs ++ [u.str])
    exact ⟨en', by simp [accRun, h, List.append_assoc]⟩

theorem accRun_none (us : List STok) (hne : us ≠ []) : ∃ st en, accRun none us = some (st, en, us.map (·.str)) := by
  cases us with
  | nil => exact absurd rfl hne
  | cons u us =>
    obtain ⟨en', h⟩ := accRun_strs us u.s u.e [u.str]
    exact ⟨u.s, en', by simp [accRun, h]⟩

/-- what one segment becomes after merging: the value stored for a name, the unknown license spelled by
    a run of unknown words -/
def SegMerged (c : Cls) (sg : Seg TVal) (v : SVal) : Prop :=
  match sg.2 with
  | some (.kw k) => v = .kw k
  | some (.sym s) => v = .sym s
  | none => ∃ k, normKey c (joinStr [SPACE] (sg.1.map (·.text))) = some k ∧ v = .sym ⟨k, false⟩

theorem merge_segs (c : Cls) (text : Str) : ∀ (segs : List (Seg TVal)) (vals : List SVal),
    (∀ sg ∈ segs, sg.1 ≠ [] ∧ ∀ p ∈ sg.1, p ∈ pieces c text) → AltOK segs → F2 (SegMerged c) segs vals →
    ∃ L, mergeUnknown c none ((segs.flatMap (segToks text)).map ofTok) = .ok L ∧ L.map (·.val) = vals
  | [], vals, _, _, h => by cases h; exact ⟨[], by simp [mergeUnknown, flushUnknown], rfl⟩
  | sg :: rest, vals, hne, halt, h => by
    cases h with
    | @cons _ v _ vs hv hrest =>
    have halt' : AltOK rest := by cases rest <;> first | trivial | exact halt.2
    obtain ⟨L, hL, hLv⟩ := merge_segs c text rest vs (fun s hs => hne s (List.mem_cons_of_mem _ hs)) halt' hrest
    obtain ⟨g, o⟩ := sg
    have hg := (hne (g, o) (by simp)).1
    rw [List.flatMap_cons, List.map_append]
    cases o with
    | some tv =>
      obtain ⟨k, hk, hkv⟩ := segToks_single text g tv hg
      have hval : (ofTok k).val = v := by
        simp only [SegMerged] at hv
        cases tv with
        | kw kk => simp [ofTok, hkv, hv]
        | sym ss => simp [ofTok, hkv, hv]
      have hkn : (ofTok k).val ≠ .none := by
        rw [hval]; simp only [SegMerged] at hv
        cases tv <;> simp [hv]
      rw [hk]
      simp only [List.map_cons, List.map_nil, List.cons_append, List.nil_append]
      rw [mergeUnknown_cons_known c none _ _ hkn, hL]
      exact ⟨ofTok k :: L, by simp [flushUnknown], by simp [hval, hLv]⟩
    | none =>
      simp only [SegMerged] at hv
      obtain ⟨key, hkey, rfl⟩ := hv
      -- the tokens of the run are unmatched; what follows starts with a matched token or is empty
      have hus : ∀ u ∈ (segToks text (g, (none : Option TVal))).map ofTok, u.val = .none := by
        intro u hu
        simp only [segToks, List.map_map, List.mem_map] at hu
        obtain ⟨p, _, rfl⟩ := hu
        rfl
      rw [mergeUnknown_run c _ none _ hus]
      -- the accumulated run
      have hstrs : ((segToks text (g, (none : Option TVal))).map ofTok).map (·.str) = g.map (·.text) := by
        simp only [segToks, List.map_map]
        apply List.map_congr_left
        intro p hp
        simp only [Function.comp, ofTok]
        exact piece_slice c text p ((hne (g, none) (by simp)).2 p hp)
      obtain ⟨p0, g', hgc⟩ : ∃ p0 g', g = p0 :: g' := by
        cases g with
        | nil => exact absurd rfl hg
        | cons a r => exact ⟨a, r, rfl⟩
      have hacc : ∃ st en, accRun none ((segToks text (g, (none : Option TVal))).map ofTok) = some (st, en, g.map (·.text)) := by
        have hne' : (segToks text (g, (none : Option TVal))).map ofTok ≠ [] := by
          subst hgc; simp [segToks]
        obtain ⟨st, en, h'⟩ := accRun_none _ hne'
        exact ⟨st, en, by rw [h', hstrs]⟩
      obtain ⟨st, en, hacc⟩ := hacc
      rw [hacc]
      have hflush : flushUnknown c (some (st, en, g.map (·.text))) = .ok [⟨st, en, joinStr [SPACE] (g.map (·.text)), .sym ⟨key, false⟩⟩] := by
        simp [flushUnknown, mkUnknown, hkey, Except.map]
      cases rest with
      | nil =>
        simp only [List.flatMap_nil, List.map_nil] at hL ⊢
        simp only [mergeUnknown, flushUnknown] at hL
        simp only [Except.ok.injEq] at hL
        subst hL
        cases hrest
        exact ⟨_, by rw [mergeUnknown.eq_def]; exact hflush, by simp⟩
      | cons sg2 rest2 =>
        -- the next segment is a keyword: its token is matched
        have hsg2 : isNameSeg sg2 = false := by
          cases hh : isNameSeg sg2 with
          | false => rfl
          | true => exact absurd ⟨rfl, hh⟩ halt.1
        obtain ⟨g2, o2⟩ := sg2
        cases o2 with
        | none => simp [isNameSeg] at hsg2
        | some tv2 =>
          obtain ⟨k2, hk2, hkv2⟩ := segToks_single text g2 tv2 (hne (g2, some tv2) (by simp)).1
          have hkn2 : (ofTok k2).val ≠ .none := by cases tv2 <;> simp [ofTok, hkv2]
          rw [List.flatMap_cons, List.map_append, hk2] at hL ⊢
          simp only [List.map_cons, List.map_nil, List.cons_append, List.nil_append] at hL ⊢
          rw [mergeUnknown_cons_known c none _ _ hkn2] at hL
          rw [mergeUnknown_cons_known c _ _ _ hkn2, hflush]
          simp only [flushUnknown] at hL
          cases hm : mergeUnknown c none ((rest2.flatMap (segToks text)).map ofTok) with
          | error e => rw [hm] at hL; simp at hL
          | ok r =>
            rw [hm] at hL
            simp only [List.nil_append, Except.ok.injEq] at hL
            subst hL
            exact ⟨_, rfl, by simp [hLv]⟩

/-! ### the text of a spelled skeleton parses to what the skeleton parses to -/

/-- no name of a license reads as a bare operator word or parenthesis -/
def KwOwned (c : Cls) (T : Table) : Prop := ∀ k : Kw, ∀ a ∈ addsOf c T, wordsOf c a.1 = [k.spelling] → a.2 = .kw k

theorem kw_ownedV (c : Cls) (hc : ClsOK c) (T : Table) (hkw : KwOwned c T) (k : Kw) : OwnedByV c T [k.spelling] (.kw k) := by
  refine ⟨⟨(k.spelling, .kw k), ?_, hc.kw k (by cases k <;> simp [KEYWORDS])⟩, hkw k⟩
  unfold addsOf
  apply List.mem_append_left
  simp only [List.mem_map]
  exact ⟨k, by cases k <;> simp [KEYWORDS], rfl⟩

theorem operandSeg_merged (c : Cls) (T : Table) (s : Sym) (sg : Seg TVal) (h : OperandSeg c T s sg) : SegMerged c sg (.sym s) := by
  cases h with
  | known g _ _ => simp [SegMerged]
  | unknown g _ _ hk hx =>
    simp only [SegMerged]
    refine ⟨s.key, hk, ?_⟩
    cases s; simp_all

theorem segFor_merged (c : Cls) (T : Table) (t : BP.Tok Atom) (sgs : List (Seg TVal)) (h : SegFor c T t sgs) :
    F2 (SegMerged c) sgs (expandTok t) := by
  cases h with
  | and p hp => exact F2.cons (by simp [SegMerged]) F2.nil
  | or p hp => exact F2.cons (by simp [SegMerged]) F2.nil
  | lpar p hp => exact F2.cons (by simp [SegMerged]) F2.nil
  | rpar p hp => exact F2.cons (by simp [SegMerged]) F2.nil
  | lic s sg ho => exact F2.cons (operandSeg_merged c T s sg ho) F2.nil
  | withE l e sgl pw sge hol hpw hoe =>
    exact F2.cons (operandSeg_merged c T l sgl hol) (F2.cons (by simp [SegMerged]) (F2.cons (operandSeg_merged c T e sge hoe) F2.nil))

theorem segsFor_merged (c : Cls) (T : Table) {ts : List (BP.Tok Atom)} {segs : List (Seg TVal)} (h : SegsFor c T ts segs) :
    F2 (SegMerged c) segs (ts.flatMap expandTok) := by
  induction h with
  | nil => exact F2.nil
  | cons h1 _ ih => rw [List.flatMap_cons]; exact F2.append (segFor_merged c T _ _ h1) ih

/-- **an expression written with any names of its licenses, any table**: the proviso of the property as a
    premise on the text — no occurrence of a stored name reaches across the boundary of a segment
    (`hwithin`: every match of the scan starts and ends inside one segment). Then, for every table in
    which no name reads as a bare operator, a text
    whose words fall into the segments of a skeleton — operators and parentheses in any letter case,
    every license as any of its stored names in any case and spacing, an unknown license as words that
    occur in no stored name — parses to what the skeleton parses to -/
theorem parse_spelled_within (c : Cls) (hc : ClsOK c) (T : Table) (hkw : KwOwned c T)
    (ts : List (BP.Tok Atom)) (segs : List (Seg TVal)) (hs : SegsFor c T ts segs) (text : Str)
    (hcov : segPieces segs = wordPieces c text)
    (hwithin : ∀ k ∈ (buildTrie c T).iter c text true, k.val.isSome = true →
      ∃ sg ∈ segs, ∃ p ∈ sg.1, ∃ p' ∈ sg.1, k.s = p.start ∧ k.e = p'.stop)
    (e : Expr Atom) (hparse : BP.parse ts = .ok e) :
    parseFull c T false false false text = .ok e := by
  have hn := noSymSym_of_pairs _ (BP.parse_pairs _ e hparse)
  have hkn := buildTrie_knownOK c T
  have hshape := segsFor_shape c T hs
  have hsegne : ∀ sg ∈ segs, sg.1 ≠ [] := by
    intro sg hsg
    rcases hshape sg hsg with ⟨p, k, rfl, _⟩ | ⟨g, s, rfl, hg, _⟩ | ⟨g, rfl, hg, _⟩
    · simp
    · exact hg
    · exact hg
  have hok : SegsOK c (buildTrie c T) text segs := by
    refine ⟨hcov, hsegne, ?_, ?_, hwithin⟩
    · intro g v hsg
      rcases hshape _ hsg with ⟨p, k, heq, hfold⟩ | ⟨g', s, heq, hg, hown⟩ | ⟨g', heq, _, _⟩
      · simp only [Prod.mk.injEq, Option.some.injEq] at heq
        obtain ⟨rfl, rfl⟩ := heq
        have := buildTrie_lookupV c T [k.spelling] (by simp) (.kw k) (kw_ownedV c hc T hkw k)
        simpa [hfold] using this
      · simp only [Prod.mk.injEq, Option.some.injEq] at heq
        obtain ⟨rfl, rfl⟩ := heq
        exact buildTrie_lookupV c T _ (by simpa [foldsOf] using hg) _ hown
      · simp at heq
    · intro g hsg p hp
      rcases hshape _ hsg with ⟨p', k, heq, _⟩ | ⟨g', s, heq, _, _⟩ | ⟨g', heq, _, hunk⟩
      · simp at heq
      · simp at heq
      · simp only [Prod.mk.injEq, and_true] at heq
        subst heq
        cases hkc : (buildTrie c T).known.contains (c.fold p.text) with
        | false => rfl
        | true =>
          obtain ⟨a, ha, hwa⟩ := buildTrie_known c T _ hkc
          exact absurd hwa (hunk p hp a ha)
  have htok := tokenize_segments c (buildTrie c T) text segs hkn hok
  -- merging, grouping, hand-over
  have hpieces : ∀ sg ∈ segs, sg.1 ≠ [] ∧ ∀ p ∈ sg.1, p ∈ pieces c text := by
    intro sg hsg
    refine ⟨hsegne sg hsg, fun p hp => ?_⟩
    have : p ∈ wordPieces c text := by rw [← hcov]; exact (mem_segPieces segs p).mpr ⟨sg, hsg, hp⟩
    exact (List.mem_filter.mp this).1
  obtain ⟨L, hL, hLv⟩ := merge_segs c text segs _ hpieces (segsFor_alt c T hs hn).1 (segsFor_merged c T hs)
  obtain ⟨R, P, hg, hp, hts⟩ := group_skeleton c ts L hn hLv
  have hl : ltokW c T (buildTrie c T) false false text = .ok P := by
    unfold ltokW rawTokensW advancedTokensW
    simp only [Bool.false_eq_true, ↓reduceIte, htok]
    simp [bind, Except.bind, hL, hg, hp]
  -- the text is not blank
  have hne : wordsOf c text ≠ [] := by
    intro h0
    have hts0 : ts ≠ [] := by intro h; subst h; exact BP.parse_nonempty e hparse
    have hw : wordPieces c text = [] := by simpa [wordsOf] using h0
    rw [← hcov] at hw
    cases hs with
    | nil => exact hts0 rfl
    | @cons t ts' sgs rest h1 _ =>
      rw [segPieces_append] at hw
      have hnil := (List.append_eq_nil_iff.mp hw).1
      have : ∃ sg, sg ∈ sgs := by cases h1 <;> exact ⟨_, List.mem_cons_self⟩
      obtain ⟨sg, hsg⟩ := this
      have h1' := hsegne sg (List.mem_append_left _ hsg)
      have : sg.1 = [] := by
        have hsub : ∀ p ∈ sg.1, p ∈ segPieces sgs := fun p hp => (mem_segPieces sgs p).mpr ⟨sg, hsg, hp⟩
        rw [hnil] at hsub
        cases hh : sg.1 with
        | nil => rfl
        | cons a r => exact absurd (hsub a (by rw [hh]; simp)) (by simp)
      exact h1' this
  have hnb : (text.isEmpty || isBlank c text) = false := by
    rw [Bool.or_eq_false_iff]
    constructor
    · cases text with
      | nil => exact absurd (by simp [wordsOf, wordPieces, pieces, lexGo]) hne
      | cons _ _ => rfl
    · cases hb : isBlank c text with
      | false => rfl
      | true => exact absurd (blank_no_words c hc text hb) hne
  unfold parseFull parseFullW
  simp only [hnb, Bool.false_eq_true, ↓reduceIte, hl, hts, (BP.parseAt_ok _ _).mpr hparse]

/-- … in particular for a table in which no stored name of several words contains an operator word or a
    parenthesis: there the proviso holds for every text -/
theorem parse_spelled (c : Cls) (hc : ClsOK c) (T : Table) (hop : OpWordFree c T) (hkw : KwOwned c T)
    (ts : List (BP.Tok Atom)) (segs : List (Seg TVal)) (hs : SegsFor c T ts segs) (text : Str)
    (hcov : segPieces segs = wordPieces c text) (e : Expr Atom) (hparse : BP.parse ts = .ok e) :
    parseFull c T false false false text = .ok e :=
  parse_spelled_within c hc T hkw ts segs hs text hcov
    (within_of_table c T hop ts segs hs (noSymSym_of_pairs _ (BP.parse_pairs _ e hparse)) text hcov) e hparse

/-! ### the premises on the table, decidably (the driver evaluates these on the tables of a run) -/

def opWordFreeB (c : Cls) (T : Table) : Bool :=
  (addsOf c T).all (fun a => (wordsOf c a.1).all (fun w => !keywordStrings.contains w || wordsOf c a.1 == [w]))

theorem opWordFree_of_B (c : Cls) (T : Table) (h : opWordFreeB c T = true) : OpWordFree c T := by
  intro a ha w hw hkw
  simp only [opWordFreeB, List.all_eq_true, Bool.or_eq_true, Bool.not_eq_true', beq_iff_eq] at h
  rcases h a ha w hw with h1 | h1
  · rw [hkw] at h1; cases h1
  · exact h1

def kwOwnedB (c : Cls) (T : Table) : Bool :=
  KEYWORDS.all (fun k => (addsOf c T).all (fun a => !(wordsOf c a.1 == [k.spelling]) || a.2 == .kw k))

theorem kwOwned_of_B (c : Cls) (T : Table) (h : kwOwnedB c T = true) : KwOwned c T := by
  intro k a ha hw
  simp only [kwOwnedB, List.all_eq_true, Bool.or_eq_true, Bool.not_eq_true', beq_iff_eq, beq_eq_false_iff_ne] at h
  rcases h k (by cases k <;> simp [KEYWORDS]) a ha with h1 | h1
  · exact absurd hw h1
  · exact h1

def ownedVB (c : Cls) (T : Table) (ws : List Word) (v : TVal) : Bool :=
  (addsOf c T).any (fun a => wordsOf c a.1 == ws) && (addsOf c T).all (fun a => !(wordsOf c a.1 == ws) || a.2 == v)

theorem ownedV_of_B (c : Cls) (T : Table) (ws : List Word) (v : TVal) (h : ownedVB c T ws v = true) : OwnedByV c T ws v := by
  simp only [ownedVB, Bool.and_eq_true, List.any_eq_true, List.all_eq_true, Bool.or_eq_true, Bool.not_eq_true',
    beq_iff_eq, beq_eq_false_iff_ne] at h
  obtain ⟨⟨a, ha, hwa⟩, hall⟩ := h
  refine ⟨⟨a, ha, hwa⟩, ?_⟩
  intro b hb hwb
  rcases hall b hb with h1 | h1
  · exact absurd hwb h1
  · exact h1

end LE
