import LicenseExpr.Lemmas.BSound
/-!
# Lemmas/BLits — the tree the parser returns has exactly the symbols of the token list as its
literals, in text order (for every accepted token list, grammatical or not)
-/
namespace LE
namespace BP
variable {α : Type}

def litsL (l : List (Expr α)) : List α := (l.map literals).flatten

/-- literals of a frame, oldest item first -/
def frameLits (f : Frame α) : List α := litsL f.ritems.reverse

/-- literals of a stack, bottom frame first -/
def stackLits (st : Stack α) : List α := (st.reverse.map frameLits).flatten

def tokLits : List (Tok α) → List α
  | [] => []
  | .sym a :: ts => a :: tokLits ts
  | _ :: ts => tokLits ts

theorem litsL_append (a b : List (Expr α)) : litsL (a ++ b) = litsL a ++ litsL b := by simp [litsL]

theorem stackLits_cons (f : Frame α) (S : Stack α) : stackLits (f :: S) = stackLits S ++ frameLits f := by
  simp [stackLits]

theorem frameLits_push (f : Frame α) (e : Expr α) :
    frameLits { f with ritems := e :: f.ritems } = frameLits f ++ literals e := by
  simp [frameLits, litsL]

theorem mk_lits (op : FOp) (l : List (Expr α)) (e : Expr α) (h : mk op l = .ok e) : literals e = litsL l.reverse := by
  unfold mk at h
  cases op <;> simp at h
  all_goals
    split at h
    · simp at h; subst h; simp [literals, litsL]
    · simp at h

/-- non-top `(`-frames are empty; the top `(`-frame holds at most one item -/
def LparOK : Stack α → Prop
  | [] => True
  | f :: S => (f.op = .lpar → f.ritems.length ≤ 1) ∧ ∀ g ∈ S, g.op = .lpar → g.ritems = []

theorem startOp_lits (op : FOp) (f : Frame α) (S : Stack α) (st' : Stack α) (hop : op = .and ∨ op = .or)
    (hl : LparOK (f :: S)) (h : startOp op f S = .ok st') :
    stackLits st' = stackLits (f :: S) ∧ LparOK st' ∧ (∀ g ∈ st', g.op = .lpar → g.ritems = []) := by
  fun_induction startOp op f S generalizing st'
  · next cur rest hnone =>
    simp at h; subst h
    refine ⟨by simp [stackLits_cons, frameLits], ?_, ?_⟩
    · refine ⟨by rcases hop with rfl | rfl <;> simp, hl.2⟩
    · intro g hg hgl
      simp only [List.mem_cons] at hg
      rcases hg with rfl | hg
      · rcases hop with rfl | rfl <;> simp at hgl
      · exact hl.2 g hg hgl
  · next cur rest hnone hprec x more hx =>
    simp at h; subst h
    refine ⟨?_, ?_, ?_⟩
    · simp [stackLits_cons, frameLits, litsL, hx]
    · refine ⟨by rcases hop with rfl | rfl <;> simp, ?_⟩
      intro g hg hgl
      simp only [List.mem_cons] at hg
      rcases hg with rfl | hg
      · simp only at hgl
        have := hl.1 hgl
        rw [hx] at this
        simp at this
        simpa using this
      · exact hl.2 g hg hgl
    · intro g hg hgl
      simp only [List.mem_cons] at hg
      rcases hg with rfl | rfl | hg
      · rcases hop with rfl | rfl <;> simp at hgl
      · simp only at hgl
        have := hl.1 hgl
        rw [hx] at this
        simp at this
        simpa using this
      · exact hl.2 g hg hgl
  · simp at h
  · next rest cur hnone hprec heq =>
    simp at h; subst h
    have hne : cur.op ≠ .lpar := by
      intro hc; rw [hc] at heq; rcases hop with rfl | rfl <;> simp [prec] at heq
    refine ⟨rfl, hl, ?_⟩
    intro g hg hgl
    simp only [List.mem_cons] at hg
    rcases hg with rfl | hg
    · exact absurd hgl hne
    · exact hl.2 g hg hgl
  · simp at h
  · next cur hnone hprec hneq sub hsub =>
    simp at h; subst h
    refine ⟨?_, ⟨by rcases hop with rfl | rfl <;> simp, by simp⟩, ?_⟩
    · have := mk_lits _ _ _ hsub
      simp [stackLits, frameLits, litsL, this]
    · intro g hg hgl; simp at hg; subst hg; rcases hop with rfl | rfl <;> simp at hgl
  · next cur hnone hprec hneq sub hsub parent rest' ih =>
    have hcl : cur.op ≠ .lpar := by
      intro hc; rw [hc] at hprec; rcases hop with rfl | rfl <;> simp [prec] at hprec
    have hpl : parent.op ≠ .lpar ∨ parent.ritems = [] := by
      by_cases hp : parent.op = .lpar
      · right; exact hl.2 parent (by simp) hp
      · left; exact hp
    have hl' : LparOK ({ parent with ritems := sub :: parent.ritems } :: rest') := by
      refine ⟨?_, fun g hg hgl => hl.2 g (List.mem_cons_of_mem _ hg) hgl⟩
      intro hp
      simp only at hp
      rcases hpl with h1 | h1
      · exact absurd hp h1
      · simp [h1]
    obtain ⟨i1, i2, i3⟩ := ih st' hl' h
    refine ⟨?_, i2, i3⟩
    rw [i1]
    have hm := mk_lits _ _ _ hsub
    simp only [stackLits_cons, frameLits, List.reverse_cons, litsL_append, List.append_assoc]
    simp [litsL, hm]

end BP
end LE

namespace LE
namespace BP
variable {α : Type}

theorem closeParen_lits (f : Frame α) (S : Stack α) (st' : Stack α)
    (hl : LparOK (f :: S)) (h : closeParen f S = .ok st') :
    stackLits st' = stackLits (f :: S) ∧ LparOK st' := by
  fun_induction closeParen f S generalizing st'
  · simp at h
  · next cur parent rest hlp x hx =>
    simp at h; subst h
    have hlen := hl.1 hlp
    have hcur : cur.ritems = [x] := by
      cases hc : cur.ritems with
      | nil => simp [hc] at hx
      | cons y ys =>
        cases ys with
        | nil => simp [hc] at hx; rw [hx]
        | cons z zs => simp [hc] at hlen
    have hpl : parent.op = .lpar → parent.ritems = [] := fun hp => hl.2 parent (by simp) hp
    refine ⟨?_, ?_, fun g hg hgl => hl.2 g (List.mem_cons_of_mem _ hg) hgl⟩
    · simp [stackLits_cons, frameLits, litsL, hcur]
    · intro hp; simp only at hp ⊢; simp [hpl hp]
  · simp at h
  · simp at h
  · next cur parent rest hlp sub hsub ih =>
    have hpl : parent.op = .lpar → parent.ritems = [] := fun hp => hl.2 parent (by simp) hp
    have hl' : LparOK ({ parent with ritems := sub :: parent.ritems } :: rest) := by
      refine ⟨?_, fun g hg hgl => hl.2 g (List.mem_cons_of_mem _ hg) hgl⟩
      intro hp; simp only at hp ⊢; simp [hpl hp]
    obtain ⟨i1, i2⟩ := ih st' hl' h
    refine ⟨?_, i2⟩
    rw [i1]
    have hm := mk_lits _ _ _ hsub
    simp only [stackLits_cons, frameLits, List.reverse_cons, litsL_append, List.append_assoc]
    simp [litsL, hm]

theorem finish_lits (f : Frame α) (S : Stack α) (e : Expr α) (h : finish f S = .ok e) :
    literals e = stackLits (f :: S) := by
  fun_induction finish f S generalizing e
  · next cur hnone x hx =>
    simp at h; subst h
    simp [stackLits, frameLits, litsL, hx]
  · simp at h
  · next cur hnone =>
    have := mk_lits _ _ _ h
    simp [stackLits, frameLits, this]
  · simp at h
  · next cur parent rest sub hsub ih =>
    rw [ih e h]
    have hm := mk_lits _ _ _ hsub
    simp only [stackLits_cons, frameLits, List.reverse_cons, litsL_append, List.append_assoc]
    simp [litsL, hm]

/-- the invariant: `(`-frames below the top are empty, the top one holds at most one item and only
    right after an operand, and the literals on the stack are the symbols consumed so far -/
structure LInv (s : PState α) (consumed : List α) : Prop where
  ne : s.st ≠ []
  first : s.prev = none → ∃ f, s.st = [f]
  lpar : LparOK s.st
  top : ∀ f S, s.st = f :: S → f.op = .lpar → f.ritems ≠ [] → EndTok s.prev
  lits : stackLits s.st = consumed

theorem tokLits_snoc (ts : List (Tok α)) (t : Tok α) :
    tokLits (ts ++ [t]) = tokLits ts ++ (match t with | .sym a => [a] | _ => []) := by
  induction ts with
  | nil => cases t <;> simp [tokLits]
  | cons x xs ih => cases x <;> simp [tokLits, ih]

theorem stepS_linv (s s' : PState α) (t : Tok α) (consumed : List α) (hi : LInv s consumed) (h : stepS s t = .ok s') :
    LInv s' (consumed ++ (match t with | .sym a => [a] | _ => [])) := by
  obtain ⟨prev, st⟩ := s
  obtain ⟨hne0, hfirst, hlp, htop, hlits⟩ := hi
  simp only at hne0 hfirst hlp htop hlits
  cases st with
  | nil => exact absurd rfl hne0
  | cons f S =>
    cases t with
    | sym a =>
      have hop : OpExp prev ∨ stepS ⟨prev, f :: S⟩ (.sym a) ≠ .ok s' := by
        rcases prev with _ | (_ | _ | _ | _ | _) <;> simp_all [OpExp, stepS, step, adjCheck, isSym, isOp, bind, Except.bind]
      rcases hop with hop | hop
      · rw [step_sym prev f S a hop] at h
        simp at h; subst h
        have hempty : f.op = .lpar → f.ritems = [] := by
          intro hf
          by_cases hne : f.ritems = []
          · exact hne
          · exfalso
            have := htop f S rfl hf hne
            rcases prev with _ | (_ | _ | _ | _ | _) <;> simp_all [OpExp, EndTok]
        refine ⟨by simp [pushItem], by simp, ⟨?_, hlp.2⟩, ?_, ?_⟩
        · intro hf; simp only [pushItem] at hf ⊢; simp [hempty hf]
        · intro g G hg _ _; simp [EndTok]
        · simp [pushItem, stackLits_cons, frameLits_push, literals, ← hlits, List.append_assoc]
      · exact absurd h hop
    | lpar =>
      have hop : OpExp prev ∨ stepS ⟨prev, f :: S⟩ .lpar ≠ .ok s' := by
        rcases prev with _ | (_ | _ | _ | _ | _) <;> simp_all [OpExp, stepS, step, adjCheck, isSym, isOp, bind, Except.bind]
      rcases hop with hop | hop
      · rw [step_lpar prev _ hop] at h
        simp at h; subst h
        have hempty : f.op = .lpar → f.ritems = [] := by
          intro hf
          by_cases hne : f.ritems = []
          · exact hne
          · exfalso
            have := htop f S rfl hf hne
            rcases prev with _ | (_ | _ | _ | _ | _) <;> simp_all [OpExp, EndTok]
        refine ⟨by simp, by simp, ⟨by simp, ?_⟩, ?_, ?_⟩
        · intro g hg hgl
          simp only [List.mem_cons] at hg
          rcases hg with rfl | hg
          · exact hempty hgl
          · exact hlp.2 g hg hgl
        · intro g G hg _ hne; simp at hg; obtain ⟨rfl, _⟩ := hg; simp at hne
        · simp [stackLits_cons, frameLits, litsL, ← hlits]
      · exact absurd h hop
    | and =>
      by_cases he : EndTok prev
      · rw [step_and prev _ he] at h
        cases hso : startOpS .and (f :: S) with
        | error e => simp [hso, Except.map] at h
        | ok st' =>
          simp [hso, Except.map] at h; subst h
          obtain ⟨i1, i2, i3⟩ := startOp_lits .and f S st' (Or.inl rfl) hlp (by simpa [startOpS] using hso)
          exact ⟨startOp_ok .and f S st' (by simpa [startOpS] using hso), by simp, i2, fun g G hg hgl hne => absurd (i3 g (by have : st' = g :: G := hg; rw [this]; simp) hgl) hne, by simp [i1, hlits]⟩
      · exfalso
        rcases prev with _ | (_ | _ | _ | _ | _) <;> simp_all [EndTok, stepS, step, adjCheck, isSym, isOp, bind, Except.bind]
    | or =>
      by_cases he : EndTok prev
      · rw [step_or prev _ he] at h
        cases hso : startOpS .or (f :: S) with
        | error e => simp [hso, Except.map] at h
        | ok st' =>
          simp [hso, Except.map] at h; subst h
          obtain ⟨i1, i2, i3⟩ := startOp_lits .or f S st' (Or.inr rfl) hlp (by simpa [startOpS] using hso)
          exact ⟨startOp_ok .or f S st' (by simpa [startOpS] using hso), by simp, i2, fun g G hg hgl hne => absurd (i3 g (by have : st' = g :: G := hg; rw [this]; simp) hgl) hne, by simp [i1, hlits]⟩
      · exfalso
        rcases prev with _ | (_ | _ | _ | _ | _) <;> simp_all [EndTok, stepS, step, adjCheck, isSym, isOp, bind, Except.bind]
    | rpar =>
      by_cases he : EndTok prev
      · rw [step_rpar prev _ he] at h
        cases hso : closeParenS (f :: S) with
        | error e => simp [hso, Except.map] at h
        | ok st' =>
          simp [hso, Except.map] at h; subst h
          obtain ⟨i1, i2⟩ := closeParen_lits f S st' hlp (by simpa [closeParenS] using hso)
          obtain ⟨g, G, hg, _⟩ := closeParen_ok f S st' (by simpa [closeParenS] using hso)
          exact ⟨by rw [hg]; simp, by simp, i2, fun _ _ _ _ _ => by simp [EndTok], by simp [i1, hlits]⟩
      · exfalso
        rcases prev with _ | (_ | _ | _ | _ | _)
        · obtain ⟨f0, hf0⟩ := hfirst rfl
          simp at hf0
          obtain ⟨_, rfl⟩ := hf0
          simp [stepS, step, adjCheck, isSym, isOp, bind, Except.bind, closeParen] at h
        all_goals simp_all [EndTok, stepS, step, adjCheck, isSym, isOp, bind, Except.bind, closeParen]

theorem run_linv (ts : List (Tok α)) (s s' : PState α) (consumed : List α) (hi : LInv s consumed)
    (h : run s ts = .ok s') : LInv s' (consumed ++ tokLits ts) := by
  induction ts generalizing s consumed with
  | nil => simp [run_nil] at h; subst h; simpa [tokLits] using hi
  | cons t ts ih =>
    rw [run_cons] at h
    cases hs : stepS s t with
    | error e => simp [hs, bind, Except.bind] at h
    | ok s1 =>
      simp [hs, bind, Except.bind] at h
      have := ih s1 _ (stepS_linv s s1 t consumed hi hs) h
      cases t <;> simpa [tokLits, List.append_assoc] using this

/-- **the literals of the parsed tree are the symbol tokens, in text order** — for every accepted
    token list, also one that no grammar derives -/
theorem parse_literals (ts : List (Tok α)) (e : Expr α) (h : parse ts = .ok e) : literals e = tokLits ts := by
  unfold parse at h
  cases hr : run (init : PState α) ts with
  | error e' => simp [hr, bind, Except.bind] at h
  | ok s =>
    simp [hr, bind, Except.bind] at h
    have hi : LInv (init : PState α) [] := ⟨by simp [init], by intro _; exact ⟨_, rfl⟩, by simp [init, LparOK], by intro f S hfs hf; simp [init] at hfs; obtain ⟨rfl, _⟩ := hfs; simp at hf, by simp [init, stackLits, frameLits, litsL]⟩
    have := run_linv ts _ s [] hi hr
    cases hst : s.st with
    | nil => simp [hst] at h
    | cons c r =>
      simp [hst] at h
      rw [finish_lits c r e h, ← hst, this.lits]
      simp

end BP
end LE
