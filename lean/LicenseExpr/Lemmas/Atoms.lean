import LicenseExpr.Lemmas.NormalForm
import LicenseExpr.Lemmas.EqTrans
/-!
# Lemmas/Atoms — `simp` introduces no literal
-/
set_option linter.unusedSectionVars false
namespace LE
variable {A : Type} [DecidableEq A]

theorem mem_literals_node (a : A) (op : Op) (l : List (Expr A)) :
    a ∈ literals (.node op l) ↔ ∃ x ∈ l, a ∈ literals x := by
  simp only [literals, List.mem_flatten, List.mem_map]
  constructor
  · rintro ⟨_, ⟨x, hx, rfl⟩, ha⟩; exact ⟨x, hx, ha⟩
  · rintro ⟨x, hx, ha⟩; exact ⟨_, ⟨x, hx, rfl⟩, ha⟩

theorem flatten1_lits (op : Op) (l : List (Expr A)) (x : Expr A) (hx : x ∈ flatten1 op l) (a : A) (ha : a ∈ literals x) :
    ∃ y ∈ l, a ∈ literals y := by
  rcases flatten1_mem op l x hx with ⟨h1, _⟩ | ⟨as, h1, h2⟩
  · exact ⟨x, h1, ha⟩
  · exact ⟨_, h1, (mem_literals_node a op as).mpr ⟨x, h2, ha⟩⟩

theorem simpNode_lits (lt : Expr A → Expr A → Bool) (op : Op) (args : List (Expr A)) (a : A)
    (ha : a ∈ literals (simpNode lt op args)) : ∃ y ∈ args, a ∈ literals y := by
  have hdsub := dedupAux_sub [] (flatten1 op args)
  have key : ∀ x ∈ dedupAux [] (flatten1 op args), a ∈ literals x → ∃ y ∈ args, a ∈ literals y :=
    fun x hx hax => flatten1_lits op args x (hdsub x hx) a hax
  unfold simpNode afterDedup at ha
  split at ha
  · next x hx => exact key x (by rw [hx]; simp) ha
  · have hab := absorbN_sublist op (dedupAux [] (flatten1 op args)).length (dedupAux [] (flatten1 op args))
    unfold finishNode at ha
    split at ha
    · next x hx => exact key x (hab.subset (by rw [hx]; simp)) ha
    · obtain ⟨x, hx, hax⟩ := (mem_literals_node a op _).mp ha
      exact key x (hab.subset ((sortBy_mem lt _ x).mp hx)) hax

/-- every literal of the simplified expression is a literal of the input -/
theorem simp_lits (lt : Expr A → Expr A → Bool) (e : Expr A) : ∀ a ∈ literals (simp lt e), a ∈ literals e := by
  fun_induction simp lt e
  · intro a ha; exact ha
  · next op args ih =>
    intro a ha
    obtain ⟨y, hy, hay⟩ := simpNode_lits lt op _ a ha
    simp only [List.mem_map, List.mem_attach, true_and, Subtype.exists] at hy
    obtain ⟨b, hb, rfl⟩ := hy
    exact (mem_literals_node a op args).mpr ⟨b, hb, ih ⟨b, hb⟩ a hay⟩

/-- expressions that are `==` mention the same literals -/
theorem eqE_literals_sub : ∀ (n : Nat) (x y : Expr A), sizeOf x ≤ n → eqE x y = true → ∀ a ∈ literals x, a ∈ literals y := by
  intro n
  induction n with
  | zero => intro x y hx; cases x <;> simp at hx <;> omega
  | succ n ih =>
    intro x y hx he a ha
    cases x with
    | atom u =>
      cases y with
      | atom v =>
        have : u = v := (eqE_atom_atom u v).mp he
        subst this; exact ha
      | node o l => rw [eqE_atom_node] at he; cases he
    | node o l =>
      cases y with
      | atom v => rw [eqE_node_atom] at he; cases he
      | node o' l' =>
        obtain ⟨_, h1, _⟩ := (eqE_node_iff _ _ _ _).mp he
        obtain ⟨z, hz, haz⟩ := (mem_literals_node a o l).mp ha
        obtain ⟨z', hz', hzz'⟩ := h1 z hz
        have hsz : sizeOf z ≤ n := by
          have := List.sizeOf_lt_of_mem hz
          simp at hx; omega
        exact (mem_literals_node a o' l').mpr ⟨z', hz', ih z z' hsz hzz' a haz⟩

theorem eqE_literals (x y : Expr A) (h : eqE x y = true) (a : A) : a ∈ literals x ↔ a ∈ literals y :=
  ⟨eqE_literals_sub _ x y (Nat.le_refl _) h a, eqE_literals_sub _ y x (Nat.le_refl _) (eqE_symm_imp _ _ h) a⟩

/-- what a node contains mentions only literals of the node -/
theorem containsE_literals (t x : Expr A) (h : containsE t x = true) : ∀ a ∈ literals x, a ∈ literals t := by
  cases t with
  | atom u => simp [containsE] at h
  | node o ts =>
    intro a ha
    simp only [containsE, Bool.or_eq_true] at h
    rcases h with h | h
    · simp only [memE, List.any_eq_true] at h
      obtain ⟨y, hy, hxy⟩ := h
      exact (mem_literals_node a o ts).mpr ⟨y, hy, (eqE_literals x y hxy a).mp ha⟩
    · cases x with
      | atom v => simp at h
      | node o' xs =>
        simp only [Bool.and_eq_true, beq_iff_eq, List.all_eq_true] at h
        obtain ⟨z, hz, haz⟩ := (mem_literals_node a o' xs).mp ha
        have := h.2 z hz
        simp only [memE, List.any_eq_true] at this
        obtain ⟨y, hy, hzy⟩ := this
        exact (mem_literals_node a o ts).mpr ⟨y, hy, (eqE_literals z y hzy a).mp haz⟩

end LE
