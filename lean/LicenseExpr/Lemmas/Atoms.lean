import LicenseExpr.Lemmas.NormalForm
/-!
# Lemmas/Atoms — `simp` introduces no literal
-/
set_option linter.unusedSectionVars false
namespace LE
variable {A : Type} [DecidableEq A]

theorem mem_literals_node (a : A) (op : Op) (l : List (Expr A)) :
    a ∈ literals (.node op l) ↔ ∃ x ∈ l, a ∈ literals x := by
  simp only [literals, List.mem_flatten, List.mem_map]
  constructor
  · rintro ⟨_, ⟨x, hx, rfl⟩, ha⟩; exact ⟨x, hx, ha⟩
  · rintro ⟨x, hx, ha⟩; exact ⟨_, ⟨x, hx, rfl⟩, ha⟩

theorem flatten1_lits (op : Op) (l : List (Expr A)) (x : Expr A) (hx : x ∈ flatten1 op l) (a : A) (ha : a ∈ literals x) :
    ∃ y ∈ l, a ∈ literals y := by
  rcases flatten1_mem op l x hx with ⟨h1, _⟩ | ⟨as, h1, h2⟩
  · exact ⟨x, h1, ha⟩
  · exact ⟨_, h1, (mem_literals_node a op as).mpr ⟨x, h2, ha⟩⟩

theorem simpNode_lits (lt : Expr A → Expr A → Bool) (op : Op) (args : List (Expr A)) (a : A)
    (ha : a ∈ literals (simpNode lt op args)) : ∃ y ∈ args, a ∈ literals y := by
  have hdsub := dedupAux_sub [] (flatten1 op args)
  have key : ∀ x ∈ dedupAux [] (flatten1 op args), a ∈ literals x → ∃ y ∈ args, a ∈ literals y :=
    fun x hx hax => flatten1_lits op args x (hdsub x hx) a hax
  unfold simpNode afterDedup at ha
  split at ha
  · next x hx => exact key x (by rw [hx]; simp) ha
  · have hab := absorbN_sublist op (dedupAux [] (flatten1 op args)).length (dedupAux [] (flatten1 op args))
    unfold finishNode at ha
    split at ha
    · next x hx => exact key x (hab.subset (by rw [hx]; simp)) ha
    · obtain ⟨x, hx, hax⟩ := (mem_literals_node a op _).mp ha
      exact key x (hab.subset ((sortBy_mem lt _ x).mp hx)) hax

/-- every literal of the simplified expression is a literal of the input -/
theorem simp_lits (lt : Expr A → Expr A → Bool) (e : Expr A) : ∀ a ∈ literals (simp lt e), a ∈ literals e := by
  fun_induction simp lt e
  · intro a ha; exact ha
  · next op args ih =>
    intro a ha
    obtain ⟨y, hy, hay⟩ := simpNode_lits lt op _ a ha
    simp only [List.mem_map, List.mem_attach, true_and, Subtype.exists] at hy
    obtain ⟨b, hb, rfl⟩ := hy
    exact (mem_literals_node a op args).mpr ⟨b, hb, ih ⟨b, hb⟩ a hay⟩

end LE
