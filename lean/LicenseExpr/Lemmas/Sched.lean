import LicenseExpr.Model.Sched
/-!
# Lemmas/Sched — the invariant of the first-use protocol, preserved by every step of every thread
-/
namespace LE
namespace SC

/-- what must hold of thread state `p` in a world with heap `heap` and allocation counter `next` -/
def Good (n : Nat) (heap : Nat → Build) (next : Nat) : PC → Prop
  | .start => True
  | .alloc => True
  | .adding r => r < next ∧ (heap r).added < n ∧ (heap r).converted = false
  | .making r => r < next ∧ (heap r).added = n ∧ (heap r).converted = false
  | .publish r => r < next ∧ (heap r).complete n
  | .use r => r < next ∧ (heap r).complete n
  | .done b => b.complete n

/-- the trie a thread is still constructing, if any -/
def owns : PC → Option Nat
  | .adding r => some r
  | .making r => some r
  | _ => none

structure Inv (n : Nat) (s : St) : Prop where
  shared_ok : ∀ r, s.shared = some r → r < s.next ∧ (s.heap r).complete n
  good : ∀ i, Good n s.heap s.next (s.pc i)
  owner : ∀ i j r, owns (s.pc i) = some r → owns (s.pc j) = some r → i = j

theorem inv_init (n : Nat) : Inv n init := by
  constructor <;> simp [init, Good, owns]

def refOf : PC → Option Nat
  | .adding r => some r
  | .making r => some r
  | .publish r => some r
  | .use r => some r
  | _ => none

/-- `Good` only looks at the heap cell the thread refers to -/
theorem good_frame (n : Nat) (heap heap' : Nat → Build) (next next' : Nat) (p : PC)
    (hn : next ≤ next') (hsame : ∀ r, refOf p = some r → heap' r = heap r)
    (h : Good n heap next p) : Good n heap' next' p := by
  cases p <;> simp_all [Good, refOf] <;> omega

theorem owns_ref (p : PC) (r : Nat) (h : owns p = some r) : refOf p = some r := by
  cases p <;> simp_all [owns, refOf]

/-- a thread that refers to a trie another thread is still constructing: impossible -/
theorem ref_ne_of_incomplete (n : Nat) (s : St) (hinv : Inv n s) (i j : Nat) (r r' : Nat)
    (hij : j ≠ i) (hi : owns (s.pc i) = some r) (hinc : ¬ (s.heap r).complete n)
    (hj : refOf (s.pc j) = some r') : r' ≠ r := by
  intro heq; subst heq
  have hg := hinv.good j
  cases hpj : s.pc j <;> simp_all [refOf, Good]
  · exact hij (hinv.owner j i _ (by simp [owns, hpj]) hi)
  · exact hij (hinv.owner j i _ (by simp [owns, hpj]) hi)

theorem inv_step (n : Nat) (s : St) (i : Nat) (h : Inv n s) : Inv n (step n s i) := by
  have hgi := h.good i
  cases hpc : s.pc i with
  | start =>
    cases hsh : s.shared with
    | none =>
      have hs : step n s i = { s with pc := upd s.pc i .alloc } := by simp [step, hpc, hsh]
      rw [hs]
      refine ⟨h.shared_ok, ?_, ?_⟩
      · intro j; by_cases hj : j = i <;> simp [upd, hj, Good]; exact h.good j
      · intro a b r ha hb
        by_cases h1 : a = i <;> by_cases h2 : b = i <;> simp_all [upd, owns]
        exact h.owner a b r ha hb
    | some r =>
      have hs : step n s i = { s with pc := upd s.pc i (.use r) } := by simp [step, hpc, hsh]
      rw [hs]
      refine ⟨h.shared_ok, ?_, ?_⟩
      · intro j; by_cases hj : j = i <;> simp [upd, hj, Good]
        · exact h.shared_ok r hsh
        · exact h.good j
      · intro a b r' ha hb
        by_cases h1 : a = i <;> by_cases h2 : b = i <;> simp_all [upd, owns]
        exact h.owner a b r' ha hb
  | alloc =>
    have hs : step n s i = { s with heap := upd s.heap s.next ⟨0, false⟩, next := s.next + 1, pc := upd s.pc i (if n = 0 then .making s.next else .adding s.next) } := by simp [step, hpc]
    rw [hs]
    refine ⟨?_, ?_, ?_⟩
    · intro r hr
      obtain ⟨h1, h2⟩ := h.shared_ok r hr
      have : r ≠ s.next := by omega
      exact ⟨by simp; omega, by simpa [upd, this] using h2⟩
    · intro j
      by_cases hj : j = i
      · subst hj
        by_cases hn : n = 0 <;> simp [upd, hn, Good] <;> omega
      · simp only [upd, hj, if_false]
        apply good_frame n s.heap _ s.next _ _ (by omega) _ (h.good j)
        intro r hr
        have : r < s.next := by
          have := h.good j
          cases hpj : s.pc j <;> simp_all [refOf, Good]
        have : r ≠ s.next := by omega
        simp [upd, this]
    · intro a b r ha hb
      have key : ∀ c, c ≠ i → owns (s.pc c) = some r → r < s.next := by
        intro c _ hc
        have := h.good c
        cases hpc' : s.pc c <;> simp_all [owns, Good]
      by_cases h1 : a = i <;> by_cases h2 : b = i
      · omega
      · simp only [upd, h1, h2, if_true, if_false] at ha hb
        have := key b h2 hb
        by_cases hn : n = 0 <;> simp [hn, owns] at ha <;> omega
      · simp only [upd, h1, h2, if_true, if_false] at ha hb
        have := key a h1 ha
        by_cases hn : n = 0 <;> simp [hn, owns] at hb <;> omega
      · simp only [upd, h1, h2, if_false] at ha hb
        exact h.owner a b r ha hb
  | adding r =>
    rw [hpc] at hgi
    obtain ⟨g1, g2, g3⟩ := hgi
    have hinc : ¬ (s.heap r).complete n := by simp [Build.complete]; omega
    have hs : step n s i = { s with heap := upd s.heap r ⟨(s.heap r).added + 1, (s.heap r).converted⟩, pc := upd s.pc i (if (s.heap r).added + 1 = n then .making r else .adding r) } := by simp [step, hpc]
    rw [hs]
    refine ⟨?_, ?_, ?_⟩
    · intro r' hr'
      obtain ⟨h1, h2⟩ := h.shared_ok r' hr'
      have : r' ≠ r := by intro he; subst he; exact hinc h2
      exact ⟨h1, by simpa [upd, this] using h2⟩
    · intro j
      by_cases hj : j = i
      · subst hj
        by_cases hn : (s.heap r).added + 1 = n <;> simp [upd, hn, Good, g1, g3] <;> omega
      · simp only [upd, hj, if_false]
        apply good_frame n s.heap _ s.next _ _ (Nat.le_refl _) _ (h.good j)
        intro r' hr'
        have := ref_ne_of_incomplete n s h i j r r' hj (by simp [hpc, owns]) hinc hr'
        simp [upd, this]
    · intro a b r' ha hb
      have hown : ∀ c, owns (upd s.pc i (if (s.heap r).added + 1 = n then PC.making r else PC.adding r) c) = owns (s.pc c) := by
        intro c; by_cases hc : c = i
        · subst hc; by_cases hn : (s.heap r).added + 1 = n <;> simp [upd, hn, owns, hpc]
        · simp [upd, hc]
      simp only [hown] at ha hb
      exact h.owner a b r' ha hb
  | making r =>
    rw [hpc] at hgi
    obtain ⟨g1, g2, g3⟩ := hgi
    have hinc : ¬ (s.heap r).complete n := by simp [Build.complete, g3]
    have hs : step n s i = { s with heap := upd s.heap r ⟨(s.heap r).added, true⟩, pc := upd s.pc i (.publish r) } := by simp [step, hpc]
    rw [hs]
    refine ⟨?_, ?_, ?_⟩
    · intro r' hr'
      obtain ⟨h1, h2⟩ := h.shared_ok r' hr'
      have : r' ≠ r := by intro he; subst he; exact hinc h2
      exact ⟨h1, by simpa [upd, this] using h2⟩
    · intro j
      by_cases hj : j = i
      · subst hj; simp [upd, Good, Build.complete, g1, g2]
      · simp only [upd, hj, if_false]
        apply good_frame n s.heap _ s.next _ _ (Nat.le_refl _) _ (h.good j)
        intro r' hr'
        have := ref_ne_of_incomplete n s h i j r r' hj (by simp [hpc, owns]) hinc hr'
        simp [upd, this]
    · intro a b r' ha hb
      by_cases h1 : a = i <;> by_cases h2 : b = i <;> simp_all [upd, owns]
      exact h.owner a b r' ha hb
  | publish r =>
    rw [hpc] at hgi
    have hs : step n s i = { s with shared := some r, pc := upd s.pc i (.use r) } := by simp [step, hpc]
    rw [hs]
    refine ⟨?_, ?_, ?_⟩
    · intro r' hr'; simp at hr'; subst hr'; exact hgi
    · intro j; by_cases hj : j = i <;> simp [upd, hj, Good]
      · exact hgi
      · exact h.good j
    · intro a b r' ha hb
      by_cases h1 : a = i <;> by_cases h2 : b = i <;> simp_all [upd, owns]
      exact h.owner a b r' ha hb
  | use r =>
    rw [hpc] at hgi
    have hs : step n s i = { s with pc := upd s.pc i (.done (s.heap r)) } := by simp [step, hpc]
    rw [hs]
    refine ⟨h.shared_ok, ?_, ?_⟩
    · intro j; by_cases hj : j = i <;> simp [upd, hj, Good]
      · exact hgi.2
      · exact h.good j
    · intro a b r' ha hb
      by_cases h1 : a = i <;> by_cases h2 : b = i <;> simp_all [upd, owns]
      exact h.owner a b r' ha hb
  | done b =>
    have hs : step n s i = s := by simp [step, hpc]
    rw [hs]; exact h

theorem inv_foldl (n : Nat) (sched : List Nat) (s : St) (hs : Inv n s) : Inv n (sched.foldl (step n) s) := by
  induction sched generalizing s with
  | nil => exact hs
  | cons t ts ih => exact ih (step n s t) (inv_step n s t hs)


end SC
end LE
