import LicenseExpr.Model.Symbol
/-!
# Lemmas/NormKey — `' '.join(key.split())` and `strip()` on an already normalised key

Needed for the idempotence of key normalisation. Two facts about the character classes are used,
both true of Python's `str.isspace` / the key pattern: U+0020 is a blank and is allowed in keys.
-/
namespace LE

def IsWord (c : Cls) (w : Str) : Prop := w ≠ [] ∧ ∀ x ∈ w, c.isSpace x = false

theorem splitGo_words (c : Cls) (xs : Str) : ∀ cur, (∀ x ∈ cur, c.isSpace x = false) →
    ∀ w ∈ splitGo c cur xs, IsWord c w := by
  induction xs with
  | nil =>
    intro cur hc w hw
    unfold splitGo at hw
    split at hw
    · simp at hw
    · simp at hw; subst hw
      refine ⟨by simpa using ‹¬ cur.isEmpty = true›, ?_⟩
      intro x hx; exact hc x (by simpa using hx)
  | cons y ys ih =>
    intro cur hc w hw
    unfold splitGo at hw
    split at hw
    · split at hw
      · exact ih [] (by simp) w hw
      · simp only [List.mem_cons] at hw
        rcases hw with rfl | hw
        · refine ⟨by simpa using ‹¬ cur.isEmpty = true›, ?_⟩
          intro x hx; exact hc x (by simpa using hx)
        · exact ih [] (by simp) w hw
    · next hns =>
      apply ih (y :: cur) _ w hw
      intro x hx
      rcases List.mem_cons.mp hx with rfl | hx
      · simpa using hns
      · exact hc x hx

/-- scanning a word (no blanks inside) just accumulates it -/
theorem splitGo_word (c : Cls) (w : Str) (hw : ∀ x ∈ w, c.isSpace x = false) (cur rest : Str) :
    splitGo c cur (w ++ rest) = splitGo c (w.reverse ++ cur) rest := by
  induction w generalizing cur with
  | nil => simp
  | cons x w ih =>
    have hx : c.isSpace x = false := hw x (by simp)
    rw [List.cons_append, splitGo]
    simp only [hx, Bool.false_eq_true, ↓reduceIte]
    rw [ih (fun y hy => hw y (List.mem_cons_of_mem _ hy))]
    simp

theorem splitWs_join (c : Cls) (hsp : c.isSpace SPACE = true) (ws : List Str) (hws : ∀ w ∈ ws, IsWord c w) :
    splitWs c (joinStr [SPACE] ws) = ws := by
  unfold splitWs
  induction ws with
  | nil => simp [joinStr, splitGo]
  | cons w ws ih =>
    have hw := hws w (by simp)
    cases ws with
    | nil =>
      have := splitGo_word c w hw.2 [] []
      simp only [List.append_nil] at this
      rw [joinStr, this, splitGo]
      have : ¬ w.reverse.isEmpty = true := by simpa using hw.1
      simp [this]
    | cons v vs =>
      rw [joinStr]
      have := splitGo_word c w hw.2 [] ([SPACE] ++ joinStr [SPACE] (v :: vs))
      rw [List.append_assoc, this]
      simp only [List.append_nil, List.singleton_append]
      rw [splitGo]
      have hne : ¬ w.reverse.isEmpty = true := by simpa using hw.1
      simp only [hsp, ↓reduceIte, hne, Bool.false_eq_true, List.reverse_reverse]
      rw [ih (fun x hx => hws x (List.mem_cons_of_mem _ hx))]

theorem splitWs_words (c : Cls) (s : Str) : ∀ w ∈ splitWs c s, IsWord c w :=
  splitGo_words c s [] (by simp)

theorem collapse_collapse (c : Cls) (hsp : c.isSpace SPACE = true) (s : Str) :
    collapse c (collapse c s) = collapse c s := by
  unfold collapse
  rw [splitWs_join c hsp _ (splitWs_words c s)]

/-- a joined non-empty list of words neither starts nor ends with a blank -/
theorem dropWhile_of_head (c : Cls) (s : Str) (h : ∀ x, s.head? = some x → c.isSpace x = false) :
    s.dropWhile c.isSpace = s := by
  cases s with
  | nil => rfl
  | cons x xs => simp [List.dropWhile, h x rfl]

theorem join_head (c : Cls) (ws : List Str) (hws : ∀ w ∈ ws, IsWord c w) :
    ∀ x, (joinStr [SPACE] ws).head? = some x → c.isSpace x = false := by
  intro x hx
  cases ws with
  | nil => simp [joinStr] at hx
  | cons w ws =>
    have hw := hws w (by simp)
    cases w with
    | nil => exact absurd rfl hw.1
    | cons y ys =>
      cases ws with
      | nil => simp [joinStr] at hx; subst hx; exact hw.2 _ (by simp)
      | cons v vs => simp [joinStr] at hx; subst hx; exact hw.2 _ (by simp)

theorem join_ne (c : Cls) (ws : List Str) (hne : ws ≠ []) (hws : ∀ w ∈ ws, IsWord c w) : joinStr [SPACE] ws ≠ [] := by
  cases ws with
  | nil => exact absurd rfl hne
  | cons w ws =>
    have hw := hws w (by simp)
    cases ws with
    | nil => simpa [joinStr] using hw.1
    | cons v vs => simp [joinStr, hw.1]

theorem join_last (c : Cls) (ws : List Str) (hws : ∀ w ∈ ws, IsWord c w) :
    ∀ x, (joinStr [SPACE] ws).getLast? = some x → c.isSpace x = false := by
  induction ws with
  | nil => intro x hx; simp [joinStr] at hx
  | cons w ws ih =>
    intro x hx
    have hw := hws w (by simp)
    cases ws with
    | nil =>
      simp only [joinStr] at hx
      exact hw.2 x (List.mem_of_getLast? hx)
    | cons v vs =>
      rw [joinStr] at hx
      have hne := join_ne c (v :: vs) (by simp) (fun y hy => hws y (List.mem_cons_of_mem _ hy))
      rw [List.getLast?_append] at hx
      cases hl : (joinStr [SPACE] (v :: vs)).getLast? with
      | none => rw [List.getLast?_eq_none_iff] at hl; exact absurd hl hne
      | some z =>
        rw [hl] at hx; simp at hx; subst hx
        exact ih (fun y hy => hws y (List.mem_cons_of_mem _ hy)) z hl

theorem stripStr_join (c : Cls) (ws : List Str) (hws : ∀ w ∈ ws, IsWord c w) :
    stripStr c (joinStr [SPACE] ws) = joinStr [SPACE] ws := by
  unfold stripStr
  rw [dropWhile_of_head c _ (join_head c ws hws)]
  rw [dropWhile_of_head c (joinStr [SPACE] ws).reverse]
  · simp
  · intro x hx
    rw [List.head?_reverse] at hx
    exact join_last c ws hws x hx

/-- key characters of the collapsed key: those of the words, and U+0020 -/
theorem join_all (p : Nat → Bool) (hsp : p SPACE = true) (ws : List Str) (hws : ∀ w ∈ ws, w.all p = true) :
    (joinStr [SPACE] ws).all p = true := by
  induction ws with
  | nil => simp [joinStr]
  | cons w ws ih =>
    cases ws with
    | nil => simpa [joinStr] using hws w (by simp)
    | cons v vs =>
      rw [joinStr]
      simp only [List.all_append, Bool.and_eq_true]
      exact ⟨⟨hws w (by simp), by simp [hsp]⟩, ih (fun y hy => hws y (List.mem_cons_of_mem _ hy))⟩

theorem splitGo_sub (c : Cls) (xs : Str) : ∀ cur, ∀ w ∈ splitGo c cur xs, ∀ x ∈ w, x ∈ cur ∨ x ∈ xs := by
  induction xs with
  | nil =>
    intro cur w hw x hx
    unfold splitGo at hw
    split at hw
    · simp at hw
    · simp at hw; subst hw; left; simpa using hx
  | cons y ys ih =>
    intro cur w hw x hx
    unfold splitGo at hw
    split at hw
    · split at hw
      · rcases ih [] w hw x hx with h | h
        · simp at h
        · right; exact List.mem_cons_of_mem _ h
      · simp only [List.mem_cons] at hw
        rcases hw with rfl | hw
        · left; simpa using hx
        · rcases ih [] w hw x hx with h | h
          · simp at h
          · right; exact List.mem_cons_of_mem _ h
    · rcases ih (y :: cur) w hw x hx with h | h
      · rcases List.mem_cons.mp h with rfl | h
        · right; simp
        · left; exact h
      · right; exact List.mem_cons_of_mem _ h

theorem splitWs_ne (c : Cls) (s : Str) (h : ∃ x ∈ s, c.isSpace x = false) : splitWs c s ≠ [] := by
  unfold splitWs
  suffices ∀ cur, (cur ≠ [] ∨ ∃ x ∈ s, c.isSpace x = false) → splitGo c cur s ≠ [] from this [] (Or.inr h)
  clear h
  induction s with
  | nil =>
    intro cur hc
    rcases hc with hc | ⟨x, hx, _⟩
    · unfold splitGo; simp [hc]
    · simp at hx
  | cons y ys ih =>
    intro cur hc
    unfold splitGo
    split
    · next hy =>
      split
      · next hce =>
        apply ih []
        right
        rcases hc with hc | ⟨x, hx, hxs⟩
        · simp at hce; exact absurd hce hc
        · rcases List.mem_cons.mp hx with rfl | hx
          · rw [hy] at hxs; cases hxs
          · exact ⟨x, hx, hxs⟩
      · simp
    · exact ih (y :: cur) (Or.inl (by simp))

end LE
