import LicenseExpr.Lemmas.Spell
import LicenseExpr.Lemmas.Render
import LicenseExpr.Lemmas.BLits
import LicenseExpr.Lemmas.BReject
import LicenseExpr.Lemmas.BSound
/-!
# Lemmas/RenderText — the words of a rendered expression are the words of its token skeleton

`detok Atom.render ts` is the text `render()` writes for the token skeleton `ts`. Its words (what
the lexer makes of it) are, token by token: the key of a license, `l WITH e` for a pair, `AND`, `OR`,
`(`, `)` — provided no two license tokens are adjacent (true of every skeleton that parses) and the
keys are single words.
-/
namespace LE

def sWITHu : Str := [87, 73, 84, 72]
def sANDu : Str := [65, 78, 68]
def sORu : Str := [79, 82]

def wordsOfTok : BP.Tok Atom → List Str
  | .sym (.lic s) => [s.key]
  | .sym (.withE l e) => [l.key, sWITHu, e.key]
  | .and => [sANDu]
  | .or => [sORu]
  | .lpar => [[LPAR]]
  | .rpar => [[RPAR]]

/-- a key that is one word: not empty, word characters only -/
def WordKey (c : Cls) (k : Str) : Prop := k ≠ [] ∧ ∀ x ∈ k, kindOf c x = .word

def TokKeysOK (c : Cls) : BP.Tok Atom → Prop
  | .sym (.lic s) => WordKey c s.key
  | .sym (.withE l e) => WordKey c l.key ∧ WordKey c e.key
  | _ => True

def isSymTok : BP.Tok Atom → Bool
  | .sym _ => true
  | _ => false

/-- no two license tokens follow each other directly -/
def NoSymSym : List (BP.Tok Atom) → Prop
  | a :: b :: r => ¬ (isSymTok a = true ∧ isSymTok b = true) ∧ NoSymSym (b :: r)
  | _ => True

theorem splitW_word_then (c : Cls) (w : Str) (hw : WordKey c w) (rest : Str)
    (hr : rest = [] ∨ ∃ x xs, rest = x :: xs ∧ ¬ kindOf c x = .word) :
    splitW c [] (w ++ rest) = [w] ++ splitW c [] rest := by
  rw [splitW_word_run c w hw.2 [] rest, splitW_flush c _ _ hr]
  simp [flushW, hw.1]

theorem upper_word (c : Cls) (hc : ClsOK c) (w : Str) (h : ∀ x ∈ w, x ∈ [65, 78, 68, 79, 82, 87, 73, 84, 72]) (hne : w ≠ []) :
    WordKey c w := ⟨hne, fun x hx => (hc.upper x (h x hx)).1⟩

theorem space_not_word (c : Cls) (hc : ClsOK c) : ¬ kindOf c SPACE = .word := by
  rw [kindOf_word]; simp [hc.space]

theorem lpar_not_word (c : Cls) : ¬ kindOf c LPAR = .word := by simp [kindOf]
theorem rpar_not_word (c : Cls) : ¬ kindOf c RPAR = .word := by simp [kindOf, LPAR, RPAR]

theorem space_lead (c : Cls) (hc : ClsOK c) (s : Str) : splitW c [] (SPACE :: s) = splitW c [] s :=
  splitW_lead c SPACE hc.space (by decide) s

/-- the text of a token that is not a license starts with a character that ends a word -/
theorem tokStr_nonsym_head (c : Cls) (hc : ClsOK c) (t : BP.Tok Atom) (ht : isSymTok t = false) (rest : Str) :
    ∃ x xs, BP.tokStr Atom.render t ++ rest = x :: xs ∧ ¬ kindOf c x = .word := by
  cases t with
  | sym a => simp [isSymTok] at ht
  | and => exact ⟨SPACE, _, rfl, space_not_word c hc⟩
  | or => exact ⟨SPACE, _, rfl, space_not_word c hc⟩
  | lpar => exact ⟨LPAR, _, rfl, lpar_not_word c⟩
  | rpar => exact ⟨RPAR, _, rfl, rpar_not_word c⟩

theorem detok_cons (f : Atom → Str) (t : BP.Tok Atom) (ts : List (BP.Tok Atom)) :
    BP.detok f (t :: ts) = BP.tokStr f t ++ BP.detok f ts := by simp [BP.detok]

/-- what follows a license token in a skeleton ends its last word -/
theorem after_sym (c : Cls) (hc : ClsOK c) (t : BP.Tok Atom) (ts : List (BP.Tok Atom)) (ht : isSymTok t = true)
    (hn : NoSymSym (t :: ts)) :
    BP.detok Atom.render ts = [] ∨ ∃ x xs, BP.detok Atom.render ts = x :: xs ∧ ¬ kindOf c x = .word := by
  cases ts with
  | nil => left; rfl
  | cons u r =>
    right
    have hu : isSymTok u = false := by
      cases h : isSymTok u with
      | false => rfl
      | true => exact absurd ⟨ht, h⟩ hn.1
    rw [detok_cons]
    exact tokStr_nonsym_head c hc u hu _

/-- **the words of a rendered skeleton** -/
theorem words_detok (c : Cls) (hc : ClsOK c) : ∀ (ts : List (BP.Tok Atom)), NoSymSym ts → (∀ t ∈ ts, TokKeysOK c t) →
    splitW c [] (BP.detok Atom.render ts) = ts.flatMap wordsOfTok
  | [], _, _ => by simp [BP.detok, splitW, flushW]
  | t :: ts, hn, hk => by
    have ih := words_detok c hc ts (by cases ts <;> first | trivial | exact hn.2) (fun x hx => hk x (List.mem_cons_of_mem _ hx))
    rw [detok_cons, List.flatMap_cons]
    have hsp : ∀ s, splitW c [] (SPACE :: s) = splitW c [] s := space_lead c hc
    cases t with
    | and =>
      have hw : WordKey c sANDu := upper_word c hc _ (by decide) (by decide)
      have : BP.tokStr Atom.render (BP.Tok.and : BP.Tok Atom) ++ BP.detok Atom.render ts =
          SPACE :: (sANDu ++ SPACE :: BP.detok Atom.render ts) := by simp [BP.tokStr, Op.text, sANDu]
      rw [this, hsp, splitW_word_then c _ hw _ (Or.inr ⟨SPACE, _, rfl, space_not_word c hc⟩), hsp, ih]
      rfl
    | or =>
      have hw : WordKey c sORu := upper_word c hc _ (by decide) (by decide)
      have : BP.tokStr Atom.render (BP.Tok.or : BP.Tok Atom) ++ BP.detok Atom.render ts =
          SPACE :: (sORu ++ SPACE :: BP.detok Atom.render ts) := by simp [BP.tokStr, Op.text, sORu]
      rw [this, hsp, splitW_word_then c _ hw _ (Or.inr ⟨SPACE, _, rfl, space_not_word c hc⟩), hsp, ih]
      rfl
    | lpar =>
      simp only [BP.tokStr, List.cons_append, List.nil_append, splitW, true_or, ↓reduceIte, flushW, List.isEmpty_nil, ih, wordsOfTok]
    | rpar =>
      simp only [BP.tokStr, List.cons_append, List.nil_append, splitW, or_true, ↓reduceIte, flushW, List.isEmpty_nil, ih, wordsOfTok]
    | sym a =>
      have hafter := after_sym c hc (.sym a) ts rfl hn
      cases a with
      | lic s =>
        have hw : WordKey c s.key := hk (.sym (.lic s)) (by simp)
        simp only [BP.tokStr, Atom.render, wordsOfTok]
        rw [splitW_word_then c _ hw _ hafter, ih]
      | withE l e =>
        obtain ⟨hl, he⟩ : WordKey c l.key ∧ WordKey c e.key := hk (.sym (.withE l e)) (by simp)
        have hwu : WordKey c sWITHu := upper_word c hc _ (by decide) (by decide)
        have : BP.tokStr Atom.render (BP.Tok.sym (Atom.withE l e)) ++ BP.detok Atom.render ts =
            l.key ++ (SPACE :: (sWITHu ++ SPACE :: (e.key ++ BP.detok Atom.render ts))) := by
          simp [BP.tokStr, Atom.render, sWITHu, List.append_assoc]
        rw [this, splitW_word_then c _ hl _ (Or.inr ⟨SPACE, _, rfl, space_not_word c hc⟩), hsp,
          splitW_word_then c _ hwu _ (Or.inr ⟨SPACE, _, rfl, space_not_word c hc⟩), hsp,
          splitW_word_then c _ he _ hafter, ih]
        simp [wordsOfTok]

/-! ### the later stages on the values of a skeleton -/

def expandTok : BP.Tok Atom → List SVal
  | .sym (.lic s) => [.sym s]
  | .sym (.withE l e) => [.sym l, .kw .with, .sym e]
  | .and => [.kw .and]
  | .or => [.kw .or]
  | .lpar => [.kw .lpar]
  | .rpar => [.kw .rpar]

theorem groupWith_nontriple (c : Cls) (strict : Bool) (a : STok) (L : List STok)
    (h : ∀ w b r l e, L = w :: b :: r → symOf a.val = some l → isWithV w.val = true → symOf b.val = some e → False) :
    groupWith c strict (a :: L) = single strict a (groupWith c strict L) := by
  match L with
  | [] => simp [groupWith]
  | [w] => simp [groupWith]
  | w :: b :: r =>
    rw [groupWith]
    split
    · next l e h1 h2 h3 => exact absurd (h w b r l e rfl h1 h2 h3) id
    · rfl

theorem expand_head_not_with (t : BP.Tok Atom) (ht : isSymTok t = false) : ∀ v ∈ (expandTok t).head?, isWithV v = false := by
  cases t <;> simp [expandTok, isWithV, isSymTok] at ht ⊢

/-- **grouping and hand-over on the values of a skeleton** give the skeleton back -/
theorem group_skeleton (c : Cls) : ∀ (ts : List (BP.Tok Atom)) (L : List STok), NoSymSym ts →
    L.map (·.val) = ts.flatMap expandTok →
    ∃ R P, groupWith c false L = .ok R ∧ toPToks R = .ok P ∧ P.map (·.t) = ts
  | [], L, _, hL => by
    simp at hL; subst hL
    exact ⟨[], [], by simp [groupWith], by simp [toPToks], rfl⟩
  | t :: ts, L, hn, hL => by
    have hn' : NoSymSym ts := by cases ts <;> first | trivial | exact hn.2
    rw [List.flatMap_cons] at hL
    -- what the next token starts with is not a WITH keyword
    have hnext : isSymTok t = true → ∀ (L' : List STok), L'.map (·.val) = ts.flatMap expandTok →
        ∀ w b r, L' = w :: b :: r → isWithV w.val = true → False := by
      intro ht L' hL' w b r hw hwith
      cases ts with
      | nil => subst hw; simp at hL'
      | cons u us =>
        have hu : isSymTok u = false := by
          cases h : isSymTok u with
          | false => rfl
          | true => exact absurd ⟨ht, h⟩ hn.1
        subst hw
        rw [List.flatMap_cons] at hL'
        have := expand_head_not_with u hu w.val (by
          cases he : expandTok u with
          | nil => cases u <;> simp [expandTok, isSymTok] at he hu
          | cons v vs => rw [he] at hL'; simp at hL'; simp [hL'.1])
        rw [this] at hwith; cases hwith
    cases t with
    | sym a =>
      cases a with
      | lic s =>
        cases L with
        | nil => simp [expandTok] at hL
        | cons a0 L' =>
          simp only [expandTok, List.map_cons, List.cons_append, List.nil_append, List.cons.injEq] at hL
          obtain ⟨R, P, h1, h2, h3⟩ := group_skeleton c ts L' hn' hL.2
          have hg := groupWith_nontriple c false a0 L' (by
            intro w b r l e hw _ hwith _; exact hnext rfl L' hL.2 w b r hw hwith)
          refine ⟨a0 :: R, ⟨.sym (.lic s), a0.str, a0.s⟩ :: P, ?_, ?_, by simp [h3]⟩
          · rw [hg, h1]; simp [single, hL.1, Except.map]
          · simp [toPToks, toPTok, hL.1, h2, Except.map]
      | withE l e =>
        match L, hL with
        | a0 :: w0 :: b0 :: L', hL =>
          simp only [expandTok, List.map_cons, List.cons_append, List.nil_append, List.cons.injEq] at hL
          obtain ⟨ha, hw, hb, hrest⟩ := hL
          obtain ⟨R, P, h1, h2, h3⟩ := group_skeleton c ts L' hn' hrest
          refine ⟨⟨a0.s, b0.e, a0.str ++ [SPACE] ++ stripStr c w0.str ++ [SPACE] ++ b0.str, .withSym l e⟩ :: R,
            ⟨.sym (.withE l e), a0.str ++ [SPACE] ++ stripStr c w0.str ++ [SPACE] ++ b0.str, a0.s⟩ :: P, ?_, ?_, by simp [h3]⟩
          · rw [groupWith]
            simp [ha, hw, hb, symOf, isWithV, h1, Except.map]
          · simp [toPToks, toPTok, h2, Except.map]
        | [], hL => simp [expandTok] at hL
        | [_], hL => simp [expandTok] at hL
        | [_, _], hL => simp [expandTok] at hL
    | and =>
      cases L with
      | nil => simp [expandTok] at hL
      | cons a0 L' =>
        simp only [expandTok, List.map_cons, List.cons_append, List.nil_append, List.cons.injEq] at hL
        obtain ⟨R, P, h1, h2, h3⟩ := group_skeleton c ts L' hn' hL.2
        have hg := groupWith_nontriple c false a0 L' (by intro w b r l e _ hs; simp [hL.1, symOf] at hs)
        refine ⟨a0 :: R, ⟨.and, a0.str, a0.s⟩ :: P, ?_, ?_, by simp [h3]⟩
        · rw [hg, h1]; simp [single, hL.1, Except.map]
        · simp [toPToks, toPTok, hL.1, h2, Except.map]
    | or =>
      cases L with
      | nil => simp [expandTok] at hL
      | cons a0 L' =>
        simp only [expandTok, List.map_cons, List.cons_append, List.nil_append, List.cons.injEq] at hL
        obtain ⟨R, P, h1, h2, h3⟩ := group_skeleton c ts L' hn' hL.2
        have hg := groupWith_nontriple c false a0 L' (by intro w b r l e _ hs; simp [hL.1, symOf] at hs)
        refine ⟨a0 :: R, ⟨.or, a0.str, a0.s⟩ :: P, ?_, ?_, by simp [h3]⟩
        · rw [hg, h1]; simp [single, hL.1, Except.map]
        · simp [toPToks, toPTok, hL.1, h2, Except.map]
    | lpar =>
      cases L with
      | nil => simp [expandTok] at hL
      | cons a0 L' =>
        simp only [expandTok, List.map_cons, List.cons_append, List.nil_append, List.cons.injEq] at hL
        obtain ⟨R, P, h1, h2, h3⟩ := group_skeleton c ts L' hn' hL.2
        have hg := groupWith_nontriple c false a0 L' (by intro w b r l e _ hs; simp [hL.1, symOf] at hs)
        refine ⟨a0 :: R, ⟨.lpar, a0.str, a0.s⟩ :: P, ?_, ?_, by simp [h3]⟩
        · rw [hg, h1]; simp [single, hL.1, Except.map]
        · simp [toPToks, toPTok, hL.1, h2, Except.map]
    | rpar =>
      cases L with
      | nil => simp [expandTok] at hL
      | cons a0 L' =>
        simp only [expandTok, List.map_cons, List.cons_append, List.nil_append, List.cons.injEq] at hL
        obtain ⟨R, P, h1, h2, h3⟩ := group_skeleton c ts L' hn' hL.2
        have hg := groupWith_nontriple c false a0 L' (by intro w b r l e _ hs; simp [hL.1, symOf] at hs)
        refine ⟨a0 :: R, ⟨.rpar, a0.str, a0.s⟩ :: P, ?_, ?_, by simp [h3]⟩
        · rw [hg, h1]; simp [single, hL.1, Except.map]
        · simp [toPToks, toPTok, hL.1, h2, Except.map]

/-! ### what the simple tokenizer makes of a word -/

inductive F2 {α β : Type} (R : α → β → Prop) : List α → List β → Prop
  | nil : F2 R [] []
  | cons {a b l m} : R a b → F2 R l m → F2 R (a :: l) (b :: m)

theorem F2.append {α β : Type} {R : α → β → Prop} {l1 l2 : List α} {m1 m2 : List β} (h1 : F2 R l1 m1) (h2 : F2 R l2 m2) :
    F2 R (l1 ++ l2) (m1 ++ m2) := by
  induction h1 with
  | nil => exact h2
  | cons hr _ ih => exact F2.cons hr ih

/-- the value the simple tokenizer gives a word (a non-blank piece of the text), by its text alone -/
def valOfWord (c : Cls) (T : Table) (w : Str) : Except LErr SVal :=
  if w = [LPAR] then .ok (.kw .lpar)
  else if w = [RPAR] then .ok (.kw .rpar)
  else
    match operatorOf (c.fold w) with
    | some k => .ok (.kw k)
    | none =>
      match lookupLower c T (c.fold w) with
      | some a => .ok (.sym a)
      | none =>
        match normKey c w with
        | some k => .ok (.sym ⟨k, false⟩)
        | none => .error .expr

theorem oneTok_val (c : Cls) (T : Table) (p : Piece) (hk : PieceKindOK c p) (hnb : p.kind ≠ .blank) :
    (oneTok c T p).map (·.val) = valOfWord c T p.text := by
  cases hkind : p.kind with
  | blank => exact absurd hkind hnb
  | lpar => simp [oneTok, hkind, kind_lpar_text c p hk hkind, valOfWord, Except.map]
  | rpar =>
    have : ([RPAR] : Str) ≠ [LPAR] := by decide
    simp [oneTok, hkind, kind_rpar_text c p hk hkind, valOfWord, Except.map, this]
  | word =>
    have h1 : p.text ≠ [LPAR] := by
      intro h
      have := hk.2.1 LPAR (by rw [h]; simp)
      rw [hkind] at this; simp [kindOf] at this
    have h2 : p.text ≠ [RPAR] := by
      intro h
      have := hk.2.1 RPAR (by rw [h]; simp)
      rw [hkind] at this; simp [kindOf, LPAR, RPAR] at this
    simp only [oneTok, hkind, valOfWord, h1, h2, ↓reduceIte]
    cases operatorOf (c.fold p.text) with
    | some k => rfl
    | none =>
      simp only []
      cases lookupLower c T (c.fold p.text) with
      | some a => rfl
      | none =>
        simp only []
        cases normKey c p.text <;> rfl

theorem mapTok_vals (c : Cls) (T : Table) : ∀ (ps : List Piece) (vals : List SVal),
    (∀ p ∈ ps, PieceKindOK c p ∧ p.kind ≠ .blank) →
    F2 (fun p v => valOfWord c T p.text = .ok v) ps vals →
    ∃ L, mapTok (oneTok c T) ps = .ok L ∧ L.map (·.val) = vals
  | [], _, _, h => by cases h; exact ⟨[], rfl, rfl⟩
  | p :: ps, _, hk, h => by
    cases h with
    | cons hv hrest =>
      obtain ⟨L, h1, h2⟩ := mapTok_vals c T ps _ (fun q hq => hk q (List.mem_cons_of_mem _ hq)) hrest
      have ho := oneTok_val c T p (hk p (by simp)).1 (hk p (by simp)).2
      rw [hv] at ho
      cases hone : oneTok c T p with
      | error e => rw [hone] at ho; simp [Except.map] at ho
      | ok t0 =>
        rw [hone] at ho
        simp only [Except.map, Except.ok.injEq] at ho
        exact ⟨t0 :: L, by simp [mapTok, hone, h1, Except.map], by simp [ho, h2]⟩

/-- a license the simple tokenizer reads back from its own key -/
def SymOK (c : Cls) (T : Table) (s : Sym) : Prop := WordKey c s.key ∧ valOfWord c T s.key = .ok (.sym s)

def AtomOK (c : Cls) (T : Table) : Atom → Prop
  | .lic s => SymOK c T s
  | .withE l e => SymOK c T l ∧ SymOK c T e

theorem fold_upper (c : Cls) (hc : ClsOK c) : c.fold sANDu = sAND ∧ c.fold sORu = sOR ∧ c.fold sWITHu = sWITH := by
  have h := hc.upper
  refine ⟨?_, ?_, ?_⟩ <;>
    simp [Cls.fold, sANDu, sORu, sWITHu, sAND, sOR, sWITH, (h 65 (by decide)).2, (h 78 (by decide)).2, (h 68 (by decide)).2,
      (h 79 (by decide)).2, (h 82 (by decide)).2, (h 87 (by decide)).2, (h 73 (by decide)).2, (h 84 (by decide)).2, (h 72 (by decide)).2]

theorem tok_vals (c : Cls) (hc : ClsOK c) (T : Table) (t : BP.Tok Atom)
    (ha : ∀ a, t = .sym a → AtomOK c T a) :
    F2 (fun w v => valOfWord c T w = .ok v) (wordsOfTok t) (expandTok t) := by
  obtain ⟨f1, f2, f3⟩ := fold_upper c hc
  have hand : valOfWord c T sANDu = .ok (.kw .and) := by
    unfold valOfWord
    rw [if_neg (by decide), if_neg (by decide), f1]
    simp [operatorOf]
  have hor : valOfWord c T sORu = .ok (.kw .or) := by
    unfold valOfWord
    rw [if_neg (by decide), if_neg (by decide), f2]
    simp [operatorOf, sAND, sOR]
  have hwith : valOfWord c T sWITHu = .ok (.kw .with) := by
    unfold valOfWord
    rw [if_neg (by decide), if_neg (by decide), f3]
    simp [operatorOf, sAND, sOR, sWITH]
  cases t with
  | and => exact F2.cons hand F2.nil
  | or => exact F2.cons hor F2.nil
  | lpar => exact F2.cons (by simp [valOfWord]) F2.nil
  | rpar => exact F2.cons (by simp [valOfWord, LPAR, RPAR]) F2.nil
  | sym a =>
    cases a with
    | lic s => exact F2.cons (ha _ rfl).2 F2.nil
    | withE l e =>
      obtain ⟨hl, he⟩ : SymOK c T l ∧ SymOK c T e := ha _ rfl
      exact F2.cons hl.2 (F2.cons hwith (F2.cons he.2 F2.nil))

theorem forall₂_flatMap {α β γ : Type} (R : β → γ → Prop) (f : α → List β) (g : α → List γ) :
    ∀ (l : List α), (∀ x ∈ l, F2 R (f x) (g x)) → F2 R (l.flatMap f) (l.flatMap g)
  | [], _ => by simp; exact F2.nil
  | x :: xs, h => by
    simp only [List.flatMap_cons]
    exact F2.append (h x (by simp)) (forall₂_flatMap R f g xs (fun y hy => h y (List.mem_cons_of_mem _ hy)))

theorem forall₂_map_left {α β γ : Type} (R : β → γ → Prop) (f : α → β) :
    ∀ (l : List α) (m : List γ), F2 R (l.map f) m → F2 (fun a c => R (f a) c) l m
  | [], m, h => by cases h; exact F2.nil
  | a :: l, m, h => by
    cases h with
    | cons hr hrest => exact F2.cons hr (forall₂_map_left R f l _ hrest)

/-! ### rendering, then the simple tokenizer, then the parser -/

theorem noSymSym_of_pairs : ∀ (ts : List (BP.Tok Atom)),
    (∀ pre a b post, ts = pre ++ a :: b :: post → BP.badPair a b = false) → NoSymSym ts
  | [], _ => trivial
  | [_], _ => trivial
  | a :: b :: r, h => by
    refine ⟨?_, noSymSym_of_pairs (b :: r) (fun pre x y post hxy => h (a :: pre) x y post (by rw [hxy]; rfl))⟩
    rintro ⟨ha, hb⟩
    have := h [] a b r rfl
    cases a <;> cases b <;> simp_all [isSymTok, BP.badPair]

theorem sym_mem_tokLits : ∀ (ts : List (BP.Tok Atom)) (a : Atom), BP.Tok.sym a ∈ ts → a ∈ BP.tokLits ts
  | [], _, h => by cases h
  | t :: ts, a, h => by
    simp only [List.mem_cons] at h
    cases t with
    | sym b =>
      simp only [BP.tokLits, List.mem_cons]
      rcases h with h | h
      · left; simpa using h
      · right; exact sym_mem_tokLits ts a h
    | and => rcases h with h | h; cases h; simpa [BP.tokLits] using sym_mem_tokLits ts a h
    | or => rcases h with h | h; cases h; simpa [BP.tokLits] using sym_mem_tokLits ts a h
    | lpar => rcases h with h | h; cases h; simpa [BP.tokLits] using sym_mem_tokLits ts a h
    | rpar => rcases h with h | h; cases h; simpa [BP.tokLits] using sym_mem_tokLits ts a h

theorem atomOK_keys (c : Cls) (T : Table) (t : BP.Tok Atom) (ha : ∀ a, t = .sym a → AtomOK c T a) : TokKeysOK c t := by
  cases t with
  | sym a =>
    cases a with
    | lic s => exact (ha _ rfl).1
    | withE l e => exact ⟨(ha _ rfl).1.1, (ha _ rfl).2.1⟩
  | _ => trivial

theorem renderStr_detok (e : Expr Atom) : renderStr e = BP.detok Atom.render (BP.toksOf (fun _ => false) e) := by
  cases e with
  | atom a => simp [renderStr, renderWith, BP.toksOf, BP.detok, BP.tokStr]
  | node op es => exact BP.renderWith_detok Atom.render (fun _ => false) Atom.render (by intro a; simp) op es

/-- the simple tokenizer on the text of a token skeleton whose licenses it reads back from their keys:
    the triples it hands to the parser are the skeleton -/
theorem ltok_simple_skeleton (c : Cls) (hc : ClsOK c) (T : Table) (tr : Trie TVal) (ts : List (BP.Tok Atom))
    (hn : NoSymSym ts) (ha : ∀ a, BP.Tok.sym a ∈ ts → AtomOK c T a) :
    ∃ P, ltokW c T tr true false (BP.detok Atom.render ts) = .ok P ∧ P.map (·.t) = ts := by
  have hkeys : ∀ t ∈ ts, TokKeysOK c t := fun t ht => atomOK_keys c T t (fun a h => ha a (h ▸ ht))
  have hwords := words_detok c hc ts hn hkeys
  rw [← unfoldedWords_splitW] at hwords
  have hkind := wordPieces_kind c (BP.detok Atom.render ts)
  have hF : F2 (fun w v => valOfWord c T w = .ok v) (ts.flatMap wordsOfTok) (ts.flatMap expandTok) :=
    forall₂_flatMap _ _ _ ts (fun t ht => tok_vals c hc T t (fun a h => ha a (h ▸ ht)))
  rw [← hwords] at hF
  obtain ⟨L, hL, hvals⟩ := mapTok_vals c T _ _ hkind (forall₂_map_left _ _ _ _ hF)
  obtain ⟨R, P, hg, hp, hts⟩ := group_skeleton c ts L hn hvals
  refine ⟨P, ?_, hts⟩
  unfold ltokW rawTokensW
  simp only [↓reduceIte, simpleTokens_eq_mapTok, hL]
  have hm := mergeUnknown_known c L (mapTok_known c T _ L hL)
  simp [bind, Except.bind, hm, hg, hp]

/-- **C05 (text level, simple tokenizer)**: rendering an expression and parsing the text with the simple
    tokenizer gives the expression back, whenever each of its licenses is read back from its key -/
theorem parse_render_simple (c : Cls) (hc : ClsOK c) (T : Table) (e : Expr Atom) (hwf : BP.WFE e)
    (ha : ∀ a ∈ literals e, AtomOK c T a) :
    parseFull c T true false false (renderStr e) = .ok e := by
  have hparse := BP.parse_render (fun _ => false) e hwf
  have hn := noSymSym_of_pairs _ (BP.parse_pairs _ e hparse)
  have hlits := BP.parse_literals _ e hparse
  have ha' : ∀ a, BP.Tok.sym a ∈ BP.toksOf (fun _ => false) e → AtomOK c T a := by
    intro a h; exact ha a (by rw [hlits]; exact sym_mem_tokLits _ a h)
  obtain ⟨P, hP, hts⟩ := ltok_simple_skeleton c hc T (buildTrie c T) _ hn ha'
  rw [renderStr_detok]
  -- the text is not blank: it has at least one word
  have hne : unfoldedWords c (BP.detok Atom.render (BP.toksOf (fun _ => false) e)) ≠ [] := by
    rw [unfoldedWords_splitW, words_detok c hc _ hn (fun t ht => atomOK_keys c T t (fun a h => ha' a (h ▸ ht)))]
    intro h
    have hne : BP.toksOf (fun _ => false) e ≠ [] := by
      intro h0; rw [h0] at hparse; exact BP.parse_nonempty e hparse
    cases hh : BP.toksOf (fun _ => false) e with
    | nil => exact hne hh
    | cons t r =>
      rw [hh] at h
      cases t with
      | sym a => cases a <;> simp [wordsOfTok] at h
      | _ => simp [wordsOfTok] at h
  have hnb : ((BP.detok Atom.render (BP.toksOf (fun _ => false) e)).isEmpty ||
      isBlank c (BP.detok Atom.render (BP.toksOf (fun _ => false) e))) = false := by
    rw [Bool.or_eq_false_iff]
    constructor
    · cases ht : BP.detok Atom.render (BP.toksOf (fun _ => false) e) with
      | nil => rw [ht] at hne; exact absurd (by simp [unfoldedWords, wordPieces, pieces, lexGo]) hne
      | cons _ _ => rfl
    · cases hb : isBlank c (BP.detok Atom.render (BP.toksOf (fun _ => false) e)) with
      | false => rfl
      | true =>
        have := blank_no_words c hc _ hb
        exfalso; apply hne
        simp only [wordsOf, List.map_eq_nil_iff] at this
        simp [unfoldedWords, this]
  unfold parseFull parseFullW
  simp only [hnb, Bool.false_eq_true, ↓reduceIte, hP, hts, (BP.parseAt_ok _ _).mpr hparse]

/-! ### the default tokenizer on space-free tables -/

def plainW (c : Cls) (w : Str) : Bool := w != [LPAR] && w != [RPAR] && (operatorOf (c.fold w)).isNone

/-- no two plain words follow each other -/
def NoPP (c : Cls) : List Str → Prop
  | a :: b :: r => ¬ (plainW c a = true ∧ plainW c b = true) ∧ NoPP c (b :: r)
  | _ => True

theorem nonsym_words (c : Cls) (hc : ClsOK c) (t : BP.Tok Atom) (ht : isSymTok t = false) :
    ∃ w, wordsOfTok t = [w] ∧ plainW c w = false := by
  obtain ⟨f1, f2, f3⟩ := fold_upper c hc
  cases t with
  | sym a => simp [isSymTok] at ht
  | and => exact ⟨sANDu, rfl, by simp [plainW, f1, operatorOf]⟩
  | or => exact ⟨sORu, rfl, by simp [plainW, f2, operatorOf, sAND, sOR]⟩
  | lpar => exact ⟨[LPAR], rfl, by simp [plainW]⟩
  | rpar => exact ⟨[RPAR], rfl, by simp [plainW]⟩

theorem noPP_cons_nonplain (c : Cls) (w : Str) (l : List Str) (hw : plainW c w = false) (h : NoPP c l) : NoPP c (w :: l) := by
  cases l with
  | nil => trivial
  | cons b r => exact ⟨by simp [hw], h⟩

theorem noPP_cons_head (c : Cls) (w : Str) (l : List Str) (hl : ∀ b ∈ l.head?, plainW c b = false) (h : NoPP c l) : NoPP c (w :: l) := by
  cases l with
  | nil => trivial
  | cons b r => exact ⟨by simp [hl b (by simp)], h⟩

theorem words_noPP (c : Cls) (hc : ClsOK c) : ∀ (ts : List (BP.Tok Atom)), NoSymSym ts →
    NoPP c (ts.flatMap wordsOfTok) ∧ (∀ t r, ts = t :: r → isSymTok t = false → ∀ b ∈ (ts.flatMap wordsOfTok).head?, plainW c b = false)
  | [], _ => ⟨trivial, fun _ _ h => by cases h⟩
  | t :: ts, hn => by
    have hn' : NoSymSym ts := by cases ts <;> first | trivial | exact hn.2
    obtain ⟨ih1, ih2⟩ := words_noPP c hc ts hn'
    have hwith : plainW c sWITHu = false := by
      obtain ⟨_, _, f3⟩ := fold_upper c hc
      simp [plainW, f3, operatorOf, sAND, sOR, sWITH]
    -- after a license token the next word is not plain
    have hafter : isSymTok t = true → ∀ b ∈ (ts.flatMap wordsOfTok).head?, plainW c b = false := by
      intro ht
      cases ts with
      | nil => intro b hb; simp at hb
      | cons u r =>
        have hu : isSymTok u = false := by
          cases h : isSymTok u with
          | false => rfl
          | true => exact absurd ⟨ht, h⟩ hn.1
        exact ih2 u r rfl hu
    rw [List.flatMap_cons]
    by_cases ht : isSymTok t = true
    · refine ⟨?_, fun t' r h hns => by simp at h; rw [← h.1, ht] at hns; cases hns⟩
      cases t with
      | sym a =>
        cases a with
        | lic s => exact noPP_cons_head c _ _ (hafter ht) ih1
        | withE l e =>
          simp only [wordsOfTok, List.cons_append, List.nil_append]
          exact noPP_cons_head c _ _ (by intro b hb; simp at hb; rw [← hb]; exact hwith)
            (noPP_cons_nonplain c _ _ hwith (noPP_cons_head c _ _ (hafter ht) ih1))
      | _ => simp [isSymTok] at ht
    · have ht' : isSymTok t = false := by simpa using ht
      obtain ⟨w, hw, hp⟩ := nonsym_words c hc t ht'
      rw [hw]
      refine ⟨noPP_cons_nonplain c w _ hp ih1, ?_⟩
      intro t' r _ _ b hb
      simp at hb; rw [← hb]; exact hp

theorem noPP_infix (c : Cls) : ∀ (pre : List Str) (a b : Str) (post : List Str), NoPP c (pre ++ a :: b :: post) →
    ¬ (plainW c a = true ∧ plainW c b = true)
  | [], _, _, _, h => h.1
  | [x], a, b, post, h => noPP_infix c [] a b post h.2
  | x :: y :: pre, a, b, post, h => noPP_infix c (y :: pre) a b post h.2

/-- the premise of C18 holds of every rendered skeleton -/
theorem noAdjacentPlain_render (c : Cls) (hc : ClsOK c) (ts : List (BP.Tok Atom)) (hn : NoSymSym ts) (hk : ∀ t ∈ ts, TokKeysOK c t) :
    NoAdjacentPlain c (BP.detok Atom.render ts) := by
  intro p q rest pre hw hboth
  have hwords := words_detok c hc ts hn hk
  rw [← unfoldedWords_splitW] at hwords
  have hpp := (words_noPP c hc ts hn).1
  rw [← hwords] at hpp
  simp only [unfoldedWords, hw, List.map_append, List.map_cons] at hpp
  have := noPP_infix c _ _ _ _ hpp
  apply this
  have hkind := wordPieces_kind c (BP.detok Atom.render ts)
  have hp := (hkind p (by rw [hw]; simp)).1
  have hq := (hkind q (by rw [hw]; simp)).1
  have ne : ∀ (x : Piece), PieceKindOK c x → x.kind = .word → x.text ≠ [LPAR] ∧ x.text ≠ [RPAR] := by
    intro x hx hkw
    constructor
    · intro h; have := hx.2.1 LPAR (by rw [h]; simp); rw [hkw] at this; simp [kindOf] at this
    · intro h; have := hx.2.1 RPAR (by rw [h]; simp); rw [hkw] at this; simp [kindOf, LPAR, RPAR] at this
  obtain ⟨a1, a2⟩ := ne p hp hboth.1
  obtain ⟨b1, b2⟩ := ne q hq hboth.2.1
  simp [plainW, a1, a2, b1, b2, hboth.2.2.1, hboth.2.2.2]

/-- **C05 (text level, default tokenizer, space-free tables)**: for a table without aliases whose keys are
    single words (the ScanCode table is of this kind), rendering an expression and parsing the text
    gives the expression back, whenever each of its licenses is read back from its key -/
theorem parse_render_default (c : Cls) (hc : ClsOK c) (T : Table) (hT : SpaceFreeT c T) (e : Expr Atom) (hwf : BP.WFE e)
    (ha : ∀ a ∈ literals e, AtomOK c T a) :
    parseFull c T false false false (renderStr e) = .ok e := by
  have hparse := BP.parse_render (fun _ => false) e hwf
  have hn := noSymSym_of_pairs _ (BP.parse_pairs _ e hparse)
  have hlits := BP.parse_literals _ e hparse
  have hk : ∀ t ∈ BP.toksOf (fun _ => false) e, TokKeysOK c t := by
    intro t ht
    exact atomOK_keys c T t (fun a h => ha a (by rw [hlits]; exact sym_mem_tokLits _ a (h ▸ ht)))
  have hadj := noAdjacentPlain_render c hc _ hn hk
  have hs := parse_render_simple c hc T e hwf ha
  rw [renderStr_detok] at hs ⊢
  have h := ltok_agree c hc T hT false _ hadj
  unfold ltok at h
  unfold parseFull parseFullW at hs ⊢
  rw [← h]; exact hs

end LE
