import LicenseExpr.Lemmas.OneWord
import LicenseExpr.Lemmas.Stages
/-!
# Lemmas/Agree — with space-free keys and no aliases the two tokenizers hand the same tokens on

The automaton side is `tokenize_oneWord`; this file supplies the dictionary side (what the automaton
of such a table stores under a word is what the simple tokenizer looks up), the lexer facts about the
kind of a piece, and the stage lemma: merging unknown words is the identity on isolated unknown words.
-/
namespace LE

/-! ### lexer: the kind of a piece -/

/-- what is being accumulated: non-empty, of one kind, a single character if a parenthesis -/
def CurOK (c : Cls) (cur : Option (Nat × Str × Kind)) : Prop :=
  ∀ st r k, cur = some (st, r, k) → r ≠ [] ∧ (∀ x ∈ r, kindOf c x = k) ∧ ((k = .lpar ∨ k = .rpar) → r.length = 1)

def PieceKindOK (c : Cls) (p : Piece) : Prop :=
  p.text ≠ [] ∧ (∀ x ∈ p.text, kindOf c x = p.kind) ∧ ((p.kind = .lpar ∨ p.kind = .rpar) → p.text.length = 1)

theorem lexGo_kind (c : Cls) (s : Str) : ∀ (pos : Nat) (cur : Option (Nat × Str × Kind)), CurOK c cur →
    ∀ p ∈ lexGo c pos cur s, PieceKindOK c p := by
  induction s with
  | nil =>
    intro pos cur hc p hp
    cases cur with
    | none => simp [lexGo] at hp
    | some v =>
      obtain ⟨st, r, k⟩ := v
      simp [lexGo] at hp
      subst hp
      obtain ⟨h1, h2, h3⟩ := hc st r k rfl
      exact ⟨by simpa using h1, by simpa using h2, by simpa using h3⟩
  | cons x xs ih =>
    intro pos cur hc p hp
    cases cur with
    | none =>
      simp only [lexGo] at hp
      exact ih (pos + 1) (some (pos, [x], kindOf c x)) (by intro st r k h; cases h; simp) p hp
    | some v =>
      obtain ⟨st, r, k⟩ := v
      obtain ⟨h1, h2, h3⟩ := hc st r k rfl
      simp only [lexGo] at hp
      split at hp
      · next hk =>
        refine ih (pos + 1) (some (st, x :: r, k)) ?_ p hp
        intro st' r' k' h; cases h
        refine ⟨by simp, ?_, ?_⟩
        · intro y hy
          simp only [List.mem_cons] at hy
          rcases hy with rfl | hy
          · exact hk.1
          · exact h2 y hy
        · intro hpar
          rcases hk.2 with h | h <;> rcases hpar with h' | h' <;> simp_all
      · simp only [List.mem_cons] at hp
        rcases hp with rfl | hp
        · exact ⟨by simpa using h1, by simpa using h2, by simpa using h3⟩
        · exact ih (pos + 1) (some (pos, [x], kindOf c x)) (by intro st' r' k' h; cases h; simp) p hp

theorem pieces_kind (c : Cls) (s : Str) : ∀ p ∈ pieces c s, PieceKindOK c p :=
  lexGo_kind c s 0 none (by intro st r k h; cases h)

theorem wordPieces_kind (c : Cls) (s : Str) : ∀ p ∈ wordPieces c s, PieceKindOK c p ∧ p.kind ≠ .blank := by
  intro p hp
  have := List.mem_filter.mp hp
  exact ⟨pieces_kind c s p this.1, by simpa using this.2⟩

theorem piece_slice (c : Cls) (s : Str) (p : Piece) (hp : p ∈ pieces c s) : slice s p.start p.stop = p.text := by
  have h1 := pieces_slices c s p hp
  have h2 := (pieces_kind c s p hp).1
  have hlen : 1 ≤ p.text.length := by cases h : p.text <;> simp_all
  unfold slice Piece.stop
  have : p.start + p.text.length - 1 + 1 - p.start = p.text.length := by omega
  rw [this]; exact h1

theorem kind_lpar_text (c : Cls) (p : Piece) (hk : PieceKindOK c p) (h : p.kind = .lpar) : p.text = [LPAR] := by
  obtain ⟨h1, h2, h3⟩ := hk
  have hl := h3 (Or.inl h)
  match ht : p.text with
  | [] => exact absurd ht h1
  | [x] =>
    have := h2 x (by rw [ht]; simp)
    rw [h] at this
    unfold kindOf at this
    split at this
    · next hx => rw [hx]
    · split at this <;> (try split at this) <;> simp at this
  | _ :: _ :: _ => rw [ht] at hl; simp at hl

theorem kind_rpar_text (c : Cls) (p : Piece) (hk : PieceKindOK c p) (h : p.kind = .rpar) : p.text = [RPAR] := by
  obtain ⟨h1, h2, h3⟩ := hk
  have hl := h3 (Or.inr h)
  match ht : p.text with
  | [] => exact absurd ht h1
  | [x] =>
    have := h2 x (by rw [ht]; simp)
    rw [h] at this
    unfold kindOf at this
    split at this
    · simp at this
    · split at this
      · next hx => rw [hx]
      · split at this <;> simp at this
  | _ :: _ :: _ => rw [ht] at hl; simp at hl

/-! ### the automaton of a table with one-word names, as a dictionary -/

section dict
variable {V : Type}

/-- what is stored under a single word -/
def lookupVal (t : Trie V) (w : Word) : Option V := (AC.lookupW t [w]).map (·.val)

structure TrieInv (t : Trie V) : Prop where
  nc : t.converted = false
  one : OneWord t
  ok : AC.KnownOK t
  only : KnownOnly t

theorem replaceEntry_self (e : TEntry V) (l : List (TEntry V)) : e ∈ replaceEntry e l := by
  fun_induction replaceEntry e l <;> simp_all

theorem replaceEntry_keeps (e : TEntry V) (l : List (TEntry V)) : ∀ y ∈ l, y ∈ replaceEntry e l ∨ y.words = e.words := by
  fun_induction replaceEntry e l
  · simp
  · next x xs hx =>
    intro y hy
    simp only [List.mem_cons] at hy
    rcases hy with rfl | hy
    · right; exact hx
    · left; simp [hy]
  · next x xs hx ih =>
    intro y hy
    simp only [List.mem_cons] at hy
    rcases hy with rfl | hy
    · left; simp
    · rcases ih y hy with h | h
      · left; simp [h]
      · right; exact h

theorem add_one (c : Cls) (t : Trie V) (name : Str) (v : V) (w : Word) (hnc : t.converted = false)
    (hn : name ≠ []) (hw : wordsOf c name = [w]) :
    t.add c name v = .ok { t with entries := replaceEntry ⟨name, [w], v⟩ t.entries, known := addKnown t.known [w] } := by
  unfold Trie.add
  have hn' : name.isEmpty = false := by cases name <;> simp_all
  simp [hnc, hn', hw]

theorem addD_inv (c : Cls) (t : Trie V) (name : Str) (v : V) (w : Word) (h : TrieInv t)
    (hn : name ≠ []) (hw : wordsOf c name = [w]) : TrieInv (t.addD c name v) := by
  have hadd := add_one c t name v w h.nc hn hw
  unfold Trie.addD
  rw [hadd]
  refine ⟨h.nc, ?_, ?_, ?_⟩
  · intro e he
    rcases AC.replaceEntry_mem _ _ e he with rfl | he'
    · rfl
    · exact h.one e he'
  · exact AC.add_knownOK c t _ name v h.ok hadd
  · intro w' hw'
    simp only at hw' ⊢
    rw [AC.addKnown_mem] at hw'
    rcases hw' with hw' | hw'
    · obtain ⟨e, he, hwe⟩ := h.only w' hw'
      rcases replaceEntry_keeps ⟨name, [w], v⟩ t.entries e he with h1 | h1
      · exact ⟨e, h1, hwe⟩
      · exact ⟨_, replaceEntry_self _ _, by rw [← h1]; exact hwe⟩
    · exact ⟨_, replaceEntry_self _ _, hw'⟩

theorem addD_lookup (c : Cls) (t : Trie V) (name : Str) (v : V) (w : Word) (hnc : t.converted = false)
    (hn : name ≠ []) (hw : wordsOf c name = [w]) (w' : Word) :
    lookupVal (t.addD c name v) w' = if w = w' then some v else lookupVal t w' := by
  have hadd := add_one c t name v w hnc hn hw
  have := AC.add_lookup c t _ name v hadd (by rw [hw]; simp) hn
  unfold Trie.addD lookupVal
  rw [hadd]
  simp only at this ⊢
  rw [hw] at this
  by_cases h : w = w'
  · subst h; simp [this.1]
  · simp only [h, ↓reduceIte]
    rw [this.2 [w'] (by simp; exact fun h' => h h'.symm)]

/-- a run of additions of one-word names: the last value stored under a word wins -/
theorem foldl_addD (c : Cls) (adds : List (Str × V)) (wk : Str → Word)
    (hadds : ∀ a ∈ adds, a.1 ≠ [] ∧ wordsOf c a.1 = [wk a.1]) :
    ∀ (t : Trie V), TrieInv t →
      TrieInv (adds.foldl (fun t a => t.addD c a.1 a.2) t) ∧
      ∀ w, lookupVal (adds.foldl (fun t a => t.addD c a.1 a.2) t) w =
        (match adds.reverse.find? (fun a => wk a.1 = w) with
         | some a => some a.2
         | none => lookupVal t w) := by
  induction adds with
  | nil => intro t h; exact ⟨h, fun w => by simp⟩
  | cons a rest ih =>
    intro t h
    obtain ⟨hn, hw⟩ := hadds a (by simp)
    have hinv := addD_inv c t a.1 a.2 _ h hn hw
    obtain ⟨i1, i2⟩ := ih (fun b hb => hadds b (List.mem_cons_of_mem _ hb)) (t.addD c a.1 a.2) hinv
    refine ⟨by simpa using i1, ?_⟩
    intro w
    simp only [List.foldl_cons, List.reverse_cons, List.find?_append]
    rw [i2 w, addD_lookup c t a.1 a.2 _ h.nc hn hw w]
    cases hf : rest.reverse.find? (fun a => wk a.1 = w) with
    | some b => simp
    | none =>
      by_cases hwa : wk a.1 = w
      · simp [hwa]
      · simp [hwa]

end dict

/-! ### the automaton of a table with space-free keys and no aliases -/

/-- what the model assumes about letter classes here: the keyword spellings are single words that fold
    to themselves, folding a word never produces a parenthesis, a parenthesis is not a blank and
    U+0020 is one, and the capital letters of AND / OR / WITH are word characters that fold to the
    small ones (true of Python's `str.lower` and `\s`) -/
structure ClsOK (c : Cls) : Prop where
  kw : ∀ k ∈ KEYWORDS, wordsOf c k.spelling = [k.spelling]
  noParen : ∀ x, kindOf c x = .word → LPAR ∉ c.lower x ∧ RPAR ∉ c.lower x
  parenNotSpace : c.isSpace LPAR = false ∧ c.isSpace RPAR = false
  space : c.isSpace SPACE = true
  upper : ∀ x ∈ [65, 78, 68, 79, 82, 87, 73, 84, 72], kindOf c x = .word ∧ c.lower x = [x + 32]

/-- the premise of C18 on the table: no aliases, every key one word (no whitespace, no parentheses),
    no key an operator word -/
def SpaceFreeT (c : Cls) (T : Table) : Prop :=
  ∀ e ∈ T, e.aliases = [] ∧ e.key ≠ [] ∧ wordsOf c e.key = [c.fold e.key] ∧ keywordStrings.contains (c.fold e.key) = false

theorem empty_inv : TrieInv (Trie.empty : Trie TVal) :=
  ⟨rfl, by intro e he; simp [Trie.empty] at he, AC.empty_knownOK, by intro w hw; simp [Trie.empty] at hw⟩

theorem foldl_addEntry (c : Cls) (T : Table) (hT : ∀ e ∈ T, e.aliases = []) (t : Trie TVal) :
    T.foldl (addEntry c) t = (T.map (fun e => (e.key, TVal.sym ⟨e.key, e.exc⟩))).foldl (fun t a => t.addD c a.1 a.2) t := by
  induction T generalizing t with
  | nil => rfl
  | cons e rest ih =>
    simp only [List.foldl_cons, List.map_cons]
    rw [← ih (fun x hx => hT x (List.mem_cons_of_mem _ hx))]
    congr 1
    simp [addEntry, hT e (by simp)]

/-- what the automaton of the table stores under a word: the last entry with that folded key, else the
    keyword with that spelling -/
def dictVal (c : Cls) (T : Table) (w : Word) : Option TVal :=
  match T.reverse.find? (fun e => c.fold e.key = w) with
  | some e => some (.sym ⟨e.key, e.exc⟩)
  | none =>
    match KEYWORDS.reverse.find? (fun k => k.spelling = w) with
    | some k => some (.kw k)
    | none => none

theorem buildTrie_dict (c : Cls) (hc : ClsOK c) (T : Table) (hT : SpaceFreeT c T) :
    OneWord (buildTrie c T) ∧ AC.KnownOK (buildTrie c T) ∧ KnownOnly (buildTrie c T) ∧
    ∀ w, ((buildTrie c T).outputAt [w]).map (·.val) = dictVal c T w := by
  unfold buildTrie
  simp only
  have hk : KEYWORDS.foldl (fun t k => t.addD c k.spelling (TVal.kw k)) (Trie.empty : Trie TVal) =
      (KEYWORDS.map (fun k => (k.spelling, TVal.kw k))).foldl (fun t a => t.addD c a.1 a.2) Trie.empty := by
    rw [List.foldl_map]
  rw [hk, foldl_addEntry c T (fun e he => (hT e he).1)]
  obtain ⟨k1, k2⟩ := foldl_addD c (KEYWORDS.map (fun k => (k.spelling, TVal.kw k))) id (by
    intro a ha
    simp only [List.mem_map] at ha
    obtain ⟨k, hk, rfl⟩ := ha
    refine ⟨?_, hc.kw k hk⟩
    cases k <;> simp [Kw.spelling, sAND, sOR, sWITH, sLPAR, sRPAR]) Trie.empty empty_inv
  obtain ⟨t1, t2⟩ := foldl_addD c (T.map (fun e => (e.key, TVal.sym ⟨e.key, e.exc⟩))) (c.fold) (by
    intro a ha
    simp only [List.mem_map] at ha
    obtain ⟨e, he, rfl⟩ := ha
    exact ⟨(hT e he).2.1, (hT e he).2.2.1⟩) _ k1
  refine ⟨t1.one, t1.ok, t1.only, ?_⟩
  intro w
  have hout : ∀ (t : Trie TVal), (t.makeAutomaton.outputAt [w]).map (·.val) = lookupVal t w := by
    intro t; simp [Trie.outputAt, Trie.makeAutomaton, lookupVal, AC.lookupW]
  rw [hout, t2 w, k2 w]
  unfold dictVal
  simp only [← List.map_reverse, List.find?_map, Function.comp_def, id]
  cases T.reverse.find? (fun e => c.fold e.key = w) with
  | some e => simp
  | none =>
    simp only [Option.map_none]
    cases KEYWORDS.reverse.find? (fun k => k.spelling = w) with
    | some k => simp
    | none => simp [lookupVal, AC.lookupW, Trie.empty]

/-! ### one piece: what the simple tokenizer makes of it is what the dictionary says -/

/-- the token the simple tokenizer makes of one non-blank piece -/
def oneTok (c : Cls) (T : Table) (p : Piece) : Except LErr STok :=
  match p.kind with
  | .lpar => .ok ⟨p.start, p.stop, p.text, .kw .lpar⟩
  | .rpar => .ok ⟨p.start, p.stop, p.text, .kw .rpar⟩
  | _ =>
    let w := c.fold p.text
    match operatorOf w with
    | some k => .ok ⟨p.start, p.stop, p.text, .kw k⟩
    | none =>
      match lookupLower c T w with
      | some a => .ok ⟨p.start, p.stop, p.text, .sym a⟩
      | none =>
        match normKey c p.text with
        | some k => .ok ⟨p.start, p.stop, p.text, .sym ⟨k, false⟩⟩
        | none => .error .expr

theorem simpleTokens_cons (c : Cls) (T : Table) (p : Piece) (ps : List Piece) :
    simpleTokens c T (p :: ps) =
      (match oneTok c T p with
       | .error e => .error e
       | .ok t => (simpleTokens c T ps).map (fun r => t :: r)) := by
  rw [simpleTokens]
  rfl

def svalOf : Option TVal → SVal
  | none => .none
  | some (.kw k) => .kw k
  | some (.sym a) => .sym a

theorem fold_lpar (c : Cls) (hc : ClsOK c) : c.fold [LPAR] = [LPAR] := by
  have := hc.kw .lpar (by simp [KEYWORDS])
  simpa [wordsOf, wordPieces, pieces, lexGo, kindOf, Kw.spelling, sLPAR] using this

theorem fold_rpar (c : Cls) (hc : ClsOK c) : c.fold [RPAR] = [RPAR] := by
  have := hc.kw .rpar (by simp [KEYWORDS])
  simpa [wordsOf, wordPieces, pieces, lexGo, kindOf, Kw.spelling, sRPAR, LPAR, RPAR] using this

theorem fold_word_no_paren (c : Cls) (hc : ClsOK c) (p : Piece) (hk : PieceKindOK c p) (hw : p.kind = .word) :
    c.fold p.text ≠ [LPAR] ∧ c.fold p.text ≠ [RPAR] := by
  have hall : ∀ y ∈ c.fold p.text, y ≠ LPAR ∧ y ≠ RPAR := by
    intro y hy
    simp only [Cls.fold, List.mem_flatMap] at hy
    obtain ⟨x, hx, hyx⟩ := hy
    have := hc.noParen x (by rw [hk.2.1 x hx, hw])
    exact ⟨fun h => this.1 (h ▸ hyx), fun h => this.2 (h ▸ hyx)⟩
  constructor
  · intro h; rw [h] at hall; exact (hall LPAR (by simp)).1 rfl
  · intro h; rw [h] at hall; exact (hall RPAR (by simp)).2 rfl

theorem table_not_keyword (c : Cls) (T : Table) (hT : SpaceFreeT c T) (w : Word) (hw : keywordStrings.contains w = true) :
    T.reverse.find? (fun e => c.fold e.key = w) = none := by
  rw [List.find?_eq_none]
  intro e he
  have := (hT e (by simpa using he)).2.2.2
  simp only [decide_eq_true_eq]
  intro h; rw [h, hw] at this; cases this

theorem operatorOf_spelling (w : Str) (k : Kw) (h : operatorOf w = some k) :
    w = k.spelling ∧ (k = .and ∨ k = .or ∨ k = .with) := by
  unfold operatorOf at h
  split at h
  · simp at h; subst h; exact ⟨by assumption, Or.inl rfl⟩
  · split at h
    · simp at h; subst h; exact ⟨by assumption, Or.inr (Or.inl rfl)⟩
    · split at h
      · simp at h; subst h; exact ⟨by assumption, Or.inr (Or.inr rfl)⟩
      · simp at h

theorem operatorOf_none (w : Str) (h : operatorOf w = none) : w ≠ sAND ∧ w ≠ sOR ∧ w ≠ sWITH := by
  unfold operatorOf at h
  split at h
  · simp at h
  · split at h
    · simp at h
    · split at h
      · simp at h
      · exact ⟨by assumption, by assumption, by assumption⟩

theorem keywords_find (k : Kw) : KEYWORDS.reverse.find? (fun k' => k'.spelling = k.spelling) = some k := by
  cases k <;> decide

theorem dictVal_kw (c : Cls) (T : Table) (hT : SpaceFreeT c T) (k : Kw) : dictVal c T k.spelling = some (.kw k) := by
  unfold dictVal
  rw [table_not_keyword c T hT k.spelling (by cases k <;> decide), keywords_find k]

theorem oneTok_dict (c : Cls) (hc : ClsOK c) (T : Table) (hT : SpaceFreeT c T) (p : Piece)
    (hk : PieceKindOK c p) (hnb : p.kind ≠ .blank) :
    oneTok c T p =
      (match svalOf (dictVal c T (c.fold p.text)) with
       | .none => mkUnknown c p.start p.stop [p.text]
       | v => .ok ⟨p.start, p.stop, p.text, v⟩) := by
  cases hkind : p.kind with
  | blank => exact absurd hkind hnb
  | lpar =>
    have hd : dictVal c T (c.fold p.text) = some (.kw .lpar) := by
      rw [kind_lpar_text c p hk hkind, fold_lpar c hc]; exact dictVal_kw c T hT .lpar
    rw [hd]; simp [oneTok, hkind, svalOf]
  | rpar =>
    have hd : dictVal c T (c.fold p.text) = some (.kw .rpar) := by
      rw [kind_rpar_text c p hk hkind, fold_rpar c hc]; exact dictVal_kw c T hT .rpar
    rw [hd]; simp [oneTok, hkind, svalOf]
  | word =>
    obtain ⟨hnl, hnr⟩ := fold_word_no_paren c hc p hk hkind
    simp only [oneTok, hkind]
    cases hop : operatorOf (c.fold p.text) with
    | some k =>
      obtain ⟨hsp, _⟩ := operatorOf_spelling _ k hop
      rw [hsp, dictVal_kw c T hT k]
      simp [svalOf]
    | none =>
      obtain ⟨h1, h2, h3⟩ := operatorOf_none _ hop
      simp only [lookupLower]
      cases hf : T.reverse.find? (fun e => c.fold e.key = c.fold p.text) with
      | some e => simp [dictVal, hf, svalOf]
      | none =>
        have hkwn : KEYWORDS.reverse.find? (fun k => k.spelling = c.fold p.text) = none := by
          rw [List.find?_eq_none]
          intro k _
          simp only [decide_eq_true_eq]
          intro h
          cases k <;> simp only [Kw.spelling] at h
          · exact h1 h.symm
          · exact h2 h.symm
          · exact hnl (by rw [← h]; rfl)
          · exact hnr (by rw [← h]; rfl)
          · exact h3 h.symm
        simp only [dictVal, hf, hkwn, svalOf, Option.map_none, mkUnknown, joinStr]
        cases normKey c p.text <;> rfl

/-! ### merging unknown words is the identity on isolated unknown words -/

/-- the recursion of `simpleTokens` over an arbitrary per-piece function -/
def mapTok (one : Piece → Except LErr STok) : List Piece → Except LErr (List STok)
  | [] => .ok []
  | p :: ps =>
    match one p with
    | .error e => .error e
    | .ok t => (mapTok one ps).map (fun r => t :: r)

theorem simpleTokens_eq_mapTok (c : Cls) (T : Table) (ps : List Piece) : simpleTokens c T ps = mapTok (oneTok c T) ps := by
  induction ps with
  | nil => simp [simpleTokens, mapTok]
  | cons p ps ih => rw [simpleTokens_cons, mapTok, ih]

theorem mergeUnknown_cons_known (c : Cls) (acc : Option (Nat × Nat × List Str)) (t : STok) (ts : List STok)
    (h : t.val ≠ .none) :
    mergeUnknown c acc (t :: ts) =
      (match flushUnknown c acc with
       | .error e => .error e
       | .ok pre =>
         match mergeUnknown c none ts with
         | .error e => .error e
         | .ok rest => .ok (pre ++ t :: rest)) := by
  rw [mergeUnknown.eq_def]
  cases hv : t.val <;> simp_all
  all_goals
    cases flushUnknown c acc with
    | error e => rfl
    | ok pre => cases mergeUnknown c none ts <;> rfl

theorem mergeUnknown_cons_unknown (c : Cls) (t : STok) (ts : List STok) (h : t.val = .none) :
    mergeUnknown c none (t :: ts) = mergeUnknown c (some (t.s, t.e, [t.str])) ts := by
  rw [mergeUnknown.eq_def]; simp [h]

theorem mergeUnknown_known (c : Cls) (ts : List STok) (h : ∀ t ∈ ts, t.val ≠ .none) : mergeUnknown c none ts = .ok ts := by
  induction ts with
  | nil => simp [mergeUnknown, flushUnknown]
  | cons t ts ih =>
    rw [mergeUnknown_cons_known c none t ts (h t (by simp)), ih (fun x hx => h x (List.mem_cons_of_mem _ hx))]
    simp [flushUnknown]

theorem mergeUnknown_isolated (c : Cls) (f : Piece → STok) (one : Piece → Except LErr STok) (ps : List Piece)
    (h1 : ∀ p ∈ ps, (f p).val ≠ .none → one p = .ok (f p))
    (h2 : ∀ p ∈ ps, (f p).val = .none → one p = mkUnknown c (f p).s (f p).e [(f p).str])
    (h3 : ∀ pre p q post, ps = pre ++ p :: q :: post → ¬ ((f p).val = .none ∧ (f q).val = .none)) :
    mergeUnknown c none (ps.map f) = mapTok one ps := by
  induction ps with
  | nil => simp [mergeUnknown, flushUnknown, mapTok]
  | cons p ps ih =>
    have ih' := ih (fun x hx => h1 x (List.mem_cons_of_mem _ hx)) (fun x hx => h2 x (List.mem_cons_of_mem _ hx))
      (fun pre a b post hps => h3 (p :: pre) a b post (by rw [hps]; rfl))
    simp only [List.map_cons, mapTok]
    by_cases hv : (f p).val = .none
    · rw [mergeUnknown_cons_unknown c (f p) _ hv, h2 p (by simp) hv]
      cases ps with
      | nil =>
        simp only [List.map_nil, mergeUnknown, flushUnknown, mapTok]
        cases mkUnknown c (f p).s (f p).e [(f p).str] <;> rfl
      | cons q rest =>
        have hq : (f q).val ≠ .none := fun hq => h3 [] p q rest rfl ⟨hv, hq⟩
        simp only [List.map_cons] at ih' ⊢
        rw [mergeUnknown_cons_known c _ (f q) _ hq]
        rw [mergeUnknown_cons_known c none (f q) _ hq] at ih'
        simp only [flushUnknown] at ih' ⊢
        rw [← ih']
        cases mkUnknown c (f p).s (f p).e [(f p).str] with
        | error e => rfl
        | ok t =>
          simp only [Except.map]
          cases mergeUnknown c none (List.map f rest) <;> rfl
    · rw [mergeUnknown_cons_known c none (f p) _ hv, h1 p (by simp) hv, ih']
      simp only [flushUnknown, List.nil_append]
      cases mapTok one ps <;> rfl

theorem oneTok_known (c : Cls) (T : Table) (p : Piece) (t : STok) (h : oneTok c T p = .ok t) : t.val ≠ .none := by
  unfold oneTok at h
  split at h
  · simp at h; subst h; simp
  · simp at h; subst h; simp
  · simp only at h
    split at h
    · simp at h; subst h; simp
    · split at h
      · simp at h; subst h; simp
      · split at h
        · simp at h; subst h; simp
        · simp at h

theorem mapTok_known (c : Cls) (T : Table) (ps : List Piece) (out : List STok) (h : mapTok (oneTok c T) ps = .ok out) :
    ∀ t ∈ out, t.val ≠ .none := by
  induction ps generalizing out with
  | nil => simp [mapTok] at h; subst h; intro t ht; cases ht
  | cons p ps ih =>
    simp only [mapTok] at h
    cases ho : oneTok c T p with
    | error e => simp [ho] at h
    | ok t0 =>
      simp only [ho] at h
      cases hr : mapTok (oneTok c T) ps with
      | error e => simp [hr, Except.map] at h
      | ok r =>
        simp only [hr, Except.map, Except.ok.injEq] at h
        subst h
        intro t ht
        simp only [List.mem_cons] at ht
        rcases ht with rfl | ht
        · exact oneTok_known c T p _ ho
        · exact ih r hr t ht

/-! ### the two tokenizers hand the same tokens on -/

/-- the premise of C18 on the text: no two plain words (neither operators nor parentheses) are adjacent -/
def NoAdjacentPlain (c : Cls) (text : Str) : Prop :=
  ∀ p q rest pre, wordPieces c text = pre ++ p :: q :: rest →
    ¬ (p.kind = .word ∧ q.kind = .word ∧ operatorOf (c.fold p.text) = none ∧ operatorOf (c.fold q.text) = none)

theorem dict_none_plain (c : Cls) (hc : ClsOK c) (T : Table) (hT : SpaceFreeT c T) (p : Piece)
    (hk : PieceKindOK c p) (hnb : p.kind ≠ .blank) (h : svalOf (dictVal c T (c.fold p.text)) = .none) :
    p.kind = .word ∧ operatorOf (c.fold p.text) = none := by
  cases hkind : p.kind with
  | blank => exact absurd hkind hnb
  | lpar =>
    rw [kind_lpar_text c p hk hkind, fold_lpar c hc, show ([LPAR] : Str) = Kw.lpar.spelling from rfl, dictVal_kw c T hT] at h
    simp [svalOf] at h
  | rpar =>
    rw [kind_rpar_text c p hk hkind, fold_rpar c hc, show ([RPAR] : Str) = Kw.rpar.spelling from rfl, dictVal_kw c T hT] at h
    simp [svalOf] at h
  | word =>
    refine ⟨rfl, ?_⟩
    cases hop : operatorOf (c.fold p.text) with
    | none => rfl
    | some k =>
      rw [(operatorOf_spelling _ k hop).1, dictVal_kw c T hT] at h
      simp [svalOf] at h

/-- **both tokenizers hand the same tokens to the merging stage's successor** -/
theorem merged_agree (c : Cls) (hc : ClsOK c) (T : Table) (hT : SpaceFreeT c T) (text : Str) (hadj : NoAdjacentPlain c text) :
    (rawTokens c T true text >>= mergeUnknown c none) = (rawTokens c T false text >>= mergeUnknown c none) := by
  obtain ⟨d1, d2, d3, d4⟩ := buildTrie_dict c hc T hT
  have hps := wordPieces_kind c text
  -- the simple side
  have hs : (rawTokens c T true text >>= mergeUnknown c none) = mapTok (oneTok c T) (wordPieces c text) := by
    simp only [rawTokens, rawTokensW, ↓reduceIte, simpleTokens_eq_mapTok]
    cases hm : mapTok (oneTok c T) (wordPieces c text) with
    | error e => rfl
    | ok out =>
      show mergeUnknown c none out = .ok out
      exact mergeUnknown_known c out (mapTok_known c T _ out hm)
  -- the automaton side
  have hf : ∀ p ∈ wordPieces c text, ofTok (tokOf c (buildTrie c T) text p) =
      ⟨p.start, p.stop, p.text, svalOf (dictVal c T (c.fold p.text))⟩ := by
    intro p hp
    have hsl := piece_slice c text p (List.mem_filter.mp hp).1
    have hd := d4 (c.fold p.text)
    simp only [ofTok, tokOf, hsl, STok.mk.injEq, true_and]
    rw [← hd]
    cases (buildTrie c T).outputAt [c.fold p.text] with
    | none => rfl
    | some e => cases hv : e.val <;> simp [svalOf, hv]
  have ha : (rawTokens c T false text >>= mergeUnknown c none) = mapTok (oneTok c T) (wordPieces c text) := by
    simp only [rawTokens, rawTokensW, Bool.false_eq_true, ↓reduceIte, advancedTokensW]
    show mergeUnknown c none _ = _
    rw [tokenize_oneWord c _ d1 d2 d3 text, List.map_map]
    apply mergeUnknown_isolated
    · intro p hp hv
      simp only [Function.comp, hf p hp] at hv ⊢
      rw [oneTok_dict c hc T hT p (hps p hp).1 (hps p hp).2]
      cases hsv : svalOf (dictVal c T (c.fold p.text)) <;> simp_all
    · intro p hp hv
      simp only [Function.comp, hf p hp] at hv ⊢
      rw [oneTok_dict c hc T hT p (hps p hp).1 (hps p hp).2, hv]
    · intro pre p q post hpq hboth
      have hp : p ∈ wordPieces c text := by rw [hpq]; simp
      have hq : q ∈ wordPieces c text := by rw [hpq]; simp
      simp only [Function.comp, hf p hp, hf q hq] at hboth
      obtain ⟨a1, a2⟩ := dict_none_plain c hc T hT p (hps p hp).1 (hps p hp).2 hboth.1
      obtain ⟨b1, b2⟩ := dict_none_plain c hc T hT q (hps q hq).1 (hps q hq).2 hboth.2
      exact hadj p q post pre hpq ⟨a1, b1, a2, b2⟩
  rw [hs, ha]

theorem ltok_eq_bind (c : Cls) (T : Table) (simple strict : Bool) (text : Str) :
    ltok c T simple strict text =
      ((rawTokens c T simple text >>= mergeUnknown c none) >>= fun merged => groupWith c strict merged >>= toPToks) := by
  simp only [ltok, ltokW, rawTokens, bind_assoc]

/-- **C18 (tokens)**: with space-free keys, no aliases and no two adjacent plain words, the simple and
    the default tokenizer hand the same triples — or the same error — to the parser, in strict and
    non-strict mode alike -/
theorem ltok_agree (c : Cls) (hc : ClsOK c) (T : Table) (hT : SpaceFreeT c T) (strict : Bool) (text : Str)
    (hadj : NoAdjacentPlain c text) : ltok c T true strict text = ltok c T false strict text := by
  rw [ltok_eq_bind, ltok_eq_bind, merged_agree c hc T hT text hadj]

theorem pieces_chars (c : Cls) (s : Str) (p : Piece) (hp : p ∈ pieces c s) : ∀ x ∈ p.text, x ∈ s := by
  intro x hx
  have := pieces_concat c s
  rw [← this]
  simp only [List.mem_flatten, List.mem_map]
  exact ⟨p.text, ⟨p, hp, rfl⟩, hx⟩

theorem blank_no_words (c : Cls) (hc : ClsOK c) (s : Str) (h : isBlank c s = true) : wordsOf c s = [] := by
  have hall : ∀ x ∈ s, c.isSpace x = true := by simpa [isBlank] using h
  have : wordPieces c s = [] := by
    unfold wordPieces
    rw [List.filter_eq_nil_iff]
    intro p hp
    obtain ⟨hne, hkind, _⟩ := pieces_kind c s p hp
    obtain ⟨x, hx⟩ := List.exists_mem_of_ne_nil _ hne
    have hsp := hall x (pieces_chars c s p hp x hx)
    have hk := hkind x hx
    have h1 : x ≠ LPAR := by intro h; rw [h, hc.parenNotSpace.1] at hsp; cases hsp
    have h2 : x ≠ RPAR := by intro h; rw [h, hc.parenNotSpace.2] at hsp; cases hsp
    simp [kindOf, h1, h2, hsp] at hk
    simp [← hk]
  simp [wordsOf, this]

end LE
