import LicenseExpr.Model.Stages
/-!
# Lemmas/Stages — the WITH grouping stage: strict = non-strict + roles
-/
namespace LE

/-- the role predicate of C12, read off the non-strict grouping: every WITH pair has a non-exception
    on the left and an exception on the right, and no exception stands alone -/
def rolesOK : List STok → Bool
  | [] => true
  | t :: ts =>
    (match t.val with
     | .sym a => !a.exc
     | .withSym l e => !l.exc && e.exc
     | _ => true) && rolesOK ts

/-- the input of the grouping stage never contains WITH pairs yet -/
def NoPairs (ts : List STok) : Prop := ∀ t ∈ ts, ∀ l e, t.val ≠ .withSym l e

theorem single_ok (strict : Bool) (a : STok) (cont : Except LErr (List STok)) (out : List STok)
    (h : single strict a cont = .ok out) : ∃ r, cont = .ok r ∧ out = a :: r := by
  unfold single at h
  cases cont with
  | error e => split at h <;> simp_all [Except.map] <;> (split at h <;> simp_all)
  | ok r =>
    split at h <;> simp_all [Except.map]
    split at h <;> simp_all

def symRoleOK (a : STok) : Bool :=
  match a.val with
  | .sym l => !l.exc
  | _ => true

theorem single_strict_iff (a : STok) (cont : Except LErr (List STok)) (out : List STok) :
    single true a cont = .ok out ↔ single false a cont = .ok out ∧ symRoleOK a = true := by
  unfold single symRoleOK
  cases hv : a.val with
  | none => simp
  | kw k => cases k <;> simp
  | sym l => cases hx : l.exc <;> simp [hx]
  | withSym l e => simp

theorem rolesOK_cons (a : STok) (r : List STok) : rolesOK (a :: r) =
    ((match a.val with | .sym x => !x.exc | .withSym l e => !l.exc && e.exc | _ => true) && rolesOK r) := rfl

theorem map_cons_ok (t : STok) (x : Except LErr (List STok)) (out : List STok) :
    Except.map (fun r => t :: r) x = .ok out ↔ ∃ r, x = .ok r ∧ out = t :: r := by
  cases x <;> simp [Except.map, eq_comm]

theorem single_tail_iff (c : Cls) (a : STok) (xs : List STok) (hnpa : ∀ l e, a.val ≠ .withSym l e)
    (ih : ∀ out, groupWith c true xs = .ok out ↔ groupWith c false xs = .ok out ∧ rolesOK out = true) (out : List STok) :
    single true a (groupWith c true xs) = .ok out ↔ single false a (groupWith c false xs) = .ok out ∧ rolesOK out = true := by
  rw [single_strict_iff]
  constructor
  · rintro ⟨h1, h2⟩
    obtain ⟨r, hr, rfl⟩ := single_ok _ _ _ _ h1
    have hr' := (ih r).mp hr
    refine ⟨?_, ?_⟩
    · unfold single at h1 ⊢; rw [hr] at h1; rw [hr'.1]; exact h1
    · rw [rolesOK_cons, hr'.2]
      unfold symRoleOK at h2
      cases hv : a.val <;> simp_all
  · rintro ⟨h1, h2⟩
    obtain ⟨r, hr, rfl⟩ := single_ok _ _ _ _ h1
    rw [rolesOK_cons] at h2
    simp only [Bool.and_eq_true] at h2
    have hr' := (ih r).mpr ⟨hr, h2.2⟩
    refine ⟨?_, ?_⟩
    · unfold single at h1 ⊢; rw [hr] at h1; rw [hr']; exact h1
    · unfold symRoleOK
      cases hv : a.val <;> simp_all

theorem groupWith_strict_iff (c : Cls) (ts : List STok) (hnp : NoPairs ts) : ∀ out,
    (groupWith c true ts = .ok out ↔ groupWith c false ts = .ok out ∧ rolesOK out = true) := by
  fun_induction groupWith c false ts
  · intro out; simp [groupWith]; intro h; subst h; rfl
  · next h => simp at h
  · next h => simp at h
  · next a w b rest l e hb hw ha _ _ ih =>
    intro out
    have ih' := ih (fun t ht => hnp t (by simp [ht]))
    rw [groupWith]
    simp only [ha, hw, hb, Bool.true_and]
    rw [map_cons_ok]
    by_cases hl : l.exc = true
    · simp [hl]
      intro r _ hout; subst hout
      simp [rolesOK_cons, hl]
    · by_cases he : e.exc = true
      · simp [hl, he, map_cons_ok]
        constructor
        · rintro ⟨r, hr, rfl⟩
          have := (ih' r).mp hr
          exact ⟨⟨r, this.1, rfl⟩, by simp [rolesOK_cons, hl, he, this.2]⟩
        · rintro ⟨⟨r, hr, rfl⟩, h2⟩
          simp [rolesOK_cons, hl, he] at h2
          exact ⟨r, (ih' r).mpr ⟨hr, h2⟩, rfl⟩
      · simp [hl, he]
        intro r _ hout; subst hout
        simp [rolesOK_cons, hl, he]
  · next a w b rest hx ih =>
    intro out
    have ih' := ih (fun t ht => hnp t (List.mem_cons_of_mem _ ht))
    rw [groupWith]
    split
    · next l e h1 h2 h3 => exact absurd h3 (fun h3 => hx l e h1 h2 h3)
    · exact single_tail_iff c a _ (hnp a (by simp)) ih' out
  · next a rest hx ih =>
    intro out
    have ih' := ih (fun t ht => hnp t (List.mem_cons_of_mem _ ht))
    rw [groupWith.eq_3 _ _ _ _ hx]
    exact single_tail_iff c a _ (hnp a (by simp)) ih' out

end LE

namespace LE

/-! ### the stages before grouping produce no WITH pairs; the non-strict grouping never reads a flag -/

theorem flushUnknown_noPairs (c : Cls) (acc : Option (Nat × Nat × List Str)) (out : List STok)
    (h : flushUnknown c acc = .ok out) : NoPairs out := by
  unfold flushUnknown at h
  split at h
  · simp at h; subst h; intro t ht; simp at ht
  · unfold mkUnknown at h
    simp only [] at h
    cases hk : normKey c (joinStr [SPACE] ‹List Str›) with
    | none => simp [hk, Except.map] at h
    | some k =>
      simp [hk, Except.map] at h; subst h
      intro t ht l e; simp at ht; subst ht; simp

theorem mergeUnknown_noPairs (c : Cls) (acc : Option (Nat × Nat × List Str)) (ts out : List STok)
    (hnp : NoPairs ts) (h : mergeUnknown c acc ts = .ok out) : NoPairs out := by
  fun_induction mergeUnknown c acc ts generalizing out
  · exact flushUnknown_noPairs c _ out h
  · next ih => exact ih out (fun t ht => hnp t (List.mem_cons_of_mem _ ht)) h
  · next ih => exact ih out (fun t ht => hnp t (List.mem_cons_of_mem _ ht)) h
  · simp_all
  · simp_all
  · next acc t ts pre hpre rest hrest hv ih =>
    simp at h; subst h
    have h1 := flushUnknown_noPairs c acc pre hpre
    have h2 := ih rest (fun t ht => hnp t (List.mem_cons_of_mem _ ht)) hrest
    intro x hx
    simp only [List.mem_append, List.mem_cons] at hx
    rcases hx with hx | rfl | hx
    · exact h1 x hx
    · exact hnp x (by simp)
    · exact h2 x hx

theorem ofTok_noPairs (l : List (Tok TVal)) : NoPairs (l.map ofTok) := by
  intro t ht l' e
  simp only [List.mem_map] at ht
  obtain ⟨x, _, rfl⟩ := ht
  unfold ofTok
  cases x.val with
  | none => simp
  | some v => cases v <;> simp

theorem simpleTokens_noPairs (c : Cls) (T : Table) (ps : List Piece) (out : List STok)
    (h : simpleTokens c T ps = .ok out) : NoPairs out := by
  induction ps generalizing out with
  | nil => simp [simpleTokens] at h; subst h; intro t ht; simp at ht
  | cons p ps ih =>
    unfold simpleTokens at h
    simp only at h
    split at h
    · simp at h
    · next t ht =>
      rw [map_cons_ok] at h
      obtain ⟨r, hr, rfl⟩ := h
      intro x hx l e
      simp only [List.mem_cons] at hx
      rcases hx with rfl | hx
      · intro hval
        split at ht <;> (try (simp at ht; subst ht; simp at hval))
        split at ht <;> (try (simp at ht; subst ht; simp at hval))
        split at ht <;> (try (simp at ht; subst ht; simp at hval))
        split at ht <;> (try (simp at ht; subst ht; simp at hval))
        simp at ht
      · exact ih r hr x hx l e

end LE

namespace LE

/-- change the flags of every symbol of a token by `f` (keys untouched) -/
def reflagVal (f : Sym → Bool) : SVal → SVal
  | .sym a => .sym ⟨a.key, f a⟩
  | .withSym l e => .withSym ⟨l.key, f l⟩ ⟨e.key, f e⟩
  | v => v

def reflagTok (f : Sym → Bool) (t : STok) : STok := { t with val := reflagVal f t.val }

theorem symOf_reflag (f : Sym → Bool) (v : SVal) : symOf (reflagVal f v) = (symOf v).map (fun a => ⟨a.key, f a⟩) := by
  cases v <;> simp [reflagVal, symOf]

theorem isWithV_reflag (f : Sym → Bool) (v : SVal) : isWithV (reflagVal f v) = isWithV v := by
  cases v with
  | kw k => cases k <;> rfl
  | _ => rfl

theorem single_lax_reflag (f : Sym → Bool) (a : STok) (cont : Except LErr (List STok)) :
    single false (reflagTok f a) (cont.map (List.map (reflagTok f))) = (single false a cont).map (List.map (reflagTok f)) := by
  unfold single reflagTok
  cases hv : a.val with
  | kw k => cases k <;> cases cont <;> simp [reflagVal, Except.map, hv]
  | _ => cases cont <;> simp [reflagVal, Except.map, hv]

/-- the non-strict grouping never reads a flag: re-flagging the input re-flags the output and changes nothing else -/
theorem groupWith_lax_reflag (c : Cls) (f : Sym → Bool) (ts : List STok) (hnp : NoPairs ts) :
    groupWith c false (ts.map (reflagTok f)) = (groupWith c false ts).map (List.map (reflagTok f)) := by
  fun_induction groupWith c false ts
  · simp [groupWith, Except.map]
  · next h => simp at h
  · next h => simp at h
  · next a w b rest l e hb hw ha _ _ ih =>
    have ih' := ih (fun t ht => hnp t (by simp [ht]))
    simp only [List.map_cons]
    rw [groupWith]
    simp only [reflagTok, symOf_reflag, isWithV_reflag, ha, hw, hb, Option.map_some, Bool.false_and, Bool.false_eq_true, ↓reduceIte]
    rw [ih']
    cases groupWith c false rest <;> simp [Except.map, reflagTok, reflagVal]
  · next a w b rest hx ih =>
    have ih' := ih (fun t ht => hnp t (List.mem_cons_of_mem _ ht))
    simp only [List.map_cons]
    rw [groupWith]
    split
    · next l e h1 h2 h3 =>
      exfalso
      simp only [reflagTok, symOf_reflag, isWithV_reflag] at h1 h2 h3
      cases ha : symOf a.val with
      | none => simp [ha] at h1
      | some l' =>
        cases hb : symOf b.val with
        | none => simp [hb] at h3
        | some e' => exact hx l' e' ha h2 hb
    · have := single_lax_reflag f a (groupWith c false (w :: b :: rest))
      simp only [List.map_cons] at ih'
      rw [ih']
      exact this
  · next a rest hx ih =>
    have ih' := ih (fun t ht => hnp t (List.mem_cons_of_mem _ ht))
    simp only [List.map_cons]
    rw [groupWith.eq_3 _ _ _ _ (by
      intro w b r h
      cases rest with
      | nil => simp at h
      | cons x xs =>
        cases xs with
        | nil => simp at h
        | cons y ys => exact hx x y ys rfl)]
    rw [ih']
    exact single_lax_reflag f a (groupWith c false rest)

end LE
