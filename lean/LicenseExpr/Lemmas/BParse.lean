import LicenseExpr.Model.BParse
/-!
# Lemmas/BParse — the grammar of license expressions over parser tokens, and completeness of the
stack machine: a token list derivable from the grammar parses to the tree the derivation denotes.
-/
namespace LE
namespace BP
variable {α : Type}

def andVal : List (Expr α) → Expr α
  | [e] => e
  | es => .node .and es

def vals (gs : List (List (Expr α))) : List (Expr α) := gs.map andVal

def orVal (gs : List (List (Expr α))) : Expr α :=
  match gs with
  | [g] => andVal g
  | gs => .node .or (vals gs)

mutual
/-- a primary: one license, or a parenthesised expression -/
inductive Prim : List (Tok α) → Expr α → Prop
  | sym (a : α) : Prim [.sym a] (.atom a)
  | paren {ts gs} : OrP ts gs → Prim (.lpar :: (ts ++ [.rpar])) (orVal gs)
/-- primaries joined by AND; the value is the list of operands in text order -/
inductive AndP : List (Tok α) → List (Expr α) → Prop
  | one {ts e} : Prim ts e → AndP ts [e]
  | snoc {ts es ts' e} : AndP ts es → Prim ts' e → AndP (ts ++ .and :: ts') (es ++ [e])
/-- AND-groups joined by OR; the value is the list of groups in text order -/
inductive OrP : List (Tok α) → List (List (Expr α)) → Prop
  | one {ts es} : AndP ts es → OrP ts [es]
  | snoc {ts gs ts' es} : OrP ts gs → AndP ts' es → OrP (ts ++ .or :: ts') (gs ++ [es])
end

/-- value of a reversed AND group -/
def rAndVal : List (Expr α) → Expr α
  | [e] => e
  | res => .node .and res.reverse

/-- value of a level: reversed closed-group values `rdone`, reversed current group `rcur` -/
def rOrVal (rdone : List (Expr α)) (rcur : List (Expr α)) : Expr α :=
  match rdone with
  | [] => rAndVal rcur
  | _ => .node .or (rAndVal rcur :: rdone).reverse

/-- closed form of the machine stack. `rdone`: values of the groups closed by OR, newest first;
 `rcur`: current AND-group newest first (may be empty: an operand is awaited);
 `fa`: an AND frame is open even if `rcur` has one element -/
def shapeG (fa : Bool) (base : Option (Stack α)) (rdone : List (Expr α)) (rcur : List (Expr α)) : Stack α :=
  let hasAnd := fa || decide (2 ≤ rcur.length)
  let hasOr := !rdone.isEmpty
  let p1 := if hasAnd then [] else rcur
  let andF : Stack α := if hasAnd then [⟨.and, rcur⟩] else []
  let orF : Stack α := if hasOr then [⟨.or, p1 ++ rdone⟩] else []
  let p2 := if hasOr then [] else p1
  match base with
  | none => if hasAnd || hasOr then andF ++ orF else [⟨.none, p2⟩]
  | some S => andF ++ orF ++ ⟨.lpar, p2⟩ :: S

abbrev shape (base : Option (Stack α)) := shapeG (α := α) false base
abbrev shapeA (base : Option (Stack α)) := shapeG (α := α) true base

def pushItem (st : Stack α) (e : Expr α) : Stack α :=
  match st with
  | cur :: rest => { cur with ritems := e :: cur.ritems } :: rest
  | [] => []

def startOpS (op : FOp) (st : Stack α) : Except PErr (Stack α) :=
  match st with
  | c :: r => startOp op c r
  | [] => .error .crashIndex

def closeParenS (st : Stack α) : Except PErr (Stack α) :=
  match st with
  | c :: r => closeParen c r
  | [] => .error .crashIndex

def finishS (st : Stack α) : Except PErr (Expr α) :=
  match st with
  | c :: r => finish c r
  | [] => .error .crashIndex

theorem and_step (base : Option (Stack α)) (rdone rcur) (hc : rcur ≠ []) :
    startOpS .and (shape base rdone rcur) = .ok (shapeA base rdone rcur) := by
  obtain ⟨c, cs, rfl⟩ := List.exists_cons_of_ne_nil hc
  cases base <;> cases rdone <;> cases cs <;>
    simp [shapeG, startOpS, startOp, prec]

theorem push_shapeA (base : Option (Stack α)) (rdone rcur) (hc : rcur ≠ []) (e : Expr α) :
    pushItem (shapeA base rdone rcur) e = shape base rdone (e :: rcur) := by
  obtain ⟨c, cs, rfl⟩ := List.exists_cons_of_ne_nil hc
  cases base <;> cases rdone <;> simp [shapeG, pushItem]

theorem push_shape_nil (base : Option (Stack α)) (rdone) (e : Expr α) :
    pushItem (shape base rdone []) e = shape base rdone [e] := by
  cases base <;> cases rdone <;> simp [shapeG, pushItem]

theorem or_step (base : Option (Stack α)) (rdone rcur) (hc : rcur ≠ []) :
    startOpS .or (shape base rdone rcur) = .ok (shape base (rAndVal rcur :: rdone) []) := by
  obtain ⟨c, cs, rfl⟩ := List.exists_cons_of_ne_nil hc
  cases base <;> cases rdone <;> cases cs <;>
    simp [shapeG, startOpS, startOp, prec, mk, rAndVal]

theorem close_shape (S : Stack α) (p : Frame α) (rdone rcur) (hc : rcur ≠ []) :
    closeParenS (shape (some (p :: S)) rdone rcur) = .ok (pushItem (p :: S) (rOrVal rdone rcur)) := by
  obtain ⟨c, cs, rfl⟩ := List.exists_cons_of_ne_nil hc
  cases rdone <;> cases cs <;>
    simp [shapeG, closeParenS, closeParen, mk, rAndVal, rOrVal, pushItem]

theorem finish_shape (rdone : List (Expr α)) (rcur) (hc : rcur ≠ []) :
    finishS (shape none rdone rcur) = .ok (rOrVal rdone rcur) := by
  obtain ⟨c, cs, rfl⟩ := List.exists_cons_of_ne_nil hc
  cases rdone <;> cases cs <;>
    simp [shapeG, finishS, finish, mk, rAndVal, rOrVal]

theorem run_append (s : PState α) (a b : List (Tok α)) :
    run s (a ++ b) = (run s a >>= fun s' => run s' b) := by
  simp [run, List.foldlM_append]

theorem run_cons (s : PState α) (t : Tok α) (ts : List (Tok α)) :
    run s (t :: ts) = (stepS s t >>= fun s' => run s' ts) := by
  simp [run, List.foldlM_cons]

@[simp] theorem run_nil (s : PState α) : run s [] = .ok s := rfl

/-- the previous token lets an operand start -/
def OpExp : Option (Tok α) → Prop
  | none => True
  | some .and => True
  | some .or => True
  | some .lpar => True
  | _ => False

/-- a token that ends an operand -/
def EndTok : Option (Tok α) → Prop
  | some (.sym _) => True
  | some .rpar => True
  | _ => False

def PrimGoal (ts : List (Tok α)) (e : Expr α) : Prop :=
  ∀ (prev : Option (Tok α)) (f : Frame α) (S : Stack α), OpExp prev →
    ∃ p', EndTok p' ∧ run ⟨prev, f :: S⟩ ts = .ok ⟨p', pushItem (f :: S) e⟩

def AndGoal (ts : List (Tok α)) (es : List (Expr α)) : Prop :=
  es ≠ [] ∧ ∀ (prev : Option (Tok α)) (base : Option (Stack α)) (rdone : List (Expr α)), OpExp prev →
    (∀ S, base = some S → S ≠ []) →
    ∃ p', EndTok p' ∧ run ⟨prev, shape base rdone []⟩ ts = .ok ⟨p', shape base rdone es.reverse⟩

def OrGoal (ts : List (Tok α)) (gs : List (List (Expr α))) : Prop :=
  gs ≠ [] ∧ (∀ g ∈ gs, g ≠ []) ∧ ∀ (prev : Option (Tok α)) (base : Option (Stack α)) (rdone : List (Expr α)), OpExp prev →
    (∀ S, base = some S → S ≠ []) →
    ∃ p', EndTok p' ∧ run ⟨prev, shape base rdone []⟩ ts =
      .ok ⟨p', shape base ((vals gs.dropLast).reverse ++ rdone) (gs.getLast?.getD []).reverse⟩

theorem shape_ne_nil (fa : Bool) (base : Option (Stack α)) (rdone rcur) : shapeG fa base rdone rcur ≠ [] := by
  cases base <;> cases rdone <;> cases fa <;> simp [shapeG] <;> split <;> simp

theorem step_sym (prev : Option (Tok α)) (f : Frame α) (S : Stack α) (a : α) (h : OpExp prev) :
    stepS ⟨prev, f :: S⟩ (.sym a) = .ok ⟨some (.sym a), pushItem (f :: S) (.atom a)⟩ := by
  rcases prev with _ | (_ | _ | _ | _ | _) <;> simp_all [OpExp, stepS, step, adjCheck, isSym, isOp, pushItem, bind, Except.bind, pure, Except.pure]

theorem step_lpar (prev : Option (Tok α)) (st : Stack α) (h : OpExp prev) :
    stepS ⟨prev, st⟩ .lpar = .ok ⟨some .lpar, ⟨.lpar, []⟩ :: st⟩ := by
  rcases prev with _ | (_ | _ | _ | _ | _) <;> simp_all [OpExp, stepS, step, adjCheck, isSym, isOp, bind, Except.bind, pure, Except.pure]

theorem step_rpar (prev : Option (Tok α)) (st : Stack α) (h : EndTok prev) :
    stepS ⟨prev, st⟩ .rpar = (closeParenS st).map (fun st' => ⟨some .rpar, st'⟩) := by
  rcases prev with _ | (_ | _ | _ | _ | _) <;> simp_all [EndTok, stepS, step, adjCheck, isSym, isOp, closeParenS, bind, Except.bind, pure, Except.pure, Except.map]
  all_goals (cases st <;> simp [closeParenS] <;> (try split) <;> simp_all)

theorem step_and (prev : Option (Tok α)) (st : Stack α) (h : EndTok prev) :
    stepS ⟨prev, st⟩ .and = (startOpS .and st).map (fun st' => ⟨some .and, st'⟩) := by
  rcases prev with _ | (_ | _ | _ | _ | _) <;> simp_all [EndTok, stepS, step, adjCheck, isSym, isOp, startOpS, bind, Except.bind, pure, Except.pure, Except.map]
  all_goals (cases st <;> simp [startOpS] <;> (try split) <;> simp_all)

theorem step_or (prev : Option (Tok α)) (st : Stack α) (h : EndTok prev) :
    stepS ⟨prev, st⟩ .or = (startOpS .or st).map (fun st' => ⟨some .or, st'⟩) := by
  rcases prev with _ | (_ | _ | _ | _ | _) <;> simp_all [EndTok, stepS, step, adjCheck, isSym, isOp, startOpS, bind, Except.bind, pure, Except.pure, Except.map]
  all_goals (cases st <;> simp [startOpS] <;> (try split) <;> simp_all)

theorem rAndVal_reverse (es : List (Expr α)) (h : es ≠ []) : rAndVal es.reverse = andVal es := by
  match es, h with
  | [e], _ => simp [rAndVal, andVal]
  | a :: b :: r, _ =>
    have : (a :: b :: r).reverse = (r.reverse ++ [b]) ++ [a] := by simp
    unfold rAndVal andVal
    split
    · next e he =>
      have := congrArg List.length he
      simp at this
    · simp

theorem rOrVal_spec (gs : List (List (Expr α))) (g : List (Expr α)) (hg : g ≠ []) :
    rOrVal (vals gs).reverse g.reverse = orVal (gs ++ [g]) := by
  cases gs with
  | nil => simp [rOrVal, orVal, vals, rAndVal_reverse g hg]
  | cons a as =>
    simp [rOrVal, orVal, vals, rAndVal_reverse g hg]

mutual
theorem prim_goal {ts : List (Tok α)} {e} : Prim ts e → PrimGoal ts e
  | .sym a => by
    intro prev f S h
    exact ⟨some (.sym a), trivial, by simp [run_cons, step_sym prev f S a h, bind, Except.bind]⟩
  | .paren (ts := ts) (gs := gs) h => by
    intro prev f S hp
    obtain ⟨hne, hgne, hg⟩ := or_goal h
    obtain ⟨p', hp', hr⟩ := hg (some .lpar) (some (f :: S)) [] trivial (by intro S' h; cases h; simp)
    refine ⟨some .rpar, trivial, ?_⟩
    rw [run_cons, step_lpar prev _ hp]
    simp only [bind, Except.bind]
    rw [run_append]
    have hs : shape (some (f :: S)) [] [] = ⟨.lpar, []⟩ :: f :: S := by simp [shapeG]
    rw [← hs, hr]
    simp only [bind, Except.bind, run_cons, run_nil]
    rw [step_rpar _ _ hp']
    obtain ⟨gi, gl, rfl⟩ : ∃ gi gl, gs = gi ++ [gl] := ⟨gs.dropLast, gs.getLast hne, (List.dropLast_concat_getLast hne).symm⟩
    have hgl : gl ≠ [] := hgne gl (by simp)
    simp only [List.dropLast_concat, List.getLast?_concat, Option.getD_some, List.append_nil]
    rw [close_shape _ _ _ _ (by simpa using hgl), rOrVal_spec gi gl hgl]
    simp [Except.map]
theorem and_goal {ts : List (Tok α)} {es} : AndP ts es → AndGoal ts es
  | .one h => by
    refine ⟨by simp, ?_⟩
    intro prev base rdone hp hb
    obtain ⟨f, S, hfs⟩ : ∃ f S, shape base rdone [] = f :: S := List.exists_cons_of_ne_nil (shape_ne_nil _ _ _ _)
    obtain ⟨p', hp', hr⟩ := prim_goal h prev f S hp
    exact ⟨p', hp', by rw [hfs, hr, ← hfs, push_shape_nil]; simp⟩
  | .snoc (es := es) (e := e) h1 h2 => by
    obtain ⟨hne, hg⟩ := and_goal h1
    have hpg := prim_goal h2
    refine ⟨by simp, ?_⟩
    intro prev base rdone hp hb
    obtain ⟨p1, hp1, hr1⟩ := hg prev base rdone hp hb
    rw [run_append, hr1]
    simp only [bind, Except.bind, run_cons]
    rw [step_and _ _ hp1, and_step _ _ _ (by simpa using hne)]
    simp only [Except.map]
    obtain ⟨f, S, hfs⟩ : ∃ f S, shapeA base rdone es.reverse = f :: S := List.exists_cons_of_ne_nil (shape_ne_nil _ _ _ _)
    obtain ⟨p2, hp2, hr2⟩ := hpg (some .and) f S trivial
    exact ⟨p2, hp2, by rw [hfs, hr2, ← hfs, push_shapeA _ _ _ (by simpa using hne)]; simp⟩
theorem or_goal {ts : List (Tok α)} {gs} : OrP ts gs → OrGoal ts gs
  | .one h => by
    obtain ⟨hne, hg⟩ := and_goal h
    refine ⟨by simp, by simpa using hne, ?_⟩
    intro prev base rdone hp hb
    obtain ⟨p1, hp1, hr1⟩ := hg prev base rdone hp hb
    exact ⟨p1, hp1, by simpa [vals] using hr1⟩
  | .snoc (gs := gs) (es := es) h1 h2 => by
    obtain ⟨hne, hgne, hg⟩ := or_goal h1
    obtain ⟨hne2, hg2⟩ := and_goal h2
    refine ⟨by simp, ?_, ?_⟩
    · intro g hg
      simp at hg
      rcases hg with hg | rfl
      · exact hgne g hg
      · exact hne2
    intro prev base rdone hp hb
    obtain ⟨p1, hp1, hr1⟩ := hg prev base rdone hp hb
    rw [run_append, hr1]
    simp only [bind, Except.bind, run_cons]
    obtain ⟨gi, gl, rfl⟩ : ∃ gi gl, gs = gi ++ [gl] := ⟨gs.dropLast, gs.getLast hne, (List.dropLast_concat_getLast hne).symm⟩
    have hgl : gl ≠ [] := hgne gl (by simp)
    simp only [List.dropLast_concat, List.getLast?_concat, Option.getD_some]
    rw [step_or _ _ hp1, or_step _ _ _ (by simpa using hgl)]
    simp only [Except.map]
    obtain ⟨p2, hp2, hr2⟩ := hg2 (some .or) base (rAndVal gl.reverse :: ((vals gi).reverse ++ rdone)) trivial hb
    refine ⟨p2, hp2, ?_⟩
    rw [hr2]
    simp [vals, rAndVal_reverse gl hgl]
end

/-- completeness: a derivable token list parses to the value of its derivation -/
theorem complete {ts : List (Tok α)} {gs} (h : OrP ts gs) : parse ts = .ok (orVal gs) := by
  obtain ⟨hne, hgne, hg⟩ := or_goal h
  obtain ⟨p', _, hr⟩ := hg none none [] trivial (by intro S h; cases h)
  have h0 : shape (none : Option (Stack α)) [] [] = [⟨.none, []⟩] := by simp [shapeG]
  unfold parse init
  rw [← h0, hr]
  obtain ⟨gi, gl, rfl⟩ : ∃ gi gl, gs = gi ++ [gl] := ⟨gs.dropLast, gs.getLast hne, (List.dropLast_concat_getLast hne).symm⟩
  have hgl : gl ≠ [] := hgne gl (by simp)
  simp only [List.dropLast_concat, List.getLast?_concat, Option.getD_some, List.append_nil, bind, Except.bind]
  have := finish_shape (vals gi).reverse gl.reverse (by simpa using hgl)
  rw [rOrVal_spec gi gl hgl] at this
  exact this

end BP
end LE
