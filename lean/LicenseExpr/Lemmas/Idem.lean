import LicenseExpr.Lemmas.NormalForm
/-!
# Lemmas/Idem — a normal form without absorbable operands is a fixed point of `simp`
-/
set_option linter.unusedSectionVars false
namespace LE
variable {A : Type} [DecidableEq A]

/-- no dual-node operand contains another (unequal) operand: membership form, hence permutation-invariant -/
def MAbsFree (op : Op) (L : List (Expr A)) : Prop :=
  ∀ t ∈ L, isDual op t = true → ∀ a ∈ L, eqE a t = false → containsE t a = false

theorem distinct_other (l1 l2 : List (Expr A)) (t a : Expr A) (hd : Distinct (l1 ++ t :: l2)) (ha : a ∈ l1 ++ l2) :
    eqE a t = false := by
  rw [distinct_symm] at hd
  rw [List.pairwise_append] at hd
  obtain ⟨_, h2, h3⟩ := hd
  rw [List.pairwise_cons] at h2
  simp only [List.mem_append] at ha
  rcases ha with ha | ha
  · exact (h3 a ha t (by simp)).2
  · exact (h2.1 a ha).1

theorem absorbStep_none_iff (op : Op) (pre l : List (Expr A)) (hd : Distinct (pre ++ l)) :
    absorbStep op pre l = none ↔
      ∀ t ∈ l, isDual op t = true → ∀ a ∈ pre ++ l, eqE a t = false → containsE t a = false := by
  fun_induction absorbStep op pre l
  · simp
  · next pre t post hc =>
    simp only [reduceCtorEq, false_iff]
    intro h
    simp only [Bool.and_eq_true, List.any_eq_true] at hc
    obtain ⟨hdual, a, ha, hca⟩ := hc
    have hne := distinct_other pre post t a hd ha
    have := h t (by simp) hdual a (by simp only [List.mem_append, List.mem_cons] at ha ⊢; rcases ha with h | h <;> simp [h]) hne
    rw [this] at hca; cases hca
  · next pre t post hc ih =>
    have hd' : Distinct ((pre ++ [t]) ++ post) := by simpa [List.append_assoc] using hd
    rw [ih hd']
    constructor
    · intro h t' ht' hdual a ha hne
      simp only [List.mem_cons] at ht'
      rcases ht' with rfl | ht'
      · -- t' = t: from the failed condition
        simp only [List.mem_append, List.mem_cons] at ha
        have hcase : a = t' ∨ a ∈ pre ++ post := by
          rcases ha with h1 | h1 | h1
          · right; simp [h1]
          · left; exact h1
          · right; simp [h1]
        rcases hcase with rfl | hmem
        · rw [eqE_refl] at hne; cases hne
        · cases hca : containsE t' a with
          | false => rfl
          | true =>
            exfalso
            apply hc
            simp only [Bool.and_eq_true, List.any_eq_true]
            exact ⟨hdual, a, hmem, hca⟩
      · exact h t' ht' hdual a (by simpa [List.append_assoc] using ha) hne
    · intro h t' ht' hdual a ha hne
      exact h t' (List.mem_cons_of_mem _ ht') hdual a (by simpa [List.append_assoc] using ha) hne

theorem absorbStep_length (op : Op) (pre l l' : List (Expr A)) (h : absorbStep op pre l = some l') :
    l'.length + 1 = pre.length + l.length := by
  fun_induction absorbStep op pre l
  · simp at h
  · simp at h; subst h; simp; omega
  · next ih => have := ih h; simp at this ⊢; omega

/-- with fuel at least the length, absorption runs to its fixed point -/
theorem absorbN_fix (op : Op) (n : Nat) (l : List (Expr A)) (hn : l.length ≤ n) :
    absorbStep op [] (absorbN op n l) = none := by
  fun_induction absorbN op n l
  · next l =>
    have : l = [] := by cases l <;> simp_all
    subst this; simp [absorbN, absorbStep]
  · next n l h => exact h
  · next n l l' h ih =>
    apply ih
    have := absorbStep_length op [] l l' h
    simp at this; omega

theorem absorbN_of_none (op : Op) (n : Nat) (l : List (Expr A)) (h : absorbStep op [] l = none) : absorbN op n l = l := by
  cases n with
  | zero => rfl
  | succ n => simp [absorbN, h]

theorem mabsFree_perm (op : Op) {L L' : List (Expr A)} (hp : L.Perm L') (h : MAbsFree op L) : MAbsFree op L' := by
  intro t ht hd a ha hne
  exact h t (hp.mem_iff.mpr ht) hd a (hp.mem_iff.mpr ha) hne

theorem flatten1_id (op : Op) (l : List (Expr A)) (h : ∀ a ∈ l, isOpNode op a = false) : flatten1 op l = l := by
  induction l with
  | nil => rfl
  | cons x xs ih =>
    have hx := h x (by simp)
    have ih' := ih (fun a ha => h a (List.mem_cons_of_mem _ ha))
    cases x with
    | atom a => simp [flatten1, ih']
    | node o as =>
      have : ¬ o = op := by simpa [isOpNode] using hx
      simp [flatten1, this, ih']

theorem dedupAux_id (seen l : List (Expr A)) (hd : Distinct l) (hs : ∀ a ∈ l, memE a seen = false) : dedupAux seen l = l := by
  induction l generalizing seen with
  | nil => rfl
  | cons x xs ih =>
    unfold Distinct at hd
    rw [List.pairwise_cons] at hd
    have hx := hs x (by simp)
    simp only [dedupAux, hx, Bool.false_eq_true, ↓reduceIte, List.cons.injEq, true_and]
    apply ih _ hd.2
    intro a ha
    have h1 := hs a (List.mem_cons_of_mem _ ha)
    have h2 := hd.1 a ha
    simp only [memE, List.any_append, List.any_cons, List.any_nil, Bool.or_false, Bool.or_eq_false_iff]
    exact ⟨by simpa [memE] using h1, h2⟩

/-- normal form including absorption-freeness, hereditarily -/
inductive NFA (lt : Expr A → Expr A → Bool) : Expr A → Prop
  | atom (a : A) : NFA lt (.atom a)
  | node (op : Op) (l : List (Expr A)) : 2 ≤ l.length → (∀ a ∈ l, NFA lt a) →
      (∀ a ∈ l, isOpNode op a = false) → Distinct l → Sorted lt l → MAbsFree op l → NFA lt (.node op l)

/-- **a normal form is a fixed point**: recomputing the simplification of a simplified expression changes nothing -/
theorem simp_fix (lt : Expr A → Expr A → Bool) : ∀ (e : Expr A), NFA lt e → simp lt e = e
  | .atom _, _ => by simp [simp]
  | .node op l, h => by
    cases h with
    | node _ _ h2 hnf hno hd hs hab =>
      rw [simp]
      have hmap : l.attach.map (fun a => simp lt a.1) = l := by
        have : l.attach.map (fun a => simp lt a.1) = l.attach.map (fun a => a.1) := by
          apply List.map_congr_left
          intro a _
          exact simp_fix lt a.1 (hnf a.1 a.2)
        rw [this, List.attach_map_subtype_val]
      rw [hmap]
      unfold simpNode
      rw [flatten1_id op l hno, dedupAux_id [] l hd (by intro a _; simp [memE])]
      unfold afterDedup
      have habs : absorbStep op [] l = none := by
        rw [absorbStep_none_iff op [] l (by simpa using hd)]
        intro t ht hdual a ha hne
        exact hab t ht hdual a (by simpa using ha) hne
      obtain ⟨a, b, r, hl⟩ : ∃ a b r, l = a :: b :: r := by
        match l, h2 with
        | a :: b :: r, _ => exact ⟨a, b, r, rfl⟩
      rw [hl] at habs hs ⊢
      simp only []
      rw [absorbN_of_none op _ _ habs]
      unfold finishNode
      simp only []
      rw [sortBy_of_sorted lt _ hs]
termination_by e => sizeOf e
decreasing_by
  simp_wf
  have := List.sizeOf_lt_of_mem a.2
  omega

end LE

namespace LE
variable {A : Type} [DecidableEq A]

theorem NFA_NF (lt : Expr A → Expr A → Bool) : ∀ (e : Expr A), NFA lt e → NF lt e
  | .atom _, _ => NF.atom _
  | .node op l, h => by
    cases h with
    | node _ _ h2 hnf hno hd hs _ =>
      exact NF.node op l h2 (fun a ha => NFA_NF lt a (hnf a ha)) hno hd hs
termination_by e => sizeOf e
decreasing_by
  simp_wf
  have := List.sizeOf_lt_of_mem ha
  omega

theorem flatten1_nfa (lt : Expr A → Expr A → Bool) (op : Op) (l : List (Expr A)) (h : ∀ a ∈ l, NFA lt a) :
    ∀ x ∈ flatten1 op l, NFA lt x ∧ isOpNode op x = false := by
  intro x hx
  rcases flatten1_mem op l x hx with ⟨h1, h2⟩ | ⟨as, h1, h2⟩
  · exact ⟨h x h1, h2⟩
  · cases h _ h1 with
    | node _ _ _ hnf hno _ _ _ => exact ⟨hnf x h2, hno x h2⟩

theorem simpNode_nfa (lt : Expr A → Expr A → Bool) (hasym : ∀ a b, lt a b = true → lt b a = false)
    (op : Op) (args : List (Expr A)) (hne : args ≠ []) (h : ∀ a ∈ args, NFA lt a) : NFA lt (simpNode lt op args) := by
  have hfl := flatten1_nfa lt op args h
  have hdd := dedupAux_spec [] (flatten1 op args)
  have hdsub := dedupAux_sub [] (flatten1 op args)
  unfold simpNode afterDedup
  split
  · next x hx =>
    exact (hfl x (hdsub x (by rw [hx]; simp))).1
  · next hns =>
    have hab := absorbN_sublist op (dedupAux [] (flatten1 op args)).length (dedupAux [] (flatten1 op args))
    have hdR : Distinct (absorbN op (dedupAux [] (flatten1 op args)).length (dedupAux [] (flatten1 op args))) :=
      distinct_sublist hab hdd.1
    have hfix := absorbN_fix op (dedupAux [] (flatten1 op args)).length (dedupAux [] (flatten1 op args)) (Nat.le_refl _)
    have hmR : MAbsFree op (absorbN op (dedupAux [] (flatten1 op args)).length (dedupAux [] (flatten1 op args))) := by
      have := (absorbStep_none_iff op [] _ (by simpa using hdR)).mp hfix
      intro t ht hdual a ha hne
      exact this t ht hdual a (by simpa using ha) hne
    unfold finishNode
    split
    · next x hx =>
      exact (hfl x (hdsub x (hab.subset (by rw [hx]; simp)))).1
    · next hns2 =>
      have hp := sortBy_perm lt (absorbN op (dedupAux [] (flatten1 op args)).length (dedupAux [] (flatten1 op args)))
      refine NFA.node op _ ?_ ?_ ?_ ?_ (sortBy_sorted lt hasym _) (mabsFree_perm op hp.symm hmR)
      · rw [hp.length_eq]
        have hnn := absorbN_ne_nil op (dedupAux [] (flatten1 op args)).length _
          (dedupAux_ne_nil _ (flatten1_ne_nil lt op args hne (fun a ha => NFA_NF lt a (h a ha))))
        match hl : absorbN op (dedupAux [] (flatten1 op args)).length (dedupAux [] (flatten1 op args)) with
        | [] => exact absurd hl hnn
        | [x] => exact absurd hl (hns2 x)
        | _ :: _ :: _ => simp
      · intro a ha
        exact (hfl a (hdsub a (hab.subset (hp.subset ha)))).1
      · intro a ha
        exact (hfl a (hdsub a (hab.subset (hp.subset ha)))).2
      · exact distinct_perm hp.symm hdR

/-- every simplified expression is in normal form *and* free of absorbable operands -/
theorem simp_nfa (lt : Expr A → Expr A → Bool) (hasym : ∀ a b, lt a b = true → lt b a = false)
    (e : Expr A) (hw : WFargs e) : NFA lt (simp lt e) := by
  fun_induction simp lt e
  · exact NFA.atom _
  · next op args ih =>
    rw [WFargs] at hw
    apply simpNode_nfa lt hasym
    · intro hnil
      have := congrArg List.length hnil
      simp at this
      exact hw.1 this
    · intro a ha
      simp only [List.mem_map, List.mem_attach, true_and, Subtype.exists] at ha
      obtain ⟨b, hb, rfl⟩ := ha
      exact ih ⟨b, hb⟩ (hw.2 b hb)

/-- **idempotence**: simplifying a simplified expression changes nothing -/
theorem simp_idem (lt : Expr A → Expr A → Bool) (hasym : ∀ a b, lt a b = true → lt b a = false)
    (e : Expr A) (hw : WFargs e) : simp lt (simp lt e) = simp lt e :=
  simp_fix lt _ (simp_nfa lt hasym e hw)

end LE
