import LicenseExpr.Lemmas.Pieces
import LicenseExpr.Lemmas.Sweep
/-!
# Lemmas/Cover — `Trie.tokenize`: the kept matches plus the re-emitted uncovered words are in text
order, pairwise disjoint, stand on whole pieces, and cover every non-blank piece of the text
-/
namespace LE
variable {V : Type}

theorem insertTok_perm (x : Tok V) (l : List (Tok V)) : (insertTok x l).Perm (x :: l) := by
  fun_induction insertTok x l
  · exact List.Perm.refl _
  · next y ys h ih => exact (List.Perm.cons y ih).trans (List.Perm.swap x y ys)
  · exact List.Perm.refl _

theorem sortToks_perm (l : List (Tok V)) : (sortToks l).Perm l := by
  fun_induction sortToks l
  · exact List.Perm.refl _
  · next x xs ih => exact (insertTok_perm x _).trans (List.Perm.cons x ih)

/-- two tokens do not share a position -/
def Disj (a b : Tok V) : Prop := a.e < b.s ∨ b.e < a.s

theorem disj_symm {a b : Tok V} (h : Disj a b) : Disj b a := Or.symm h

/-- sorted by start + pairwise disjoint + non-empty extents ⇒ strictly in text order -/
theorem sorted_disj_ordered (l : List (Tok V)) (hs : SortedS l) (hd : l.Pairwise Disj) (hne : ∀ t ∈ l, t.s ≤ t.e) :
    l.Pairwise (fun a b => a.e < b.s) := by
  induction l with
  | nil => exact List.Pairwise.nil
  | cons x xs ih =>
    unfold SortedS at hs
    rw [List.pairwise_cons] at hs hd ⊢
    refine ⟨?_, ih hs.2 hd.2 (fun t ht => hne t (List.mem_cons_of_mem _ ht))⟩
    intro y hy
    rcases hd.1 y hy with h | h
    · exact h
    · have := hs.1 y hy
      have := hne y (List.mem_cons_of_mem _ hy)
      omega

/-- a token stands on whole pieces: it starts at a piece's start and ends at a piece's stop -/
def Aligned (ps : List Piece) (t : Tok V) : Prop :=
  ∃ p ∈ ps, ∃ q ∈ ps, t.s = p.start ∧ t.e = q.stop ∧ p.start ≤ q.start

theorem aligned_ne (ps : List Piece) (hok : PiecesOK ps) (t : Tok V) (h : Aligned ps t) : t.s ≤ t.e := by
  obtain ⟨p, _, q, hq, h1, h2, h3⟩ := h
  have := hok.2 q hq
  omega

theorem dropWhile_head_not {α : Type} (p : α → Bool) (l : List α) (t : α) (rest : List α)
    (h : l.dropWhile p = t :: rest) : p t = false := by
  induction l with
  | nil => simp at h
  | cons a as ih =>
    simp only [List.dropWhile_cons] at h
    split at h
    · exact ih h
    · next hp => simp at h; rw [← h.1]; simpa using hp

theorem not_mem_dropWhile {α : Type} (p : α → Bool) (l : List α) (k : α) (hk : k ∈ l) (hn : k ∉ l.dropWhile p) : p k = true := by
  induction l with
  | nil => simp at hk
  | cons a as ih =>
    simp only [List.dropWhile_cons] at hn
    split at hn
    · next hp =>
      simp only [List.mem_cons] at hk
      rcases hk with rfl | hk
      · exact hp
      · exact ih hk hn
    · exact absurd hk hn

/-- the tokens of `uncovered`: exactly the pieces whose start no kept token covers -/
theorem uncovered_spec (text : Str) (K : List (Tok V)) (ps : List Piece)
    (hK : K.Pairwise (fun a b => a.e < b.s)) (hKne : ∀ k ∈ K, k.s ≤ k.e)
    (hps : ps.Pairwise (fun p q => p.stop < q.start)) (hpne : ∀ p ∈ ps, p.start ≤ p.stop)
    (hbefore : ∀ k ∈ K, ∀ p ∈ ps, True) :
    (∀ u ∈ uncovered text K ps, ∃ p ∈ ps, u = ⟨p.start, p.stop, p.text, none⟩ ∧ ∀ k ∈ K, ¬ (k.s ≤ p.start ∧ p.start ≤ k.e)) ∧
    (∀ p ∈ ps, (∃ k ∈ K, k.s ≤ p.start ∧ p.start ≤ k.e) ∨ (⟨p.start, p.stop, p.text, none⟩ : Tok V) ∈ uncovered text K ps) := by
  induction ps generalizing K with
  | nil => simp [uncovered]
  | cons p ps ih =>
    rw [List.pairwise_cons] at hps
    -- the tokens dropped by the pointer end before `p` and so before every later piece
    have hdrop_sub : (K.dropWhile (fun t => decide (t.e < p.start))).Sublist K := List.dropWhile_sublist _
    have hK' : (K.dropWhile (fun t => decide (t.e < p.start))).Pairwise (fun a b => a.e < b.s) := hK.sublist hdrop_sub
    have hKne' : ∀ k ∈ K.dropWhile (fun t => decide (t.e < p.start)), k.s ≤ k.e := fun k hk => hKne k (hdrop_sub.subset hk)
    -- a token of K that is not in the remainder ends before p.start
    have hdropped : ∀ k ∈ K, k ∉ K.dropWhile (fun t => decide (t.e < p.start)) → k.e < p.start := by
      intro k hk hnot
      have := not_mem_dropWhile (fun t => decide (t.e < p.start)) K k hk hnot
      simpa using this
    obtain ⟨ih1, ih2⟩ := ih (K.dropWhile (fun t => decide (t.e < p.start))) hK' hKne' hps.2
      (fun q hq => hpne q (List.mem_cons_of_mem _ hq)) (fun _ _ _ _ => trivial)
    -- membership in the remainder is enough for later pieces: dropped tokens cover none of them
    have hlater : ∀ q ∈ ps, ∀ k ∈ K, (k.s ≤ q.start ∧ q.start ≤ k.e) → k ∈ K.dropWhile (fun t => decide (t.e < p.start)) := by
      intro q hq k hk hc
      by_cases hin : k ∈ K.dropWhile (fun t => decide (t.e < p.start))
      · exact hin
      · have := hdropped k hk hin
        have := hps.1 q hq
        have := hpne p (by simp)
        omega
    unfold uncovered
    simp only
    cases hrem : K.dropWhile (fun t => decide (t.e < p.start)) with
    | nil =>
      rw [hrem] at ih1 ih2 hlater
      constructor
      · intro u hu
        simp only [List.mem_cons] at hu
        rcases hu with rfl | hu
        · refine ⟨p, by simp, rfl, ?_⟩
          intro k hk hc
          have := hdropped k hk (by rw [hrem]; simp)
          omega
        · obtain ⟨q, hq, hu', hnc⟩ := ih1 u hu
          refine ⟨q, List.mem_cons_of_mem _ hq, hu', ?_⟩
          intro k hk hc
          have := hlater q hq k hk hc
          simp at this
      · intro q hq
        simp only [List.mem_cons] at hq
        rcases hq with rfl | hq
        · right; simp
        · rcases ih2 q hq with ⟨k, hk, _⟩ | h
          · simp at hk
          · right; exact List.mem_cons_of_mem _ h
    | cons t rest =>
      rw [hrem] at ih1 ih2 hlater hK' hKne'
      have htK : t ∈ K := hdrop_sub.subset (by rw [hrem]; simp)
      have hte : p.start ≤ t.e := by
        have := dropWhile_head_not (fun t => decide (t.e < p.start)) K t rest hrem
        simp at this
        omega
      by_cases hts : t.s ≤ p.start
      · -- p is covered by t
        simp only [hts, ↓reduceIte]
        constructor
        · intro u hu
          obtain ⟨q, hq, hu', hnc⟩ := ih1 u hu
          refine ⟨q, List.mem_cons_of_mem _ hq, hu', ?_⟩
          intro k hk hc
          exact hnc k (hlater q hq k hk hc) hc
        · intro q hq
          simp only [List.mem_cons] at hq
          rcases hq with rfl | hq
          · left; exact ⟨t, htK, hts, hte⟩
          · rcases ih2 q hq with ⟨k, hk, hc⟩ | h
            · left; exact ⟨k, hdrop_sub.subset (by rw [hrem]; exact hk), hc⟩
            · right; exact h
      · -- p is not covered: the first remaining token starts after it
        simp only [hts, ↓reduceIte]
        constructor
        · intro u hu
          simp only [List.mem_cons] at hu
          rcases hu with rfl | hu
          · refine ⟨p, by simp, rfl, ?_⟩
            intro k hk hc
            by_cases hin : k ∈ K.dropWhile (fun t => decide (t.e < p.start))
            · rw [hrem] at hin
              simp only [List.mem_cons] at hin
              rcases hin with rfl | hin
              · exact hts hc.1
              · rw [List.pairwise_cons] at hK'
                have := hK'.1 k hin
                have := hKne' t (by simp)
                omega
            · have := hdropped k hk hin; omega
          · obtain ⟨q, hq, hu', hnc⟩ := ih1 u hu
            refine ⟨q, List.mem_cons_of_mem _ hq, hu', ?_⟩
            intro k hk hc
            exact hnc k (hlater q hq k hk hc) hc
        · intro q hq
          simp only [List.mem_cons] at hq
          rcases hq with rfl | hq
          · right; simp
          · rcases ih2 q hq with ⟨k, hk, hc⟩ | h
            · left; exact ⟨k, hdrop_sub.subset (by rw [hrem]; exact hk), hc⟩
            · right; exact List.mem_cons_of_mem _ h

end LE

namespace LE
variable {V : Type}

def pieceTok (p : Piece) : Tok V := ⟨p.start, p.stop, p.text, none⟩

theorem uncovered_from_pieces (text : Str) (K : List (Tok V)) (ps : List Piece) :
    ∀ u ∈ uncovered text K ps, ∃ p ∈ ps, u = pieceTok p := by
  induction ps generalizing K with
  | nil => simp [uncovered]
  | cons p ps ih =>
    intro u hu
    unfold uncovered at hu
    simp only at hu
    split at hu
    · split at hu
      · obtain ⟨q, hq, h⟩ := ih _ u hu; exact ⟨q, List.mem_cons_of_mem _ hq, h⟩
      · simp only [List.mem_cons] at hu
        rcases hu with rfl | hu
        · exact ⟨p, by simp, rfl⟩
        · obtain ⟨q, hq, h⟩ := ih _ u hu; exact ⟨q, List.mem_cons_of_mem _ hq, h⟩
    · simp only [List.mem_cons] at hu
      rcases hu with rfl | hu
      · exact ⟨p, by simp, rfl⟩
      · obtain ⟨q, hq, h⟩ := ih _ u hu; exact ⟨q, List.mem_cons_of_mem _ hq, h⟩

theorem uncovered_pairwise (text : Str) (K : List (Tok V)) (ps : List Piece)
    (hps : ps.Pairwise (fun p q => p.stop < q.start)) :
    (uncovered text K ps).Pairwise (fun a b => a.e < b.s) := by
  induction ps generalizing K with
  | nil => simp [uncovered]
  | cons p ps ih =>
    rw [List.pairwise_cons] at hps
    have htail : ∀ (K' : List (Tok V)), ∀ u ∈ uncovered text K' ps, p.stop < u.s := by
      intro K' u hu
      obtain ⟨q, hq, rfl⟩ := uncovered_from_pieces text K' ps u hu
      exact hps.1 q hq
    unfold uncovered
    simp only
    split
    · split
      · exact ih _ hps.2
      · exact List.pairwise_cons.mpr ⟨fun u hu => htail _ u hu, ih _ hps.2⟩
    · exact List.pairwise_cons.mpr ⟨fun u hu => htail _ u hu, ih _ hps.2⟩

/-- what C17 says of the final token list -/
def FinalOK (ps : List Piece) (l : List (Tok V)) : Prop :=
  l.Pairwise (fun a b => a.e < b.s) ∧ (∀ t ∈ l, Aligned ps t) ∧
    (∀ p ∈ ps, ∃ t ∈ l, t.s ≤ p.start ∧ p.stop ≤ t.e)

theorem kept_plus_uncovered_ok (text : Str) (ps : List Piece) (hok : PiecesOK ps) (K : List (Tok V))
    (hK : K.Pairwise (fun a b => a.e < b.s)) (hal : ∀ k ∈ K, Aligned ps k) :
    FinalOK ps (sortToks (K ++ uncovered text K ps)) := by
  have hKne : ∀ k ∈ K, k.s ≤ k.e := fun k hk => aligned_ne ps hok k (hal k hk)
  obtain ⟨sp1, sp2⟩ := uncovered_spec text K ps hK hKne hok.1 hok.2 (fun _ _ _ _ => trivial)
  have hUal : ∀ u ∈ uncovered text K ps, Aligned ps u := by
    intro u hu
    obtain ⟨p, hp, rfl, _⟩ := sp1 u hu
    exact ⟨p, hp, p, hp, rfl, rfl, Nat.le_refl _⟩
  have hall_al : ∀ t ∈ K ++ uncovered text K ps, Aligned ps t := by
    intro t ht
    rcases List.mem_append.mp ht with h | h
    · exact hal t h
    · exact hUal t h
  have hperm := sortToks_perm (K ++ uncovered text K ps)
  -- pairwise disjoint before sorting
  have hdisj : (K ++ uncovered text K ps).Pairwise Disj := by
    rw [List.pairwise_append]
    refine ⟨hK.imp (fun h => Or.inl h), (uncovered_pairwise text K ps hok.1).imp (fun h => Or.inl h), ?_⟩
    intro k hk u hu
    obtain ⟨p, hp, rfl, hnc⟩ := sp1 u hu
    obtain ⟨a, ha, b, hb, h1, h2, h3⟩ := hal k hk
    have hncov := hnc k hk
    have hane := hok.2 a ha
    have hbne := hok.2 b hb
    have hpne := hok.2 p hp
    show k.e < p.start ∨ p.stop < k.s
    rcases pieces_trichotomy ps hok p a hp ha with rfl | h | h
    · exfalso; apply hncov; omega
    · right; omega
    · rcases pieces_trichotomy ps hok p b hp hb with rfl | h' | h'
      · exfalso; apply hncov; omega
      · exfalso; apply hncov; omega
      · left; omega
  have hdisj' : (sortToks (K ++ uncovered text K ps)).Pairwise Disj :=
    hperm.symm.pairwise hdisj (fun {a b} h => disj_symm h)
  refine ⟨?_, ?_, ?_⟩
  · apply sorted_disj_ordered _ (sortToks_sorted _) hdisj'
    intro t ht
    exact aligned_ne ps hok t (hall_al t (hperm.mem_iff.mp ht))
  · intro t ht
    exact hall_al t (hperm.mem_iff.mp ht)
  · intro p hp
    rcases sp2 p hp with ⟨k, hk, hc1, hc2⟩ | hu
    · refine ⟨k, hperm.mem_iff.mpr (List.mem_append_left _ hk), hc1, ?_⟩
      obtain ⟨a, ha, b, hb, h1, h2, h3⟩ := hal k hk
      have hbne := hok.2 b hb
      have hpne := hok.2 p hp
      rcases pieces_trichotomy ps hok p b hp hb with rfl | h' | h'
      · omega
      · omega
      · omega
    · exact ⟨_, hperm.mem_iff.mpr (List.mem_append_right _ hu), Nat.le_refl _, Nat.le_refl _⟩

end LE

namespace LE
variable {V : Type}

theorem startBack_mem (seen : List Piece) (n st : Nat) (h : startBack seen n = some st) :
    ∃ q ∈ seen, st = q.start := by
  cases n with
  | zero => simp [startBack] at h
  | succ n =>
    simp only [startBack, Option.map_eq_some_iff] at h
    obtain ⟨q, hq, rfl⟩ := h
    exact ⟨q, List.mem_of_getElem? hq, rfl⟩

/-- every token of the search loop starts at the start of a piece and ends at the end of a later
    (or the same) piece -/
theorem iterGo_aligned (c : Cls) (t : Trie V) (text : Str) (unm : Bool) (depth : Nat) (ps : List Piece)
    (seen : List Piece) (state : List Word) (rest : List Piece)
    (hs : ∀ q ∈ seen, q ∈ ps ∧ ∀ r ∈ rest, q.start ≤ r.start)
    (hr : ∀ r ∈ rest, r ∈ ps)
    (hrr : rest.Pairwise (fun a b => a.start ≤ b.start)) :
    ∀ k ∈ iterGo c t text unm depth seen state rest, Aligned ps k := by
  induction rest generalizing seen state with
  | nil => simp [iterGo]
  | cons p rest ih =>
    rw [List.pairwise_cons] at hrr
    have hp : p ∈ ps := hr p (by simp)
    have hs' : ∀ q ∈ p :: seen, q ∈ ps ∧ ∀ r ∈ rest, q.start ≤ r.start := by
      intro q hq
      rcases List.mem_cons.mp hq with rfl | hq
      · exact ⟨hp, hrr.1⟩
      · exact ⟨(hs q hq).1, fun r hr' => (hs q hq).2 r (List.mem_cons_of_mem _ hr')⟩
    have hr' : ∀ r ∈ rest, r ∈ ps := fun r h => hr r (List.mem_cons_of_mem _ h)
    have hself : Aligned ps (⟨p.start, p.stop, slice text p.start p.stop, none⟩ : Tok V) :=
      ⟨p, hp, p, hp, rfl, rfl, Nat.le_refl _⟩
    intro k hk
    unfold iterGo at hk
    simp only at hk
    split at hk
    · rcases List.mem_append.mp hk with h | h
      · split at h
        · simp only [List.mem_singleton] at h; subst h; exact hself
        · simp at h
      · exact ih _ _ hs' hr' hrr.2 k h
    · rcases List.mem_append.mp hk with h | h
      · split at h
        · simp only [List.mem_singleton] at h; subst h; exact hself
        · simp only [List.mem_filterMap, Option.map_eq_some_iff] at h
          obtain ⟨e, _, st, hst, rfl⟩ := h
          obtain ⟨q, hq, rfl⟩ := startBack_mem _ _ _ hst
          refine ⟨q, (hs' q hq).1, p, hp, rfl, rfl, ?_⟩
          rcases List.mem_cons.mp hq with rfl | hq'
          · exact Nat.le_refl _
          · exact (hs q hq').2 p (by simp)
      · exact ih _ _ hs' hr' hrr.2 k h

theorem iter_aligned (c : Cls) (t : Trie V) (text : Str) (unm : Bool) :
    ∀ k ∈ t.iter c text unm, Aligned (wordPieces c text) k := by
  have hok := wordPieces_ok c text
  apply iterGo_aligned
  · simp
  · exact fun r h => h
  · exact hok.1.imp (fun {a b} h => by have := hok.2; unfold Piece.stop at *; omega)

end LE
