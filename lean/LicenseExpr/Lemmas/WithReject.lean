import LicenseExpr.Lemmas.Stages
/-!
# Lemmas/WithReject — a WITH that is not between two licenses is refused by the grouping stage
-/
namespace LE

theorem single_inv (strict : Bool) (a : STok) (cont : Except LErr (List STok)) (out : List STok)
    (h : single strict a cont = .ok out) : isWithV a.val = false ∧ ∃ r, cont = .ok r := by
  unfold single at h
  split at h
  · simp at h
  · split at h
    · simp at h
    · cases cont with
      | error e => simp [Except.map] at h
      | ok r => simp_all [isWithV]
  · cases cont with
    | error e => simp [Except.map] at h
    | ok r =>
      refine ⟨?_, r, rfl⟩
      cases hv : a.val with
      | kw k => cases k <;> simp_all [isWithV]
      | _ => simp [isWithV]

/-- if the grouping stage succeeds, every WITH of its input stands between two license tokens -/
theorem groupWith_with_between (c : Cls) (strict : Bool) (ts : List STok) :
    ∀ out, groupWith c strict ts = .ok out →
    ∀ pre w post, ts = pre ++ w :: post → isWithV w.val = true →
      (∃ pre' a l, pre = pre' ++ [a] ∧ symOf a.val = some l) ∧
      (∃ b post' e, post = b :: post' ∧ symOf b.val = some e) := by
  fun_induction groupWith c strict ts with
  | case1 => intro out _ pre w post h; simp at h
  | case2 a w0 b rest l e hl hw he hs1 =>
    intro out h; simp at h
  | case3 a w0 b rest l e hl hw he hs1 hs2 =>
    intro out h; simp at h
  | case4 a w0 b rest l e hl hw he hs1 hs2 ih =>
    intro out h pre w post hts hwv
    cases hr : groupWith c strict rest with
    | error er => simp [hr, Except.map] at h
    | ok r =>
      have ih' := ih r hr
      match pre, hts with
      | [], hts =>
        simp at hts
        obtain ⟨rfl, _⟩ := hts
        cases hv : a.val <;> simp_all [symOf, isWithV]
      | [x], hts =>
        simp at hts
        obtain ⟨rfl, rfl, rfl⟩ := hts
        exact ⟨⟨[], a, _, rfl, by assumption⟩, ⟨b, rest, _, rfl, by assumption⟩⟩
      | [x, y], hts =>
        simp at hts
        obtain ⟨rfl, rfl, rfl, _⟩ := hts
        cases hv : b.val <;> simp_all [symOf, isWithV]
      | x :: y :: z :: pre'', hts =>
        simp at hts
        obtain ⟨rfl, rfl, rfl, hrest⟩ := hts
        obtain ⟨⟨p', a', l', hp, ha'⟩, hpost⟩ := ih' pre'' w post hrest hwv
        exact ⟨⟨a :: w0 :: b :: p', a', l', by simp [hp], ha'⟩, hpost⟩
  | case5 a w0 b rest hno ih =>
    intro out h pre w post hts hwv
    obtain ⟨hna, r, hr⟩ := single_inv _ _ _ _ h
    match pre, hts with
    | [], hts =>
      simp at hts
      obtain ⟨rfl, _⟩ := hts
      simp [hwv] at hna
    | x :: pre'', hts =>
      simp at hts
      obtain ⟨rfl, hrest⟩ := hts
      obtain ⟨⟨p', a', l', hp, ha'⟩, hpost⟩ := ih r hr pre'' w post hrest hwv
      exact ⟨⟨a :: p', a', l', by simp [hp], ha'⟩, hpost⟩
  | case6 a rest hno ih =>
    intro out h pre w post hts hwv
    obtain ⟨hna, r, hr⟩ := single_inv _ _ _ _ h
    match pre, hts with
    | [], hts =>
      simp at hts
      obtain ⟨rfl, _⟩ := hts
      simp [hwv] at hna
    | x :: pre'', hts =>
      simp at hts
      obtain ⟨rfl, hrest⟩ := hts
      obtain ⟨⟨p', a', l', hp, ha'⟩, hpost⟩ := ih r hr pre'' w post hrest hwv
      exact ⟨⟨a :: p', a', l', by simp [hp], ha'⟩, hpost⟩

end LE
