import LicenseExpr.Lemmas.Stages
/-!
# Lemmas/Tiles — unknown-word merging and WITH grouping keep every word, in order, exactly once

`Tiles ps ts`: the non-blank pieces `ps` of the text, in text order, split into consecutive
non-empty groups, one per token of `ts`; each token starts where its group starts and ends where
its group ends. So the words of the text are exactly the concatenation of the words the tokens
stand on — nothing dropped, nothing duplicated, nothing reordered.
-/
namespace LE

def groupStart : List Piece → Nat
  | [] => 0
  | p :: _ => p.start

def groupEnd : List Piece → Nat
  | [] => 0
  | [p] => p.stop
  | _ :: q :: r => groupEnd (q :: r)

inductive Tiles : List Piece → List STok → Prop
  | nil : Tiles [] []
  | cons (g ps : List Piece) (t : STok) (ts : List STok) :
      g ≠ [] → t.s = groupStart g → t.e = groupEnd g → Tiles ps ts → Tiles (g ++ ps) (t :: ts)

theorem groupEnd_append (g h : List Piece) (hh : h ≠ []) : groupEnd (g ++ h) = groupEnd h := by
  induction g with
  | nil => rfl
  | cons p g ih =>
    cases hg : g ++ h with
    | nil => simp at hg; exact absurd hg.2 hh
    | cons q r =>
      rw [List.cons_append, hg, groupEnd]
      rw [← hg]; exact ih

theorem groupStart_append (g h : List Piece) (hg : g ≠ []) : groupStart (g ++ h) = groupStart g := by
  cases g with
  | nil => exact absurd rfl hg
  | cons p g => rfl

theorem flushUnknown_tiles (c : Cls) (st en : Nat) (strs : List Str) (G : List Piece) (out : List STok)
    (hG : G ≠ []) (hs : st = groupStart G) (he : en = groupEnd G)
    (h : flushUnknown c (some (st, en, strs)) = .ok out) : ∃ t, out = [t] ∧ t.s = groupStart G ∧ t.e = groupEnd G := by
  unfold flushUnknown mkUnknown at h
  simp only [] at h
  cases hk : normKey c (joinStr [SPACE] strs) with
  | none => simp [hk, Except.map] at h
  | some k =>
    simp [hk, Except.map] at h
    exact ⟨_, h.symm, hs, he⟩

/-- merging: with an open run standing on the pieces `G`, and the remaining tokens tiling `ps`,
    the output tiles `G ++ ps` -/
theorem mergeUnknown_tiles (c : Cls) (acc : Option (Nat × Nat × List Str)) (ts : List STok) :
    ∀ (ps : List Piece) (out : List STok), Tiles ps ts → mergeUnknown c acc ts = .ok out →
      (acc = none → Tiles ps out) ∧
      (∀ st en strs G, acc = some (st, en, strs) → G ≠ [] → st = groupStart G → en = groupEnd G → Tiles (G ++ ps) out) := by
  fun_induction mergeUnknown c acc ts
  · -- no token left: flush
    next acc =>
    intro ps out ht h
    cases ht
    constructor
    · intro ha; subst ha; simp [flushUnknown] at h; subst h; exact Tiles.nil
    · intro st en strs G ha hG hs he
      subst ha
      obtain ⟨t, rfl, h1, h2⟩ := flushUnknown_tiles c st en strs G out hG hs he h
      have := Tiles.cons G [] t [] hG h1 h2 Tiles.nil
      simpa using this
  · -- an unmatched token opens a run
    next t ts hv ih =>
    intro ps out ht h
    cases ht with
    | cons g ps' _ _ hg h1 h2 hrest =>
      refine ⟨fun _ => ?_, fun st en strs G ha => by simp at ha⟩
      exact (ih ps' out hrest h).2 t.s t.e [t.str] g rfl hg h1 h2
  · -- an unmatched token extends the run
    next t ts hv st0 en0 strs0 ih =>
    intro ps out ht h
    cases ht with
    | cons g ps' _ _ hg h1 h2 hrest =>
      refine ⟨fun ha => by simp at ha, ?_⟩
      intro st en strs G ha hG hs he
      simp at ha
      obtain ⟨rfl, rfl, rfl⟩ := ha
      have := (ih ps' out hrest h).2 st0 t.e (strs0 ++ [t.str]) (G ++ g) rfl (by simp [hG]) (by rw [groupStart_append _ _ hG]; exact hs)
        (by rw [groupEnd_append _ _ hg]; exact h2)
      simpa [List.append_assoc] using this
  · simp_all
  · simp_all
  · -- a matched token: flush the run, keep the token
    next acc t ts pre hpre rest hrest hv ih =>
    intro ps out ht h
    simp at h; subst h
    cases ht with
    | cons g ps' _ _ hg h1 h2 hrest' =>
      have ihr := (ih ps' rest hrest' hrest).1 rfl
      constructor
      · intro ha; subst ha
        simp [flushUnknown] at hpre; subst hpre
        simpa using Tiles.cons g ps' t rest hg h1 h2 ihr
      · intro st en strs G ha hG hs he
        subst ha
        obtain ⟨u, rfl, u1, u2⟩ := flushUnknown_tiles c st en strs G pre hG hs he hpre
        have := Tiles.cons G (g ++ ps') u (t :: rest) hG u1 u2 (Tiles.cons g ps' t rest hg h1 h2 ihr)
        simpa using this

end LE

namespace LE

theorem single_tiles (strict : Bool) (a : STok) (cont : Except LErr (List STok)) (out : List STok)
    (g ps : List Piece) (hg : g ≠ []) (h1 : a.s = groupStart g) (h2 : a.e = groupEnd g)
    (hc : ∀ r, cont = .ok r → Tiles ps r) (h : single strict a cont = .ok out) : Tiles (g ++ ps) out := by
  obtain ⟨r, hr, rfl⟩ := single_ok strict a cont out h
  exact Tiles.cons g ps a r hg h1 h2 (hc r hr)

/-- WITH grouping keeps the tiling: a triple becomes one token standing on the three groups -/
theorem groupWith_tiles (c : Cls) (strict : Bool) (ts : List STok) :
    ∀ (ps : List Piece) (out : List STok), Tiles ps ts → groupWith c strict ts = .ok out → Tiles ps out := by
  fun_induction groupWith c strict ts
  · intro ps out ht h; cases ht; simp at h; subst h; exact Tiles.nil
  · intro ps out ht h; simp at h
  · intro ps out ht h; simp at h
  · next a w b rest l e hb hw ha _ _ ih =>
    intro ps out ht h
    rw [map_cons_ok] at h
    obtain ⟨r, hr, rfl⟩ := h
    cases ht with
    | cons ga ps1 _ _ hga a1 a2 ht1 =>
      cases ht1 with
      | cons gw ps2 _ _ hgw w1 w2 ht2 =>
        cases ht2 with
        | cons gb ps3 _ _ hgb b1 b2 ht3 =>
          have := Tiles.cons (ga ++ gw ++ gb) ps3 ⟨a.s, b.e, a.str ++ [SPACE] ++ stripStr c w.str ++ [SPACE] ++ b.str, .withSym l e⟩ r
            (by simp [hga]) (by simp only; rw [List.append_assoc, groupStart_append _ _ hga]; exact a1)
            (by simp only; rw [groupEnd_append _ _ hgb]; exact b2) (ih ps3 r ht3 hr)
          simpa [List.append_assoc] using this
  · next a w b rest hx ih =>
    intro ps out ht h
    cases ht with
    | cons ga ps1 _ _ hga a1 a2 ht1 =>
      exact single_tiles strict a _ out ga ps1 hga a1 a2 (fun r hr => ih ps1 r ht1 hr) h
  · next a rest hx ih =>
    intro ps out ht h
    cases ht with
    | cons ga ps1 _ _ hga a1 a2 ht1 =>
      exact single_tiles strict a _ out ga ps1 hga a1 a2 (fun r hr => ih ps1 r ht1 hr) h

/-- the simple tokenizer: one token per non-blank piece, at its position -/
theorem simpleTokens_tiles (c : Cls) (T : Table) (ps : List Piece) (out : List STok)
    (h : simpleTokens c T ps = .ok out) : Tiles ps out := by
  induction ps generalizing out with
  | nil => simp [simpleTokens] at h; subst h; exact Tiles.nil
  | cons p ps ih =>
    unfold simpleTokens at h
    simp only at h
    split at h
    · simp at h
    · next t ht =>
      rw [map_cons_ok] at h
      obtain ⟨r, hr, rfl⟩ := h
      have hpos : t.s = p.start ∧ t.e = p.stop := by
        split at ht <;> (try (simp at ht; subst ht; exact ⟨rfl, rfl⟩))
        split at ht <;> (try (simp at ht; subst ht; exact ⟨rfl, rfl⟩))
        split at ht <;> (try (simp at ht; subst ht; exact ⟨rfl, rfl⟩))
        split at ht <;> (try (simp at ht; subst ht; exact ⟨rfl, rfl⟩))
        simp at ht
      have := Tiles.cons [p] ps t r (by simp) hpos.1 hpos.2 (ih r hr)
      simpa using this

/-- what tiling says about the text: the tokens are in text order, pairwise disjoint, and every
    non-blank piece lies inside exactly one of them -/
theorem tiles_length {ps : List Piece} {ts : List STok} (h : Tiles ps ts) : ts.length ≤ ps.length := by
  induction h with
  | nil => simp
  | cons g ps t ts hg _ _ _ ih =>
    have : 1 ≤ g.length := by cases g <;> simp_all
    simp; omega

end LE
