import LicenseExpr.Model.Spec
import LicenseExpr.Lemmas.Simplify
/-!
# Lemmas/DedupL — `dedup` (dict by rendering: first position, last value) against the reference
`dedupRef` (drop each operand whose rendering repeats an earlier sibling)
-/
namespace LE

/-- unequal members render differently -/
def RenderInj (L : List (Expr Atom)) : Prop := ∀ x ∈ L, ∀ y ∈ L, renderStr x = renderStr y → x = y

theorem lastWith_some (L : List (Expr Atom)) (x : Expr Atom) (hx : x ∈ L) :
    ∃ y, lastWith (renderStr x) L = some y ∧ y ∈ L ∧ renderStr y = renderStr x := by
  unfold lastWith
  cases hf : L.reverse.find? (fun z => renderStr z == renderStr x) with
  | none =>
    have := List.find?_eq_none.mp hf x (by simpa using hx)
    simp at this
  | some y =>
    have h1 := List.mem_of_find?_eq_some hf
    have h2 := List.find?_some hf
    exact ⟨y, rfl, by simpa using h1, by simpa using h2⟩

theorem uniq_eq_erase_aux (L : List (Expr Atom)) (hinj : RenderInj L) (seen : List Str) (l : List (Expr Atom))
    (hsub : ∀ x ∈ l, x ∈ L) :
    (firstKeys seen l).filterMap (fun k => lastWith k L) = eraseDupsByRender seen l := by
  induction l generalizing seen with
  | nil => simp [firstKeys, eraseDupsByRender]
  | cons x xs ih =>
    simp only [firstKeys, eraseDupsByRender]
    have ih' := fun s => ih s (fun y hy => hsub y (List.mem_cons_of_mem _ hy))
    split
    · exact ih' seen
    · obtain ⟨y, h1, h2, h3⟩ := lastWith_some L x (hsub x (by simp))
      have : y = x := hinj y h2 x (hsub x (by simp)) h3
      subst this
      simp [List.filterMap_cons, h1, ih']

/-- on render-faithful operand lists the dictionary of `combine_expressions` keeps exactly the first occurrences -/
theorem uniqByRender_eq_erase (L : List (Expr Atom)) (hinj : RenderInj L) : uniqByRender L = eraseDupsByRender [] L :=
  uniq_eq_erase_aux L hinj [] L (fun _ h => h)

/-- what is kept is a subsequence of the operands: order is never changed -/
theorem eraseDups_sublist (seen : List Str) (l : List (Expr Atom)) : (eraseDupsByRender seen l).Sublist l := by
  induction l generalizing seen with
  | nil => simp [eraseDupsByRender]
  | cons x xs ih =>
    simp only [eraseDupsByRender]
    split
    · exact List.Sublist.cons _ (ih seen)
    · exact List.Sublist.cons_cons _ (ih _)

/-- every operand keeps a representative with the same rendering -/
theorem eraseDups_cover (seen : List Str) (l : List (Expr Atom)) :
    ∀ x ∈ l, seen.contains (renderStr x) = true ∨ ∃ y ∈ eraseDupsByRender seen l, renderStr y = renderStr x := by
  induction l generalizing seen with
  | nil => simp
  | cons a as ih =>
    intro x hx
    simp only [eraseDupsByRender]
    simp only [List.mem_cons] at hx
    split
    · next hc =>
      rcases hx with rfl | hx
      · left; exact hc
      · exact ih seen x hx
    · next hc =>
      rcases hx with rfl | hx
      · right; exact ⟨x, by simp, rfl⟩
      · rcases ih (seen ++ [renderStr a]) x hx with h | ⟨y, hy, hyx⟩
        · simp at h
          rcases h with h | h
          · left; simpa using h
          · right; exact ⟨a, by simp, h.symm⟩
        · right; exact ⟨y, List.mem_cons_of_mem _ hy, hyx⟩

/-- hereditarily render-faithful: at every node the deduplicated operands render differently unless equal -/
def Faithful : Expr Atom → Prop
  | .atom _ => True
  | .node _ args => (∀ a, (h : a ∈ args) → Faithful a) ∧ RenderInj (args.map dedupRef)
termination_by e => sizeOf e
decreasing_by simp_wf; have := List.sizeOf_lt_of_mem h; omega

/-- **`dedup` is the reference deduplication** on render-faithful expressions -/
theorem dedupE_eq_ref (e : Expr Atom) (hf : Faithful e) : dedupE e = dedupRef e := by
  fun_induction dedupE e
  · simp [dedupRef]
  · next op args ih =>
    rw [Faithful] at hf
    have hmap : args.attach.map (fun a => dedupE a.1) = args.map dedupRef := by
      rw [← List.attach_map_val (l := args) (f := dedupRef)]
      apply List.map_congr_left
      intro a _
      exact ih a (hf.1 a.1 a.2)
    rw [dedupRef, hmap]
    have hmap2 : args.attach.map (fun a => dedupRef a.1) = args.map dedupRef := by
      rw [← List.attach_map_val (l := args) (f := dedupRef)]
    rw [hmap2]
    unfold combineU
    rw [uniqByRender_eq_erase _ hf.2]
    cases eraseDupsByRender [] (List.map dedupRef args) with
    | nil => rfl
    | cons x xs => cases xs <;> rfl

end LE

namespace LE

theorem eraseDups_mem_iff (L : List (Expr Atom)) (hinj : RenderInj L) (x : Expr Atom) :
    x ∈ eraseDupsByRender [] L ↔ x ∈ L := by
  constructor
  · exact fun h => (eraseDups_sublist [] L).subset h
  · intro hx
    rcases eraseDups_cover [] L x hx with h | ⟨y, hy, hyx⟩
    · simp at h
    · have := hinj y ((eraseDups_sublist [] L).subset hy) x hx hyx
      rw [← this]; exact hy

theorem evalL_same_members (op : Op) (v : Atom → Bool) (l l' : List (Expr Atom)) (h : ∀ x, x ∈ l ↔ x ∈ l') :
    evalL op v l = evalL op v l' :=
  evalL_congr op v l l' (fun x hx => ⟨x, (h x).mp hx, covers_refl op v x⟩) (fun y hy => ⟨y, (h y).mpr hy, covers_refl op v y⟩)

/-- the reference deduplication preserves the truth table on render-faithful expressions -/
theorem dedupRef_eval (v : Atom → Bool) (e : Expr Atom) (hf : Faithful e) : eval v (dedupRef e) = eval v e := by
  fun_induction dedupRef e
  · rfl
  · next op args x hx ih =>
    rw [Faithful] at hf
    have hmap2 : args.attach.map (fun a => dedupRef a.1) = args.map dedupRef := by
      rw [← List.attach_map_val (l := args) (f := dedupRef)]
    rw [hmap2] at hx
    have h1 : evalL op v [x] = evalL op v (args.map dedupRef) := by
      rw [← hx]; exact evalL_same_members op v _ _ (eraseDups_mem_iff _ hf.2)
    rw [evalL_singleton] at h1
    rw [h1, eval_node]
    simp only [evalL, List.map_map]
    congr 1
    apply List.map_congr_left
    intro a ha
    exact ih ⟨a, ha⟩ (hf.1 a ha)
  · next op args hne ih =>
    rw [Faithful] at hf
    have hmap2 : args.attach.map (fun a => dedupRef a.1) = args.map dedupRef := by
      rw [← List.attach_map_val (l := args) (f := dedupRef)]
    rw [hmap2]
    rw [eval_node, eval_node, evalL_same_members op v _ _ (eraseDups_mem_iff _ hf.2)]
    simp only [evalL, List.map_map]
    congr 1
    apply List.map_congr_left
    intro a ha
    exact ih ⟨a, ha⟩ (hf.1 a ha)

end LE
