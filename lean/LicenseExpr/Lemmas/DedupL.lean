import LicenseExpr.Model.Spec
import LicenseExpr.Lemmas.Simplify
/-!
# Lemmas/DedupL — `dedup` (dict by rendering, first kept) against the reference
`dedupRef` (drop each operand whose rendering repeats an earlier sibling)
-/
namespace LE

/-- unequal members render differently -/
def RenderInj (L : List (Expr Atom)) : Prop := ∀ x ∈ L, ∀ y ∈ L, renderStr x = renderStr y → x = y

theorem uniqGo_eq_erase (l : List (Expr Atom)) : ∀ (firsts : List (Str × Expr Atom)),
    (uniqGo firsts l).map (·.2) = firsts.map (·.2) ++ eraseDupsByRender (firsts.map (·.1)) l := by
  induction l with
  | nil => intro firsts; simp [uniqGo, eraseDupsByRender]
  | cons x xs ih =>
    intro firsts
    simp only [uniqGo, eraseDupsByRender]
    have hc : firsts.any (fun kv => kv.1 == renderStr x) = (firsts.map (·.1)).contains (renderStr x) := by
      induction firsts with
      | nil => rfl
      | cons a r ihr => simp [List.any_cons, List.contains_cons, ihr, Bool.beq_comm (a := a.1)]
    rw [hc]
    split
    · exact ih firsts
    · rw [ih]; simp

/-- the dictionary of `combine_expressions` keeps exactly the first occurrences — on every list -/
theorem uniqByRender_eq_erase' (L : List (Expr Atom)) : uniqByRender L = eraseDupsByRender [] L := by
  have := uniqGo_eq_erase L []
  simpa [uniqByRender] using this

theorem uniqByRender_eq_erase (L : List (Expr Atom)) (_hinj : RenderInj L) : uniqByRender L = eraseDupsByRender [] L :=
  uniqByRender_eq_erase' L

/-- what is kept is a subsequence of the operands: order is never changed -/
theorem eraseDups_sublist (seen : List Str) (l : List (Expr Atom)) : (eraseDupsByRender seen l).Sublist l := by
  induction l generalizing seen with
  | nil => simp [eraseDupsByRender]
  | cons x xs ih =>
    simp only [eraseDupsByRender]
    split
    · exact List.Sublist.cons _ (ih seen)
    · exact List.Sublist.cons_cons _ (ih _)

/-- every operand keeps a representative with the same rendering -/
theorem eraseDups_cover (seen : List Str) (l : List (Expr Atom)) :
    ∀ x ∈ l, seen.contains (renderStr x) = true ∨ ∃ y ∈ eraseDupsByRender seen l, renderStr y = renderStr x := by
  induction l generalizing seen with
  | nil => simp
  | cons a as ih =>
    intro x hx
    simp only [eraseDupsByRender]
    simp only [List.mem_cons] at hx
    split
    · next hc =>
      rcases hx with rfl | hx
      · left; exact hc
      · exact ih seen x hx
    · next hc =>
      rcases hx with rfl | hx
      · right; exact ⟨x, by simp, rfl⟩
      · rcases ih (seen ++ [renderStr a]) x hx with h | ⟨y, hy, hyx⟩
        · simp at h
          rcases h with h | h
          · left; simpa using h
          · right; exact ⟨a, by simp, h.symm⟩
        · right; exact ⟨y, List.mem_cons_of_mem _ hy, hyx⟩

/-- hereditarily render-faithful: at every node the deduplicated operands render differently unless equal -/
def Faithful : Expr Atom → Prop
  | .atom _ => True
  | .node _ args => (∀ a, (h : a ∈ args) → Faithful a) ∧ RenderInj (args.map dedupRef)
termination_by e => sizeOf e
decreasing_by simp_wf; have := List.sizeOf_lt_of_mem h; omega

/-- **`dedup` is the reference deduplication** — on every expression -/
theorem dedupE_eq_ref_all (e : Expr Atom) : dedupE e = dedupRef e := by
  fun_induction dedupE e
  · simp [dedupRef]
  · next op args ih =>
    have hmap : args.attach.map (fun a => dedupE a.1) = args.map dedupRef := by
      rw [← List.attach_map_val (l := args) (f := dedupRef)]
      apply List.map_congr_left
      intro a _
      exact ih a
    rw [dedupRef, hmap]
    have hmap2 : args.attach.map (fun a => dedupRef a.1) = args.map dedupRef := by
      rw [← List.attach_map_val (l := args) (f := dedupRef)]
    rw [hmap2]
    unfold combineU
    rw [uniqByRender_eq_erase' _]
    cases eraseDupsByRender [] (List.map dedupRef args) with
    | nil => rfl
    | cons x xs => cases xs <;> rfl

theorem dedupE_eq_ref (e : Expr Atom) (_hf : Faithful e) : dedupE e = dedupRef e := dedupE_eq_ref_all e

end LE

namespace LE

theorem eraseDups_mem_iff (L : List (Expr Atom)) (hinj : RenderInj L) (x : Expr Atom) :
    x ∈ eraseDupsByRender [] L ↔ x ∈ L := by
  constructor
  · exact fun h => (eraseDups_sublist [] L).subset h
  · intro hx
    rcases eraseDups_cover [] L x hx with h | ⟨y, hy, hyx⟩
    · simp at h
    · have := hinj y ((eraseDups_sublist [] L).subset hy) x hx hyx
      rw [← this]; exact hy

theorem evalL_same_members (op : Op) (v : Atom → Bool) (l l' : List (Expr Atom)) (h : ∀ x, x ∈ l ↔ x ∈ l') :
    evalL op v l = evalL op v l' :=
  evalL_congr op v l l' (fun x hx => ⟨x, (h x).mp hx, covers_refl op v x⟩) (fun y hy => ⟨y, (h y).mpr hy, covers_refl op v y⟩)

/-- the reference deduplication preserves the truth table on render-faithful expressions -/
theorem dedupRef_eval (v : Atom → Bool) (e : Expr Atom) (hf : Faithful e) : eval v (dedupRef e) = eval v e := by
  fun_induction dedupRef e
  · rfl
  · next op args x hx ih =>
    rw [Faithful] at hf
    have hmap2 : args.attach.map (fun a => dedupRef a.1) = args.map dedupRef := by
      rw [← List.attach_map_val (l := args) (f := dedupRef)]
    rw [hmap2] at hx
    have h1 : evalL op v [x] = evalL op v (args.map dedupRef) := by
      rw [← hx]; exact evalL_same_members op v _ _ (eraseDups_mem_iff _ hf.2)
    rw [evalL_singleton] at h1
    rw [h1, eval_node]
    simp only [evalL, List.map_map]
    congr 1
    apply List.map_congr_left
    intro a ha
    exact ih ⟨a, ha⟩ (hf.1 a ha)
  · next op args hne ih =>
    rw [Faithful] at hf
    have hmap2 : args.attach.map (fun a => dedupRef a.1) = args.map dedupRef := by
      rw [← List.attach_map_val (l := args) (f := dedupRef)]
    rw [hmap2]
    rw [eval_node, eval_node, evalL_same_members op v _ _ (eraseDups_mem_iff _ hf.2)]
    simp only [evalL, List.map_map]
    congr 1
    apply List.map_congr_left
    intro a ha
    exact ih ⟨a, ha⟩ (hf.1 a ha)

end LE

namespace LE

/-! ### idempotence -/

/-- no two operands render alike -/
def DistinctR (l : List (Expr Atom)) : Prop := l.Pairwise (fun a b => renderStr a ≠ renderStr b)

theorem eraseDups_distinct (seen : List Str) (l : List (Expr Atom)) :
    DistinctR (eraseDupsByRender seen l) ∧ ∀ y ∈ eraseDupsByRender seen l, seen.contains (renderStr y) = false := by
  induction l generalizing seen with
  | nil => simp [eraseDupsByRender, DistinctR]
  | cons x xs ih =>
    simp only [eraseDupsByRender]
    split
    · exact ih seen
    · next hc =>
      obtain ⟨h1, h2⟩ := ih (seen ++ [renderStr x])
      refine ⟨List.Pairwise.cons ?_ h1, ?_⟩
      · intro y hy heq
        have := h2 y hy
        simp [← heq] at this
      · intro y hy
        simp only [List.mem_cons] at hy
        rcases hy with rfl | hy
        · simpa using hc
        · have := h2 y hy
          simp only [List.contains_eq_mem, List.mem_append, List.mem_cons, List.not_mem_nil, or_false,
            decide_eq_false_iff_not, not_or] at this
          simpa using this.1

theorem eraseDups_id (seen : List Str) (l : List (Expr Atom)) (hd : DistinctR l)
    (hs : ∀ y ∈ l, seen.contains (renderStr y) = false) : eraseDupsByRender seen l = l := by
  induction l generalizing seen with
  | nil => rfl
  | cons x xs ih =>
    unfold DistinctR at hd
    rw [List.pairwise_cons] at hd
    have hx := hs x (by simp)
    simp only [eraseDupsByRender, hx, Bool.false_eq_true, ↓reduceIte, List.cons.injEq, true_and]
    apply ih _ hd.2
    intro y hy
    have h1 := hs y (List.mem_cons_of_mem _ hy)
    have h2 := hd.1 y hy
    simp only [List.contains_eq_mem, List.mem_append, List.mem_cons, List.not_mem_nil, or_false,
      decide_eq_false_iff_not, not_or]
    exact ⟨by simpa using h1, fun h => h2 h.symm⟩

theorem attach_map_dedupRef (args : List (Expr Atom)) :
    args.attach.map (fun a => dedupRef a.1) = args.map dedupRef := by
  rw [← List.attach_map_val (l := args) (f := dedupRef)]

theorem dedupRef_node (op : Op) (args : List (Expr Atom)) :
    dedupRef (.node op args) =
      (match eraseDupsByRender [] (args.map dedupRef) with | [x] => x | u => .node op u) := by
  rw [dedupRef, attach_map_dedupRef]
  cases eraseDupsByRender [] (args.map dedupRef) with
  | nil => rfl
  | cons x xs => cases xs <;> rfl

theorem eraseDups_rep (args : List (Expr Atom)) :
    ∀ y ∈ eraseDupsByRender [] (args.map dedupRef), ∃ a ∈ args, y = dedupRef a := by
  intro y hy
  have := (eraseDups_sublist [] _).subset hy
  simp only [List.mem_map] at this
  obtain ⟨a, ha, rfl⟩ := this
  exact ⟨a, ha, rfl⟩

/-- **the reference deduplication is idempotent**: applying it twice changes nothing more -/
theorem dedupRef_idem (e : Expr Atom) : dedupRef (dedupRef e) = dedupRef e := by
  induction e using dedupRef.induct with
  | case1 a => simp [dedupRef]
  | case2 op args x hx ih =>
    rw [attach_map_dedupRef] at hx
    rw [dedupRef_node, hx]
    obtain ⟨a, ha, rfl⟩ := eraseDups_rep args x (by rw [hx]; simp)
    exact ih ⟨a, ha⟩
  | case3 op args hne ih =>
    rw [attach_map_dedupRef] at hne
    have hnode : dedupRef (.node op args) = .node op (eraseDupsByRender [] (args.map dedupRef)) := by
      rw [dedupRef_node]
      split
      · next x hx => exact absurd hx (hne x)
      · rfl
    rw [hnode, dedupRef_node]
    have hfix : (eraseDupsByRender [] (args.map dedupRef)).map dedupRef = eraseDupsByRender [] (args.map dedupRef) := by
      conv => rhs; rw [← List.map_id (eraseDupsByRender [] (args.map dedupRef))]
      apply List.map_congr_left
      intro y hy
      obtain ⟨a, ha, rfl⟩ := eraseDups_rep args y hy
      exact ih ⟨a, ha⟩
    rw [hfix]
    have hd := eraseDups_distinct [] (args.map dedupRef)
    rw [eraseDups_id [] _ hd.1 (by intro y _; rfl)]
    split
    · next x hx' => exact absurd hx' (hne x)
    · rfl

theorem distinctR_renderInj (l : List (Expr Atom)) (hd : DistinctR l) : RenderInj l := by
  induction l with
  | nil => intro x hx; cases hx
  | cons a r ih =>
    unfold DistinctR at hd
    rw [List.pairwise_cons] at hd
    intro x hx y hy hxy
    simp only [List.mem_cons] at hx hy
    rcases hx with rfl | hx <;> rcases hy with rfl | hy
    · rfl
    · exact absurd hxy (hd.1 y hy)
    · exact absurd hxy.symm (hd.1 x hx)
    · exact ih hd.2 x hx y hy hxy

/-- the reference deduplication of a render-faithful expression is render-faithful -/
theorem dedupRef_faithful (e : Expr Atom) (hf : Faithful e) : Faithful (dedupRef e) := by
  induction e using dedupRef.induct with
  | case1 a => simp [dedupRef, Faithful]
  | case2 op args x hx ih =>
    rw [attach_map_dedupRef] at hx
    rw [dedupRef_node, hx]
    obtain ⟨a, ha, rfl⟩ := eraseDups_rep args x (by rw [hx]; simp)
    rw [Faithful] at hf
    exact ih ⟨a, ha⟩ (hf.1 a ha)
  | case3 op args hne ih =>
    rw [attach_map_dedupRef] at hne
    have hnode : dedupRef (.node op args) = .node op (eraseDupsByRender [] (args.map dedupRef)) := by
      rw [dedupRef_node]
      split
      · next x hx => exact absurd hx (hne x)
      · rfl
    rw [hnode]
    rw [Faithful] at hf ⊢
    refine ⟨?_, ?_⟩
    · intro y hy
      obtain ⟨a, ha, rfl⟩ := eraseDups_rep args y hy
      exact ih ⟨a, ha⟩ (hf.1 a ha)
    · have hfix : (eraseDupsByRender [] (args.map dedupRef)).map dedupRef = eraseDupsByRender [] (args.map dedupRef) := by
        conv => rhs; rw [← List.map_id (eraseDupsByRender [] (args.map dedupRef))]
        apply List.map_congr_left
        intro y hy
        obtain ⟨a, ha, rfl⟩ := eraseDups_rep args y hy
        exact dedupRef_idem a
      rw [hfix]
      exact distinctR_renderInj _ (eraseDups_distinct [] (args.map dedupRef)).1

/-- **`dedup` is idempotent** on render-faithful expressions -/
theorem dedupE_idem (e : Expr Atom) (hf : Faithful e) : dedupE (dedupE e) = dedupE e := by
  rw [dedupE_eq_ref e hf, dedupE_eq_ref _ (dedupRef_faithful e hf), dedupRef_idem]

end LE
