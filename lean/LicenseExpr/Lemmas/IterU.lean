import LicenseExpr.Lemmas.ACIter
import LicenseExpr.Model.Spec
/-!
# Lemmas/IterU — the scan with unmatched words reported (`include_unmatched=True`) by brute force

`iterSpecGoU` is `iterSpecGo` plus: a piece at which no stored name ends is reported as an unmatched
token. `iter_specU`: the search loop computes exactly that.
-/
namespace LE
variable {V : Type}

def hitsAt (c : Cls) (t : Trie V) (text : Str) (seen' : List Piece) (p : Piece) : List (Tok V) :=
  ((tails (wordsOfSeen c seen')).filterMap (fun suf => t.outputAt suf)).filterMap (fun e =>
    (startBack seen' e.words.length).map (fun st => (⟨st, p.stop, slice text st p.stop, some e.val⟩ : Tok V)))

def iterSpecGoU (c : Cls) (t : Trie V) (text : Str) : List Piece → List Piece → List (Tok V)
  | _, [] => []
  | seen, p :: ps =>
    let toks := hitsAt c t text (p :: seen) p
    (if toks.isEmpty then [⟨p.start, p.stop, slice text p.start p.stop, none⟩] else toks) ++
      iterSpecGoU c t text (p :: seen) ps

namespace AC

theorem iterGo_specU (c : Cls) (t : Trie V) (hk : KnownOK t) (text : Str) (ps seen : List Piece) :
    iterGo c t text true (maxDepth t.names) seen (lsuf t.names (wordsOfSeen c seen)) ps = iterSpecGoU c t text seen ps := by
  induction ps generalizing seen with
  | nil => simp [iterGo, iterSpecGoU]
  | cons p ps ih =>
    unfold iterGo iterSpecGoU hitsAt
    simp only
    have hws := wordsOfSeen_cons c p seen
    by_cases hw : t.known.contains (c.fold p.text) = true
    · simp only [hw, Bool.not_true, Bool.false_eq_true, ↓reduceIte]
      have hnode := lsuf_isNode t.names (wordsOfSeen c seen)
      have hlen := node_length_le t.names _ hnode
      have hfail : ∀ s', s'.length ≤ maxDepth t.names → s' ≠ [] → failN t.names (maxDepth t.names) s' = lsuf t.names s'.tail :=
        fun s' hs' hne => failN_spec t.names _ s' hne hs'
      have hstate : follow t.names (failN t.names (maxDepth t.names)) (maxDepth t.names + 1)
          (lsuf t.names (wordsOfSeen c seen)) (c.fold p.text) = lsuf t.names (wordsOfSeen c (p :: seen)) := by
        rw [follow_spec t.names _ _ _ _ (fun s' hs' hne => hfail s' (by omega) hne) (by omega), hws, ← lsuf_snoc]
      rw [hstate]
      have hnode' := lsuf_isNode t.names (wordsOfSeen c (p :: seen))
      have hlen' := node_length_le t.names _ hnode'
      have hchain : chain (failN t.names (maxDepth t.names)) (maxDepth t.names + 1) (lsuf t.names (wordsOfSeen c (p :: seen)))
          = nodeSuffixes t.names (wordsOfSeen c (p :: seen)) := by
        rw [chain_spec t.names _ _ _ hnode' (fun s' hs' hne => hfail s' (by omega) hne) (by omega), ← nodeSuffixes_lsuf]
      rw [hchain]
      unfold nodeSuffixes
      rw [filterMap_outputAt_nodes]
      simp only [Bool.and_true]
      rw [ih (p :: seen)]
    · have hw' : t.known.contains (c.fold p.text) = false := by simpa using hw
      simp only [hw', Bool.not_false, ↓reduceIte]
      have h1 := tails_snoc_unknown t hk (wordsOfSeen c seen) (c.fold p.text) hw'
      have h2 := lsuf_snoc_unknown t hk (wordsOfSeen c seen) (c.fold p.text) hw'
      rw [hws, h1]
      have := ih (p :: seen)
      rw [hws, h2] at this
      simpa using this

/-- `Trie.iter(text, include_unmatched=True)` is the brute-force enumeration with unmatched words -/
theorem iter_specU (c : Cls) (t : Trie V) (hk : KnownOK t) (text : Str) :
    t.iter c text true = iterSpecGoU c t text [] (wordPieces c text) := by
  have := iterGo_specU c t hk text (wordPieces c text) []
  simpa [Trie.iter, wordsOfSeen, lsuf] using this

end AC

/-- where a token of the enumeration comes from: the piece at which it is reported, and either no name
    ends there (unmatched, the piece itself) or a stored name whose words are a suffix of the words read -/
theorem iterSpecGoU_mem (c : Cls) (t : Trie V) (text : Str) (ps : List Piece) :
    ∀ (seen : List Piece) (k : Tok V), k ∈ iterSpecGoU c t text seen ps →
      ∃ pre p post, ps = pre ++ p :: post ∧ k.e = p.stop ∧ k.str = slice text k.s k.e ∧
        ((k.val = none ∧ k.s = p.start ∧ hitsAt c t text (p :: pre.reverse ++ seen) p = []) ∨
         (∃ e, e ∈ (tails (wordsOfSeen c (p :: pre.reverse ++ seen))).filterMap (fun suf => t.outputAt suf) ∧
            startBack (p :: pre.reverse ++ seen) e.words.length = some k.s ∧ k.val = some e.val)) := by
  induction ps with
  | nil => intro seen k hk; simp [iterSpecGoU] at hk
  | cons p ps ih =>
    intro seen k hk
    simp only [iterSpecGoU, List.mem_append] at hk
    rcases hk with hk | hk
    · refine ⟨[], p, ps, rfl, ?_⟩
      split at hk
      · next hemp =>
        simp only [List.mem_singleton] at hk
        subst hk
        refine ⟨rfl, rfl, Or.inl ⟨rfl, rfl, ?_⟩⟩
        simpa using hemp
      · simp only [hitsAt, List.mem_filterMap, Option.map_eq_some_iff] at hk
        obtain ⟨e, he, st, hst, rfl⟩ := hk
        exact ⟨rfl, rfl, Or.inr ⟨e, by simpa [List.mem_filterMap] using he, by simpa using hst, rfl⟩⟩
    · obtain ⟨pre, q, post, hps, h1, h2, h3⟩ := ih (p :: seen) k hk
      refine ⟨p :: pre, q, post, by rw [hps]; rfl, h1, h2, ?_⟩
      simpa [List.reverse_cons, List.append_assoc] using h3

end LE
