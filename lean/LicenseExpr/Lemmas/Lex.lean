import LicenseExpr.Model.Lex
/-!
# Lemmas/Lex — the pieces of a text concatenate back to it, and each is the slice at its start
-/
namespace LE

theorem lexGo_concat (c : Cls) (pos : Nat) (cur : Option (Nat × Str × Kind)) (s : Str) :
    ((lexGo c pos cur s).map (·.text)).flatten =
      (match cur with | none => [] | some (_, r, _) => r.reverse) ++ s := by
  induction s generalizing pos cur with
  | nil => cases cur with
    | none => simp [lexGo]
    | some v => obtain ⟨st, r, k⟩ := v; simp [lexGo]
  | cons x xs ih =>
    cases cur with
    | none => simp [lexGo, ih]
    | some v =>
      obtain ⟨st, r, k⟩ := v
      simp only [lexGo]
      split <;> simp [ih]

/-- lossless: the pieces concatenate back to the text -/
theorem pieces_concat (c : Cls) (s : Str) : ((pieces c s).map (·.text)).flatten = s := by
  simpa [pieces] using lexGo_concat c 0 none s

theorem lexGo_slices (c : Cls) (pre : Str) (cur : Option (Nat × Str × Kind)) (s : Str)
    (hcur : ∀ st r k, cur = some (st, r, k) → st + r.length = pre.length ∧ (pre.drop st) = r.reverse) :
    ∀ p ∈ lexGo c pre.length cur s, ((pre ++ s).drop p.start).take p.text.length = p.text := by
  induction s generalizing pre cur with
  | nil =>
    intro p hp
    cases cur with
    | none => simp [lexGo] at hp
    | some v =>
      obtain ⟨st, r, k⟩ := v
      simp [lexGo] at hp
      subst hp
      obtain ⟨h1, h2⟩ := hcur st r k rfl
      simp [h2]
      rw [← List.length_reverse, List.take_length]
  | cons x xs ih =>
    intro p hp
    cases cur with
    | none =>
      simp only [lexGo] at hp
      have := ih (pre ++ [x]) (some (pre.length, [x], kindOf c x)) (by
        intro st r k h; cases h; simp) p (by simpa using hp)
      simpa using this
    | some v =>
      obtain ⟨st, r, k⟩ := v
      obtain ⟨h1, h2⟩ := hcur st r k rfl
      simp only [lexGo] at hp
      split at hp
      · have := ih (pre ++ [x]) (some (st, x :: r, k)) (by
          intro st' r' k' h; cases h
          refine ⟨by simp; omega, ?_⟩
          rw [List.drop_append_of_le_length (by omega), h2]; simp) p (by simpa using hp)
        simpa using this
      · simp only [List.mem_cons] at hp
        rcases hp with rfl | hp
        · simp only [List.length_reverse]
          rw [List.drop_append_of_le_length (by omega), h2, ← List.length_reverse (as := r)]
          simp [List.take_append_of_le_length]
        · have := ih (pre ++ [x]) (some (pre.length, [x], kindOf c x)) (by
            intro st' r' k' h; cases h; simp) p (by simpa using hp)
          simpa using this

/-- positions: every piece is the slice of the text at its start -/
theorem pieces_slices (c : Cls) (s : Str) :
    ∀ p ∈ pieces c s, (s.drop p.start).take p.text.length = p.text := by
  simpa [pieces] using lexGo_slices c [] none s (by simp)

end LE
