import LicenseExpr.Lemmas.IterU
import LicenseExpr.Lemmas.Agree
import LicenseExpr.Props.C17
/-!
# Lemmas/Alone — a stored name standing alone as the whole text parses to its license

The names stored for a table, as a list of additions (`addsOf`); what the automaton stores under a
word sequence is the last addition with those words (`buildTrie_lookup`); a text whose folded words
are those of a stored name is tokenized into the single token of that name (`tokenize_alone`), which
the later stages turn into the license's symbol (`parse_alone`).
-/
namespace LE

/-! ### the automaton of any table as a dictionary over word sequences -/

def addAll (c : Cls) (t : Trie TVal) (adds : List (Str × TVal)) : Trie TVal :=
  adds.foldl (fun t a => t.addD c a.1 a.2) t

theorem alias_fold (c : Cls) (v : TVal) (as : List Str) (t1 : Trie TVal) :
    as.foldl (fun t a => if a.isEmpty then t else t.addD c (collapse c a) v) t1 =
      ((as.filter (fun a => !a.isEmpty)).map (fun a => (collapse c a, v))).foldl (fun t a => t.addD c a.1 a.2) t1 := by
  induction as generalizing t1 with
  | nil => rfl
  | cons a as ih =>
    simp only [List.foldl_cons, List.filter_cons]
    by_cases ha : a.isEmpty = true
    · simp only [ha, ↓reduceIte, Bool.not_true, Bool.false_eq_true]; exact ih t1
    · simp only [ha, Bool.false_eq_true, ↓reduceIte, Bool.not_false, List.map_cons, List.foldl_cons]; exact ih _

theorem addEntry_adds (c : Cls) (t : Trie TVal) (e : Entry) : addEntry c t e = addAll c t (entryAdds c e) := by
  unfold addEntry addAll entryAdds symVal
  simp only [List.foldl_cons]
  exact alias_fold c _ e.aliases _

theorem buildTrie_adds (c : Cls) (T : Table) : buildTrie c T = (addAll c Trie.empty (addsOf c T)).makeAutomaton := by
  unfold buildTrie addsOf addAll
  simp only [List.foldl_append, List.foldl_map]
  congr 1
  generalize KEYWORDS.foldl (fun t k => t.addD c k.spelling (TVal.kw k)) (Trie.empty : Trie TVal) = t0
  induction T generalizing t0 with
  | nil => rfl
  | cons e rest ih =>
    simp only [List.foldl_cons, List.flatMap_cons, List.foldl_append]
    rw [addEntry_adds]
    exact ih _

theorem addD_nc (c : Cls) (t : Trie TVal) (name : Str) (v : TVal) (h : t.converted = false) :
    (t.addD c name v).converted = false := by
  unfold Trie.addD Trie.add
  simp only [h, Bool.false_eq_true, ↓reduceIte]
  by_cases h1 : name.isEmpty = true
  · simp [h1, h]
  · by_cases h2 : (wordsOf c name).isEmpty = true
    · simp [h1, h2, h]
    · simp [h1, h2, h]

theorem addD_knownOK (c : Cls) (t : Trie TVal) (name : Str) (v : TVal) (hk : AC.KnownOK t) : AC.KnownOK (t.addD c name v) := by
  unfold Trie.addD
  cases h : t.add c name v with
  | ok t' => exact AC.add_knownOK c t t' name v hk h
  | refused => exact hk

theorem addD_lookupW (c : Cls) (t : Trie TVal) (name : Str) (v : TVal) (hnc : t.converted = false)
    (ws : List Word) (hws : ws ≠ []) :
    AC.lookupW (t.addD c name v) ws = if wordsOf c name = ws then some ⟨name, ws, v⟩ else AC.lookupW t ws := by
  by_cases hn : name = []
  · subst hn
    have : wordsOf c [] = [] := by simp [wordsOf, wordPieces, pieces, lexGo]
    have hne : ¬ ([] : List Word) = ws := fun h => hws h.symm
    simp [Trie.addD, Trie.add, hnc, this, hne]
  · by_cases hw : wordsOf c name = []
    · have hne : ¬ ([] : List Word) = ws := fun h => hws h.symm
      have hn' : name.isEmpty = false := by cases name <;> simp_all
      simp [Trie.addD, Trie.add, hnc, hw, hne, hn']
    · have hn' : name.isEmpty = false := by cases name <;> simp_all
      have hw' : (wordsOf c name).isEmpty = false := by cases h : wordsOf c name <;> simp_all
      have hadd : t.add c name v = .ok ⟨replaceEntry ⟨name, wordsOf c name, v⟩ t.entries,
          addKnown t.known (wordsOf c name), t.converted⟩ := by
        simp [Trie.add, hnc, hn', hw']
      have := AC.add_lookup c t _ name v hadd hw hn
      unfold Trie.addD
      rw [hadd]
      by_cases heq : wordsOf c name = ws
      · subst heq; simp [this.1]
      · simp only [heq, ↓reduceIte]
        exact this.2 ws (fun h => heq h.symm)

theorem addAll_lookup (c : Cls) (adds : List (Str × TVal)) (ws : List Word) (hws : ws ≠ []) :
    ∀ (t : Trie TVal), t.converted = false → AC.KnownOK t →
      (addAll c t adds).converted = false ∧ AC.KnownOK (addAll c t adds) ∧
      AC.lookupW (addAll c t adds) ws =
        (match adds.reverse.find? (fun a => wordsOf c a.1 = ws) with
         | some a => some ⟨a.1, ws, a.2⟩
         | none => AC.lookupW t ws) := by
  induction adds with
  | nil => intro t h hk; exact ⟨h, hk, by simp [addAll]⟩
  | cons a rest ih =>
    intro t h hk
    obtain ⟨i1, i2, i3⟩ := ih (t.addD c a.1 a.2) (addD_nc c t a.1 a.2 h) (addD_knownOK c t a.1 a.2 hk)
    refine ⟨by simpa [addAll] using i1, by simpa [addAll] using i2, ?_⟩
    have : addAll c t (a :: rest) = addAll c (t.addD c a.1 a.2) rest := rfl
    rw [this, i3, addD_lookupW c t a.1 a.2 h ws hws]
    simp only [List.reverse_cons, List.find?_append]
    cases rest.reverse.find? (fun a => wordsOf c a.1 = ws) with
    | some b => simp
    | none =>
      by_cases hwa : wordsOf c a.1 = ws
      · simp [hwa]
      · simp [hwa]

/-- every name stored for the table under the word sequence `ws` stands for the license `s` -/
def OwnedBy (c : Cls) (T : Table) (ws : List Word) (s : Sym) : Prop :=
  (∃ a ∈ addsOf c T, wordsOf c a.1 = ws) ∧ ∀ a ∈ addsOf c T, wordsOf c a.1 = ws → a.2 = .sym s

/-- what the automaton of a table stores under a word sequence all of whose names belong to one license -/
theorem buildTrie_lookup (c : Cls) (T : Table) (ws : List Word) (hws : ws ≠ []) (s : Sym) (hown : OwnedBy c T ws s) :
    AC.KnownOK (buildTrie c T) ∧ ∃ e, (buildTrie c T).outputAt ws = some e ∧ e.words = ws ∧ e.val = .sym s := by
  obtain ⟨h1, h2, h3⟩ := addAll_lookup c (addsOf c T) ws hws Trie.empty rfl AC.empty_knownOK
  rw [buildTrie_adds]
  refine ⟨h2, ?_⟩
  have hout : (addAll c Trie.empty (addsOf c T)).makeAutomaton.outputAt ws = AC.lookupW (addAll c Trie.empty (addsOf c T)) ws := by
    have : ws.isEmpty = false := by cases ws <;> simp_all
    simp [Trie.outputAt, Trie.makeAutomaton, AC.lookupW, this]
  rw [hout, h3]
  cases hf : (addsOf c T).reverse.find? (fun a => wordsOf c a.1 = ws) with
  | none =>
    exfalso
    obtain ⟨a, ha, hwa⟩ := hown.1
    have := List.find?_eq_none.mp hf a (by simpa using ha)
    simp [hwa] at this
  | some a =>
    have ha : a ∈ addsOf c T := by simpa using List.mem_of_find?_eq_some hf
    have hwa : wordsOf c a.1 = ws := by simpa using List.find?_some hf
    exact ⟨_, rfl, rfl, hown.2 a ha hwa⟩

/-! ### a text that is one stored name -/

section alone
variable {V : Type}

theorem iterSpecGoU_at (c : Cls) (t : Trie V) (text : Str) (p : Piece) (post : List Piece) :
    ∀ (pre seen : List Piece), ∀ k ∈ hitsAt c t text (p :: pre.reverse ++ seen) p,
      k ∈ iterSpecGoU c t text seen (pre ++ p :: post) := by
  intro pre
  induction pre with
  | nil =>
    intro seen k hk
    replace hk : k ∈ hitsAt c t text (p :: seen) p := by simpa using hk
    simp only [List.nil_append, iterSpecGoU, List.mem_append]
    left
    have hne : (hitsAt c t text (p :: seen) p).isEmpty = false := by
      cases h : hitsAt c t text (p :: seen) p with
      | nil => rw [h] at hk; cases hk
      | cons _ _ => rfl
    simp [hne, hk]
  | cons a pre ih =>
    intro seen k hk
    simp only [List.cons_append, iterSpecGoU, List.mem_append]
    right
    apply ih (a :: seen)
    simpa [List.reverse_cons, List.append_assoc] using hk

theorem starts_increasing (ps : List Piece) (hok : PiecesOK ps) : ps.Pairwise (fun a b => a.start < b.start) := by
  have h2 := hok.2
  refine (List.Pairwise.and_mem.mp hok.1).imp ?_
  intro a b h
  have := h2 a h.1
  omega

theorem wordsOfSeen_reverse (c : Cls) (ps : List Piece) : wordsOfSeen c ps.reverse = ps.map (fun p => c.fold p.text) := by
  simp [wordsOfSeen, List.map_reverse]

/-- the pieces of the whole text, the last one singled out -/
structure Whole (c : Cls) (text : Str) (pre : List Piece) (last : Piece) (first : Piece) : Prop where
  ps : wordPieces c text = pre ++ [last]
  first : (pre ++ [last]).head? = some first

theorem whole_bounds (c : Cls) (text : Str) (pre : List Piece) (last first : Piece) (hw : Whole c text pre last first) :
    ∀ p ∈ wordPieces c text, first.start ≤ p.start ∧ p.stop ≤ last.stop ∧ (p.stop = last.stop → p = last) ∧
      (p.start = first.start → p = first) := by
  have hok := wordPieces_ok c text
  rw [hw.ps] at hok ⊢
  intro p hp
  have hfirst : ∃ r, pre ++ [last] = first :: r := by
    have := hw.first
    cases h : pre ++ [last] with
    | nil => simp at h
    | cons a r => rw [h] at this; simp at this; exact ⟨r, by rw [this]⟩
  obtain ⟨r, hr⟩ := hfirst
  have h1 := hok.1
  have h2 := hok.2
  refine ⟨?_, ?_, ?_, ?_⟩
  · rw [hr] at hp h1
    rw [List.pairwise_cons] at h1
    rcases List.mem_cons.mp hp with rfl | hp'
    · exact Nat.le_refl _
    · have := h1.1 p hp'
      have := h2 first (by rw [hr]; simp)
      omega
  · rw [List.pairwise_append] at h1
    rcases List.mem_append.mp hp with hp' | hp'
    · have := h1.2.2 p hp' last (by simp)
      have := h2 last (by simp)
      omega
    · simp at hp'; rw [hp']; exact Nat.le_refl _
  · intro hs
    rw [List.pairwise_append] at h1
    rcases List.mem_append.mp hp with hp' | hp'
    · have := h1.2.2 p hp' last (by simp)
      have := h2 last (by simp)
      omega
    · simpa using hp'
  · intro hs
    rw [hr] at hp h1
    rw [List.pairwise_cons] at h1
    rcases List.mem_cons.mp hp with rfl | hp'
    · rfl
    · have := h1.1 p hp'
      have := h2 first (by rw [hr]; simp)
      omega

theorem tails_self (ws : List Word) : ws ∈ tails ws := by cases ws <;> simp [tails]

theorem tails_suffix (ws q : List Word) (h : q ∈ tails ws) : q <:+ ws := by
  induction ws with
  | nil => simp [tails] at h; subst h; exact List.suffix_refl _
  | cons a as ih =>
    simp only [tails, List.mem_cons] at h
    rcases h with rfl | h
    · exact List.suffix_refl _
    · exact List.IsSuffix.trans (ih h) (List.suffix_cons a as)

theorem startBack_reverse (ps : List Piece) (n : Nat) (st : Nat) (first : Piece) (hf : ps.head? = some first)
    (hinc : ps.Pairwise (fun a b => a.start < b.start)) (h : startBack ps.reverse n = some st) (hst : st = first.start) :
    n = ps.length := by
  cases n with
  | zero => simp [startBack] at h
  | succ m =>
    simp only [startBack, Option.map_eq_some_iff] at h
    obtain ⟨q, hq, hqs⟩ := h
    have hm : m < ps.length := by
      have := (List.getElem?_eq_some_iff.mp hq).1
      simpa using this
    rw [List.getElem?_reverse hm] at hq
    cases ps with
    | nil => simp at hm
    | cons a r =>
      simp only [List.head?_cons, Option.some.injEq] at hf
      subst hf
      cases hk : (a :: r).length - 1 - m with
      | zero => simp only [List.length_cons] at hk hm ⊢; omega
      | succ k =>
        exfalso
        rw [hk] at hq
        simp only [List.getElem?_cons_succ] at hq
        have hmem : q ∈ r := List.mem_of_getElem? hq
        rw [List.pairwise_cons] at hinc
        have := hinc.1 q hmem
        omega

/-- **a text that is one stored name is one token** -/
theorem tokenize_alone (c : Cls) (t : Trie V) (hk : AC.KnownOK t) (text : Str) (e : TEntry V)
    (hne : wordsOf c text ≠ []) (ho : t.outputAt (wordsOf c text) = some e) (hew : e.words = wordsOf c text) :
    ∃ first last, first ∈ wordPieces c text ∧ last ∈ wordPieces c text ∧
      t.tokenize c text = [⟨first.start, last.stop, slice text first.start last.stop, some e.val⟩] := by
  have hok := wordPieces_ok c text
  -- the pieces: pre ++ [last], first in front
  have hpsne : wordPieces c text ≠ [] := by
    intro h; apply hne; simp [wordsOf, h]
  obtain ⟨pre, last, hps⟩ : ∃ pre last, wordPieces c text = pre ++ [last] :=
    ⟨_, _, (List.dropLast_concat_getLast hpsne).symm⟩
  obtain ⟨first, hfirst⟩ : ∃ first, (wordPieces c text).head? = some first := by
    cases h : wordPieces c text with
    | nil => exact absurd h hpsne
    | cons a r => exact ⟨a, rfl⟩
  have hw : Whole c text pre last first := ⟨hps, by rw [← hps]; exact hfirst⟩
  have hb := whole_bounds c text pre last first hw
  have hfm : first ∈ wordPieces c text := by
    cases h : wordPieces c text with
    | nil => exact absurd h hpsne
    | cons a r => rw [h] at hfirst; simp at hfirst; subst hfirst; simp
  have hlm : last ∈ wordPieces c text := by rw [hps]; simp
  refine ⟨first, last, hfm, hlm, ?_⟩
  -- the enumeration
  have hl := AC.iter_specU c t hk text
  have hseen : last :: pre.reverse ++ ([] : List Piece) = (wordPieces c text).reverse := by rw [hps]; simp
  have hwords : wordsOfSeen c (last :: pre.reverse ++ ([] : List Piece)) = wordsOf c text := by
    rw [hseen, wordsOfSeen_reverse]; rfl
  have hinc := starts_increasing _ hok
  have hlen : e.words.length = (wordPieces c text).length := by rw [hew]; simp [wordsOf]
  have hsb : startBack (last :: pre.reverse ++ ([] : List Piece)) e.words.length = some first.start := by
    rw [hseen, hlen]
    have hpos : 0 < (wordPieces c text).length := List.length_pos_iff.mpr hpsne
    obtain ⟨n, hn⟩ : ∃ n, (wordPieces c text).length = n + 1 := ⟨_, (Nat.succ_pred_eq_of_pos hpos).symm⟩
    rw [hn]
    simp only [startBack]
    rw [List.getElem?_reverse (by omega)]
    have : (wordPieces c text).length - 1 - n = 0 := by omega
    rw [this]
    cases h : wordPieces c text with
    | nil => exact absurd h hpsne
    | cons a r => rw [h] at hfirst; simp at hfirst; subst hfirst; simp
  let K : Tok V := ⟨first.start, last.stop, slice text first.start last.stop, some e.val⟩
  have hKhits : K ∈ hitsAt c t text (last :: pre.reverse ++ ([] : List Piece)) last := by
    simp only [hitsAt, List.mem_filterMap, Option.map_eq_some_iff]
    refine ⟨e, ⟨wordsOf c text, ?_, ho⟩, first.start, hsb, rfl⟩
    rw [hwords]; exact tails_self _
  have hKl : K ∈ t.iter c text true := by
    rw [hl, hps]
    have := iterSpecGoU_at c t text last [] pre [] K hKhits
    simpa using this
  -- a token of the scan with the whole span is K
  have huniq : ∀ x ∈ t.iter c text true, x.s = first.start → x.e = last.stop → x = K := by
    intro x hx hxs hxe
    rw [hl] at hx
    obtain ⟨pre', p, post', hsplit, h1, h2, h3⟩ := iterSpecGoU_mem c t text _ [] x hx
    have hpm : p ∈ wordPieces c text := by rw [hsplit]; simp
    have hpl : p = last := (hb p hpm).2.2.1 (by rw [← h1, hxe])
    subst hpl
    have hpost : post' = [] := by
      cases post' with
      | nil => rfl
      | cons q r =>
        exfalso
        have hqm : q ∈ wordPieces c text := by rw [hsplit]; simp
        have h4 := hok.1
        rw [hsplit, List.pairwise_append] at h4
        have := (List.pairwise_cons.mp h4.2.1).1 q (by simp)
        have := (hb q hqm).2.1
        have := hok.2 q hqm
        omega
    subst hpost
    have hpre : pre' = pre := by
      have := hsplit.symm.trans hps
      exact List.append_inj_left' this rfl
    subst hpre
    rcases h3 with ⟨_, _, hnone⟩ | ⟨e', he', hsb', hval⟩
    · rw [hnone] at hKhits; cases hKhits
    · simp only [List.mem_filterMap] at he'
      obtain ⟨q, hq, hoq⟩ := he'
      obtain ⟨_, _, hqw⟩ := AC.outputAt_node t q e' hoq
      rw [hwords] at hq
      have hsuf := tails_suffix _ _ hq
      rw [hseen] at hsb'
      have hn := startBack_reverse _ _ _ first hfirst hinc hsb' hxs
      have hqlen : q.length = (wordsOf c text).length := by rw [← hqw, hn]; simp [wordsOf]
      have hqeq : q = wordsOf c text := List.IsSuffix.eq_of_length hsuf hqlen
      subst hqeq
      rw [ho] at hoq
      have : e = e' := by simpa using hoq
      subst this
      cases x
      simp only [K, Tok.mk.injEq]
      simp only at hxs hxe h2 hval
      exact ⟨hxs, hxe, by rw [h2, hxs, hxe], hval⟩
  -- K survives the overlap sweep
  have hKkept : K ∈ filterOverlapping (t.iter c text true) := by
    apply C17_leftmost_longest _ K hKl
    intro x hx
    obtain ⟨p, hp, q, hq, hs, he', _⟩ := iter_aligned c t text true x hx
    have b1 := (hb p hp).1
    have b2 := (hb q hq).2.1
    by_cases hwhole : x.s = first.start ∧ x.e = last.stop
    · exact Or.inl (huniq x hx hwhole.1 hwhole.2)
    · right; left
      simp only [Tok.ilen, Gen.len, K]
      have hxle := aligned_ne _ hok x (iter_aligned c t text true x hx)
      omega
  have hKtok : K ∈ t.tokenize c text := by
    unfold Trie.tokenize addUncovered
    rw [sortToks_mem]
    exact List.mem_append_left _ hKkept
  -- every token of the result covers its first piece, which K covers too: it is K
  obtain ⟨c1, c2, _⟩ := C17_cover c t text
  have hall : ∀ k ∈ t.tokenize c text, k = K := by
    intro k hk'
    obtain ⟨p, hp, q, hq, hs, he', hpq⟩ := c2 k hk'
    have hpstop : p.stop ≤ q.stop := by
      rcases pieces_trichotomy _ hok p q hp hq with rfl | h | h
      · exact Nat.le_refl _
      · have := hok.2 q hq; omega
      · have := hok.2 q hq; have := hok.2 p hp; omega
    exact C17_once c t text p k K hk' hKtok (hok.2 p hp) ⟨by omega, by omega⟩
      ⟨by simp only [K]; exact (hb p hp).1, by simp only [K]; exact (hb p hp).2.1⟩
  have hKne : K.s ≤ K.e := aligned_ne _ hok K (iter_aligned c t text true K hKl)
  cases hT : t.tokenize c text with
  | nil => rw [hT] at hKtok; cases hKtok
  | cons a r =>
    rw [hT] at hall c1
    have ha := hall a (by simp)
    cases r with
    | nil => rw [ha]
    | cons b r' =>
      exfalso
      have hb' := hall b (by simp)
      rw [List.pairwise_cons] at c1
      have := c1.1 b (by simp)
      rw [ha, hb'] at this
      omega

end alone

/-! ### from the single token to the license -/

/-- **a stored name alone**: a text whose folded words are those of names that all belong to the license
    `s` — whatever its letter case and the blanks between its words — parses to `s`, also strictly
    unless `s` is an exception -/
theorem parse_alone_strict (c : Cls) (hc : ClsOK c) (T : Table) (text : Str) (s : Sym) (strict : Bool)
    (hstrict : strict = true → s.exc = false)
    (hne : wordsOf c text ≠ []) (hown : OwnedBy c T (wordsOf c text) s) :
    parseFull c T false strict false text = .ok (.atom (.lic s)) := by
  obtain ⟨hk, e, ho, hew, hval⟩ := buildTrie_lookup c T _ hne s hown
  obtain ⟨first, last, _, _, htok⟩ := tokenize_alone c (buildTrie c T) hk text e hne ho hew
  have hnb : (text.isEmpty || isBlank c text) = false := by
    rw [Bool.or_eq_false_iff]
    constructor
    · cases text with
      | nil => exact absurd (by simp [wordsOf, wordPieces, pieces, lexGo]) hne
      | cons _ _ => rfl
    · cases hb : isBlank c text with
      | false => rfl
      | true => exact absurd (blank_no_words c hc text hb) hne
  unfold parseFull parseFullW
  simp only [hnb, Bool.false_eq_true, ↓reduceIte]
  have hl : ltokW c T (buildTrie c T) false strict text =
      .ok [⟨.sym (.lic s), slice text first.start last.stop, first.start⟩] := by
    unfold ltokW rawTokensW advancedTokensW
    simp only [Bool.false_eq_true, ↓reduceIte, htok, List.map_cons, List.map_nil, ofTok, hval]
    have hm := mergeUnknown_known c [(⟨first.start, last.stop, slice text first.start last.stop, SVal.sym s⟩ : STok)]
      (by intro t ht; simp at ht; subst ht; simp)
    have hx : (strict && s.exc) = false := by
      cases strict with
      | false => rfl
      | true => simp [hstrict rfl]
    simp [bind, Except.bind, hm, groupWith, single, Except.map, toPToks, toPTok, hx]
  rw [hl]
  rfl

theorem parse_alone (c : Cls) (hc : ClsOK c) (T : Table) (text : Str) (s : Sym)
    (hne : wordsOf c text ≠ []) (hown : OwnedBy c T (wordsOf c text) s) :
    parseFull c T false false false text = .ok (.atom (.lic s)) :=
  parse_alone_strict c hc T text s false (by intro h; cases h) hne hown

/-- … and validates without errors: `validate()` reports the canonical key and no error -/
theorem validate_alone (c : Cls) (hc : ClsOK c) (T : Table) (text : Str) (s : Sym) (strict : Bool)
    (hstrict : strict = true → s.exc = false) (hknown : (knownKeys T).contains s.key = true)
    (hne : wordsOf c text ≠ []) (hown : OwnedBy c T (wordsOf c text) s) :
    validateFull c T strict text = .info ⟨some s.key, 0, []⟩ := by
  have h1 := parse_alone_strict c hc T text s strict hstrict hne hown
  have h2 := parse_alone c hc T text s hne hown
  unfold parseFull at h1 h2
  unfold validateFull validateFullW
  rw [h1]
  simp only [h2]
  have hk : unknownKeys (knownKeys T) (Expr.atom (Atom.lic s)) true = [] := by
    have hmem : s.key ∈ knownKeys T := by simpa using hknown
    simp [unknownKeys, unknownSymbols, licenseSymbols, literals, Atom.decompose, keysOf, orderedUniqueAcc, atomKey, hmem,
      List.filter_cons]
  simp [hk, renderStr, renderWith, Atom.render]

end LE
