import LicenseExpr.Lemmas.Render
import LicenseExpr.Lemmas.NormalForm
/-!
# Lemmas/WF — every node of a normal form has at least two operands
-/
namespace LE
namespace BP
variable {α : Type}

theorem WFL_of_mem : ∀ (es : List (Expr α)), (∀ e, e ∈ es → WFE e) → WFL es
  | [], _ => by simp [WFL]
  | x :: xs, h => by
    simp only [WFL]
    exact ⟨h x (by simp), WFL_of_mem xs (fun e he => h e (List.mem_cons_of_mem _ he))⟩

end BP

theorem NF_WFE {A : Type} [DecidableEq A] (lt : Expr A → Expr A → Bool) : ∀ (e : Expr A), NF lt e → BP.WFE e
  | .atom _, _ => by simp [BP.WFE]
  | .node op l, h => by
    cases h with
    | node _ _ h2 hnf _ _ _ =>
      simp only [BP.WFE]
      exact ⟨h2, BP.WFL_of_mem l (fun e he => NF_WFE lt e (hnf e he))⟩
termination_by e => sizeOf e
decreasing_by
  simp_wf
  have := List.sizeOf_lt_of_mem he
  omega

end LE
