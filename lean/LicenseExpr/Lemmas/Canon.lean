import LicenseExpr.Lemmas.Rewrite
import LicenseExpr.Lemmas.Order
/-!
# Lemmas/Canon — normal forms that are `==` are identical, when the symbols are totally ordered

`ltE` (symbols by `ltA`, a symbol before a node, AND before OR, nodes of one kind lexicographically)
is a strict total order on normal forms whose literals come from a set on which `ltA` is one. Two
sorted, duplicate-free operand lists with the same members are then the same list, so `eqE` between
normal forms is equality (`nf_eq_of_eqE`).
-/
set_option linter.unusedSectionVars false
namespace LE
variable {A : Type} [DecidableEq A]

/-! ### two sorted duplicate-free lists with the same members are equal (generic) -/

section generic
variable {α : Type}

theorem strict_of_sorted (lt : α → α → Bool) (l : List α)
    (tri : ∀ x ∈ l, ∀ y ∈ l, lt x y = true ∨ x = y ∨ lt y x = true)
    (trans : ∀ x ∈ l, ∀ y ∈ l, ∀ z ∈ l, lt x y = true → lt y z = true → lt x z = true)
    (hnd : l.Nodup) (hs : ∀ pre a b post, l = pre ++ a :: b :: post → lt b a = false) :
    l.Pairwise (fun a b => lt a b = true) := by
  induction l with
  | nil => exact List.Pairwise.nil
  | cons a r ih =>
    rw [List.nodup_cons] at hnd
    have ihr := ih (fun x hx y hy => tri x (List.mem_cons_of_mem _ hx) y (List.mem_cons_of_mem _ hy))
      (fun x hx y hy z hz => trans x (List.mem_cons_of_mem _ hx) y (List.mem_cons_of_mem _ hy) z (List.mem_cons_of_mem _ hz))
      hnd.2 (fun pre a' b post h => hs (a :: pre) a' b post (by rw [h]; rfl))
    refine List.Pairwise.cons ?_ ihr
    cases r with
    | nil => intro x hx; cases hx
    | cons b r' =>
      have hab : lt a b = true := by
        have h1 := hs [] a b r' rfl
        rcases tri a (by simp) b (by simp) with h | h | h
        · exact h
        · exact absurd (by rw [h]; simp) hnd.1
        · rw [h1] at h; cases h
      intro x hx
      simp only [List.mem_cons] at hx
      rcases hx with rfl | hx
      · exact hab
      · have hbx : lt b x = true := by
          rw [List.pairwise_cons] at ihr
          exact ihr.1 x hx
        exact trans a (by simp) b (by simp) x (by simp [hx]) hab hbx

theorem strict_lists_eq (lt : α → α → Bool) (asym : ∀ x y, lt x y = true → lt y x = false) :
    ∀ (l l' : List α), l.Pairwise (fun a b => lt a b = true) → l'.Pairwise (fun a b => lt a b = true) →
      (∀ x, x ∈ l ↔ x ∈ l') → l = l'
  | [], [], _, _, _ => rfl
  | [], y :: ys, _, _, h => by have := (h y).mpr (by simp); cases this
  | x :: xs, [], _, _, h => by have := (h x).mp (by simp); cases this
  | x :: xs, y :: ys, h1, h2, h => by
    rw [List.pairwise_cons] at h1 h2
    have irr : ∀ z, lt z z = false := by
      intro z; cases hz : lt z z with
      | false => rfl
      | true => have := asym z z hz; rw [hz] at this; cases this
    have hxy : x = y := by
      have hx := (h x).mp (by simp)
      have hy := (h y).mpr (by simp)
      simp only [List.mem_cons] at hx hy
      rcases hx with hx | hx
      · exact hx
      · rcases hy with hy | hy
        · exact hy.symm
        · have a1 := h2.1 x hx
          have a2 := h1.1 y hy
          rw [asym _ _ a1] at a2; cases a2
    subst hxy
    congr 1
    apply strict_lists_eq lt asym xs ys h1.2 h2.2
    intro z
    constructor
    · intro hz
      have := (h z).mp (List.mem_cons_of_mem _ hz)
      simp only [List.mem_cons] at this
      rcases this with rfl | this
      · have := h1.1 z hz; rw [irr] at this; cases this
      · exact this
    · intro hz
      have := (h z).mpr (List.mem_cons_of_mem _ hz)
      simp only [List.mem_cons] at this
      rcases this with rfl | this
      · have := h2.1 z hz; rw [irr] at this; cases this
      · exact this

end generic

theorem sorted_adjacent (lt : Expr A → Expr A → Bool) (l : List (Expr A)) (h : Sorted lt l) :
    ∀ pre a b post, l = pre ++ a :: b :: post → lt b a = false := by
  induction l with
  | nil => intro pre a b post h; simp at h
  | cons x xs ih =>
    intro pre a b post hl
    cases pre with
    | nil =>
      simp only [List.nil_append, List.cons.injEq] at hl
      obtain ⟨rfl, rfl⟩ := hl
      exact h.1
    | cons p pre' =>
      simp only [List.cons_append, List.cons.injEq] at hl
      obtain ⟨rfl, rfl⟩ := hl
      have hs' : Sorted lt (pre' ++ a :: b :: post) := by
        cases hp : pre' ++ a :: b :: post with
        | nil => trivial
        | cons q qs => rw [hp] at h; exact h.2
      exact ih hs' pre' a b post rfl

/-! ### the order on expressions -/

/-- `ltA` is a strict total order on the atoms in `S` -/
structure AtomOrd (ltA : A → A → Bool) (S : A → Prop) : Prop where
  asym : ∀ a b, ltA a b = true → ltA b a = false
  tri : ∀ a b, S a → S b → ltA a b = true ∨ a = b ∨ ltA b a = true
  trans : ∀ a b c, S a → S b → S c → ltA a b = true → ltA b c = true → ltA a c = true

/-- on the class `E` of expressions: `==` is equality and `lt` is a strict total order -/
structure OrdOn (lt : Expr A → Expr A → Bool) (E : Expr A → Prop) : Prop where
  eq : ∀ x y, E x → E y → eqE x y = true → x = y
  tri : ∀ x y, E x → E y → lt x y = true ∨ x = y ∨ lt y x = true
  trans : ∀ x y z, E x → E y → E z → lt x y = true → lt y z = true → lt x z = true

theorem ltL_tri (ltA : A → A → Bool) (E : Expr A → Prop) (hE : OrdOn (ltE ltA) E) :
    ∀ (xs ys : List (Expr A)), (∀ x ∈ xs, E x) → (∀ y ∈ ys, E y) →
      ltL ltA xs ys = true ∨ xs = ys ∨ ltL ltA ys xs = true
  | [], [], _, _ => Or.inr (Or.inl rfl)
  | [], _ :: _, _, _ => Or.inl (by simp [ltL])
  | _ :: _, [], _, _ => Or.inr (Or.inr (by simp [ltL]))
  | x :: xs, y :: ys, hx, hy => by
    have ex := hx x (by simp)
    have ey := hy y (by simp)
    unfold ltL
    rw [eqE_symm y x]
    by_cases h : eqE x y = true
    · have := hE.eq x y ex ey h
      subst this
      simp only [h, ↓reduceIte]
      rcases ltL_tri ltA E hE xs ys (fun a ha => hx a (List.mem_cons_of_mem _ ha)) (fun a ha => hy a (List.mem_cons_of_mem _ ha)) with h1 | h1 | h1
      · exact Or.inl h1
      · exact Or.inr (Or.inl (by rw [h1]))
      · exact Or.inr (Or.inr h1)
    · simp only [h, Bool.false_eq_true, ↓reduceIte]
      rcases hE.tri x y ex ey with h1 | h1 | h1
      · exact Or.inl h1
      · subst h1; rw [eqE_refl] at h; exact absurd rfl h
      · exact Or.inr (Or.inr h1)

theorem ltL_trans (ltA : A → A → Bool) (hA : ∀ a b, ltA a b = true → ltA b a = false)
    (E : Expr A → Prop) (hE : OrdOn (ltE ltA) E) :
    ∀ (xs ys zs : List (Expr A)), (∀ x ∈ xs, E x) → (∀ y ∈ ys, E y) → (∀ z ∈ zs, E z) →
      ltL ltA xs ys = true → ltL ltA ys zs = true → ltL ltA xs zs = true
  | [], [], _, _, _, _, h, _ => by simp [ltL] at h
  | [], _ :: _, [], _, _, _, _, h => by simp [ltL] at h
  | [], _ :: _, _ :: _, _, _, _, _, _ => by simp [ltL]
  | _ :: _, [], _, _, _, _, h, _ => by simp [ltL] at h
  | _ :: _, _ :: _, [], _, _, _, _, h => by simp [ltL] at h
  | x :: xs, y :: ys, z :: zs, hx, hy, hz, h1, h2 => by
    have ex := hx x (by simp)
    have ey := hy y (by simp)
    have ez := hz z (by simp)
    have hxs := fun a ha => hx a (List.mem_cons_of_mem _ ha)
    have hys := fun a ha => hy a (List.mem_cons_of_mem _ ha)
    have hzs := fun a ha => hz a (List.mem_cons_of_mem _ ha)
    unfold ltL at h1 h2 ⊢
    by_cases hxy : eqE x y = true
    · have := hE.eq x y ex ey hxy; subst this
      simp only [hxy, ↓reduceIte] at h1
      by_cases hyz : eqE x z = true
      · have := hE.eq x z ex ez hyz; subst this
        simp only [hyz, ↓reduceIte] at h2 ⊢
        exact ltL_trans ltA hA E hE xs ys zs hxs hys hzs h1 h2
      · simp only [hyz, Bool.false_eq_true, ↓reduceIte] at h2 ⊢
        exact h2
    · simp only [hxy, Bool.false_eq_true, ↓reduceIte] at h1
      by_cases hyz : eqE y z = true
      · have := hE.eq y z ey ez hyz; subst this
        simp only [hxy, Bool.false_eq_true, ↓reduceIte]
        exact h1
      · simp only [hyz, Bool.false_eq_true, ↓reduceIte] at h2
        have hxz : ¬ eqE x z = true := by
          intro h
          have := hE.eq x z ex ez h; subst this
          have := ltE_asymm ltA hA _ _ h1
          rw [this] at h2; cases h2
        simp only [hxz, Bool.false_eq_true, ↓reduceIte]
        exact hE.trans x y z ex ey ez h1 h2

theorem sizeOf_mem_lt (op : Op) (l : List (Expr A)) (a : Expr A) (ha : a ∈ l) : sizeOf a < sizeOf (Expr.node op l) := by
  have := List.sizeOf_lt_of_mem ha
  simp; omega

theorem literals_mem_node (op : Op) (l : List (Expr A)) (x : Expr A) (hx : x ∈ l) (a : A) (ha : a ∈ literals x) :
    a ∈ literals (Expr.node op l) := by
  rw [literals]
  simp only [List.mem_flatten, List.mem_map]
  exact ⟨literals x, ⟨x, hx, rfl⟩, ha⟩

/-- the class of normal forms of bounded size with literals in `S` -/
def Cl (ltA : A → A → Bool) (S : A → Prop) (n : Nat) (x : Expr A) : Prop :=
  sizeOf x ≤ n ∧ NF (ltE ltA) x ∧ ∀ a ∈ literals x, S a

theorem cl_mem (ltA : A → A → Bool) (S : A → Prop) (n : Nat) (op : Op) (l : List (Expr A))
    (h : Cl ltA S (n + 1) (.node op l)) : ∀ a ∈ l, Cl ltA S n a := by
  intro a ha
  obtain ⟨h1, h2, h3⟩ := h
  refine ⟨?_, ?_, ?_⟩
  · have := sizeOf_mem_lt op l a ha; omega
  · cases h2 with
    | node _ _ _ hnf _ _ _ => exact hnf a ha
  · intro b hb; exact h3 b (literals_mem_node op l a ha b hb)

theorem distinct_nodup (l : List (Expr A)) (h : Distinct l) : l.Nodup := by
  unfold Distinct at h
  refine h.imp ?_
  intro a b hab heq
  subst heq
  rw [eqE_refl] at hab; cases hab

theorem ordOn_step (ltA : A → A → Bool) (S : A → Prop) (hA : AtomOrd ltA S) (n : Nat)
    (ih : OrdOn (ltE ltA) (Cl ltA S n)) : OrdOn (ltE ltA) (Cl ltA S (n + 1)) := by
  have hmono : ∀ x, Cl ltA S n x → Cl ltA S (n + 1) x := fun x h => ⟨by have := h.1; omega, h.2⟩
  refine ⟨?_, ?_, ?_⟩
  · -- == is equality
    intro x y hx hy he
    cases x with
    | atom a => cases y with
      | atom b => rw [eqE_atom_atom] at he; rw [he]
      | node o l => rw [eqE_atom_node] at he; cases he
    | node o l => cases y with
      | atom b => rw [eqE_node_atom] at he; cases he
      | node o' l' =>
        obtain ⟨rfl, h1, h2⟩ := (eqE_node_iff _ _ _ _).mp he
        have cl := cl_mem ltA S n o l hx
        have cl' := cl_mem ltA S n o l' hy
        congr 1
        obtain ⟨_, hnf, _⟩ := hx
        obtain ⟨_, hnf', _⟩ := hy
        cases hnf with
        | node _ _ _ _ _ hd hs =>
        cases hnf' with
        | node _ _ _ _ _ hd' hs' =>
        have hmem : ∀ z, z ∈ l ↔ z ∈ l' := by
          intro z
          constructor
          · intro hz
            obtain ⟨b, hb, hzb⟩ := h1 z hz
            rw [ih.eq z b (cl z hz) (cl' b hb) hzb]; exact hb
          · intro hz
            obtain ⟨a, ha, hza⟩ := h2 z hz
            rw [ih.eq z a (cl' z hz) (cl a ha) hza]; exact ha
        have asym := ltE_asymm ltA hA.asym
        have st := strict_of_sorted (ltE ltA) l (fun x hx y hy => ih.tri x y (cl x hx) (cl y hy))
          (fun x hx y hy z hz => ih.trans x y z (cl x hx) (cl y hy) (cl z hz)) (distinct_nodup l hd)
          (sorted_adjacent _ l hs)
        have st' := strict_of_sorted (ltE ltA) l' (fun x hx y hy => ih.tri x y (cl' x hx) (cl' y hy))
          (fun x hx y hy z hz => ih.trans x y z (cl' x hx) (cl' y hy) (cl' z hz)) (distinct_nodup l' hd')
          (sorted_adjacent _ l' hs')
        exact strict_lists_eq (ltE ltA) asym l l' st st' hmem
  · -- trichotomy
    intro x y hx hy
    cases x with
    | atom a => cases y with
      | atom b =>
        have sa := hx.2.2 a (by simp [literals])
        have sb := hy.2.2 b (by simp [literals])
        rcases hA.tri a b sa sb with h | h | h
        · left; simpa [ltE] using h
        · right; left; rw [h]
        · right; right; simpa [ltE] using h
      | node o l => left; simp [ltE]
    | node o l => cases y with
      | atom b => right; right; simp [ltE]
      | node o' l' =>
        by_cases ho : o = o'
        · subst ho
          have cl := cl_mem ltA S n o l hx
          have cl' := cl_mem ltA S n o l' hy
          rcases ltL_tri ltA _ ih l l' cl cl' with h | h | h
          · left; unfold ltE; simpa using h
          · right; left; rw [h]
          · right; right; unfold ltE; simpa using h
        · cases o <;> cases o' <;> simp_all [ltE, sortOrder]
  · -- transitivity
    intro x y z hx hy hz h1 h2
    cases x with
    | atom a => cases y with
      | atom b => cases z with
        | atom c =>
          have sa := hx.2.2 a (by simp [literals])
          have sb := hy.2.2 b (by simp [literals])
          have sc := hz.2.2 c (by simp [literals])
          simp only [ltE] at h1 h2 ⊢
          exact hA.trans a b c sa sb sc h1 h2
        | node o l => simp [ltE]
      | node o l => cases z with
        | atom c => simp [ltE] at h2
        | node o' l' => simp [ltE]
    | node o l => cases y with
      | atom b => simp [ltE] at h1
      | node o' l' => cases z with
        | atom c => simp [ltE] at h2
        | node o'' l'' =>
          have cl := cl_mem ltA S n o l hx
          have cl' := cl_mem ltA S n o' l' hy
          have cl'' := cl_mem ltA S n o'' l'' hz
          by_cases h12 : o = o'
          · subst h12
            by_cases h23 : o = o''
            · subst h23
              unfold ltE at h1 h2 ⊢
              simp only [ne_eq, not_true_eq_false, ↓reduceIte] at h1 h2 ⊢
              exact ltL_trans ltA hA.asym _ ih l l' l'' cl cl' cl'' h1 h2
            · unfold ltE at h2 ⊢
              simp only [ne_eq, h23, not_false_eq_true, ↓reduceIte] at h2 ⊢
              exact h2
          · by_cases h23 : o' = o''
            · subst h23
              unfold ltE at h1 ⊢
              simp only [ne_eq, h12, not_false_eq_true, ↓reduceIte] at h1 ⊢
              exact h1
            · exfalso
              unfold ltE at h1 h2
              simp only [ne_eq, h12, h23, not_false_eq_true, ↓reduceIte] at h1 h2
              cases o <;> cases o' <;> cases o'' <;> simp_all [sortOrder]

theorem ordOn_all (ltA : A → A → Bool) (S : A → Prop) (hA : AtomOrd ltA S) :
    ∀ n, OrdOn (ltE ltA) (Cl ltA S n)
  | 0 => by
    have h0 : ∀ x : Expr A, ¬ Cl ltA S 0 x := by
      intro x h
      have := h.1
      cases x <;> simp at this <;> omega
    exact ⟨fun x _ hx => absurd hx (h0 x), fun x _ hx => absurd hx (h0 x), fun x _ _ hx => absurd hx (h0 x)⟩
  | n + 1 => ordOn_step ltA S hA n (ordOn_all ltA S hA n)

/-- **normal forms that are `==` are identical**, when the symbols involved are totally ordered -/
theorem nf_eq_of_eqE (ltA : A → A → Bool) (S : A → Prop) (hA : AtomOrd ltA S) (x y : Expr A)
    (hx : NF (ltE ltA) x) (hy : NF (ltE ltA) y) (sx : ∀ a ∈ literals x, S a) (sy : ∀ a ∈ literals y, S a)
    (h : eqE x y = true) : x = y := by
  have := ordOn_all ltA S hA (max (sizeOf x) (sizeOf y))
  exact this.eq x y ⟨Nat.le_max_left _ _, hx, sx⟩ ⟨Nat.le_max_right _ _, hy, sy⟩ h

end LE
