import LicenseExpr.Lemmas.BParse
/-!
# Lemmas/BSound — the stack machine never crashes
-/
namespace LE
namespace BP
variable {α : Type}

def isCrash : PErr → Bool
  | .crashIndex => true
  | .crashAssert => true
  | _ => false

theorem mk_not_crash (op : FOp) (l : List (Expr α)) (e : PErr) (h : mk op l = .error e) : isCrash e = false := by
  unfold mk at h
  cases op <;> simp at h <;> (try split at h) <;> simp_all [isCrash]
  all_goals (subst h; rfl)

theorem startOp_err (op : FOp) (f : Frame α) (S : Stack α) (hf : f.ritems ≠ []) (e : PErr)
    (h : startOp op f S = .error e) : isCrash e = false := by
  fun_induction startOp op f S <;> simp_all [isCrash]
  all_goals (first | (subst h; exact mk_not_crash _ _ _ ‹_›) | skip)

theorem startOp_ok (op : FOp) (f : Frame α) (S : Stack α) (st' : Stack α)
    (h : startOp op f S = .ok st') : st' ≠ [] := by
  fun_induction startOp op f S <;> simp_all
  all_goals (subst h; simp)

theorem startOp_nc (op : FOp) (f : Frame α) (S : Stack α) (hf : f.ritems ≠ []) :
    (∀ e, startOp op f S = .error e → isCrash e = false) ∧ (∀ st', startOp op f S = .ok st' → st' ≠ []) :=
  ⟨fun e h => startOp_err op f S hf e h, fun st' h => startOp_ok op f S st' h⟩

theorem closeParen_err (f : Frame α) (S : Stack α) (hf : f.ritems ≠ []) (e : PErr)
    (h : closeParen f S = .error e) : isCrash e = false := by
  fun_induction closeParen f S <;> simp_all [isCrash, List.getLast?_eq_none_iff]
  all_goals (first | (subst h; first | rfl | exact mk_not_crash _ _ _ ‹_›) | skip)

theorem closeParen_ok (f : Frame α) (S : Stack α) (st' : Stack α)
    (h : closeParen f S = .ok st') : ∃ g G, st' = g :: G ∧ g.ritems ≠ [] := by
  fun_induction closeParen f S <;> simp_all
  all_goals (subst h; simp)

theorem closeParen_nc (f : Frame α) (S : Stack α) (hf : f.ritems ≠ []) :
    (∀ e, closeParen f S = .error e → isCrash e = false) ∧
    (∀ st', closeParen f S = .ok st' → ∃ g G, st' = g :: G ∧ g.ritems ≠ []) :=
  ⟨fun e h => closeParen_err f S hf e h, fun st' h => closeParen_ok f S st' h⟩

/-- the no-crash invariant: the stack is never empty, and right after an operand the top frame has one -/
def NC (s : PState α) : Prop :=
  ∃ f S, s.st = f :: S ∧ (EndTok s.prev → f.ritems ≠ []) ∧ (s.prev = none → S = [])

theorem stepS_nc (s : PState α) (t : Tok α) (h : NC s) :
    (∀ e, stepS s t = .error e → isCrash e = false) ∧ (∀ s', stepS s t = .ok s' → NC s') := by
  obtain ⟨f, S, hst, hend, hnone⟩ := h
  obtain ⟨prev, st⟩ := s
  simp only at hst hend hnone; subst hst
  cases t with
  | sym a =>
    constructor
    · intro e h
      rcases prev with _ | (_ | _ | _ | _ | _) <;> simp_all [stepS, step, adjCheck, isSym, isOp, bind, Except.bind, isCrash, pure, Except.pure] <;> (subst h; rfl)
    · intro s' h
      rcases prev with _ | (_ | _ | _ | _ | _) <;> simp_all [stepS, step, adjCheck, isSym, isOp, bind, Except.bind, pure, Except.pure]
      all_goals (subst h; exact ⟨_, _, rfl, by simp, by simp⟩)
  | lpar =>
    constructor
    · intro e h
      rcases prev with _ | (_ | _ | _ | _ | _) <;> simp_all [stepS, step, adjCheck, isSym, isOp, bind, Except.bind, isCrash, pure, Except.pure] <;> (subst h; rfl)
    · intro s' h
      rcases prev with _ | (_ | _ | _ | _ | _) <;> simp_all [stepS, step, adjCheck, isSym, isOp, bind, Except.bind, pure, Except.pure]
      all_goals (subst h; exact ⟨_, _, rfl, by simp [EndTok], by simp⟩)
  | and =>
    by_cases he : EndTok prev
    · have hs := step_and prev (f :: S) he
      have hn := startOp_nc .and f S (hend he)
      rw [hs]
      constructor
      · intro e h
        cases hso : startOpS .and (f :: S) with
        | error e' => simp [hso, Except.map] at h; subst h; exact hn.1 _ (by simpa [startOpS] using hso)
        | ok st' => simp [hso, Except.map] at h
      · intro s' h
        cases hso : startOpS .and (f :: S) with
        | error e' => simp [hso, Except.map] at h
        | ok st' =>
          simp [hso, Except.map] at h; subst h
          obtain ⟨g, G, hg⟩ := List.exists_cons_of_ne_nil (hn.2 st' (by simpa [startOpS] using hso))
          exact ⟨g, G, hg, by simp [EndTok], by simp⟩
    · constructor
      · intro e h
        rcases prev with _ | (_ | _ | _ | _ | _) <;> simp_all [EndTok, stepS, step, adjCheck, isSym, isOp, bind, Except.bind, isCrash] <;> (subst h; rfl)
      · intro s' h
        rcases prev with _ | (_ | _ | _ | _ | _) <;> simp_all [EndTok, stepS, step, adjCheck, isSym, isOp, bind, Except.bind]
  | or =>
    by_cases he : EndTok prev
    · have hs := step_or prev (f :: S) he
      have hn := startOp_nc .or f S (hend he)
      rw [hs]
      constructor
      · intro e h
        cases hso : startOpS .or (f :: S) with
        | error e' => simp [hso, Except.map] at h; subst h; exact hn.1 _ (by simpa [startOpS] using hso)
        | ok st' => simp [hso, Except.map] at h
      · intro s' h
        cases hso : startOpS .or (f :: S) with
        | error e' => simp [hso, Except.map] at h
        | ok st' =>
          simp [hso, Except.map] at h; subst h
          obtain ⟨g, G, hg⟩ := List.exists_cons_of_ne_nil (hn.2 st' (by simpa [startOpS] using hso))
          exact ⟨g, G, hg, by simp [EndTok], by simp⟩
    · constructor
      · intro e h
        rcases prev with _ | (_ | _ | _ | _ | _) <;> simp_all [EndTok, stepS, step, adjCheck, isSym, isOp, bind, Except.bind, isCrash] <;> (subst h; rfl)
      · intro s' h
        rcases prev with _ | (_ | _ | _ | _ | _) <;> simp_all [EndTok, stepS, step, adjCheck, isSym, isOp, bind, Except.bind]
  | rpar =>
    by_cases he : EndTok prev
    · have hs := step_rpar prev (f :: S) he
      have hn := closeParen_nc f S (hend he)
      rw [hs]
      constructor
      · intro e h
        cases hso : closeParenS (f :: S) with
        | error e' => simp [hso, Except.map] at h; subst h; exact hn.1 _ (by simpa [closeParenS] using hso)
        | ok st' => simp [hso, Except.map] at h
      · intro s' h
        cases hso : closeParenS (f :: S) with
        | error e' => simp [hso, Except.map] at h
        | ok st' =>
          simp [hso, Except.map] at h; subst h
          obtain ⟨g, G, hg, hne⟩ := hn.2 st' (by simpa [closeParenS] using hso)
          exact ⟨g, G, hg, fun _ => hne, by simp⟩
    · constructor
      · intro e h
        rcases prev with _ | (_ | _ | _ | _ | _) <;> simp_all [EndTok, stepS, step, adjCheck, isSym, isOp, bind, Except.bind, isCrash, closeParen]
        all_goals (first | (subst h; rfl) | skip)
      · intro s' h
        rcases prev with _ | (_ | _ | _ | _ | _) <;> simp_all [EndTok, stepS, step, adjCheck, isSym, isOp, bind, Except.bind, closeParen]

theorem run_nc (ts : List (Tok α)) (s : PState α) (h : NC s) :
    (∀ e, run s ts = .error e → isCrash e = false) ∧ (∀ s', run s ts = .ok s' → NC s') := by
  induction ts generalizing s with
  | nil => simp [run_nil]; exact h
  | cons t ts ih =>
    rw [run_cons]
    have hst := stepS_nc s t h
    cases hs : stepS s t with
    | error e' =>
      constructor
      · intro e he; simp [hs, bind, Except.bind] at he; subst he; exact hst.1 _ hs
      · intro s' he; simp [hs, bind, Except.bind] at he
    | ok s1 =>
      simpa [hs, bind, Except.bind] using ih s1 (hst.2 s1 hs)

theorem finish_nc (f : Frame α) (S : Stack α) (e : PErr) (h : finish f S = .error e) : isCrash e = false := by
  fun_induction finish f S <;> simp_all [isCrash]
  all_goals (first | (subst h; first | rfl | exact mk_not_crash _ _ _ ‹_›) | exact mk_not_crash _ _ _ h | skip)

theorem init_nc : NC (init : PState α) := ⟨_, _, rfl, by simp [EndTok, init], by simp⟩

/-- on every token list the machine returns a tree or one of the proper errors -/
theorem parse_no_crash (ts : List (Tok α)) (e : PErr) (h : parse ts = .error e) : isCrash e = false := by
  unfold parse at h
  have hr := run_nc ts _ (init_nc (α := α))
  cases hrun : run (init : PState α) ts with
  | error e' => simp [hrun, bind, Except.bind] at h; subst h; exact hr.1 _ hrun
  | ok s' =>
    simp [hrun, bind, Except.bind] at h
    obtain ⟨f, S, hst, _⟩ := hr.2 s' hrun
    rw [hst] at h
    exact finish_nc f S e h

/-! ### the index-reporting variant agrees with the plain machine -/

theorem runAt_ok (s : PState α) (i : Nat) (ts : List (Tok α)) (s' : PState α) :
    runAt s i ts = .ok s' ↔ run s ts = .ok s' := by
  induction ts generalizing s i with
  | nil => simp [runAt]
  | cons t ts ih =>
    rw [run_cons]
    unfold runAt
    cases hs : stepS s t with
    | error e => simp [bind, Except.bind]
    | ok s1 => simpa [bind, Except.bind] using ih s1 (i+1)

theorem runAt_err (s : PState α) (i : Nat) (ts : List (Tok α)) (e : PErr) (k : Option Nat) :
    runAt s i ts = .error (e, k) → run s ts = .error e := by
  induction ts generalizing s i with
  | nil => simp [runAt]
  | cons t ts ih =>
    rw [run_cons]
    unfold runAt
    cases hs : stepS s t with
    | error e' => simp [bind, Except.bind]; intro h _; exact h
    | ok s1 => simpa [bind, Except.bind] using ih s1 (i+1)

theorem parseAt_ok (ts : List (Tok α)) (e : Expr α) : parseAt ts = .ok e ↔ parse ts = .ok e := by
  unfold parseAt parse
  cases hr : runAt (init : PState α) 0 ts with
  | error x =>
    obtain ⟨e', k⟩ := x
    have := runAt_err _ _ _ _ _ hr
    simp [this, bind, Except.bind]
  | ok s =>
    have := (runAt_ok _ _ _ _).mp hr
    simp only [this, bind, Except.bind]
    cases hst : s.st with
    | nil => simp
    | cons c r =>
      simp only
      cases hf : finish c r <;> simp

theorem parseAt_err (ts : List (Tok α)) (e : PErr) (k : Option Nat) : parseAt ts = .error (e, k) → parse ts = .error e := by
  unfold parseAt parse
  cases hr : runAt (init : PState α) 0 ts with
  | error x =>
    obtain ⟨e', k'⟩ := x
    have := runAt_err _ _ _ _ _ hr
    simp only [this, bind, Except.bind]
    intro h; cases h; rfl
  | ok s =>
    have := (runAt_ok _ _ _ _).mp hr
    simp only [this, bind, Except.bind]
    cases hst : s.st with
    | nil => simp; intro h _; exact h.symm ▸ rfl
    | cons c r =>
      simp only
      cases hf : finish c r <;> simp
      intro h _; exact h

theorem parseAt_no_crash (ts : List (Tok α)) (e : PErr) (k : Option Nat) (h : parseAt ts = .error (e, k)) : isCrash e = false :=
  parse_no_crash ts e (parseAt_err ts e k h)

end BP
end LE
