import LicenseExpr.Lemmas.AC
import LicenseExpr.Model.Spec
/-!
# Lemmas/ACIter — the search loop of `Trie.iter` reports exactly the brute-force occurrences
-/
namespace LE
namespace AC
variable {V : Type}

theorem length_le_maxDepth_aux (N : List (List Word)) (m : Nat) :
    m ≤ N.foldl (fun m n => max m n.length) m ∧ ∀ n ∈ N, n.length ≤ N.foldl (fun m n => max m n.length) m := by
  induction N generalizing m with
  | nil => simp
  | cons a as ih =>
    simp only [List.foldl_cons, List.mem_cons]
    have := ih (max m a.length)
    refine ⟨by omega, ?_⟩
    rintro n (rfl | hn)
    · omega
    · exact this.2 n hn

theorem length_le_maxDepth (N : List (List Word)) (n : List Word) (h : n ∈ N) : n.length ≤ maxDepth N :=
  (length_le_maxDepth_aux N 0).2 n h

theorem node_length_le (N : List (List Word)) (p : List Word) (h : isNodeB N p = true) : p.length ≤ maxDepth N := by
  rcases (isNodeB_iff N p).mp h with rfl | ⟨n, hn, hp⟩
  · simp
  · exact Nat.le_trans hp.length_le (length_le_maxDepth N n hn)

/-- the stored entries know their words: what `add` maintains -/
def KnownOK (t : Trie V) : Prop := ∀ e ∈ t.entries, ∀ w ∈ e.words, t.known.contains w = true

theorem outputAt_node (t : Trie V) (q : List Word) (e : TEntry V) (h : t.outputAt q = some e) :
    isNodeB t.names q = true ∧ e ∈ t.entries ∧ e.words = q := by
  unfold Trie.outputAt at h
  split at h
  · simp at h
  · have hm := List.mem_of_find?_eq_some h
    have hp := List.find?_some h
    simp at hp
    refine ⟨?_, hm, hp⟩
    simp only [isNodeB, Bool.or_eq_true, List.any_eq_true]
    right
    exact ⟨e.words, by simp [Trie.names]; exact ⟨e, hm, rfl⟩, by rw [hp]; simp⟩

theorem filterMap_outputAt_nodes (t : Trie V) (l : List (List Word)) :
    (l.filter (isNodeB t.names)).filterMap (fun q => t.outputAt q) = l.filterMap (fun q => t.outputAt q) := by
  induction l with
  | nil => rfl
  | cons q qs ih =>
    simp only [List.filter_cons]
    split
    · simp [List.filterMap_cons, ih]
    · next hq =>
      have : t.outputAt q = none := by
        cases ho : t.outputAt q with
        | none => rfl
        | some e => exact absurd (outputAt_node t q e ho).1 hq
      simp [List.filterMap_cons, this, ih]

/-- an unknown word occurs in no stored name: no suffix that ends with it has an output -/
theorem tails_snoc_unknown (t : Trie V) (hk : KnownOK t) (ws : List Word) (w : Word) (hw : t.known.contains w = false) :
    (tails (ws ++ [w])).filterMap (fun q => t.outputAt q) = [] := by
  have key : ∀ q, w ∈ q → t.outputAt q = none := by
    intro q hq
    cases ho : t.outputAt q with
    | none => rfl
    | some e =>
      obtain ⟨_, hm, hwq⟩ := outputAt_node t q e ho
      have := hk e hm w (by rw [hwq]; exact hq)
      rw [hw] at this; cases this
  induction ws with
  | nil =>
    have h1 := key [w] (by simp)
    have h2 : t.outputAt ([] : List Word) = none := by simp [Trie.outputAt]
    simp [tails, h1, h2]
  | cons a as ih =>
    simp only [List.cons_append, tails, List.filterMap_cons]
    rw [key (a :: (as ++ [w])) (by simp)]
    exact ih

theorem lsuf_snoc_unknown (t : Trie V) (hk : KnownOK t) (ws : List Word) (w : Word) (hw : t.known.contains w = false) :
    lsuf t.names (ws ++ [w]) = [] := by
  symm
  apply longest_unique (N := t.names) (t := ws ++ [w])
  · refine ⟨List.nil_suffix, Or.inl rfl, ?_⟩
    intro u hu hun
    rcases List.suffix_concat_iff.mp hu with rfl | ⟨u', rfl, _⟩
    · simp
    · rcases hun with h | ⟨n, hn, hpre⟩
      · simp at h
      · exfalso
        simp only [Trie.names, List.mem_map] at hn
        obtain ⟨e, he, rfl⟩ := hn
        have := hk e he w (hpre.subset (by simp))
        rw [hw] at this; cases this
  · exact lsuf_longest _ _

theorem wordsOfSeen_cons (c : Cls) (p : Piece) (seen : List Piece) :
    wordsOfSeen c (p :: seen) = wordsOfSeen c seen ++ [c.fold p.text] := by
  simp [wordsOfSeen]

/-- **the search invariant**: started in the longest node-suffix of the words read so far, the loop
    of `Trie.iter` (without unmatched tokens) yields exactly what the brute-force enumeration yields -/
theorem iterGo_spec (c : Cls) (t : Trie V) (hk : KnownOK t) (text : Str) (ps seen : List Piece) :
    iterGo c t text false (maxDepth t.names) seen (lsuf t.names (wordsOfSeen c seen)) ps = iterSpecGo c t text seen ps := by
  induction ps generalizing seen with
  | nil => simp [iterGo, iterSpecGo]
  | cons p ps ih =>
    unfold iterGo iterSpecGo
    simp only
    have hws := wordsOfSeen_cons c p seen
    by_cases hw : t.known.contains (c.fold p.text) = true
    · -- a known word: one goto step, then the fail chain
      simp only [hw, Bool.not_true, Bool.false_eq_true, ↓reduceIte]
      have hnode := lsuf_isNode t.names (wordsOfSeen c seen)
      have hlen := node_length_le t.names _ hnode
      have hfail : ∀ s', s'.length ≤ maxDepth t.names → s' ≠ [] → failN t.names (maxDepth t.names) s' = lsuf t.names s'.tail :=
        fun s' hs' hne => failN_spec t.names _ s' hne hs'
      have hstate : follow t.names (failN t.names (maxDepth t.names)) (maxDepth t.names + 1)
          (lsuf t.names (wordsOfSeen c seen)) (c.fold p.text) = lsuf t.names (wordsOfSeen c (p :: seen)) := by
        rw [follow_spec t.names _ _ _ _ (fun s' hs' hne => hfail s' (by omega) hne) (by omega), hws, ← lsuf_snoc]
      rw [hstate]
      have hnode' := lsuf_isNode t.names (wordsOfSeen c (p :: seen))
      have hlen' := node_length_le t.names _ hnode'
      have hchain : chain (failN t.names (maxDepth t.names)) (maxDepth t.names + 1) (lsuf t.names (wordsOfSeen c (p :: seen)))
          = nodeSuffixes t.names (wordsOfSeen c (p :: seen)) := by
        rw [chain_spec t.names _ _ _ hnode' (fun s' hs' hne => hfail s' (by omega) hne) (by omega), ← nodeSuffixes_lsuf]
      rw [hchain]
      unfold nodeSuffixes
      rw [filterMap_outputAt_nodes]
      simp only [Bool.and_false, Bool.false_eq_true, ↓reduceIte]
      rw [ih (p :: seen)]
    · -- an unknown word: back to the root, nothing is reported
      have hw' : t.known.contains (c.fold p.text) = false := by simpa using hw
      simp only [hw', Bool.not_false, ↓reduceIte, Bool.false_eq_true, List.nil_append]
      have h1 := tails_snoc_unknown t hk (wordsOfSeen c seen) (c.fold p.text) hw'
      have h2 := lsuf_snoc_unknown t hk (wordsOfSeen c seen) (c.fold p.text) hw'
      rw [hws, h1]
      have := ih (p :: seen)
      rw [hws, h2] at this
      simpa using this

/-- `Trie.iter(text)` (matches only) is the brute-force enumeration of occurrences -/
theorem iter_spec (c : Cls) (t : Trie V) (hk : KnownOK t) (text : Str) :
    t.iter c text false = iterSpec c t text := by
  have := iterGo_spec c t hk text (wordPieces c text) []
  simpa [Trie.iter, iterSpec, wordsOfSeen, lsuf] using this

end AC
end LE
