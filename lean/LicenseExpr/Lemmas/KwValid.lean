import LicenseExpr.Lemmas.RenderSpelled
import LicenseExpr.Lemmas.Table
/-!
# Lemmas/KwValid — what `Licensing` accepts contains no name that reads as a bare operator

`validate_symbols` refuses a table in which a key or an alias is `and`, `or`, `with` or a
parenthesis (`kwKey`, `kwAlias`). It reads a key after `strip()` and an alias through the tokenizer's
word splitting (F9); the automaton stores the key as it is and the alias after `' '.join(alias.split())`.
Both read the same words (`wordsOf_collapse`, `single_word_strip`), so the premise `KwOwned` of the
in-context theorems follows from the table being accepted (`kwOwned_of_accepted`).
-/
namespace LE

/-! ### the words of a text survive `' '.join(s.split())` -/

theorem space_not_paren (c : Cls) (hc : ClsOK c) (x : Nat) (h : c.isSpace x = true) : x ≠ LPAR ∧ x ≠ RPAR := by
  constructor
  · intro hx; subst hx; rw [hc.parenNotSpace.1] at h; cases h
  · intro hx; subst hx; rw [hc.parenNotSpace.2] at h; cases h

theorem splitW_splitGo (c : Cls) (hc : ClsOK c) : ∀ (xs cur : Str),
    splitW c [] (cur.reverse ++ xs) = (splitGo c cur xs).flatMap (splitW c []) := by
  intro xs
  induction xs with
  | nil =>
    intro cur
    simp only [List.append_nil, splitGo]
    cases cur with
    | nil => simp [splitW, flushW]
    | cons a r => simp
  | cons x xs ih =>
    intro cur
    simp only [splitGo]
    by_cases hx : c.isSpace x = true
    · have hp := space_not_paren c hc x hx
      have hnw : ¬ kindOf c x = .word := by rw [kindOf_word]; simp [hx]
      have ih0 := ih []
      simp only [List.reverse_nil, List.nil_append] at ih0
      rw [splitW_append_nonword c cur.reverse (x :: xs) (Or.inr ⟨x, xs, rfl, hnw⟩) [],
        splitW_lead c x hx hp xs, ih0]
      simp only [hx, ↓reduceIte]
      cases cur with
      | nil => simp [splitW, flushW]
      | cons a r => simp
    · simp only [hx, Bool.false_eq_true, ↓reduceIte]
      have := ih (x :: cur)
      simpa [List.reverse_cons, List.append_assoc] using this

theorem splitW_joinStr (c : Cls) (hc : ClsOK c) : ∀ (ws : List Str),
    splitW c [] (joinStr [SPACE] ws) = ws.flatMap (splitW c [])
  | [] => by simp [joinStr, splitW, flushW]
  | [x] => by simp [joinStr]
  | x :: y :: r => by
    have ih := splitW_joinStr c hc (y :: r)
    have : joinStr [SPACE] (x :: y :: r) = x ++ SPACE :: joinStr [SPACE] (y :: r) := by simp [joinStr]
    rw [this, splitW_join c SPACE hc.space (by decide) x _ [], ih]
    simp

/-- **the automaton stores the words `validate_symbols` reads**: collapsing the whitespace of a name
    does not change its words -/
theorem unfoldedWords_collapse (c : Cls) (hc : ClsOK c) (s : Str) : unfoldedWords c (collapse c s) = unfoldedWords c s := by
  rw [unfoldedWords_splitW, unfoldedWords_splitW]
  unfold collapse splitWs
  rw [splitW_joinStr c hc, ← splitW_splitGo c hc s []]
  simp

theorem wordsOf_collapse (c : Cls) (hc : ClsOK c) (s : Str) : wordsOf c (collapse c s) = wordsOf c s := by
  rw [wordsOf_unfolded, wordsOf_unfolded, unfoldedWords_collapse c hc]

/-! ### a text that is one word, stripped, is that word -/

theorem strip_head (c : Cls) (s : Str) (x : Nat) (r : Str) (h : stripStr c s = x :: r) : c.isSpace x = false := by
  unfold stripStr at h
  -- the stripped text is a prefix of the text without its leading blanks
  have hpre : ((s.dropWhile c.isSpace).reverse.dropWhile c.isSpace).reverse <+: s.dropWhile c.isSpace := by
    have := List.dropWhile_suffix (l := (s.dropWhile c.isSpace).reverse) c.isSpace
    simpa using List.reverse_prefix.mpr this
  rw [h] at hpre
  obtain ⟨t, ht⟩ := hpre
  exact dropWhile_head_not c.isSpace s x (r ++ t) (by rw [← ht]; simp)

theorem strip_last (c : Cls) (s : Str) (x : Nat) (r : Str) (h : stripStr c s = r ++ [x]) : c.isSpace x = false := by
  unfold stripStr at h
  have := congrArg List.reverse h
  simp only [List.reverse_reverse, List.reverse_append, List.reverse_cons, List.reverse_nil, List.nil_append,
    List.singleton_append] at this
  exact dropWhile_head_not c.isSpace _ x r.reverse this

/-- a blank piece starts with a blank character -/
theorem blank_piece_head (c : Cls) (p : Piece) (hk : PieceKindOK c p) (hb : p.kind = .blank) :
    ∃ x r, p.text = x :: r ∧ c.isSpace x = true ∧ (∀ y ∈ p.text, c.isSpace y = true) := by
  obtain ⟨hne, hall, _⟩ := hk
  have hsp : ∀ y ∈ p.text, c.isSpace y = true := by
    intro y hy
    have := hall y hy
    rw [hb] at this
    exact ((kindOf_blank c y).mp this).2.2
  cases ht : p.text with
  | nil => exact absurd ht hne
  | cons x r => exact ⟨x, r, rfl, hsp x (by rw [ht]; simp), by rw [← ht]; exact hsp⟩

theorem one_word_text (c : Cls) (t : Str) (p : Piece) (h : wordPieces c t = [p])
    (hhead : ∀ x r, t = x :: r → c.isSpace x = false) (hlast : ∀ x r, t = r ++ [x] → c.isSpace x = false) :
    t = p.text := by
  unfold wordPieces at h
  obtain ⟨B1, B2, hps, hB1, _, hB2⟩ := List.filter_eq_cons_iff.mp h
  have hcat := pieces_concat c t
  rw [hps] at hcat
  simp only [List.map_append, List.map_cons, List.flatten_append, List.flatten_cons] at hcat
  have hkind := pieces_kind c t
  -- nothing before the word
  have h1 : B1 = [] := by
    cases B1 with
    | nil => rfl
    | cons b r =>
      exfalso
      have hb : b.kind = .blank := by simpa using hB1 b (by simp)
      obtain ⟨x, r', hx, hsp, _⟩ := blank_piece_head c b (hkind b (by rw [hps]; simp)) hb
      have := hhead x (r' ++ ((r.map (·.text)).flatten ++ (p.text ++ (B2.map (·.text)).flatten))) (by rw [← hcat]; simp [hx])
      rw [hsp] at this; cases this
  -- nothing after it
  have h2 : B2 = [] := by
    rcases List.eq_nil_or_concat B2 with h | ⟨B, b, hB⟩
    · exact h
    · exfalso
      rw [List.concat_eq_append] at hB
      subst hB
      have hbf : ∀ q ∈ B ++ [b], ¬ (q.kind != .blank) = true := by
        intro q hq hq'
        have : q ∈ (B ++ [b]).filter (fun p => p.kind != .blank) := List.mem_filter.mpr ⟨hq, hq'⟩
        rw [hB2] at this; simp at this
      have hb : b.kind = .blank := by simpa using hbf b (by simp)
      obtain ⟨x, r', hx, _, hall⟩ := blank_piece_head c b (hkind b (by rw [hps]; simp)) hb
      -- the last character of the text is the last character of `b`
      have hne : b.text ≠ [] := by rw [hx]; simp
      obtain ⟨ini, z, hz⟩ : ∃ ini z, b.text = ini ++ [z] := by
        rcases List.eq_nil_or_concat b.text with h0 | ⟨ini, z, h0⟩
        · exact absurd h0 hne
        · exact ⟨ini, z, by rw [h0, List.concat_eq_append]⟩
      have := hlast z ((B1.map (·.text)).flatten ++ (p.text ++ ((B.map (·.text)).flatten ++ ini))) (by
        rw [← hcat]
        simp [hz, List.append_assoc])
      rw [hall z (by rw [hz]; simp)] at this; cases this
  subst h1 h2
  simpa using hcat.symm

/-- **`validate_symbols` and the automaton read a one-word key alike**: if the words of a text are the one
    word `w`, the text stripped of surrounding blanks, folded, is `w` -/
theorem single_word_strip (c : Cls) (hc : ClsOK c) (s : Str) (w : Str) (h : wordsOf c s = [w]) :
    c.fold (stripStr c s) = w := by
  have hu := unfoldedWords_strip c hc s
  rw [wordsOf_unfolded] at h
  cases hw : unfoldedWords c s with
  | nil => rw [hw] at h; simp at h
  | cons w' r =>
    rw [hw] at h hu
    cases r with
    | cons _ _ => simp at h
    | nil =>
      simp only [List.map_cons, List.map_nil, List.cons.injEq, and_true] at h
      -- the stripped text has one non-blank piece
      have hp : ∃ p, wordPieces c (stripStr c s) = [p] ∧ p.text = w' := by
        unfold unfoldedWords at hu
        cases hq : wordPieces c (stripStr c s) with
        | nil => rw [hq] at hu; simp at hu
        | cons p r =>
          rw [hq] at hu
          cases r with
          | cons _ _ => simp at hu
          | nil => exact ⟨p, rfl, by simpa using hu⟩
      obtain ⟨p, hp1, hp2⟩ := hp
      have := one_word_text c (stripStr c s) p hp1 (fun x r hx => strip_head c s x r hx) (fun x r hx => strip_last c s x r hx)
      rw [this, hp2, h]

/-! ### an accepted table has no name that reads as a bare operator -/

theorem spelling_mem (k : Kw) : k.spelling ∈ keywordStrings := by
  cases k <;> simp [keywordStrings, KEYWORDS]

theorem spelling_inj (k k' : Kw) (h : k.spelling = k'.spelling) : k = k' := by
  cases k <;> cases k' <;> first | rfl | (revert h; decide)

theorem kwOwned_of_accepted (c : Cls) (hc : ClsOK c) (T : Table) (h : tableRefused c T = false) : KwOwned c T := by
  rw [tableRefused_eq_ambiguous] at h
  unfold ambiguousB at h
  simp only [Bool.or_eq_false_iff] at h
  obtain ⟨⟨⟨_, _⟩, hkwA⟩, hkwK⟩ := h
  intro k a ha hw
  unfold addsOf at ha
  rcases List.mem_append.mp ha with ha | ha
  · -- a keyword itself
    simp only [List.mem_map] at ha
    obtain ⟨k', hk', rfl⟩ := ha
    have := hc.kw k' hk'
    simp only at hw
    rw [this] at hw
    simp only [List.cons.injEq, and_true] at hw
    rw [spelling_inj k' k hw]
  · exfalso
    obtain ⟨e, he, hae⟩ := List.mem_flatMap.mp ha
    unfold entryAdds at hae
    rcases List.mem_cons.mp hae with rfl | hae
    · -- the key of an entry
      have hk := single_word_strip c hc e.key k.spelling hw
      have : T.any (fun e => keywordStrings.contains (entryKeyl c e)) = true := by
        rw [List.any_eq_true]
        exact ⟨e, he, by simp only [entryKeyl, hk, List.contains_eq_mem, decide_eq_true_eq]; exact spelling_mem k⟩
      rw [this] at hkwK; cases hkwK
    · -- an alias
      simp only [List.mem_map, List.mem_filter] at hae
      obtain ⟨al, ⟨hal, _⟩, rfl⟩ := hae
      simp only at hw
      rw [wordsOf_collapse c hc] at hw
      have hn : normAlias c al = k.spelling := by simp [normAlias, hw, joinStr]
      have : (allBindings c T).any (fun b => keywordStrings.contains b.1) = true := by
        rw [List.any_eq_true]
        refine ⟨(normAlias c al, c.fold (stripStr c e.key)), ?_, ?_⟩
        · unfold allBindings
          rw [List.mem_flatMap]
          refine ⟨e, he, ?_⟩
          unfold entryBindings
          simp only [List.mem_map, List.mem_append, List.mem_filter, List.mem_singleton]
          refine ⟨normAlias c al, Or.inl ⟨⟨al, hal, rfl⟩, ?_⟩, rfl⟩
          rw [hn]; cases k <;> decide
        · simp only [hn, List.contains_eq_mem, decide_eq_true_eq]; exact spelling_mem k
      rw [this] at hkwA; cases hkwA

end LE
