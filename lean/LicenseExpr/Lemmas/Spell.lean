import LicenseExpr.Lemmas.SplitW
import LicenseExpr.Lemmas.CoverTiles
/-!
# Lemmas/Spell — every token handed from stage to stage spells the words of the text it stands on

`Spells c g t`: the token `t` starts where the group `g` of consecutive non-blank pieces starts, and
the words of its string are the texts of those pieces, verbatim. `STiles`: a token list that tiles
the pieces of the text with such groups. The first stage of either tokenizer produces it, merging
unknown words and WITH grouping preserve it. This is what the position clause of C03 needs: a
reported token string occurs in the input at the reported position.
-/
namespace LE

def Spells (c : Cls) (g : List Piece) (t : STok) : Prop :=
  g ≠ [] ∧ t.s = groupStart g ∧ unfoldedWords c t.str = g.map (·.text)

inductive STiles (c : Cls) : List Piece → List STok → Prop
  | nil : STiles c [] []
  | cons (g ps : List Piece) (t : STok) (ts : List STok) :
      Spells c g t → STiles c ps ts → STiles c (g ++ ps) (t :: ts)

/-- every token of a spelled tiling stands on a run of consecutive pieces -/
theorem stiles_mem (c : Cls) {ps : List Piece} {ts : List STok} (h : STiles c ps ts) :
    ∀ t ∈ ts, ∃ pre g post, ps = pre ++ g ++ post ∧ Spells c g t := by
  induction h with
  | nil => intro t ht; cases ht
  | cons g ps t0 ts hs _ ih =>
    intro t ht
    simp only [List.mem_cons] at ht
    rcases ht with rfl | ht
    · exact ⟨[], g, ps, by simp, hs⟩
    · obtain ⟨pre, g', post, hps, hsp⟩ := ih t ht
      exact ⟨g ++ pre, g', post, by rw [hps]; simp, hsp⟩

/-! ### the words of a slice of the text that stands on whole pieces -/

theorem eq_concat_of_getLast? {α : Type} (l : List α) (q : α) (h : l.getLast? = some q) : ∃ r, l = r ++ [q] := by
  have hne : l ≠ [] := by intro h'; subst h'; simp at h
  refine ⟨l.dropLast, ?_⟩
  rw [List.getLast?_eq_some_getLast hne] at h
  have hq : l.getLast hne = q := by simpa using h
  rw [← hq]
  exact (List.dropLast_concat_getLast hne).symm

theorem starts_inc (ps : List Piece) (hok : PiecesOK ps) : ps.Pairwise (fun a b => a.start < b.start) := by
  have h2 := hok.2
  refine (List.Pairwise.and_mem.mp hok.1).imp ?_
  intro a b h
  have := h2 a h.1
  omega

theorem sorted_infix_filter (ws A G B : List Piece) (hinc : ws.Pairwise (fun a b => a.start < b.start))
    (hws : ws = A ++ G ++ B) (p q : Piece) (hp : G.head? = some p) (hq : G.getLast? = some q) :
    G = ws.filter (fun x => decide (p.start ≤ x.start) && decide (x.start ≤ q.start)) := by
  subst hws
  rw [List.pairwise_append] at hinc
  obtain ⟨hAG, hB, hAGB⟩ := hinc
  rw [List.pairwise_append] at hAG
  obtain ⟨hA, hG, hAG'⟩ := hAG
  have hpG : p ∈ G := List.mem_of_mem_head? hp
  have hqG : q ∈ G := List.mem_of_mem_getLast? hq
  simp only [List.filter_append]
  have hfA : A.filter (fun x => decide (p.start ≤ x.start) && decide (x.start ≤ q.start)) = [] := by
    rw [List.filter_eq_nil_iff]
    intro a ha
    have := hAG' a ha p hpG
    simp; omega
  have hfB : B.filter (fun x => decide (p.start ≤ x.start) && decide (x.start ≤ q.start)) = [] := by
    rw [List.filter_eq_nil_iff]
    intro b hb
    have := hAGB q (by simp [hqG]) b hb
    simp; omega
  have hfG : G.filter (fun x => decide (p.start ≤ x.start) && decide (x.start ≤ q.start)) = G := by
    rw [List.filter_eq_self]
    intro x hx
    have h1 : p.start ≤ x.start := by
      cases G with
      | nil => cases hx
      | cons a r =>
        simp at hp; subst hp
        rw [List.pairwise_cons] at hG
        rcases List.mem_cons.mp hx with rfl | hx'
        · exact Nat.le_refl _
        · exact Nat.le_of_lt (hG.1 x hx')
    have h2 : x.start ≤ q.start := by
      obtain ⟨r, hr⟩ := eq_concat_of_getLast? G q hq
      rw [hr] at hG hx
      rw [List.pairwise_append] at hG
      rcases List.mem_append.mp hx with hx' | hx'
      · exact Nat.le_of_lt (hG.2.2 x hx' q (by simp))
      · simp at hx'; rw [hx']; exact Nat.le_refl _
    simp [h1, h2]
  rw [hfA, hfB, hfG]; simp

theorem head?_groupStart (g : List Piece) (p : Piece) (h : g.head? = some p) : groupStart g = p.start := by
  cases g with
  | nil => simp at h
  | cons a r => simp at h; subst h; rfl

theorem getLast?_groupEnd : ∀ (g : List Piece) (q : Piece), g.getLast? = some q → groupEnd g = q.stop
  | [], _, h => by simp at h
  | [a], q, h => by simp at h; subst h; rfl
  | a :: b :: r, q, h => by
    rw [groupEnd]
    exact getLast?_groupEnd (b :: r) q (by simpa [List.getLast?_cons_cons] using h)

/-- **the words of a slice**: the slice of the text from the start of a non-blank piece to the end of
    a later one consists of exactly the non-blank pieces between them -/
theorem slice_words (c : Cls) (text : Str) (pre g post : List Piece) (hg : g ≠ [])
    (hw : wordPieces c text = pre ++ g ++ post) :
    unfoldedWords c (slice text (groupStart g) (groupEnd g)) = g.map (·.text) := by
  obtain ⟨p, hp⟩ : ∃ p, g.head? = some p := by cases g with
    | nil => exact absurd rfl hg
    | cons a r => exact ⟨a, rfl⟩
  obtain ⟨q, hq⟩ : ∃ q, g.getLast? = some q := ⟨g.getLast hg, List.getLast?_eq_some_getLast hg⟩
  have hpg : p ∈ g := List.mem_of_mem_head? hp
  have hqg : q ∈ g := List.mem_of_mem_getLast? hq
  have hokW := wordPieces_ok c text
  have hincW := starts_inc _ hokW
  have hokP := contig_ok 0 _ (pieces_contig c text)
  have hincP := starts_inc _ hokP
  have hpW : p ∈ wordPieces c text := by rw [hw]; simp [hpg]
  have hqW : q ∈ wordPieces c text := by rw [hw]; simp [hqg]
  have hpP : p ∈ pieces c text := (List.mem_filter.mp hpW).1
  have hqP : q ∈ pieces c text := (List.mem_filter.mp hqW).1
  have hG := sorted_infix_filter _ pre g post hincW hw p q hp hq
  have hpq : p.start ≤ q.start := by
    rw [hG] at hqg
    have := (List.mem_filter.mp hqg).2
    simp at this; exact this
  obtain ⟨L1, M', L2, hP, hlast⟩ := split_between _ hincP p q hpP hqP hpq
  rw [head?_groupStart g p hp, getLast?_groupEnd g q hq]
  rw [slice_run c text L1 (p :: M') L2 p q rfl hlast hP, unfoldedWords_splitW]
  have hkinds : ∀ x ∈ p :: M', PieceKindOK c x := fun x hx => pieces_kind c text x (by
    rw [hP]; exact List.mem_append_left _ (List.mem_append_right _ hx))
  have hsep : Sep (p :: M') := by
    have := pieces_sep c text
    rw [hP] at this
    exact sep_append_right L1 _ (sep_append_left _ L2 this)
  rw [splitW_run c (p :: M') hkinds hsep]
  congr 1
  -- the non-blank pieces of the run are the group
  have hW : wordPieces c text = L1.filter (fun x => x.kind != .blank) ++ (p :: M').filter (fun x => x.kind != .blank) ++
      L2.filter (fun x => x.kind != .blank) := by
    unfold wordPieces; rw [hP, List.filter_append, List.filter_append]
  have hnb : ∀ x ∈ wordPieces c text, (x.kind != Kind.blank) = true := fun x hx => (List.mem_filter.mp hx).2
  have hh : ((p :: M').filter (fun x => x.kind != .blank)).head? = some p := by
    simp [List.filter_cons, hnb p hpW]
  have hl : ((p :: M').filter (fun x => x.kind != .blank)).getLast? = some q := by
    obtain ⟨r, hr⟩ := eq_concat_of_getLast? (p :: M') q hlast
    rw [hr, List.filter_append]
    simp [List.filter_cons, hnb q hqW]
  rw [sorted_infix_filter _ _ _ _ hincW hW p q hh hl, ← hG]

/-! ### the first stage -/

/-- a tiling whose tokens carry the slice of the text between their ends is a spelled tiling -/
theorem tiles_to_stiles (c : Cls) (text : Str) {ps : List Piece} {ts : List STok} (h : Tiles ps ts) :
    ∀ pre, wordPieces c text = pre ++ ps → (∀ t ∈ ts, t.str = slice text t.s t.e) → STiles c ps ts := by
  induction h with
  | nil => intro _ _ _; exact STiles.nil
  | cons g ps t ts hg h1 h2 _ ih =>
    intro pre hw hstr
    refine STiles.cons g ps t ts ⟨hg, h1, ?_⟩ (ih (pre ++ g) (by rw [hw]; simp) (fun x hx => hstr x (List.mem_cons_of_mem _ hx)))
    rw [hstr t (by simp), h1, h2]
    exact slice_words c text pre g ps hg (by rw [hw]; simp)

theorem iterGo_str {V : Type} (c : Cls) (t : Trie V) (text : Str) (unm : Bool) (depth : Nat) (rest : List Piece) :
    ∀ (seen : List Piece) (state : List Word), ∀ k ∈ iterGo c t text unm depth seen state rest, k.str = slice text k.s k.e := by
  induction rest with
  | nil => intro seen state k hk; simp [iterGo] at hk
  | cons p rest ih =>
    intro seen state k hk
    unfold iterGo at hk
    simp only at hk
    split at hk
    · rcases List.mem_append.mp hk with h | h
      · split at h
        · simp only [List.mem_singleton] at h; subst h; rfl
        · simp at h
      · exact ih _ _ k h
    · rcases List.mem_append.mp hk with h | h
      · split at h
        · simp only [List.mem_singleton] at h; subst h; rfl
        · simp only [List.mem_filterMap, Option.map_eq_some_iff] at h
          obtain ⟨e, _, st, _, rfl⟩ := h
          rfl
      · exact ih _ _ k h

theorem tokenize_str {V : Type} (c : Cls) (t : Trie V) (text : Str) : ∀ k ∈ t.tokenize c text, k.str = slice text k.s k.e := by
  intro k hk
  unfold Trie.tokenize addUncovered at hk
  rw [sortToks_mem] at hk
  rcases List.mem_append.mp hk with h | h
  · have := (sortToks_mem _ k).mp (sweep_sub _ k h)
    exact iterGo_str c t text true _ _ _ _ k this
  · obtain ⟨p, hp, rfl⟩ := uncovered_from_pieces text _ _ k h
    exact (piece_slice c text p (List.mem_filter.mp hp).1).symm

theorem simpleTokens_str (c : Cls) (T : Table) (ps : List Piece) (out : List STok) (h : simpleTokens c T ps = .ok out) :
    ∀ t ∈ out, ∃ p ∈ ps, t.s = p.start ∧ t.e = p.stop ∧ t.str = p.text := by
  induction ps generalizing out with
  | nil => simp [simpleTokens] at h; subst h; intro t ht; cases ht
  | cons p ps ih =>
    rw [simpleTokens_cons] at h
    cases ho : oneTok c T p with
    | error e => simp [ho] at h
    | ok t0 =>
      simp only [ho] at h
      cases hr : simpleTokens c T ps with
      | error e => simp [hr, Except.map] at h
      | ok r =>
        simp only [hr, Except.map, Except.ok.injEq] at h
        subst h
        intro t ht
        simp only [List.mem_cons] at ht
        rcases ht with rfl | ht
        · refine ⟨p, by simp, ?_⟩
          unfold oneTok at ho
          split at ho
          · simp at ho; subst ho; exact ⟨rfl, rfl, rfl⟩
          · simp at ho; subst ho; exact ⟨rfl, rfl, rfl⟩
          · simp only at ho
            split at ho
            · simp at ho; subst ho; exact ⟨rfl, rfl, rfl⟩
            · split at ho
              · simp at ho; subst ho; exact ⟨rfl, rfl, rfl⟩
              · split at ho
                · simp at ho; subst ho; exact ⟨rfl, rfl, rfl⟩
                · simp at ho
        · obtain ⟨q, hq, h3⟩ := ih r hr t ht
          exact ⟨q, List.mem_cons_of_mem _ hq, h3⟩

/-- **the first stage of either tokenizer** produces a spelled tiling of the text -/
theorem raw_stiles (c : Cls) (T : Table) (tr : Trie TVal) (simple : Bool) (text : Str) (raw : List STok)
    (h : rawTokensW c T tr simple text = .ok raw) : STiles c (wordPieces c text) raw := by
  unfold rawTokensW at h
  split at h
  · apply tiles_to_stiles c text (simpleTokens_tiles c T _ raw h) [] (by simp)
    intro t ht
    obtain ⟨p, hp, h1, h2, h3⟩ := simpleTokens_str c T _ raw h t ht
    rw [h1, h2, h3]
    exact (piece_slice c text p (List.mem_filter.mp hp).1).symm
  · simp at h; subst h
    apply tiles_to_stiles c text _ [] (by simp)
    · intro t ht
      simp only [advancedTokensW, List.mem_map] at ht
      obtain ⟨k, hk, rfl⟩ := ht
      simpa [ofTok] using tokenize_str c tr text k hk
    · exact finalOK_tiles ofTok (fun _ => rfl) (fun _ => rfl) _ _ (wordPieces_ok c text)
        (kept_plus_uncovered_ok text _ (wordPieces_ok c text) _
          (sweep_disjoint _ (sortToks_sorted _))
          (fun k hk => iter_aligned c tr text true k ((sortToks_mem _ k).mp (sweep_sub _ k hk))))

/-! ### merging unknown words -/

theorem joinStr_single (sep s : Str) : joinStr sep [s] = s := rfl

theorem joinStr_snoc (sep : Str) : ∀ (strs : List Str) (s : Str), strs ≠ [] → joinStr sep (strs ++ [s]) = joinStr sep strs ++ sep ++ s
  | [], _, h => absurd rfl h
  | [a], s, _ => by simp [joinStr]
  | a :: b :: r, s, _ => by
    have := joinStr_snoc sep (b :: r) s (by simp)
    simp only [List.cons_append] at this ⊢
    rw [joinStr, this, joinStr]
    simp [List.append_assoc]

theorem words_join (c : Cls) (hc : ClsOK c) (a b : Str) :
    unfoldedWords c (a ++ [SPACE] ++ b) = unfoldedWords c a ++ unfoldedWords c b := by
  rw [unfoldedWords_splitW, unfoldedWords_splitW, unfoldedWords_splitW]
  have := splitW_join c SPACE hc.space (by decide) a b []
  simpa [List.append_assoc] using this

theorem flushUnknown_spells (c : Cls) (st en : Nat) (strs : List Str) (G : List Piece) (out : List STok)
    (hG : G ≠ []) (hs : st = groupStart G) (hw : unfoldedWords c (joinStr [SPACE] strs) = G.map (·.text))
    (h : flushUnknown c (some (st, en, strs)) = .ok out) : ∃ t, out = [t] ∧ Spells c G t := by
  unfold flushUnknown mkUnknown at h
  simp only [] at h
  cases hk : normKey c (joinStr [SPACE] strs) with
  | none => simp [hk, Except.map] at h
  | some k =>
    simp [hk, Except.map] at h
    exact ⟨_, h.symm, hG, hs, hw⟩

theorem mergeUnknown_stiles (c : Cls) (hc : ClsOK c) (acc : Option (Nat × Nat × List Str)) (ts : List STok) :
    ∀ (ps : List Piece) (out : List STok), STiles c ps ts → mergeUnknown c acc ts = .ok out →
      (acc = none → STiles c ps out) ∧
      (∀ st en strs G, acc = some (st, en, strs) → G ≠ [] → st = groupStart G → strs ≠ [] →
        unfoldedWords c (joinStr [SPACE] strs) = G.map (·.text) → STiles c (G ++ ps) out) := by
  fun_induction mergeUnknown c acc ts
  · next acc =>
    intro ps out ht h
    cases ht
    constructor
    · intro ha; subst ha; simp [flushUnknown] at h; subst h; exact STiles.nil
    · intro st en strs G ha hG hs _ hw
      subst ha
      obtain ⟨t, rfl, hsp⟩ := flushUnknown_spells c st en strs G out hG hs hw h
      have := STiles.cons G [] t [] hsp STiles.nil
      simpa using this
  · next t ts hv ih =>
    intro ps out ht h
    cases ht with
    | cons g ps' _ _ hsp hrest =>
      refine ⟨fun _ => ?_, fun st en strs G ha => by simp at ha⟩
      exact (ih ps' out hrest h).2 t.s t.e [t.str] g rfl hsp.1 hsp.2.1 (by simp) (by rw [joinStr_single]; exact hsp.2.2)
  · next t ts hv st0 en0 strs0 ih =>
    intro ps out ht h
    cases ht with
    | cons g ps' _ _ hsp hrest =>
      refine ⟨fun ha => by simp at ha, ?_⟩
      intro st en strs G ha hG hs hne hw
      simp at ha
      obtain ⟨rfl, rfl, rfl⟩ := ha
      have := (ih ps' out hrest h).2 st0 t.e (strs0 ++ [t.str]) (G ++ g) rfl (by simp [hG])
        (by rw [groupStart_append _ _ hG]; exact hs) (by simp)
        (by rw [joinStr_snoc _ _ _ hne, words_join c hc, hw, hsp.2.2]; simp)
      simpa [List.append_assoc] using this
  · simp_all
  · simp_all
  · next acc t ts pre hpre rest hrest hv ih =>
    intro ps out ht h
    simp at h; subst h
    cases ht with
    | cons g ps' _ _ hsp hrest' =>
      have ihr := (ih ps' rest hrest' hrest).1 rfl
      constructor
      · intro ha; subst ha
        simp [flushUnknown] at hpre; subst hpre
        simpa using STiles.cons g ps' t rest hsp ihr
      · intro st en strs G ha hG hs _ hw
        subst ha
        obtain ⟨u, rfl, hu⟩ := flushUnknown_spells c st en strs G pre hG hs hw hpre
        have := STiles.cons G (g ++ ps') u (t :: rest) hu (STiles.cons g ps' t rest hsp ihr)
        simpa using this

/-! ### WITH grouping -/

theorem single_stiles (c : Cls) (strict : Bool) (a : STok) (cont : Except LErr (List STok)) (out : List STok)
    (g ps : List Piece) (hsp : Spells c g a)
    (hc : ∀ r, cont = .ok r → STiles c ps r) (h : single strict a cont = .ok out) : STiles c (g ++ ps) out := by
  obtain ⟨r, hr, rfl⟩ := single_ok strict a cont out h
  exact STiles.cons g ps a r hsp (hc r hr)

theorem groupWith_stiles (c : Cls) (hc : ClsOK c) (strict : Bool) (ts : List STok) :
    ∀ (ps : List Piece) (out : List STok), STiles c ps ts → groupWith c strict ts = .ok out → STiles c ps out := by
  fun_induction groupWith c strict ts
  · intro ps out ht h; cases ht; simp at h; subst h; exact STiles.nil
  · intro ps out ht h; simp at h
  · intro ps out ht h; simp at h
  · next a w b rest l e hb hw ha _ _ ih =>
    intro ps out ht h
    rw [map_cons_ok] at h
    obtain ⟨r, hr, rfl⟩ := h
    cases ht with
    | cons ga ps1 _ _ spa ht1 =>
      cases ht1 with
      | cons gw ps2 _ _ spw ht2 =>
        cases ht2 with
        | cons gb ps3 _ _ spb ht3 =>
          have hsp : Spells c (ga ++ gw ++ gb)
              ⟨a.s, b.e, a.str ++ [SPACE] ++ stripStr c w.str ++ [SPACE] ++ b.str, .withSym l e⟩ := by
            refine ⟨by simp [spa.1], ?_, ?_⟩
            · simp only; rw [List.append_assoc, groupStart_append _ _ spa.1]; exact spa.2.1
            · simp only
              rw [words_join c hc, words_join c hc, unfoldedWords_strip c hc, spa.2.2, spw.2.2, spb.2.2]
              simp
          have := STiles.cons (ga ++ gw ++ gb) ps3 _ r hsp (ih ps3 r ht3 hr)
          simpa [List.append_assoc] using this
  · next a w b rest hx ih =>
    intro ps out ht h
    cases ht with
    | cons ga ps1 _ _ spa ht1 =>
      exact single_stiles c strict a _ out ga ps1 spa (fun r hr => ih ps1 r ht1 hr) h
  · next a rest hx ih =>
    intro ps out ht h
    cases ht with
    | cons ga ps1 _ _ spa ht1 =>
      exact single_stiles c strict a _ out ga ps1 spa (fun r hr => ih ps1 r ht1 hr) h

/-! ### where a reported token comes from -/

theorem single_error_tok (strict : Bool) (a : STok) (cont : Except LErr (List STok)) (code : Nat) (s : Str) (pos : Int)
    (h : single strict a cont = .error (.parse code s pos)) :
    (s = a.str ∧ pos = a.s) ∨ cont = .error (.parse code s pos) := by
  unfold single at h
  split at h
  · simp at h; exact Or.inl ⟨h.2.1.symm, h.2.2.symm⟩
  · split at h
    · simp at h; exact Or.inl ⟨h.2.1.symm, h.2.2.symm⟩
    · cases cont with
      | error e => simp [Except.map] at h; right; rw [h]
      | ok r => simp [Except.map] at h
  · cases cont with
    | error e => simp [Except.map] at h; right; rw [h]
    | ok r => simp [Except.map] at h

/-- an error of the grouping stage names a token of its input, with that token's string and start -/
theorem groupWith_error_tok (c : Cls) (strict : Bool) (ts : List STok) (code : Nat) (s : Str) (pos : Int) :
    groupWith c strict ts = .error (.parse code s pos) → ∃ x ∈ ts, s = x.str ∧ pos = x.s := by
  fun_induction groupWith c strict ts
  · intro h; simp at h
  · next a w b rest l e hb hw ha hx =>
    intro h; simp at h
    exact ⟨a, by simp, h.2.1.symm, h.2.2.symm⟩
  · next a w b rest l e hb hw ha _ hx =>
    intro h; simp at h
    exact ⟨b, by simp, h.2.1.symm, h.2.2.symm⟩
  · next a w b rest l e hb hw ha _ _ ih =>
    intro h
    cases hr : groupWith c strict rest with
    | ok r => simp [hr, Except.map] at h
    | error er =>
      simp [hr, Except.map] at h
      obtain ⟨x, hx, h1⟩ := ih (by rw [hr, h])
      exact ⟨x, by simp [hx], h1⟩
  · next a w b rest hx ih =>
    intro h
    rcases single_error_tok strict a _ code s pos h with h1 | h1
    · exact ⟨a, by simp, h1⟩
    · obtain ⟨x, hx', h2⟩ := ih h1
      exact ⟨x, List.mem_cons_of_mem _ hx', h2⟩
  · next a rest hx ih =>
    intro h
    rcases single_error_tok strict a _ code s pos h with h1 | h1
    · exact ⟨a, by simp, h1⟩
    · obtain ⟨x, hx', h2⟩ := ih h1
      exact ⟨x, List.mem_cons_of_mem _ hx', h2⟩

theorem toPToks_spec : ∀ (ts : List STok) (out : List PTok), toPToks ts = .ok out →
    ∀ (i : Nat) (p : PTok), out[i]? = some p → ∃ x ∈ ts, p.str = x.str ∧ p.pos = x.s
  | [], out, h => by simp [toPToks] at h; subst h; intro i p hp; simp at hp
  | t :: ts, out, h => by
    simp only [toPToks] at h
    cases ht : toPTok t with
    | error e => simp [ht] at h
    | ok p0 =>
      simp only [ht] at h
      cases hr : toPToks ts with
      | error e => simp [hr, Except.map] at h
      | ok r =>
        simp only [hr, Except.map, Except.ok.injEq] at h
        subst h
        intro i p hp
        cases i with
        | zero =>
          simp at hp; subst hp
          refine ⟨t, by simp, ?_⟩
          unfold toPTok at ht
          split at ht <;> simp at ht <;> (try (subst ht; exact ⟨rfl, rfl⟩))
        | succ j =>
          simp at hp
          obtain ⟨x, hx, h1⟩ := toPToks_spec ts r hr j p hp
          exact ⟨x, List.mem_cons_of_mem _ hx, h1⟩

theorem toPToks_error_tok : ∀ (ts : List STok) (code : Nat) (s : Str) (pos : Int),
    toPToks ts = .error (.parse code s pos) → s ≠ [] → ∃ x ∈ ts, s = x.str ∧ pos = x.s
  | [], _, _, _, h, _ => by simp [toPToks] at h
  | t :: ts, code, s, pos, h, hs => by
    simp only [toPToks] at h
    cases ht : toPTok t with
    | error e =>
      simp only [ht] at h
      unfold toPTok at ht
      split at ht <;> simp at ht
      · subst ht; simp at h; exact ⟨t, by simp, h.2.1.symm, h.2.2.symm⟩
      · subst ht; simp at h; exact absurd h.2.1 hs
    | ok p0 =>
      simp only [ht] at h
      cases hr : toPToks ts with
      | ok r => simp [hr, Except.map] at h
      | error e =>
        simp [hr, Except.map] at h
        obtain ⟨x, hx, h1⟩ := toPToks_error_tok ts code s pos (by rw [hr, h]) hs
        exact ⟨x, List.mem_cons_of_mem _ hx, h1⟩

theorem simpleTokens_err (c : Cls) (T : Table) (ps : List Piece) (e : LErr) (h : simpleTokens c T ps = .error e) : e = .expr := by
  induction ps generalizing e with
  | nil => simp [simpleTokens] at h
  | cons p ps ih =>
    rw [simpleTokens_cons] at h
    cases ho : oneTok c T p with
    | error e' =>
      simp only [ho] at h
      unfold oneTok at ho
      split at ho
      · simp at ho
      · simp at ho
      · simp only at ho
        split at ho
        · simp at ho
        · split at ho
          · simp at ho
          · split at ho
            · simp at ho
            · simp at ho h; rw [← h, ← ho]
    | ok t0 =>
      simp only [ho] at h
      cases hr : simpleTokens c T ps with
      | error e' => simp [hr, Except.map] at h; rw [← h]; exact ih e' hr
      | ok r => simp [hr, Except.map] at h

theorem flushUnknown_err (c : Cls) (acc : Option (Nat × Nat × List Str)) (e : LErr) (h : flushUnknown c acc = .error e) : e = .expr := by
  unfold flushUnknown at h
  split at h
  · simp at h
  · unfold mkUnknown at h
    simp only at h
    split at h <;> simp [Except.map] at h
    exact h.symm

theorem mergeUnknown_err (c : Cls) (acc : Option (Nat × Nat × List Str)) (ts : List STok) :
    ∀ e, mergeUnknown c acc ts = .error e → e = .expr := by
  fun_induction mergeUnknown c acc ts
  · next acc => intro e; exact flushUnknown_err c acc e
  · next t ts hv ih => exact ih
  · next t ts hv st0 en0 strs0 ih => exact ih
  · next acc t ts e' hf hv => intro e h; simp at h; rw [← h]; exact flushUnknown_err c acc e' hf
  · next acc t ts pre hpre e' hr hv ih => intro e h; simp at h; rw [← h]; exact ih e' hr
  · next acc t ts pre hpre rest hrest hv ih => intro e h; simp at h

/-- **a reported token stands in the text**: whenever `Licensing.tokenize` (either tokenizer, strict or
    not) fails with a parse error that carries a token string, that string is spelled by a run of
    consecutive words of the text starting exactly at the reported position -/
theorem ltok_error_position (c : Cls) (hc : ClsOK c) (T : Table) (tr : Trie TVal) (simple strict : Bool) (text : Str)
    (code : Nat) (s : Str) (pos : Int) (h : ltokW c T tr simple strict text = .error (.parse code s pos)) (hs : s ≠ []) :
    ∃ pre g post, wordPieces c text = pre ++ g ++ post ∧ g ≠ [] ∧ pos = groupStart g ∧ unfoldedWords c s = g.map (·.text) := by
  unfold ltokW at h
  cases h1 : rawTokensW c T tr simple text with
  | error e =>
    simp [h1, bind, Except.bind] at h
    unfold rawTokensW at h1
    split at h1
    · have := simpleTokens_err c T _ e h1; rw [h] at this; cases this
    · simp at h1
  | ok raw =>
    have s1 := raw_stiles c T tr simple text raw h1
    cases h2 : mergeUnknown c none raw with
    | error e =>
      simp [h1, h2, bind, Except.bind] at h
      have := mergeUnknown_err c none raw e h2; rw [h] at this; cases this
    | ok merged =>
      have s2 := (mergeUnknown_stiles c hc none raw _ merged s1 h2).1 rfl
      cases h3 : groupWith c strict merged with
      | error e =>
        simp [h1, h2, h3, bind, Except.bind] at h
        subst h
        obtain ⟨x, hx, rfl, rfl⟩ := groupWith_error_tok c strict merged code s pos h3
        obtain ⟨pre, g, post, hps, hg, hst, hw⟩ := stiles_mem c s2 x hx
        exact ⟨pre, g, post, hps, hg, by rw [hst], hw⟩
      | ok grouped =>
        have s3 := groupWith_stiles c hc strict merged _ grouped s2 h3
        simp [h1, h2, h3, bind, Except.bind] at h
        obtain ⟨x, hx, rfl, rfl⟩ := toPToks_error_tok grouped code s pos h hs
        obtain ⟨pre, g, post, hps, hg, hst, hw⟩ := stiles_mem c s3 x hx
        exact ⟨pre, g, post, hps, hg, by rw [hst], hw⟩

/-- the triples handed to the parser are spelled by runs of consecutive words of the text -/
theorem ltok_ok_position (c : Cls) (hc : ClsOK c) (T : Table) (tr : Trie TVal) (simple strict : Bool) (text : Str)
    (toks : List PTok) (h : ltokW c T tr simple strict text = .ok toks) (i : Nat) (p : PTok) (hp : toks[i]? = some p) :
    ∃ pre g post, wordPieces c text = pre ++ g ++ post ∧ g ≠ [] ∧ p.pos = groupStart g ∧ unfoldedWords c p.str = g.map (·.text) := by
  unfold ltokW at h
  cases h1 : rawTokensW c T tr simple text with
  | error e => simp [h1, bind, Except.bind] at h
  | ok raw =>
    have s1 := raw_stiles c T tr simple text raw h1
    cases h2 : mergeUnknown c none raw with
    | error e => simp [h1, h2, bind, Except.bind] at h
    | ok merged =>
      have s2 := (mergeUnknown_stiles c hc none raw _ merged s1 h2).1 rfl
      cases h3 : groupWith c strict merged with
      | error e => simp [h1, h2, h3, bind, Except.bind] at h
      | ok grouped =>
        have s3 := groupWith_stiles c hc strict merged _ grouped s2 h3
        simp [h1, h2, h3, bind, Except.bind] at h
        obtain ⟨x, hx, e1, e2⟩ := toPToks_spec grouped toks h i p hp
        obtain ⟨pre, g, post, hps, hg, hst, hw⟩ := stiles_mem c s3 x hx
        exact ⟨pre, g, post, hps, hg, by rw [e2, hst], by rw [e1]; exact hw⟩

end LE
