import LicenseExpr.Lemmas.Agree
/-!
# Lemmas/SplitW — the words of a string, by a direct recursion; concatenation lemmas

`splitW` splits a string at blanks and parentheses (a parenthesis is a word of its own) without
positions; `unfoldedWords c s` (the texts of the non-blank pieces of the lexer) is `splitW c [] s`.
On `splitW` the facts the position clause of C03 needs are short inductions: the words of a word, of
two strings joined by a blank, of a string with blanks stripped, of a run of pieces of the text.
-/
namespace LE

def flushW (cur : Str) : List Str := if cur.isEmpty then [] else [cur.reverse]

/-- `cur`: the word being accumulated, reversed -/
def splitW (c : Cls) : Str → Str → List Str
  | cur, [] => flushW cur
  | cur, x :: xs =>
    if x = LPAR ∨ x = RPAR then flushW cur ++ [x] :: splitW c [] xs
    else if c.isSpace x then flushW cur ++ splitW c [] xs
    else splitW c (x :: cur) xs

/-- what the accumulating state of the lexer contributes: a parenthesis is emitted later by the lexer and
    at once by `splitW`; a word in progress is the accumulator; a blank run is dropped -/
def pendingW : Option (Nat × Str × Kind) → List Str
  | some (_, r, .lpar) => [r.reverse]
  | some (_, r, .rpar) => [r.reverse]
  | _ => []

def accW : Option (Nat × Str × Kind) → Str
  | some (_, r, .word) => r
  | _ => []

theorem kindOf_word (c : Cls) (x : Nat) : kindOf c x = .word ↔ (x ≠ LPAR ∧ x ≠ RPAR ∧ c.isSpace x = false) := by
  unfold kindOf
  by_cases h1 : x = LPAR
  · simp [h1]
  · by_cases h2 : x = RPAR
    · subst h2; simp [LPAR, RPAR]
    · cases h3 : c.isSpace x <;> simp [h1, h2, h3]

theorem kindOf_blank (c : Cls) (x : Nat) : kindOf c x = .blank ↔ (x ≠ LPAR ∧ x ≠ RPAR ∧ c.isSpace x = true) := by
  unfold kindOf
  by_cases h1 : x = LPAR
  · simp [h1]
  · by_cases h2 : x = RPAR
    · subst h2; simp [LPAR, RPAR]
    · cases h3 : c.isSpace x <;> simp [h1, h2, h3]

theorem fresh_splitW (c : Cls) (pos : Nat) (x : Nat) (xs : Str) :
    pendingW (some (pos, [x], kindOf c x)) ++ splitW c (accW (some (pos, [x], kindOf c x))) xs = splitW c [] (x :: xs) := by
  by_cases h1 : x = LPAR
  · subst h1; simp [kindOf, pendingW, accW, splitW, flushW]
  · by_cases h2 : x = RPAR
    · subst h2; simp [kindOf, pendingW, accW, splitW, flushW, LPAR, RPAR]
    · cases h3 : c.isSpace x <;> simp [h1, h2, h3, kindOf, pendingW, accW, splitW, flushW]

theorem splitW_nonword (c : Cls) (r : Str) (x : Nat) (xs : Str) (hx : ¬ kindOf c x = .word) :
    splitW c r (x :: xs) = flushW r ++ splitW c [] (x :: xs) := by
  by_cases h1 : x = LPAR
  · simp [splitW, h1, flushW]
  · by_cases h2 : x = RPAR
    · simp [splitW, h2, flushW]
    · cases h3 : c.isSpace x
      · exact absurd ((kindOf_word c x).mpr ⟨h1, h2, h3⟩) hx
      · simp [splitW, h1, h2, h3, flushW]

theorem lexGo_splitW (c : Cls) (s : Str) : ∀ (pos : Nat) (cur : Option (Nat × Str × Kind)), CurOK c cur →
    (((lexGo c pos cur s).filter (fun p => p.kind != .blank)).map (·.text)) = pendingW cur ++ splitW c (accW cur) s := by
  induction s with
  | nil =>
    intro pos cur hc
    cases cur with
    | none => simp [lexGo, pendingW, accW, splitW, flushW]
    | some v =>
      obtain ⟨st, r, k⟩ := v
      obtain ⟨h1, _, _⟩ := hc st r k rfl
      cases k <;> simp [lexGo, pendingW, accW, splitW, flushW, h1]
  | cons x xs ih =>
    intro pos cur hc
    cases cur with
    | none =>
      simp only [lexGo]
      rw [ih (pos + 1) (some (pos, [x], kindOf c x)) (by intro st r k h; cases h; simp), fresh_splitW]
      simp [pendingW, accW]
    | some v =>
      obtain ⟨st, r, k⟩ := v
      obtain ⟨hne, hall, hpar⟩ := hc st r k rfl
      simp only [lexGo]
      split
      · next hk =>
        -- the run continues: a word or a blank run
        rw [ih (pos + 1) (some (st, x :: r, k)) (by
          intro st' r' k' h; cases h
          refine ⟨by simp, ?_, ?_⟩
          · intro y hy
            simp only [List.mem_cons] at hy
            rcases hy with rfl | hy
            · exact hk.1
            · exact hall y hy
          · intro hp; rcases hk.2 with h | h <;> rcases hp with h' | h' <;> simp_all)]
        rcases hk.2 with hw | hb
        · subst hw
          obtain ⟨a1, a2, a3⟩ := (kindOf_word c x).mp hk.1
          simp [pendingW, accW, splitW, a1, a2, a3]
        · subst hb
          obtain ⟨a1, a2, a3⟩ := (kindOf_blank c x).mp hk.1
          simp [pendingW, accW, splitW, a1, a2, a3, flushW]
      · next hk =>
        -- the run ends here
        have ihh := ih (pos + 1) (some (pos, [x], kindOf c x)) (by intro st' r' k' h; cases h; simp)
        rw [fresh_splitW] at ihh
        have hr' : r.isEmpty = false := by cases h : r <;> simp_all
        simp only [List.filter_cons]
        cases k with
        | blank => simp [ihh, pendingW, accW]
        | word =>
          have hx : ¬ kindOf c x = .word := fun h => hk ⟨h, Or.inl rfl⟩
          simp [ihh, pendingW, accW, splitW_nonword c r x xs hx, flushW, hr']
        | lpar => simp [ihh, pendingW, accW]
        | rpar => simp [ihh, pendingW, accW]

/-- the words of a string (texts of its non-blank pieces) are what `splitW` computes -/
theorem unfoldedWords_splitW (c : Cls) (s : Str) : unfoldedWords c s = splitW c [] s := by
  have := lexGo_splitW c s 0 none (by intro st r k h; cases h)
  simpa [unfoldedWords, wordPieces, pieces, pendingW, accW] using this

/-! ### words of concatenations -/

theorem splitW_nil (c : Cls) (cur : Str) : splitW c cur [] = flushW cur := rfl

/-- a run of word characters only extends the word in progress -/
theorem splitW_word_run (c : Cls) (w : Str) (hw : ∀ x ∈ w, kindOf c x = .word) (cur rest : Str) :
    splitW c cur (w ++ rest) = splitW c (w.reverse ++ cur) rest := by
  induction w generalizing cur with
  | nil => rfl
  | cons x w ih =>
    obtain ⟨a1, a2, a3⟩ := (kindOf_word c x).mp (hw x (by simp))
    simp only [List.cons_append, splitW, a1, a2, a3, or_self, ↓reduceIte, Bool.false_eq_true]
    rw [ih (fun y hy => hw y (List.mem_cons_of_mem _ hy))]
    simp

/-- a run of blanks after a finished word changes nothing -/
theorem splitW_blank_run (c : Cls) (b : Str) (hb : ∀ x ∈ b, kindOf c x = .blank) (rest : Str) :
    splitW c [] (b ++ rest) = splitW c [] rest := by
  induction b with
  | nil => rfl
  | cons x b ih =>
    obtain ⟨a1, a2, a3⟩ := (kindOf_blank c x).mp (hb x (by simp))
    simp only [List.cons_append, splitW, a1, a2, a3, or_self, ↓reduceIte, flushW, List.isEmpty_nil, List.nil_append]
    exact ih (fun y hy => hb y (List.mem_cons_of_mem _ hy))

theorem splitW_flush (c : Cls) (cur s : Str) (h : s = [] ∨ ∃ x xs, s = x :: xs ∧ ¬ kindOf c x = .word) :
    splitW c cur s = flushW cur ++ splitW c [] s := by
  rcases h with rfl | ⟨x, xs, rfl, hx⟩
  · simp [splitW, flushW]
  · exact splitW_nonword c cur x xs hx

/-- the words of two strings joined by a blank character are the words of the one, then of the other -/
theorem splitW_join (c : Cls) (sp : Nat) (hsp : c.isSpace sp = true) (hp : sp ≠ LPAR ∧ sp ≠ RPAR) (a b : Str) :
    ∀ cur, splitW c cur (a ++ sp :: b) = splitW c cur a ++ splitW c [] b := by
  induction a with
  | nil => intro cur; simp [splitW, hsp, hp.1, hp.2]
  | cons x a ih =>
    intro cur
    simp only [List.cons_append, splitW]
    by_cases h1 : x = LPAR ∨ x = RPAR
    · simp only [h1, ↓reduceIte, ih [], List.append_assoc, List.cons_append]
    · simp only [h1, ↓reduceIte]
      cases h3 : c.isSpace x
      · simp only [Bool.false_eq_true, ↓reduceIte]; exact ih _
      · simp only [↓reduceIte, ih [], List.append_assoc]

/-- a blank character in front changes nothing -/
theorem splitW_lead (c : Cls) (x : Nat) (hsp : c.isSpace x = true) (hp : x ≠ LPAR ∧ x ≠ RPAR) (s : Str) :
    splitW c [] (x :: s) = splitW c [] s := by
  simp [splitW, hsp, hp.1, hp.2, flushW]

/-- a blank character at the end changes nothing -/
theorem splitW_trail (c : Cls) (x : Nat) (hsp : c.isSpace x = true) (hp : x ≠ LPAR ∧ x ≠ RPAR) (s : Str) :
    ∀ cur, splitW c cur (s ++ [x]) = splitW c cur s := by
  induction s with
  | nil => intro cur; simp [splitW, hsp, hp.1, hp.2, flushW]
  | cons y s ih =>
    intro cur
    simp only [List.cons_append, splitW]
    by_cases h1 : y = LPAR ∨ y = RPAR
    · simp only [h1, ↓reduceIte, ih []]
    · simp only [h1, ↓reduceIte]
      cases h3 : c.isSpace y
      · simp only [Bool.false_eq_true, ↓reduceIte]; exact ih _
      · simp only [↓reduceIte, ih []]

theorem splitW_dropWhile (c : Cls) (hc : ClsOK c) (s : Str) : splitW c [] (s.dropWhile c.isSpace) = splitW c [] s := by
  induction s with
  | nil => rfl
  | cons x s ih =>
    cases h : c.isSpace x
    · simp [List.dropWhile, h]
    · have hp : x ≠ LPAR ∧ x ≠ RPAR := by
        constructor <;> (intro hx; subst hx)
        · rw [hc.parenNotSpace.1] at h; cases h
        · rw [hc.parenNotSpace.2] at h; cases h
      simp only [List.dropWhile, h]
      rw [ih, splitW_lead c x h hp]

theorem splitW_dropWhile_rev (c : Cls) (hc : ClsOK c) (s : Str) :
    splitW c [] ((s.reverse.dropWhile c.isSpace).reverse) = splitW c [] s := by
  -- induction on the reversed string: peel blanks off the end
  suffices ∀ (r : Str), splitW c [] ((r.dropWhile c.isSpace).reverse) = splitW c [] r.reverse by
    have := this s.reverse; simpa using this
  intro r
  induction r with
  | nil => rfl
  | cons x r ih =>
    cases h : c.isSpace x
    · simp [List.dropWhile, h]
    · have hp : x ≠ LPAR ∧ x ≠ RPAR := by
        constructor <;> (intro hx; subst hx)
        · rw [hc.parenNotSpace.1] at h; cases h
        · rw [hc.parenNotSpace.2] at h; cases h
      simp only [List.dropWhile, h, List.reverse_cons]
      rw [ih, splitW_trail c x h hp]

/-- stripping blanks at both ends does not change the words -/
theorem unfoldedWords_strip (c : Cls) (hc : ClsOK c) (s : Str) : unfoldedWords c (stripStr c s) = unfoldedWords c s := by
  rw [unfoldedWords_splitW, unfoldedWords_splitW]
  unfold stripStr
  rw [splitW_dropWhile_rev c hc, splitW_dropWhile c hc]

end LE
