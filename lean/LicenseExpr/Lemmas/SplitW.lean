import LicenseExpr.Lemmas.Agree
/-!
# Lemmas/SplitW — the words of a string, by a direct recursion; concatenation lemmas

`splitW` splits a string at blanks and parentheses (a parenthesis is a word of its own) without
positions; `unfoldedWords c s` (the texts of the non-blank pieces of the lexer) is `splitW c [] s`.
On `splitW` the facts the position clause of C03 needs are short inductions: the words of a word, of
two strings joined by a blank, of a string with blanks stripped, of a run of pieces of the text.
-/
namespace LE

def flushW (cur : Str) : List Str := if cur.isEmpty then [] else [cur.reverse]

/-- `cur`: the word being accumulated, reversed -/
def splitW (c : Cls) : Str → Str → List Str
  | cur, [] => flushW cur
  | cur, x :: xs =>
    if x = LPAR ∨ x = RPAR then flushW cur ++ [x] :: splitW c [] xs
    else if c.isSpace x then flushW cur ++ splitW c [] xs
    else splitW c (x :: cur) xs

/-- what the accumulating state of the lexer contributes: a parenthesis is emitted later by the lexer and
    at once by `splitW`; a word in progress is the accumulator; a blank run is dropped -/
def pendingW : Option (Nat × Str × Kind) → List Str
  | some (_, r, .lpar) => [r.reverse]
  | some (_, r, .rpar) => [r.reverse]
  | _ => []

def accW : Option (Nat × Str × Kind) → Str
  | some (_, r, .word) => r
  | _ => []

theorem kindOf_word (c : Cls) (x : Nat) : kindOf c x = .word ↔ (x ≠ LPAR ∧ x ≠ RPAR ∧ c.isSpace x = false) := by
  unfold kindOf
  by_cases h1 : x = LPAR
  · simp [h1]
  · by_cases h2 : x = RPAR
    · subst h2; simp [LPAR, RPAR]
    · cases h3 : c.isSpace x <;> simp [h1, h2, h3]

theorem kindOf_blank (c : Cls) (x : Nat) : kindOf c x = .blank ↔ (x ≠ LPAR ∧ x ≠ RPAR ∧ c.isSpace x = true) := by
  unfold kindOf
  by_cases h1 : x = LPAR
  · simp [h1]
  · by_cases h2 : x = RPAR
    · subst h2; simp [LPAR, RPAR]
    · cases h3 : c.isSpace x <;> simp [h1, h2, h3]

theorem fresh_splitW (c : Cls) (pos : Nat) (x : Nat) (xs : Str) :
    pendingW (some (pos, [x], kindOf c x)) ++ splitW c (accW (some (pos, [x], kindOf c x))) xs = splitW c [] (x :: xs) := by
  by_cases h1 : x = LPAR
  · subst h1; simp [kindOf, pendingW, accW, splitW, flushW]
  · by_cases h2 : x = RPAR
    · subst h2; simp [kindOf, pendingW, accW, splitW, flushW, LPAR, RPAR]
    · cases h3 : c.isSpace x <;> simp [h1, h2, h3, kindOf, pendingW, accW, splitW, flushW]

theorem splitW_nonword (c : Cls) (r : Str) (x : Nat) (xs : Str) (hx : ¬ kindOf c x = .word) :
    splitW c r (x :: xs) = flushW r ++ splitW c [] (x :: xs) := by
  by_cases h1 : x = LPAR
  · simp [splitW, h1, flushW]
  · by_cases h2 : x = RPAR
    · simp [splitW, h2, flushW]
    · cases h3 : c.isSpace x
      · exact absurd ((kindOf_word c x).mpr ⟨h1, h2, h3⟩) hx
      · simp [splitW, h1, h2, h3, flushW]

theorem lexGo_splitW (c : Cls) (s : Str) : ∀ (pos : Nat) (cur : Option (Nat × Str × Kind)), CurOK c cur →
    (((lexGo c pos cur s).filter (fun p => p.kind != .blank)).map (·.text)) = pendingW cur ++ splitW c (accW cur) s := by
  induction s with
  | nil =>
    intro pos cur hc
    cases cur with
    | none => simp [lexGo, pendingW, accW, splitW, flushW]
    | some v =>
      obtain ⟨st, r, k⟩ := v
      obtain ⟨h1, _, _⟩ := hc st r k rfl
      cases k <;> simp [lexGo, pendingW, accW, splitW, flushW, h1]
  | cons x xs ih =>
    intro pos cur hc
    cases cur with
    | none =>
      simp only [lexGo]
      rw [ih (pos + 1) (some (pos, [x], kindOf c x)) (by intro st r k h; cases h; simp), fresh_splitW]
      simp [pendingW, accW]
    | some v =>
      obtain ⟨st, r, k⟩ := v
      obtain ⟨hne, hall, hpar⟩ := hc st r k rfl
      simp only [lexGo]
      split
      · next hk =>
        -- the run continues: a word or a blank run
        rw [ih (pos + 1) (some (st, x :: r, k)) (by
          intro st' r' k' h; cases h
          refine ⟨by simp, ?_, ?_⟩
          · intro y hy
            simp only [List.mem_cons] at hy
            rcases hy with rfl | hy
            · exact hk.1
            · exact hall y hy
          · intro hp; rcases hk.2 with h | h <;> rcases hp with h' | h' <;> simp_all)]
        rcases hk.2 with hw | hb
        · subst hw
          obtain ⟨a1, a2, a3⟩ := (kindOf_word c x).mp hk.1
          simp [pendingW, accW, splitW, a1, a2, a3]
        · subst hb
          obtain ⟨a1, a2, a3⟩ := (kindOf_blank c x).mp hk.1
          simp [pendingW, accW, splitW, a1, a2, a3, flushW]
      · next hk =>
        -- the run ends here
        have ihh := ih (pos + 1) (some (pos, [x], kindOf c x)) (by intro st' r' k' h; cases h; simp)
        rw [fresh_splitW] at ihh
        have hr' : r.isEmpty = false := by cases h : r <;> simp_all
        simp only [List.filter_cons]
        cases k with
        | blank => simp [ihh, pendingW, accW]
        | word =>
          have hx : ¬ kindOf c x = .word := fun h => hk ⟨h, Or.inl rfl⟩
          simp [ihh, pendingW, accW, splitW_nonword c r x xs hx, flushW, hr']
        | lpar => simp [ihh, pendingW, accW]
        | rpar => simp [ihh, pendingW, accW]

/-- the words of a string (texts of its non-blank pieces) are what `splitW` computes -/
theorem unfoldedWords_splitW (c : Cls) (s : Str) : unfoldedWords c s = splitW c [] s := by
  have := lexGo_splitW c s 0 none (by intro st r k h; cases h)
  simpa [unfoldedWords, wordPieces, pieces, pendingW, accW] using this

/-! ### words of concatenations -/

theorem splitW_nil (c : Cls) (cur : Str) : splitW c cur [] = flushW cur := rfl

/-- a run of word characters only extends the word in progress -/
theorem splitW_word_run (c : Cls) (w : Str) (hw : ∀ x ∈ w, kindOf c x = .word) (cur rest : Str) :
    splitW c cur (w ++ rest) = splitW c (w.reverse ++ cur) rest := by
  induction w generalizing cur with
  | nil => rfl
  | cons x w ih =>
    obtain ⟨a1, a2, a3⟩ := (kindOf_word c x).mp (hw x (by simp))
    simp only [List.cons_append, splitW, a1, a2, a3, or_self, ↓reduceIte, Bool.false_eq_true]
    rw [ih (fun y hy => hw y (List.mem_cons_of_mem _ hy))]
    simp

/-- a run of blanks after a finished word changes nothing -/
theorem splitW_blank_run (c : Cls) (b : Str) (hb : ∀ x ∈ b, kindOf c x = .blank) (rest : Str) :
    splitW c [] (b ++ rest) = splitW c [] rest := by
  induction b with
  | nil => rfl
  | cons x b ih =>
    obtain ⟨a1, a2, a3⟩ := (kindOf_blank c x).mp (hb x (by simp))
    simp only [List.cons_append, splitW, a1, a2, a3, or_self, ↓reduceIte, flushW, List.isEmpty_nil, List.nil_append]
    exact ih (fun y hy => hb y (List.mem_cons_of_mem _ hy))

theorem splitW_flush (c : Cls) (cur s : Str) (h : s = [] ∨ ∃ x xs, s = x :: xs ∧ ¬ kindOf c x = .word) :
    splitW c cur s = flushW cur ++ splitW c [] s := by
  rcases h with rfl | ⟨x, xs, rfl, hx⟩
  · simp [splitW, flushW]
  · exact splitW_nonword c cur x xs hx

/-- the words of two strings joined by a blank character are the words of the one, then of the other -/
theorem splitW_join (c : Cls) (sp : Nat) (hsp : c.isSpace sp = true) (hp : sp ≠ LPAR ∧ sp ≠ RPAR) (a b : Str) :
    ∀ cur, splitW c cur (a ++ sp :: b) = splitW c cur a ++ splitW c [] b := by
  induction a with
  | nil => intro cur; simp [splitW, hsp, hp.1, hp.2]
  | cons x a ih =>
    intro cur
    simp only [List.cons_append, splitW]
    by_cases h1 : x = LPAR ∨ x = RPAR
    · simp only [h1, ↓reduceIte, ih [], List.append_assoc, List.cons_append]
    · simp only [h1, ↓reduceIte]
      cases h3 : c.isSpace x
      · simp only [Bool.false_eq_true, ↓reduceIte]; exact ih _
      · simp only [↓reduceIte, ih [], List.append_assoc]

/-- a blank character in front changes nothing -/
theorem splitW_lead (c : Cls) (x : Nat) (hsp : c.isSpace x = true) (hp : x ≠ LPAR ∧ x ≠ RPAR) (s : Str) :
    splitW c [] (x :: s) = splitW c [] s := by
  simp [splitW, hsp, hp.1, hp.2, flushW]

/-- a blank character at the end changes nothing -/
theorem splitW_trail (c : Cls) (x : Nat) (hsp : c.isSpace x = true) (hp : x ≠ LPAR ∧ x ≠ RPAR) (s : Str) :
    ∀ cur, splitW c cur (s ++ [x]) = splitW c cur s := by
  induction s with
  | nil => intro cur; simp [splitW, hsp, hp.1, hp.2, flushW]
  | cons y s ih =>
    intro cur
    simp only [List.cons_append, splitW]
    by_cases h1 : y = LPAR ∨ y = RPAR
    · simp only [h1, ↓reduceIte, ih []]
    · simp only [h1, ↓reduceIte]
      cases h3 : c.isSpace y
      · simp only [Bool.false_eq_true, ↓reduceIte]; exact ih _
      · simp only [↓reduceIte, ih []]

theorem splitW_dropWhile (c : Cls) (hc : ClsOK c) (s : Str) : splitW c [] (s.dropWhile c.isSpace) = splitW c [] s := by
  induction s with
  | nil => rfl
  | cons x s ih =>
    cases h : c.isSpace x
    · simp [List.dropWhile, h]
    · have hp : x ≠ LPAR ∧ x ≠ RPAR := by
        constructor <;> (intro hx; subst hx)
        · rw [hc.parenNotSpace.1] at h; cases h
        · rw [hc.parenNotSpace.2] at h; cases h
      simp only [List.dropWhile, h]
      rw [ih, splitW_lead c x h hp]

theorem splitW_dropWhile_rev (c : Cls) (hc : ClsOK c) (s : Str) :
    splitW c [] ((s.reverse.dropWhile c.isSpace).reverse) = splitW c [] s := by
  -- induction on the reversed string: peel blanks off the end
  suffices ∀ (r : Str), splitW c [] ((r.dropWhile c.isSpace).reverse) = splitW c [] r.reverse by
    have := this s.reverse; simpa using this
  intro r
  induction r with
  | nil => rfl
  | cons x r ih =>
    cases h : c.isSpace x
    · simp [List.dropWhile, h]
    · have hp : x ≠ LPAR ∧ x ≠ RPAR := by
        constructor <;> (intro hx; subst hx)
        · rw [hc.parenNotSpace.1] at h; cases h
        · rw [hc.parenNotSpace.2] at h; cases h
      simp only [List.dropWhile, h, List.reverse_cons]
      rw [ih, splitW_trail c x h hp]

/-- stripping blanks at both ends does not change the words -/
theorem unfoldedWords_strip (c : Cls) (hc : ClsOK c) (s : Str) : unfoldedWords c (stripStr c s) = unfoldedWords c s := by
  rw [unfoldedWords_splitW, unfoldedWords_splitW]
  unfold stripStr
  rw [splitW_dropWhile_rev c hc, splitW_dropWhile c hc]

/-! ### runs of pieces -/

/-- no two word pieces follow each other directly: between two words there is a blank run or a parenthesis -/
def Sep : List Piece → Prop
  | p :: q :: r => ¬ (p.kind = .word ∧ q.kind = .word) ∧ Sep (q :: r)
  | _ => True

theorem lexGo_head (c : Cls) (s : Str) : ∀ (pos st : Nat) (r : Str) (k : Kind),
    ∃ t rest, lexGo c pos (some (st, r, k)) s = ⟨st, t, k⟩ :: rest := by
  induction s with
  | nil => intro pos st r k; exact ⟨_, _, rfl⟩
  | cons x xs ih =>
    intro pos st r k
    simp only [lexGo]
    split
    · exact ih _ _ _ _
    · exact ⟨_, _, rfl⟩

theorem lexGo_sep (c : Cls) (s : Str) : ∀ (pos : Nat) (cur : Option (Nat × Str × Kind)), Sep (lexGo c pos cur s) := by
  induction s with
  | nil =>
    intro pos cur
    cases cur with
    | none => simp [lexGo, Sep]
    | some v => obtain ⟨st, r, k⟩ := v; simp [lexGo, Sep]
  | cons x xs ih =>
    intro pos cur
    cases cur with
    | none => simp only [lexGo]; exact ih _ _
    | some v =>
      obtain ⟨st, r, k⟩ := v
      simp only [lexGo]
      split
      · exact ih _ _
      · next hk =>
        obtain ⟨t, rest, hh⟩ := lexGo_head c xs (pos + 1) pos [x] (kindOf c x)
        rw [hh]
        refine ⟨?_, by rw [← hh]; exact ih _ _⟩
        rintro ⟨h1, h2⟩
        simp only at h1 h2
        exact hk ⟨by rw [h2, h1], Or.inl h1⟩

theorem pieces_sep (c : Cls) (s : Str) : Sep (pieces c s) := lexGo_sep c s 0 none

theorem sep_tail {p : Piece} {l : List Piece} (h : Sep (p :: l)) : Sep l := by
  cases l with
  | nil => trivial
  | cons q r => exact h.2

theorem sep_append_right : ∀ (a b : List Piece), Sep (a ++ b) → Sep b
  | [], _, h => h
  | _ :: a, b, h => sep_append_right a b (sep_tail h)

theorem sep_append_left : ∀ (a b : List Piece), Sep (a ++ b) → Sep a
  | [], _, _ => trivial
  | [_], _, _ => trivial
  | p :: q :: a, b, h => ⟨h.1, sep_append_left (q :: a) b h.2⟩

def flatTexts (l : List Piece) : Str := (l.map (·.text)).flatten

/-- the words of a run of consecutive pieces of a text are the texts of its non-blank pieces -/
theorem splitW_run (c : Cls) : ∀ (M : List Piece), (∀ p ∈ M, PieceKindOK c p) → Sep M →
    splitW c [] (flatTexts M) = (M.filter (fun p => p.kind != .blank)).map (·.text)
  | [], _, _ => by simp [flatTexts, splitW, flushW]
  | p :: M, hk, hs => by
    have ih := splitW_run c M (fun q hq => hk q (List.mem_cons_of_mem _ hq)) (sep_tail hs)
    obtain ⟨hne, hall, hpar⟩ := hk p (by simp)
    have hflat : flatTexts (p :: M) = p.text ++ flatTexts M := by simp [flatTexts]
    rw [hflat]
    cases hkind : p.kind with
    | blank =>
      rw [splitW_blank_run c p.text (by intro x hx; rw [hall x hx, hkind]), ih]
      simp [List.filter_cons, hkind]
    | word =>
      rw [splitW_word_run c p.text (by intro x hx; rw [hall x hx, hkind]) [] (flatTexts M)]
      have hfl : flushW (p.text.reverse ++ []) = [p.text] := by
        simp [flushW, hne]
      have hnext : flatTexts M = [] ∨ ∃ x xs, flatTexts M = x :: xs ∧ ¬ kindOf c x = .word := by
        cases M with
        | nil => left; rfl
        | cons q r =>
          right
          obtain ⟨qne, qall, _⟩ := hk q (by simp)
          have hqk : ¬ q.kind = .word := fun h => hs.1 ⟨hkind, h⟩
          cases hq : q.text with
          | nil => exact absurd hq qne
          | cons x xs =>
            refine ⟨x, xs ++ flatTexts r, by simp [flatTexts, hq], ?_⟩
            rw [qall x (by rw [hq]; simp)]; exact hqk
      rw [splitW_flush c _ _ hnext, hfl, ih]
      simp [List.filter_cons, hkind]
    | lpar =>
      have ht := kind_lpar_text c p ⟨hne, hall, hpar⟩ hkind
      rw [ht]
      simp only [List.cons_append, List.nil_append, splitW, true_or, ↓reduceIte, flushW, List.isEmpty_nil]
      rw [ih]
      simp [List.filter_cons, hkind, ht]
    | rpar =>
      have ht := kind_rpar_text c p ⟨hne, hall, hpar⟩ hkind
      rw [ht]
      simp only [List.cons_append, List.nil_append, splitW, or_true, ↓reduceIte, flushW, List.isEmpty_nil]
      rw [ih]
      simp [List.filter_cons, hkind, ht]

/-! ### the slice of the text on a run of its pieces -/

theorem contig_append (n : Nat) : ∀ (A B : List Piece), Contig n (A ++ B) → Contig n A ∧ Contig (n + (flatTexts A).length) B
  | [], B, h => ⟨trivial, by simpa [flatTexts] using h⟩
  | p :: A, B, h => by
    obtain ⟨h1, h2, h3⟩ := h
    obtain ⟨i1, i2⟩ := contig_append (n + p.text.length) A B h3
    refine ⟨⟨h1, h2, i1⟩, ?_⟩
    have : (flatTexts (p :: A)).length = p.text.length + (flatTexts A).length := by simp [flatTexts]
    rw [this, ← Nat.add_assoc]; exact i2

theorem contig_bounds (n : Nat) : ∀ (M : List Piece) (a b : Piece), M.head? = some a → M.getLast? = some b → Contig n M →
    a.start = n ∧ b.stop + 1 = n + (flatTexts M).length ∧ 1 ≤ (flatTexts M).length
  | [], _, _, h, _, _ => by simp at h
  | [p], a, b, ha, hb, h => by
    have e1 : p = a := by simpa using ha
    have e2 : p = b := by simpa using hb
    subst e1; subst e2
    obtain ⟨h1, h2, _⟩ := h
    have : 1 ≤ p.text.length := by cases hp : p.text <;> simp_all
    simp [flatTexts, Piece.stop, h1]; omega
  | p :: q :: r, a, b, ha, hb, h => by
    have e1 : p = a := by simpa using ha
    subst e1
    obtain ⟨h1, h2, h3⟩ := h
    have hb' : (q :: r).getLast? = some b := by simpa [List.getLast?_cons_cons] using hb
    obtain ⟨_, i2, i3⟩ := contig_bounds (n + p.text.length) (q :: r) q b rfl hb' h3
    have hl : (flatTexts (p :: q :: r)).length = p.text.length + (flatTexts (q :: r)).length := by simp [flatTexts]
    exact ⟨h1, by rw [hl]; omega, by omega⟩

theorem slice_run (c : Cls) (text : Str) (L1 M L2 : List Piece) (a b : Piece) (ha : M.head? = some a) (hb : M.getLast? = some b)
    (h : pieces c text = L1 ++ M ++ L2) : slice text a.start b.stop = flatTexts M := by
  have hcon := pieces_contig c text
  have hcat := pieces_concat c text
  rw [h] at hcon hcat
  rw [List.append_assoc] at hcon
  obtain ⟨_, c2⟩ := contig_append 0 L1 (M ++ L2) hcon
  obtain ⟨c3, _⟩ := contig_append _ M L2 c2
  obtain ⟨b1, b2, b3⟩ := contig_bounds _ M a b ha hb c3
  have htext : text = flatTexts L1 ++ (flatTexts M ++ flatTexts L2) := by
    rw [← hcat]; simp [flatTexts]
  unfold slice
  rw [b1]
  have hlen : b.stop + 1 - (0 + (flatTexts L1).length) = (flatTexts M).length := by omega
  rw [hlen, htext]
  simp

/-- a piece list with strictly increasing starts, cut at two of its members -/
theorem split_between (ps : List Piece) (hinc : ps.Pairwise (fun a b => a.start < b.start)) (p q : Piece)
    (hp : p ∈ ps) (hq : q ∈ ps) (hpq : p.start ≤ q.start) :
    ∃ L1 M' L2, ps = L1 ++ (p :: M') ++ L2 ∧ (p :: M').getLast? = some q := by
  obtain ⟨L1, R, rfl⟩ := List.append_of_mem hp
  rw [List.pairwise_append] at hinc
  simp only [List.mem_append, List.mem_cons] at hq
  rcases hq with hq | rfl | hq
  · have := hinc.2.2 q hq p (by simp); omega
  · exact ⟨L1, [], R, by simp, rfl⟩
  · obtain ⟨R1, R2, rfl⟩ := List.append_of_mem hq
    refine ⟨L1, R1 ++ [q], R2, by simp, ?_⟩
    rw [← List.cons_append, List.getLast?_append]
    simp

end LE
