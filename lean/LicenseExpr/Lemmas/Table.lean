import LicenseExpr.Model.Spec
/-!
# Lemmas/Table — the order-dependent bookkeeping of `validate_symbols` decides the order-free `ambiguousB`
-/
namespace LE

theorem lookupB_some_mem {m : List (Str × Str)} {a k : Str} (h : lookupB m a = some k) : (a, k) ∈ m := by
  unfold lookupB at h
  cases hf : m.find? (fun p => p.1 = a) with
  | none => simp [hf] at h
  | some p =>
    simp [hf] at h
    have h1 := List.mem_of_find?_eq_some hf
    have h2 := List.find?_some hf
    simp at h2
    obtain ⟨p1, p2⟩ := p
    simp_all

theorem lookupB_isSome_of_mem {m : List (Str × Str)} {a k : Str} (h : (a, k) ∈ m) : ∃ k', lookupB m a = some k' := by
  unfold lookupB
  cases hf : m.find? (fun p => p.1 = a) with
  | none =>
    have := List.find?_eq_none.mp hf (a, k) h
    simp at this
  | some p => exact ⟨p.2, by simp⟩

/-- two holders of one name with different keys -/
def Clash (h : List (Str × Str)) : Prop := ∃ a k k', (a, k) ∈ h ∧ (a, k') ∈ h ∧ k ≠ k'

/-- the overwritten dictionary flags a clash exactly when some name is bound to two different keys,
    whatever the order of the bindings -/
theorem flag_iff_clash (bs : List (Str × Str)) (h0 : List (Str × Str)) (f0 : Bool) (hinv : f0 = true ↔ Clash h0) :
    (bs.foldl stepB (h0, f0)).2 = true ↔ Clash ((bs.foldl stepB (h0, f0)).1) := by
  induction bs generalizing h0 f0 with
  | nil => simpa using hinv
  | cons b bs ih =>
    simp only [List.foldl_cons]
    apply ih
    obtain ⟨a, k⟩ := b
    simp only [stepB, Bool.or_eq_true]
    constructor
    · rintro (hf | hl)
      · obtain ⟨a', k1, k2, h1, h2, hne⟩ := hinv.mp hf
        exact ⟨a', k1, k2, List.mem_cons_of_mem _ h1, List.mem_cons_of_mem _ h2, hne⟩
      · cases hlk : lookupB h0 a with
        | none => simp [hlk] at hl
        | some k0 =>
          simp [hlk] at hl
          exact ⟨a, k0, k, List.mem_cons_of_mem _ (lookupB_some_mem hlk), by simp, hl⟩
    · rintro ⟨a', k1, k2, h1, h2, hne⟩
      simp only [List.mem_cons, Prod.mk.injEq] at h1 h2
      rcases h1 with ⟨rfl, rfl⟩ | h1 <;> rcases h2 with ⟨h2a, rfl⟩ | h2
      · exact absurd rfl hne
      · obtain ⟨k0, hk0⟩ := lookupB_isSome_of_mem h2
        by_cases hk : k0 = k1
        · left; subst hk; exact hinv.mpr ⟨a', k0, k2, lookupB_some_mem hk0, h2, hne⟩
        · right; simp [hk0, hk]
      · subst h2a
        obtain ⟨k0, hk0⟩ := lookupB_isSome_of_mem h1
        by_cases hk : k0 = k2
        · left; subst hk; exact hinv.mpr ⟨a', k1, k0, h1, lookupB_some_mem hk0, hne⟩
        · right; simp [hk0, hk]
      · left; exact hinv.mpr ⟨a', k1, k2, h1, h2, hne⟩

theorem foldl_stepB_hist (bs : List (Str × Str)) (h0 : List (Str × Str)) (f0 : Bool) :
    (bs.foldl stepB (h0, f0)).1 = bs.reverse ++ h0 := by
  induction bs generalizing h0 f0 with
  | nil => rfl
  | cons b bs ih => simp [List.foldl_cons, stepB, ih]

theorem clashB_iff (h : List (Str × Str)) : clashB h = true ↔ Clash h := by
  unfold clashB Clash
  simp only [List.any_eq_true, Bool.and_eq_true, beq_iff_eq, bne_iff_ne, ne_eq, Prod.exists]
  constructor
  · rintro ⟨a, k, h1, a', k', h2, rfl, hne⟩
    exact ⟨a, k, k', h1, h2, hne⟩
  · rintro ⟨a, k, k', h1, h2, hne⟩
    exact ⟨a, k, h1, a, k', h2, rfl, hne⟩

/-! ### the four flags of the fold -/

theorem fold_hist_alias (c : Cls) (T : Table) (st : VState) :
    ((T.foldl (stepEntry c) st).hist, (T.foldl (stepEntry c) st).dupAlias) =
      (allBindings c T).foldl stepB (st.hist, st.dupAlias) := by
  induction T generalizing st with
  | nil => simp [allBindings]
  | cons e T ih =>
    simp only [List.foldl_cons, allBindings, List.flatMap_cons, List.foldl_append]
    rw [ih]
    simp [stepEntry, allBindings]

theorem fold_kwAlias (c : Cls) (T : Table) (st : VState) :
    (T.foldl (stepEntry c) st).kwAlias = (st.kwAlias || (allBindings c T).any (fun b => keywordStrings.contains b.1)) := by
  induction T generalizing st with
  | nil => simp [allBindings]
  | cons e T ih =>
    simp only [List.foldl_cons, allBindings, List.flatMap_cons, List.any_append]
    rw [ih]
    simp [stepEntry, allBindings, Bool.or_assoc]

theorem fold_kwKey (c : Cls) (T : Table) (st : VState) :
    (T.foldl (stepEntry c) st).kwKey = (st.kwKey || T.any (fun e => keywordStrings.contains (entryKeyl c e))) := by
  induction T generalizing st with
  | nil => simp
  | cons e T ih =>
    simp only [List.foldl_cons, List.any_cons]
    rw [ih]
    have e1 : (stepEntry c st e).kwKey = (st.kwKey || keywordStrings.contains (entryKeyl c e)) := rfl
    rw [e1, Bool.or_assoc]

theorem any_contains_cons (K : Entry → Str) (k : Str) (seen : List Str) (T : List Entry) :
    T.any (fun e' => (k :: seen).contains (K e')) = ((T.map K).contains k || T.any (fun e' => seen.contains (K e'))) := by
  induction T with
  | nil => simp
  | cons x xs ih =>
    rw [List.any_cons, ih, List.any_cons]
    simp only [List.map_cons, List.contains_cons]
    rw [show (K x == k) = (k == K x) from by rw [Bool.eq_iff_iff]; simp only [beq_iff_eq]; exact eq_comm]
    generalize (k == K x) = a
    generalize seen.contains (K x) = b
    generalize (List.map K xs).contains k = d
    generalize (xs.any fun e' => seen.contains (K e')) = g
    cases a <;> cases b <;> cases d <;> cases g <;> rfl

theorem fold_dupKey (c : Cls) (T : Table) (st : VState) :
    (T.foldl (stepEntry c) st).dupKey =
      (st.dupKey || T.any (fun e => st.seenKeys.contains (entryKeyl c e)) || !nodupB (T.map (entryKeyl c))) := by
  induction T generalizing st with
  | nil => simp [nodupB]
  | cons e T ih =>
    simp only [List.foldl_cons, List.any_cons, List.map_cons, nodupB]
    rw [ih]
    have e1 : (stepEntry c st e).seenKeys = entryKeyl c e :: st.seenKeys := rfl
    have e2 : (stepEntry c st e).dupKey = (st.dupKey || st.seenKeys.contains (entryKeyl c e)) := rfl
    rw [e1, e2, any_contains_cons]
    generalize st.dupKey = a
    generalize st.seenKeys.contains (entryKeyl c e) = b
    generalize (List.map (entryKeyl c) T).contains (entryKeyl c e) = d
    generalize (T.any fun e' => st.seenKeys.contains (entryKeyl c e')) = g
    generalize nodupB (List.map (entryKeyl c) T) = n
    cases a <;> cases b <;> cases d <;> cases g <;> cases n <;> rfl

/-- **the bookkeeping decides ambiguity**: what `validate_symbols` computes entry by entry, with
    dictionaries that are overwritten as it goes, is the order-free predicate `ambiguousB` -/
theorem tableRefused_eq_ambiguous (c : Cls) (T : Table) : tableRefused c T = ambiguousB c T := by
  unfold tableRefused validateState ambiguousB
  have h1 := fold_dupKey c T ⟨[], [], false, false, false, false⟩
  have h2 := fold_hist_alias c T ⟨[], [], false, false, false, false⟩
  have h3 := fold_kwAlias c T ⟨[], [], false, false, false, false⟩
  have h4 := fold_kwKey c T ⟨[], [], false, false, false, false⟩
  have hany : (T.any fun _ => false) = false := by induction T <;> simp_all
  simp only [Bool.false_or, List.contains_nil, hany] at h1 h3 h4
  have h5 : (T.foldl (stepEntry c) ⟨[], [], false, false, false, false⟩).dupAlias = clashB (allBindings c T) := by
    have hf := flag_iff_clash (allBindings c T) [] false (by simp [Clash])
    have hh := foldl_stepB_hist (allBindings c T) [] false
    have e2 : (T.foldl (stepEntry c) ⟨[], [], false, false, false, false⟩).dupAlias = ((allBindings c T).foldl stepB ([], false)).2 := by
      have := congrArg Prod.snd h2; simpa using this
    rw [e2, Bool.eq_iff_iff, hf, hh, clashB_iff]
    simp only [List.append_nil]
    unfold Clash
    simp only [List.mem_reverse]
  simp only [h1, h3, h4, h5]

end LE
