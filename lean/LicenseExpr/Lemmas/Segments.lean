import LicenseExpr.Lemmas.Alone
import LicenseExpr.Lemmas.SweepDom
import LicenseExpr.Lemmas.Canon
import LicenseExpr.Lemmas.Spell
/-!
# Lemmas/Segments — tokenizing a text that is a sequence of operands and operators

If the words of a text fall into consecutive segments — a keyword, a stored name, a run of unknown
words — and no stored name reaches across a segment boundary, the automaton tokenizer produces one
token per keyword and per name and one unmatched token per unknown word (`tokenize_segments`). This
is what makes an operand recognised "wherever it stands": what is around it does not matter.
-/
namespace LE
variable {V : Type}

/-! ### list bookkeeping -/

theorem tails_of_suffix : ∀ (ws q : List Word), q <:+ ws → q ∈ tails ws
  | [], q, h => by
    have : q = [] := List.eq_nil_of_suffix_nil h
    subst this; simp [tails]
  | a :: as, q, h => by
    rcases List.suffix_cons_iff.mp h with rfl | h'
    · exact tails_self _
    · simp only [tails, List.mem_cons]; right; exact tails_of_suffix as q h'

/-- two tokens lists in text order with the same members are the same list -/
theorem ordered_toks_eq : ∀ (l l' : List (Tok V)), l.Pairwise (fun a b => a.e < b.s) → l'.Pairwise (fun a b => a.e < b.s) →
    (∀ x ∈ l, x.s ≤ x.e) → (∀ x ∈ l', x.s ≤ x.e) → (∀ x, x ∈ l ↔ x ∈ l') → l = l'
  | [], [], _, _, _, _, _ => rfl
  | [], y :: ys, _, _, _, _, h => by have := (h y).mpr (by simp); cases this
  | x :: xs, [], _, _, _, _, h => by have := (h x).mp (by simp); cases this
  | x :: xs, y :: ys, h1, h2, w1, w2, h => by
    rw [List.pairwise_cons] at h1 h2
    have hxy : x = y := by
      have hx := (h x).mp (by simp)
      have hy := (h y).mpr (by simp)
      simp only [List.mem_cons] at hx hy
      rcases hx with hx | hx
      · exact hx
      · rcases hy with hy | hy
        · exact hy.symm
        · have a1 := h2.1 x hx
          have a2 := h1.1 y hy
          have := w1 x (by simp)
          have := w2 y (by simp)
          omega
    subst hxy
    congr 1
    apply ordered_toks_eq xs ys h1.2 h2.2 (fun z hz => w1 z (List.mem_cons_of_mem _ hz)) (fun z hz => w2 z (List.mem_cons_of_mem _ hz))
    intro z
    constructor
    · intro hz
      have := (h z).mp (List.mem_cons_of_mem _ hz)
      simp only [List.mem_cons] at this
      rcases this with rfl | this
      · have := h1.1 z hz; have := w1 z (by simp); omega
      · exact this
    · intro hz
      have := (h z).mpr (List.mem_cons_of_mem _ hz)
      simp only [List.mem_cons] at this
      rcases this with rfl | this
      · have := h2.1 z hz; have := w2 z (by simp); omega
      · exact this

/-- in a duplicate-free list the place of an element is unique -/
theorem nodup_split_unique {α : Type} : ∀ (a b a' b' : List α) (p : α), (a ++ p :: b).Nodup → a ++ p :: b = a' ++ p :: b' → a = a' ∧ b = b'
  | [], b, [], b', p, _, h => by simpa using h
  | [], b, x :: a', b', p, hn, h => by
    simp only [List.nil_append, List.cons_append, List.cons.injEq] at h
    obtain ⟨rfl, rfl⟩ := h
    simp at hn
  | x :: a, b, [], b', p, hn, h => by
    simp only [List.nil_append, List.cons_append, List.cons.injEq] at h
    obtain ⟨rfl, rfl⟩ := h
    simp at hn
  | x :: a, b, y :: a', b', p, hn, h => by
    simp only [List.cons_append, List.cons.injEq] at h
    obtain ⟨rfl, h⟩ := h
    simp only [List.cons_append, List.nodup_cons] at hn
    obtain ⟨i1, i2⟩ := nodup_split_unique a b a' b' p hn.2 h
    exact ⟨by rw [i1], i2⟩

theorem pieces_nodup (ps : List Piece) (hok : PiecesOK ps) : ps.Nodup := by
  have := starts_increasing ps hok
  exact this.imp (fun {a b} h hab => by subst hab; omega)

/-! ### a stored name inside a text -/

theorem startBack_reverse_idx (l : List Piece) (n : Nat) (st : Nat) :
    startBack l.reverse n = some st ↔ 1 ≤ n ∧ n ≤ l.length ∧ ∃ p, l[l.length - n]? = some p ∧ p.start = st := by
  cases n with
  | zero => simp [startBack]
  | succ m =>
    simp only [startBack, Option.map_eq_some_iff]
    constructor
    · rintro ⟨q, hq, rfl⟩
      have hm : m < l.length := by
        have := (List.getElem?_eq_some_iff.mp hq).1
        simpa using this
      rw [List.getElem?_reverse hm] at hq
      refine ⟨by omega, by omega, q, ?_, rfl⟩
      have : l.length - (m + 1) = l.length - 1 - m := by omega
      rw [this]; exact hq
    · rintro ⟨_, hle, p, hp, rfl⟩
      refine ⟨p, ?_, rfl⟩
      rw [List.getElem?_reverse (by omega)]
      have : l.length - 1 - m = l.length - (m + 1) := by omega
      rw [this]; exact hp

theorem start_index_inj (l : List Piece) (hinc : l.Pairwise (fun a b => a.start < b.start)) (i j : Nat) (p q : Piece)
    (hi : l[i]? = some p) (hj : l[j]? = some q) (h : p.start = q.start) : i = j := by
  rw [List.pairwise_iff_getElem] at hinc
  obtain ⟨hil, rfl⟩ := List.getElem?_eq_some_iff.mp hi
  obtain ⟨hjl, rfl⟩ := List.getElem?_eq_some_iff.mp hj
  rcases Nat.lt_trichotomy i j with h1 | h1 | h1
  · have := hinc i j hil hjl h1; omega
  · exact h1
  · have := hinc j i hjl hil h1; omega

/-- a stored name standing on the run `g` of consecutive words of the text: the scan reports it with the
    extent of the run, and nothing else with that extent -/
theorem seg_token (c : Cls) (t : Trie V) (hk : AC.KnownOK t) (text : Str) (A g B : List Piece)
    (hps : wordPieces c text = A ++ g ++ B) (first last : Piece) (hf : g.head? = some first) (hl : g.getLast? = some last)
    (e : TEntry V) (ho : t.outputAt (g.map (fun p => c.fold p.text)) = some e) :
    (⟨first.start, last.stop, slice text first.start last.stop, some e.val⟩ : Tok V) ∈ t.iter c text true ∧
    ∀ x ∈ t.iter c text true, x.s = first.start → x.e = last.stop →
      x = ⟨first.start, last.stop, slice text first.start last.stop, some e.val⟩ := by
  have hok := wordPieces_ok c text
  have hinc := starts_increasing _ hok
  have hnd := pieces_nodup _ hok
  obtain ⟨gi, hg⟩ := eq_concat_of_getLast? g last hl
  have hsplit : wordPieces c text = (A ++ gi) ++ last :: B := by rw [hps, hg]; simp
  have hl' := AC.iter_specU c t hk text
  have hew : e.words = g.map (fun p => c.fold p.text) := (AC.outputAt_node t _ e ho).2.2
  have hseen : last :: (A ++ gi).reverse ++ ([] : List Piece) = (A ++ g).reverse := by rw [hg]; simp
  have hwords : wordsOfSeen c (last :: (A ++ gi).reverse ++ ([] : List Piece)) = (A ++ g).map (fun p => c.fold p.text) := by
    rw [hseen, wordsOfSeen_reverse]
  have hgl : 1 ≤ g.length := by rw [hg]; simp
  have hfirst : (A ++ g)[(A ++ g).length - g.length]? = some first := by
    have : (A ++ g).length - g.length = A.length := by simp
    rw [this, List.getElem?_append_right (Nat.le_refl _)]
    simp only [Nat.sub_self]
    cases g with
    | nil => simp at hf
    | cons a r => simpa using hf
  have hsb : startBack (last :: (A ++ gi).reverse ++ ([] : List Piece)) e.words.length = some first.start := by
    rw [hseen, hew, List.length_map, startBack_reverse_idx]
    exact ⟨hgl, by simp, first, hfirst, rfl⟩
  have hKhits : (⟨first.start, last.stop, slice text first.start last.stop, some e.val⟩ : Tok V) ∈
      hitsAt c t text (last :: (A ++ gi).reverse ++ ([] : List Piece)) last := by
    simp only [hitsAt, List.mem_filterMap, Option.map_eq_some_iff]
    refine ⟨e, ⟨g.map (fun p => c.fold p.text), ?_, ho⟩, first.start, hsb, rfl⟩
    rw [hwords]
    apply tails_of_suffix
    simp [List.map_append]
  refine ⟨?_, ?_⟩
  · rw [hl', hsplit]
    have := iterSpecGoU_at c t text last B (A ++ gi) [] _ hKhits
    simpa using this
  · intro x hx hxs hxe
    rw [hl'] at hx
    obtain ⟨pre', p, post', hsp, h1, h2, h3⟩ := iterSpecGoU_mem c t text _ [] x hx
    have hpm : p ∈ wordPieces c text := by rw [hsp]; simp
    have hlm : last ∈ wordPieces c text := by rw [hsplit]; simp
    have hpl : p = last := by
      rcases pieces_trichotomy _ hok p last hpm hlm with h | h | h
      · exact h
      · have := hok.2 last hlm; omega
      · have := hok.2 p hpm; omega
    subst hpl
    obtain ⟨rfl, rfl⟩ := nodup_split_unique _ _ _ _ p (by rw [← hsp]; exact hnd) (hsp.symm.trans hsplit)
    rcases h3 with ⟨_, _, hnone⟩ | ⟨e', he', hsb', hval⟩
    · rw [hnone] at hKhits; cases hKhits
    · simp only [List.mem_filterMap] at he'
      obtain ⟨q, hq, hoq⟩ := he'
      obtain ⟨_, _, hqw⟩ := AC.outputAt_node t q e' hoq
      rw [hwords] at hq
      have hsuf := tails_suffix _ _ hq
      rw [hseen, startBack_reverse_idx] at hsb'
      obtain ⟨n1, n2, p0, hp0, hp0s⟩ := hsb'
      have hidx := start_index_inj (A ++ g) (by rw [hps] at hinc; exact (List.pairwise_append.mp hinc).1)
        _ _ p0 first hp0 hfirst (by rw [hp0s, hxs])
      have hlen : e'.words.length = g.length := by
        have : (A ++ g).length = A.length + g.length := by simp
        omega
      have hqlen : q.length = (g.map (fun p => c.fold p.text)).length := by rw [← hqw, hlen]; simp
      have hsufg : g.map (fun p => c.fold p.text) <:+ (A ++ g).map (fun p => c.fold p.text) := by simp [List.map_append]
      have hqeq : q = g.map (fun p => c.fold p.text) := by
        have := List.suffix_of_suffix_length_le hsuf hsufg (by omega)
        exact List.IsSuffix.eq_of_length this hqlen
      subst hqeq
      rw [ho] at hoq
      have : e = e' := by simpa using hoq
      subst this
      cases x
      simp only [Tok.mk.injEq]
      simp only at hxs hxe h2 hval
      exact ⟨hxs, hxe, by rw [h2, hxs, hxe], hval⟩

/-! ### segments -/

/-- a segment of consecutive words: its pieces and, for a stored name, the value stored under it;
    `none`: a run of unknown words -/
abbrev Seg (V : Type) := List Piece × Option V

def segToks (text : Str) : Seg V → List (Tok V)
  | (g, some v) =>
    match g.head?, g.getLast? with
    | some f, some l => [⟨f.start, l.stop, slice text f.start l.stop, some v⟩]
    | _, _ => []
  | (g, none) => g.map (fun p => ⟨p.start, p.stop, slice text p.start p.stop, none⟩)

def segPieces (segs : List (Seg V)) : List Piece := (segs.map (·.1)).flatten

theorem segPieces_cons (sg : Seg V) (segs : List (Seg V)) : segPieces (sg :: segs) = sg.1 ++ segPieces segs := by
  simp [segPieces]

theorem segPieces_append (a b : List (Seg V)) : segPieces (a ++ b) = segPieces a ++ segPieces b := by
  simp [segPieces]

theorem mem_segPieces (segs : List (Seg V)) (p : Piece) : p ∈ segPieces segs ↔ ∃ sg ∈ segs, p ∈ sg.1 := by
  simp only [segPieces, List.mem_flatten, List.mem_map]
  constructor
  · rintro ⟨l, ⟨sg, hsg, rfl⟩, hp⟩; exact ⟨sg, hsg, hp⟩
  · rintro ⟨sg, hsg, hp⟩; exact ⟨sg.1, ⟨sg, hsg, rfl⟩, hp⟩

/-- every token of a segment starts at the start of one of its pieces and ends at the end of one -/
theorem segToks_span (text : Str) (sg : Seg V) : ∀ k ∈ segToks text sg, ∃ p ∈ sg.1, ∃ p' ∈ sg.1, k.s = p.start ∧ k.e = p'.stop := by
  obtain ⟨g, o⟩ := sg
  cases o with
  | none =>
    intro k hk
    simp only [segToks, List.mem_map] at hk
    obtain ⟨p, hp, rfl⟩ := hk
    exact ⟨p, hp, p, hp, rfl, rfl⟩
  | some v =>
    intro k hk
    simp only [segToks] at hk
    cases hh : g.head? with
    | none => simp [hh] at hk
    | some f =>
      cases hl : g.getLast? with
      | none => simp [hh, hl] at hk
      | some l =>
        simp only [hh, hl, List.mem_singleton] at hk
        subst hk
        exact ⟨f, List.mem_of_mem_head? hh, l, List.mem_of_mem_getLast? hl, rfl, rfl⟩

/-- the hypotheses of `tokenize_segments` -/
structure SegsOK (c : Cls) (t : Trie V) (text : Str) (segs : List (Seg V)) : Prop where
  cover : segPieces segs = wordPieces c text
  ne : ∀ sg ∈ segs, sg.1 ≠ []
  names : ∀ g v, (g, some v) ∈ segs → ∃ e, t.outputAt (g.map (fun p => c.fold p.text)) = some e ∧ e.val = v
  unknown : ∀ g, (g, (none : Option V)) ∈ segs → ∀ p ∈ g, t.known.contains (c.fold p.text) = false
  within : ∀ k ∈ t.iter c text true, k.val.isSome = true →
    ∃ sg ∈ segs, ∃ p ∈ sg.1, ∃ p' ∈ sg.1, k.s = p.start ∧ k.e = p'.stop

section main
variable (c : Cls) (t : Trie V) (text : Str) (segs : List (Seg V))

/-- where a segment sits among the pieces -/
theorem seg_position (h : SegsOK c t text segs) (sg : Seg V) (hsg : sg ∈ segs) :
    ∃ S1 S2, segs = S1 ++ sg :: S2 ∧ wordPieces c text = segPieces S1 ++ sg.1 ++ segPieces S2 := by
  obtain ⟨S1, S2, rfl⟩ := List.append_of_mem hsg
  exact ⟨S1, S2, rfl, by rw [← h.cover, segPieces_append, segPieces_cons]; simp [List.append_assoc]⟩

/-- a piece of the text outside a segment lies wholly before it or wholly after it -/
theorem seg_outside (A g B : List Piece) (hps : wordPieces c text = A ++ g ++ B) (p : Piece) (hp : p ∈ wordPieces c text)
    (hpg : p ∉ g) (f l : Piece) (hf : g.head? = some f) (hl : g.getLast? = some l) :
    p.stop < f.start ∨ l.stop < p.start := by
  have hok := wordPieces_ok c text
  rw [hps] at hp hok
  have hpw := hok.1
  rw [List.pairwise_append] at hpw
  obtain ⟨hAg, _, hAgB⟩ := hpw
  rw [List.pairwise_append] at hAg
  simp only [List.mem_append] at hp
  rcases hp with (hp | hp) | hp
  · left; exact hAg.2.2 p hp f (List.mem_of_mem_head? hf)
  · exact absurd hp hpg
  · right; exact hAgB l (by simp [List.mem_of_mem_getLast? hl]) p hp

/-- the pieces of a segment lie between its first and its last -/
theorem seg_inside (A g B : List Piece) (hps : wordPieces c text = A ++ g ++ B) (p : Piece) (hpg : p ∈ g)
    (f l : Piece) (hf : g.head? = some f) (hl : g.getLast? = some l) :
    f.start ≤ p.start ∧ p.stop ≤ l.stop := by
  have hok := wordPieces_ok c text
  have hg : PiecesOK g := by
    rw [hps] at hok
    refine ⟨(List.pairwise_append.mp (List.pairwise_append.mp hok.1).1).2.1, fun q hq => hok.2 q (by simp [hq])⟩
  constructor
  · cases g with
    | nil => cases hpg
    | cons a r =>
      simp at hf; subst hf
      rcases List.mem_cons.mp hpg with rfl | h
      · exact Nat.le_refl _
      · have := (List.pairwise_cons.mp hg.1).1 p h
        have := hg.2 a (by simp)
        omega
  · obtain ⟨r, hr⟩ := eq_concat_of_getLast? g l hl
    rw [hr] at hpg hg
    rcases List.mem_append.mp hpg with h | h
    · have := (List.pairwise_append.mp hg.1).2.2 p h l (by simp)
      have := hg.2 l (by simp)
      omega
    · simp at h; rw [h]; exact Nat.le_refl _

/-- every token of the scan stands on pieces of one segment -/
theorem iter_within_all (hk : AC.KnownOK t) (h : SegsOK c t text segs) :
    ∀ x ∈ t.iter c text true, ∃ sg ∈ segs, ∃ p ∈ sg.1, ∃ p' ∈ sg.1, x.s = p.start ∧ x.e = p'.stop := by
  intro x hx
  cases hv : x.val with
  | some v => exact h.within x hx (by simp [hv])
  | none =>
    have hx' := hx
    rw [AC.iter_specU c t hk text] at hx'
    obtain ⟨pre, p, post, hsp, h1, _, h3⟩ := iterSpecGoU_mem c t text _ [] x hx'
    rcases h3 with ⟨_, hs, _⟩ | ⟨e', _, _, hval⟩
    · have hp : p ∈ segPieces segs := by rw [h.cover, hsp]; simp
      obtain ⟨sg, hsg, hpsg⟩ := (mem_segPieces segs p).mp hp
      exact ⟨sg, hsg, p, hpsg, p, hpsg, hs, h1⟩
    · rw [hv] at hval; cases hval

/-- **a stored name that fills a segment is one token of the result** -/
theorem name_seg_kept (hk : AC.KnownOK t) (h : SegsOK c t text segs) (g : List Piece) (v : V) (hsg : (g, some v) ∈ segs)
    (f l : Piece) (hf : g.head? = some f) (hl : g.getLast? = some l) :
    (⟨f.start, l.stop, slice text f.start l.stop, some v⟩ : Tok V) ∈ t.tokenize c text := by
  have hok := wordPieces_ok c text
  have hnd := pieces_nodup _ hok
  obtain ⟨S1, S2, hsegs, hps⟩ := seg_position c t text segs h _ hsg
  simp only at hps
  obtain ⟨e, ho, rfl⟩ := h.names g v hsg
  obtain ⟨hK, huniq⟩ := seg_token c t hk text _ g _ hps f l hf hl e ho
  have hfg : f ∈ g := List.mem_of_mem_head? hf
  have hlg : l ∈ g := List.mem_of_mem_getLast? hl
  have hKwf : f.start ≤ l.stop := by
    have := (seg_inside c text _ g _ hps f hfg f l hf hl).2
    have := hok.2 f (by rw [hps]; simp [hfg])
    omega
  have hkept : (⟨f.start, l.stop, slice text f.start l.stop, some e.val⟩ : Tok V) ∈ filterOverlapping (t.iter c text true) := by
    unfold filterOverlapping
    apply sweep_keeps_dominant _ _ ((sortToks_mem _ _).mpr hK) (sortToks_sorted _) hKwf
    intro x hx
    have hxi := (sortToks_mem _ x).mp hx
    have hxwf := aligned_ne _ hok x (iter_aligned c t text true x hxi)
    obtain ⟨sg, hsgm, p, hp, p', hp', hs, he⟩ := iter_within_all c t text segs hk h x hxi
    by_cases hsame : sg = (g, some e.val)
    · subst hsame
      simp only at hp hp'
      obtain ⟨a1, _⟩ := seg_inside c text _ g _ hps p hp f l hf hl
      obtain ⟨_, b2⟩ := seg_inside c text _ g _ hps p' hp' f l hf hl
      by_cases hwhole : x.s = f.start ∧ x.e = l.stop
      · exact Or.inl (huniq x hxi hwhole.1 hwhole.2)
      · right; right
        simp only [Tok.ilen, Gen.len]
        omega
    · right; left
      refine ⟨hxwf, ?_⟩
      rw [hsegs] at hsgm
      have hpw := hok.1
      rw [hps, List.pairwise_append] at hpw
      obtain ⟨hAg, _, hAgB⟩ := hpw
      rw [List.pairwise_append] at hAg
      simp only [List.mem_append, List.mem_cons] at hsgm
      rcases hsgm with h1 | h1 | h1
      · right
        have : p' ∈ segPieces S1 := (mem_segPieces S1 p').mpr ⟨sg, h1, hp'⟩
        have := hAg.2.2 p' this f hfg
        simp only; omega
      · exact absurd h1 hsame
      · left
        have : p ∈ segPieces S2 := (mem_segPieces S2 p).mpr ⟨sg, h1, hp⟩
        have := hAgB l (by simp [hlg]) p this
        simp only; omega
  unfold Trie.tokenize addUncovered
  rw [sortToks_mem]
  exact List.mem_append_left _ hkept

/-- **an unknown word is an unmatched token of the result** -/
theorem unknown_piece_kept (hk : AC.KnownOK t) (h : SegsOK c t text segs) (g : List Piece) (hsg : (g, (none : Option V)) ∈ segs)
    (p : Piece) (hp : p ∈ g) :
    (⟨p.start, p.stop, slice text p.start p.stop, none⟩ : Tok V) ∈ t.tokenize c text := by
  have hok := wordPieces_ok c text
  have hnd := pieces_nodup _ hok
  have hpW : p ∈ wordPieces c text := by rw [← h.cover]; exact (mem_segPieces segs p).mpr ⟨_, hsg, hp⟩
  obtain ⟨_, _, c3⟩ := C17_cover c t text
  obtain ⟨k, hkt, hk1, hk2⟩ := c3 p hpW
  have hpwf := hok.2 p hpW
  suffices k = ⟨p.start, p.stop, slice text p.start p.stop, none⟩ by rw [← this]; exact hkt
  have hkt' := hkt
  unfold Trie.tokenize addUncovered at hkt'
  rw [sortToks_mem] at hkt'
  rcases List.mem_append.mp hkt' with hkk | hku
  · -- a token of the scan that covers an unknown word is that word, unmatched
    have hki : k ∈ t.iter c text true := (sortToks_mem _ k).mp (sweep_sub _ k hkk)
    have hki' := hki
    rw [AC.iter_specU c t hk text] at hki'
    obtain ⟨pre, q, post, hsp, h1, h2, h3⟩ := iterSpecGoU_mem c t text _ [] k hki'
    have hqW : q ∈ wordPieces c text := by rw [hsp]; simp
    rcases h3 with ⟨hvn, hs, _⟩ | ⟨e', he', hsb, hval⟩
    · -- unmatched: the piece itself
      have hqp : q = p := by
        rcases pieces_trichotomy _ hok q p hqW hpW with h | h | h
        · exact h
        · have := hok.2 q hqW; omega
        · have := hok.2 q hqW; omega
      subst hqp
      cases k
      simp only [Tok.mk.injEq]
      simp only at hs h1 h2 hvn
      exact ⟨hs, h1, by rw [h2, hs, h1], hvn⟩
    · -- matched: its last word would be a known word of the unknown run
      exfalso
      obtain ⟨sg, hsgm, a, ha, b, hb, hs, he⟩ := h.within k hki (by simp [hval])
      -- the segment of the match contains p
      have hbq : b = q := by
        have hbW : b ∈ wordPieces c text := by rw [← h.cover]; exact (mem_segPieces segs b).mpr ⟨sg, hsgm, hb⟩
        rcases pieces_trichotomy _ hok b q hbW hqW with h | h | h
        · exact h
        · have := hok.2 q hqW; have := hok.2 b hbW; omega
        · have := hok.2 q hqW; have := hok.2 b hbW; omega
      subst hbq
      obtain ⟨S1, S2, hsegs, hps⟩ := seg_position c t text segs h sg hsgm
      have hpsg : p ∈ sg.1 := by
        by_cases hnot : p ∈ sg.1
        · exact hnot
        exfalso
        obtain ⟨fa, hfa⟩ : ∃ fa, sg.1.head? = some fa := by
          cases hh : sg.1 with
          | nil => rw [hh] at ha; cases ha
          | cons x r => exact ⟨x, rfl⟩
        obtain ⟨la, hla⟩ : ∃ la, sg.1.getLast? = some la :=
          ⟨sg.1.getLast (List.ne_nil_of_mem ha), List.getLast?_eq_some_getLast _⟩
        have i1 := seg_inside c text _ sg.1 _ hps a ha fa la hfa hla
        have i2 := seg_inside c text _ sg.1 _ hps b hb fa la hfa hla
        rcases seg_outside c text _ sg.1 _ hps p hpW hnot fa la hfa hla with h | h <;> omega
      -- so that segment is the unknown run
      have hsgeq : sg = (g, none) := by
        by_cases hne : sg = (g, none)
        · exact hne
        exfalso
        obtain ⟨T1, T2, hsegs2, hps2⟩ := seg_position c t text segs h _ hsg
        simp only at hps2
        rw [hsegs2] at hsgm
        simp only [List.mem_append, List.mem_cons] at hsgm
        rw [hps2] at hnd
        rcases hsgm with h1 | h1 | h1
        · have : p ∈ segPieces T1 := (mem_segPieces T1 p).mpr ⟨sg, h1, hpsg⟩
          rw [List.nodup_append] at hnd
          have := hnd.1
          rw [List.nodup_append] at this
          exact this.2.2 p ‹p ∈ segPieces T1› p hp rfl
        · exact hne h1
        · have : p ∈ segPieces T2 := (mem_segPieces T2 p).mpr ⟨sg, h1, hpsg⟩
          rw [List.nodup_append] at hnd
          exact hnd.2.2 p (by simp [hp]) p this rfl
      subst hsgeq
      -- the last word of the match is a word of a stored name, hence known
      simp only [List.mem_filterMap] at he'
      obtain ⟨w, hw, how⟩ := he'
      obtain ⟨_, hmem, hww⟩ := AC.outputAt_node t w e' how
      have hsuf := tails_suffix _ _ hw
      have hwne : w ≠ [] := by
        intro h0; subst h0; simp [Trie.outputAt] at how
      have hlast : c.fold b.text ∈ w := by
        rw [List.append_nil, AC.wordsOfSeen_cons] at hsuf
        obtain ⟨r, hr⟩ := hsuf
        have : w.getLast? = some (c.fold b.text) := by
          have h5 : (r ++ w).getLast? = some (c.fold b.text) := by rw [hr]; simp
          rw [List.getLast?_append] at h5
          cases hwl : w.getLast? with
          | none => simp [List.getLast?_eq_none_iff] at hwl; exact absurd hwl hwne
          | some z => simp [hwl] at h5; rw [h5]
        exact List.mem_of_mem_getLast? this
      have hknown := hk e' hmem (c.fold b.text) (by rw [hww]; exact hlast)
      rw [h.unknown g hsg b hb] at hknown
      cases hknown
  · obtain ⟨q, hq, rfl⟩ := uncovered_from_pieces text _ _ k hku
    simp only [pieceTok] at hk1 hk2 ⊢
    have hqp : q = p := by
      rcases pieces_trichotomy _ hok q p hq hpW with h | h | h
      · exact h
      · have := hok.2 q hq; omega
      · have := hok.2 q hq; omega
    subst hqp
    simp only [Tok.mk.injEq, true_and]
    exact ⟨(piece_slice c text q (List.mem_filter.mp hq).1).symm, trivial⟩

/-- the expected tokens are in text order -/
theorem segToks_ordered : ∀ (segs : List (Seg V)), PiecesOK (segPieces segs) → (∀ sg ∈ segs, sg.1 ≠ []) →
    (segs.flatMap (segToks text)).Pairwise (fun a b => a.e < b.s) ∧ ∀ k ∈ segs.flatMap (segToks text), k.s ≤ k.e
  | [], _, _ => by simp
  | sg :: rest, hok, hne => by
    rw [segPieces_cons] at hok
    have hpw := hok.1
    rw [List.pairwise_append] at hpw
    obtain ⟨hg, hrest, hcross⟩ := hpw
    obtain ⟨ih1, ih2⟩ := segToks_ordered rest ⟨hrest, fun p hp => hok.2 p (by simp [hp])⟩ (fun s hs => hne s (List.mem_cons_of_mem _ hs))
    have hwf : ∀ p ∈ sg.1, p.start ≤ p.stop := fun p hp => hok.2 p (by simp [hp])
    -- the tokens of the first segment
    have hown : (segToks text sg).Pairwise (fun a b => a.e < b.s) ∧ ∀ k ∈ segToks text sg, k.s ≤ k.e := by
      obtain ⟨g, o⟩ := sg
      cases o with
      | none =>
        simp only [segToks]
        refine ⟨?_, ?_⟩
        · rw [List.pairwise_map]; exact hg.imp (fun {a b} h => by simpa using h)
        · intro k hk
          simp only [List.mem_map] at hk
          obtain ⟨p, hp, rfl⟩ := hk
          exact hwf p hp
      | some v =>
        simp only [segToks]
        cases hh : g.head? with
        | none => simp
        | some f =>
          cases hl : g.getLast? with
          | none => simp
          | some l =>
            simp only [List.pairwise_cons, List.not_mem_nil, false_implies, implies_true, List.Pairwise.nil, and_self,
              List.mem_singleton, forall_eq, true_and]
            -- first.start ≤ last.stop
            obtain ⟨r, hr⟩ := eq_concat_of_getLast? g l hl
            have hfl : f ∈ g := List.mem_of_mem_head? hh
            rw [hr] at hfl hg
            rcases List.mem_append.mp hfl with h | h
            · have := (List.pairwise_append.mp hg).2.2 f h l (by simp)
              have := hwf f (by simp only []; rw [hr]; simp [h])
              have := hwf l (by simp only []; rw [hr]; simp)
              omega
            · simp at h; rw [h]; exact hwf l (by simp only []; rw [hr]; simp)
    rw [List.flatMap_cons]
    refine ⟨List.pairwise_append.mpr ⟨hown.1, ih1, ?_⟩, ?_⟩
    · intro a ha b hb
      obtain ⟨_, _, p', hp', _, he⟩ := segToks_span text sg a ha
      simp only [List.mem_flatMap] at hb
      obtain ⟨sg', hsg', hb'⟩ := hb
      obtain ⟨q, hq, _, _, hs, _⟩ := segToks_span text sg' b hb'
      have := hcross p' hp' q ((mem_segPieces rest q).mpr ⟨sg', hsg', hq⟩)
      omega
    · intro k hk
      rcases List.mem_append.mp hk with h | h
      · exact hown.2 k h
      · exact ih2 k h

/-- **tokenizing a segmented text**: if the words of the text fall into consecutive segments — each a
    stored name (a keyword is one) or a run of unknown words — and every match of the scan lies within
    one segment, the result is one token per name segment and one unmatched token per unknown word -/
theorem tokenize_segments (hk : AC.KnownOK t) (h : SegsOK c t text segs) :
    t.tokenize c text = segs.flatMap (segToks text) := by
  have hok := wordPieces_ok c text
  obtain ⟨c1, c2, c3⟩ := C17_cover c t text
  obtain ⟨e1, e2⟩ := segToks_ordered text segs (by rw [h.cover]; exact hok) h.ne
  -- every expected token is in the result
  have hexp : ∀ k ∈ segs.flatMap (segToks text), k ∈ t.tokenize c text := by
    intro k hk'
    simp only [List.mem_flatMap] at hk'
    obtain ⟨sg, hsg, hks⟩ := hk'
    obtain ⟨g, o⟩ := sg
    cases o with
    | none =>
      simp only [segToks, List.mem_map] at hks
      obtain ⟨p, hp, rfl⟩ := hks
      exact unknown_piece_kept c t text segs hk h g hsg p hp
    | some v =>
      simp only [segToks] at hks
      cases hh : g.head? with
      | none => simp [hh] at hks
      | some f =>
        cases hl : g.getLast? with
        | none => simp [hh, hl] at hks
        | some l =>
          simp only [hh, hl, List.mem_singleton] at hks
          subst hks
          exact name_seg_kept c t text segs hk h g v hsg f l hh hl
  apply ordered_toks_eq _ _ c1 e1 (fun x hx => aligned_ne _ hok x (by
    obtain ⟨p, hp, q, hq, h1, h2, h3⟩ := c2 x hx; exact ⟨p, hp, q, hq, h1, h2, h3⟩)) e2
  intro x
  constructor
  · -- a token of the result covers its first piece, which an expected token covers too
    intro hx
    obtain ⟨p, hp, q, hq, hs, he, hpq⟩ := c2 x hx
    have hpwf := hok.2 p hp
    have hpstop : p.stop ≤ q.stop := by
      rcases pieces_trichotomy _ hok p q hp hq with rfl | h' | h'
      · exact Nat.le_refl _
      · have := hok.2 q hq; omega
      · have := hok.2 q hq; omega
    obtain ⟨sg, hsg, hpsg⟩ := (mem_segPieces segs p).mp (by rw [h.cover]; exact hp)
    obtain ⟨g, o⟩ := sg
    cases o with
    | none =>
      have hU := unknown_piece_kept c t text segs hk h g hsg p hpsg
      have := C17_once c t text p x _ hx hU hpwf ⟨by omega, by omega⟩ ⟨Nat.le_refl _, Nat.le_refl _⟩
      rw [this]
      simp only [List.mem_flatMap]
      exact ⟨(g, none), hsg, by simp only [segToks, List.mem_map]; exact ⟨p, hpsg, rfl⟩⟩
    | some v =>
      obtain ⟨f, hf⟩ : ∃ f, g.head? = some f := by
        cases hh : g with
        | nil => rw [hh] at hpsg; cases hpsg
        | cons a r => exact ⟨a, rfl⟩
      obtain ⟨l, hl⟩ : ∃ l, g.getLast? = some l := ⟨g.getLast (List.ne_nil_of_mem hpsg), List.getLast?_eq_some_getLast _⟩
      have hK := name_seg_kept c t text segs hk h g v hsg f l hf hl
      obtain ⟨S1, S2, _, hps⟩ := seg_position c t text segs h _ hsg
      have hin := seg_inside c text _ g _ hps p hpsg f l hf hl
      have := C17_once c t text p x _ hx hK hpwf ⟨by omega, by omega⟩ ⟨hin.1, hin.2⟩
      rw [this]
      simp only [List.mem_flatMap]
      exact ⟨(g, some v), hsg, by simp [segToks, hf, hl]⟩
  · exact hexp x

end main

end LE
