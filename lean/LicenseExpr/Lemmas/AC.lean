import LicenseExpr.Model.Trie
/-!
# Lemmas/AC — the Aho-Corasick core: longest node-suffix, the goto loop, the breadth-first
failure-link recurrence, the failure chain.
-/
namespace LE
namespace AC

/-- nodes of the trie of `N`: prefixes of stored names (the root `[]` included) -/
def IsNode (N : List (List Word)) (p : List Word) : Prop := p = [] ∨ ∃ n ∈ N, p <+: n

theorem node_prefix_closed {N : List (List Word)} {p q : List Word} (h : IsNode N (p ++ q)) : IsNode N p := by
  rcases h with h | ⟨n, hn, hp⟩
  · left; simp_all
  · right; exact ⟨n, hn, List.IsPrefix.trans (List.prefix_append p q) hp⟩

/-- `s` is the longest suffix of `t` that is a node -/
def Longest (N : List (List Word)) (t s : List Word) : Prop :=
  s <:+ t ∧ IsNode N s ∧ ∀ u, u <:+ t → IsNode N u → u.length ≤ s.length

/-- key lemma of Aho–Corasick: the longest node-suffix of `t ++ [w]` is the longest node-suffix of `L t ++ [w]` -/
theorem longest_step {N : List (List Word)} {t s : List Word} {w : Word} {r : List Word}
    (hs : Longest N t s) (hr : Longest N (s ++ [w]) r) : Longest N (t ++ [w]) r := by
  obtain ⟨hst, hsn, hsmax⟩ := hs
  obtain ⟨hrs, hrn, hrmax⟩ := hr
  refine ⟨?_, hrn, ?_⟩
  · exact List.IsSuffix.trans hrs (List.suffix_append_self_iff.mpr hst)
  · intro u hu hun
    apply hrmax u ?_ hun
    rcases List.suffix_concat_iff.mp hu with rfl | ⟨u', rfl, hu't⟩
    · exact List.nil_suffix
    · have hu'n : IsNode N u' := node_prefix_closed hun
      have hle := hsmax u' hu't hu'n
      exact List.suffix_append_self_iff.mpr (List.suffix_of_suffix_length_le hu't hst hle)

theorem isNodeB_iff (N : List (List Word)) (p : List Word) : isNodeB N p = true ↔ IsNode N p := by
  simp [isNodeB, IsNode, List.any_eq_true]

/-- longest suffix of `t` that is a node: scan the suffixes from the longest -/
def lsuf (N : List (List Word)) : List Word → List Word
  | [] => []
  | a :: tl => if isNodeB N (a :: tl) then a :: tl else lsuf N tl

theorem lsuf_longest (N : List (List Word)) (t : List Word) : Longest N t (lsuf N t) := by
  induction t with
  | nil => exact ⟨List.suffix_refl _, Or.inl rfl, by intro u hu _; simp_all⟩
  | cons a tl ih =>
    unfold lsuf
    split
    · next h => exact ⟨List.suffix_refl _, (isNodeB_iff _ _).mp h, fun u hu _ => hu.length_le⟩
    · next h =>
      obtain ⟨h1, h2, h3⟩ := ih
      refine ⟨List.IsSuffix.trans h1 (List.suffix_cons _ _), h2, ?_⟩
      intro u hu hun
      rcases List.suffix_cons_iff.mp hu with rfl | hu'
      · exact absurd ((isNodeB_iff _ _).mpr hun) h
      · exact h3 u hu' hun

theorem longest_unique {N : List (List Word)} {t s s' : List Word} (h : Longest N t s) (h' : Longest N t s') : s = s' := by
  have l1 := h.2.2 s' h'.1 h'.2.1
  have l2 := h'.2.2 s h.1 h.2.1
  have hs : s <:+ s' := List.suffix_of_suffix_length_le h.1 h'.1 l2
  exact hs.eq_of_length (by omega)

/-- the Aho–Corasick step, spec level -/
theorem lsuf_snoc (N : List (List Word)) (t : List Word) (w : Word) : lsuf N (t ++ [w]) = lsuf N (lsuf N t ++ [w]) :=
  longest_unique (lsuf_longest N _) (longest_step (lsuf_longest N t) (lsuf_longest N _))

theorem lsuf_node (N : List (List Word)) (s : List Word) (h : isNodeB N s = true) : lsuf N s = s := by
  cases s with
  | nil => rfl
  | cons a tl => simp [lsuf, h]

theorem lsuf_length_le (N : List (List Word)) (t : List Word) : (lsuf N t).length ≤ t.length :=
  (lsuf_longest N t).1.length_le

theorem lsuf_isNode (N : List (List Word)) (t : List Word) : isNodeB N (lsuf N t) = true :=
  (isNodeB_iff _ _).mpr (lsuf_longest N t).2.1

/-- the `while w not in state.children: state = state.fail` loop computes the longest node-suffix of `s ++ [w]` -/
theorem follow_spec (N : List (List Word)) (failF : List Word → List Word) (fuel : Nat) (s : List Word) (w : Word)
    (hf : ∀ s', s'.length ≤ s.length → s' ≠ [] → failF s' = lsuf N s'.tail)
    (hfuel : s.length < fuel) :
    follow N failF fuel s w = lsuf N (s ++ [w]) := by
  induction fuel generalizing s with
  | zero => omega
  | succ n ih =>
    unfold follow
    split
    · next h => exact (lsuf_node N _ h).symm
    · next h =>
      split
      · next hs => subst hs; simp at h; simp [lsuf, h]
      · next hs =>
        obtain ⟨a, tl, rfl⟩ := List.exists_cons_of_ne_nil hs
        have hfs : failF (a :: tl) = lsuf N tl := by simpa using hf (a :: tl) (Nat.le_refl _) (by simp)
        have hlen : (lsuf N tl).length ≤ tl.length := lsuf_length_le N tl
        rw [hfs, ih (lsuf N tl) (fun s' hs' hne => hf s' (by simp at hs' ⊢; omega) hne) (by simp at hfuel; omega)]
        have : lsuf N ((a :: tl) ++ [w]) = lsuf N (tl ++ [w]) := by
          simp only [List.cons_append, lsuf]
          simp only [List.cons_append] at h
          simp [h]
        rw [this, lsuf_snoc N tl w]

/-- the breadth-first recurrence of `make_automaton` gives every node its longest proper node-suffix -/
theorem failN_spec (N : List (List Word)) (n : Nat) (p : List Word) (hp : p ≠ []) (hn : p.length ≤ n) :
    failN N n p = lsuf N p.tail := by
  induction n generalizing p with
  | zero => simp at hn; exact absurd hn hp
  | succ n ih =>
    obtain ⟨q, w, rfl⟩ : ∃ q w, p = q ++ [w] := ⟨p.dropLast, p.getLast hp, (List.dropLast_concat_getLast hp).symm⟩
    unfold failN
    simp only [List.dropLast_concat, List.getLast?_concat]
    cases q with
    | nil => simp [lsuf]
    | cons a tl =>
      simp only
      have hq : failN N n (a :: tl) = lsuf N tl := by
        simpa using ih (a :: tl) (by simp) (by simp at hn ⊢; omega)
      rw [hq, follow_spec N (failN N n) (n+1) (lsuf N tl) w]
      · simp only [List.cons_append, List.tail_cons]
        exact (lsuf_snoc N tl w).symm
      · intro s' hs' hne
        have := lsuf_length_le N tl
        exact ih s' hne (by simp at hn; omega)
      · have := lsuf_length_le N tl
        simp at hn; omega

/-- node-suffixes of `t`, longest first -/
def nodeSuffixes (N : List (List Word)) (t : List Word) : List (List Word) := (tails t).filter (isNodeB N)

theorem nodeSuffixes_lsuf (N : List (List Word)) (t : List Word) : nodeSuffixes N t = nodeSuffixes N (lsuf N t) := by
  induction t with
  | nil => rfl
  | cons a tl ih =>
    unfold lsuf
    split
    · rfl
    · next h =>
      rw [← ih]
      simp [nodeSuffixes, tails, h]

/-- the fail chain from a node enumerates its node-suffixes, longest first -/
theorem chain_spec (N : List (List Word)) (failF : List Word → List Word) (fuel : Nat) (s : List Word)
    (hs : isNodeB N s = true)
    (hf : ∀ s', s'.length ≤ s.length → s' ≠ [] → failF s' = lsuf N s'.tail)
    (hfuel : s.length < fuel) :
    chain failF fuel s = nodeSuffixes N s := by
  induction fuel generalizing s with
  | zero => omega
  | succ k ih =>
    unfold chain
    cases s with
    | nil => simp [nodeSuffixes, tails, isNodeB]
    | cons a tl =>
      have hfs : failF (a :: tl) = lsuf N tl := by simpa using hf (a :: tl) (Nat.le_refl _) (by simp)
      have hl := lsuf_length_le N tl
      have hnode : isNodeB N (lsuf N tl) = true := lsuf_isNode N tl
      simp only [reduceCtorEq, if_false, hfs]
      rw [ih (lsuf N tl) hnode (fun s' hs' hne => hf s' (by simp at hs' ⊢; omega) hne) (by simp at hfuel; omega)]
      rw [← nodeSuffixes_lsuf]
      simp [nodeSuffixes, tails, hs]

end AC
end LE
