import LicenseExpr.Lemmas.Stages
/-!
# Lemmas/StrictErr — what the strict grouping stage reports when only the roles are wrong
-/
namespace LE

/-- the error names license token `a` for a role fault: an exception where a license must stand
    (left of WITH, or alone), or a non-exception on the right of WITH -/
def RoleFault (er : LErr) (a : STok) : Prop :=
  ∃ l, symOf a.val = some l ∧
    ((er = .parse Gen.PARSE_INVALID_EXCEPTION a.str a.s ∧ l.exc = true) ∨
     (er = .parse Gen.PARSE_INVALID_SYMBOL_AS_EXCEPTION a.str a.s ∧ l.exc = false))

theorem single_err (a : STok) (cont : Except LErr (List STok)) (contL : Except LErr (List STok)) (er : LErr) (out : List STok)
    (h : single true a cont = .error er) (hl : single false a contL = .ok out) :
    RoleFault er a ∨ cont = .error er := by
  unfold single at h hl
  cases hv : a.val with
  | none => simp [hv] at h; cases cont <;> simp_all [Except.map]
  | kw k =>
    cases k <;> simp [hv] at h hl
    all_goals (cases cont <;> simp_all [Except.map])
  | sym l =>
    simp [hv] at h hl
    by_cases hx : l.exc = true
    · left
      simp [hx] at h
      exact ⟨l, by simp [hv, symOf], Or.inl ⟨h.symm, hx⟩⟩
    · simp [hx] at h
      cases cont <;> simp_all [Except.map]
  | withSym l e => simp [hv] at h; cases cont <;> simp_all [Except.map]

theorem groupWith_strict_error (c : Cls) (ts : List STok) :
    ∀ er out, groupWith c true ts = .error er → groupWith c false ts = .ok out → ∃ a ∈ ts, RoleFault er a := by
  fun_induction groupWith c true ts with
  | case1 => intro er out h; simp at h
  | case2 a w b rest l e hl hw he hx =>
    intro er out h _
    simp at h
    exact ⟨a, by simp, l, by assumption, Or.inl ⟨h.symm, by simpa using hx⟩⟩
  | case3 a w b rest l e hl hw he hx hy =>
    intro er out h _
    simp at h
    exact ⟨b, by simp, e, by assumption, Or.inr ⟨h.symm, by simpa using hy⟩⟩
  | case4 a w b rest l e hl hw he hx hy ih =>
    intro er out h hlax
    unfold groupWith at hlax
    simp only [hl, hw, he] at hlax
    simp at hlax
    cases hr : groupWith c true rest with
    | ok r => simp [hr, Except.map] at h
    | error er' =>
      simp [hr, Except.map] at h; subst h
      cases hrl : groupWith c false rest with
      | error e2 => simp [hrl, Except.map] at hlax
      | ok r2 =>
        obtain ⟨x, hx', hf⟩ := ih er' r2 hr hrl
        exact ⟨x, by simp [hx'], hf⟩
  | case5 a w b rest hno ih =>
    intro er out h hlax
    unfold groupWith at hlax
    have hlax : single false a (groupWith c false (w :: b :: rest)) = .ok out := by
      split at hlax
      · next l e h1 h2 h3 => exact absurd h3 (fun h3 => hno l e h1 h2 h3)
      · exact hlax
    rcases single_err a _ _ er out h hlax with hf | hc
    · exact ⟨a, by simp, hf⟩
    · obtain ⟨r, hr, _⟩ := single_ok _ _ _ _ hlax
      obtain ⟨x, hx', hf⟩ := ih er r hc hr
      exact ⟨x, List.mem_cons_of_mem _ hx', hf⟩
  | case6 a rest hno ih =>
    intro er out h hlax
    have hlax : single false a (groupWith c false rest) = .ok out := by
      unfold groupWith at hlax
      split at hlax
      · next heq => simp at heq
      · next a' w b rest' heq =>
        simp at heq
        exfalso; exact hno w b rest' heq.2
      · next heq => simp at heq; obtain ⟨rfl, rfl⟩ := heq; exact hlax
    rcases single_err a _ _ er out h hlax with hf | hc
    · exact ⟨a, by simp, hf⟩
    · obtain ⟨r, hr, _⟩ := single_ok _ _ _ _ hlax
      obtain ⟨x, hx', hf⟩ := ih er r hc hr
      exact ⟨x, List.mem_cons_of_mem _ hx', hf⟩

end LE
