import LicenseExpr.Lemmas.Simplify
import LicenseExpr.Model.Spec
/-!
# Lemmas/NormalForm — `eqE` is reflexive and symmetric; the result of `simp` is in normal form
-/
set_option linter.unusedSectionVars false
namespace LE
variable {A : Type} [DecidableEq A]

theorem eqE_node_iff (o1 o2 : Op) (as bs : List (Expr A)) :
    eqE (.node o1 as) (.node o2 bs) = true ↔
      o1 = o2 ∧ (∀ a ∈ as, ∃ b ∈ bs, eqE a b = true) ∧ (∀ b ∈ bs, ∃ a ∈ as, eqE b a = true) := by
  rw [eqE]
  simp only [Bool.and_eq_true, beq_iff_eq, List.all_eq_true, List.any_eq_true, List.mem_attach,
    true_and, Subtype.forall, Subtype.exists, and_assoc]
  constructor
  · rintro ⟨h0, h1, h2⟩
    exact ⟨h0, fun a ha => let ⟨b, hb, h⟩ := h1 a ha trivial; ⟨b, hb, h⟩, fun b hb => let ⟨a, ha, h⟩ := h2 b hb trivial; ⟨a, ha, h⟩⟩
  · rintro ⟨h0, h1, h2⟩
    exact ⟨h0, fun a ha _ => let ⟨b, hb, h⟩ := h1 a ha; ⟨b, hb, h⟩, fun b hb _ => let ⟨a, ha, h⟩ := h2 b hb; ⟨a, ha, h⟩⟩

theorem eqE_refl (x : Expr A) : eqE x x = true := by
  suffices ∀ x y : Expr A, x = y → eqE x y = true from this x x rfl
  intro x y
  induction x, y using eqE.induct with
  | case1 a b => intro h; simp_all [eqE]
  | case2 o1 as o2 bs ih1 ih2 =>
    intro h
    simp only [Expr.node.injEq] at h
    obtain ⟨rfl, rfl⟩ := h
    exact (eqE_node_iff _ _ _ _).mpr ⟨rfl, fun a ha => ⟨a, ha, ih1 ⟨a, ha⟩ ⟨a, ha⟩ rfl⟩, fun a ha => ⟨a, ha, ih2 ⟨a, ha⟩ ⟨a, ha⟩ rfl⟩⟩
  | case3 x y h1 h2 =>
    intro h; subst h
    cases x
    · exact absurd rfl (h1 _ _ rfl)
    · exact absurd rfl (h2 _ _ _ _ rfl)

theorem eqE_symm_imp (x y : Expr A) : eqE x y = true → eqE y x = true := by
  induction x, y using eqE.induct with
  | case1 a b => intro h; rw [eqE] at h ⊢; simp at h ⊢; exact h.symm
  | case2 o1 as o2 bs ih1 ih2 =>
    intro h
    obtain ⟨rfl, h1, h2⟩ := (eqE_node_iff _ _ _ _).mp h
    refine (eqE_node_iff _ _ _ _).mpr ⟨rfl, ?_, ?_⟩
    · intro b hb
      obtain ⟨a, ha, hab⟩ := h2 b hb
      exact ⟨a, ha, hab⟩
    · intro a ha
      obtain ⟨b, hb, hab⟩ := h1 a ha
      exact ⟨b, hb, hab⟩
  | case3 x y h1 h2 =>
    intro h
    cases x <;> cases y <;> simp_all [eqE]

theorem eqE_symm (x y : Expr A) : eqE x y = eqE y x := by
  rw [Bool.eq_iff_iff]
  exact ⟨eqE_symm_imp x y, eqE_symm_imp y x⟩

/-- "no two equal operands": later operands are not `==` to earlier ones -/
def Distinct (l : List (Expr A)) : Prop := l.Pairwise (fun y a => eqE a y = false)

theorem dedupAux_spec (seen l : List (Expr A)) :
    Distinct (dedupAux seen l) ∧ ∀ a ∈ dedupAux seen l, memE a seen = false := by
  fun_induction dedupAux seen l
  · simp [Distinct]
  · next seen a r h ih => exact ih
  · next seen a r h ih =>
    obtain ⟨ih1, ih2⟩ := ih
    refine ⟨List.pairwise_cons.mpr ⟨?_, ih1⟩, ?_⟩
    · intro b hb
      have := ih2 b hb
      simp only [memE, List.any_append, Bool.or_eq_false_iff] at this
      simpa using this.2
    · intro b hb
      simp only [List.mem_cons] at hb
      rcases hb with rfl | hb
      · simpa using h
      · have := ih2 b hb
        simp only [memE, List.any_append, Bool.or_eq_false_iff] at this
        exact this.1

theorem distinct_symm (l : List (Expr A)) : Distinct l ↔ l.Pairwise (fun y a => eqE a y = false ∧ eqE y a = false) := by
  unfold Distinct
  constructor
  · intro h; exact h.imp (fun {y a} h => ⟨h, by rw [eqE_symm]; exact h⟩)
  · intro h; exact h.imp (fun {y a} h => h.1)

theorem distinct_perm {l l' : List (Expr A)} (hp : l.Perm l') (h : Distinct l) : Distinct l' := by
  rw [distinct_symm] at h ⊢
  exact hp.pairwise h (fun {y a} h => ⟨h.2, h.1⟩)

theorem distinct_sublist {l l' : List (Expr A)} (hs : l'.Sublist l) (h : Distinct l) : Distinct l' :=
  List.Pairwise.sublist hs h

theorem absorbStep_sublist (op : Op) (pre l l' : List (Expr A)) (h : absorbStep op pre l = some l') :
    l'.Sublist (pre ++ l) := by
  fun_induction absorbStep op pre l
  · simp at h
  · next t post hc =>
    simp at h; subst h
    exact List.Sublist.append (List.Sublist.refl _) (List.sublist_cons_self _ _)
  · next t post hc ih =>
    have := ih h
    simpa using this

theorem absorbN_sublist (op : Op) (n : Nat) (l : List (Expr A)) : (absorbN op n l).Sublist l := by
  fun_induction absorbN op n l
  · exact List.Sublist.refl _
  · exact List.Sublist.refl _
  · next n l l' h ih => exact ih.trans (by simpa using absorbStep_sublist op [] l l' h)

theorem insertBy_perm (lt : Expr A → Expr A → Bool) (x : Expr A) (l : List (Expr A)) :
    (insertBy lt x l).Perm (x :: l) := by
  fun_induction insertBy lt x l
  · exact List.Perm.refl _
  · next y ys h ih => exact (List.Perm.cons y ih).trans (List.Perm.swap x y ys)
  · exact List.Perm.refl _

theorem sortBy_perm (lt : Expr A → Expr A → Bool) (l : List (Expr A)) : (sortBy lt l).Perm l := by
  fun_induction sortBy lt l
  · exact List.Perm.refl _
  · next x xs ih => exact (insertBy_perm lt x _).trans (List.Perm.cons x ih)

/-- adjacent operands are in order: the next one is not smaller -/
def Sorted (lt : Expr A → Expr A → Bool) : List (Expr A) → Prop
  | [] => True
  | [_] => True
  | a :: b :: r => lt b a = false ∧ Sorted lt (b :: r)

theorem insertBy_sorted (lt : Expr A → Expr A → Bool) (hasym : ∀ a b, lt a b = true → lt b a = false)
    (x : Expr A) (l : List (Expr A)) (h : Sorted lt l) : Sorted lt (insertBy lt x l) := by
  fun_induction insertBy lt x l
  · simp [Sorted]
  · next y ys hyx ih =>
    have hs : Sorted lt ys := by cases ys <;> simp_all [Sorted]
    have := ih hs
    cases ys with
    | nil => simp [insertBy, Sorted]; exact hasym _ _ hyx
    | cons z zs =>
      simp only [insertBy] at this ⊢
      by_cases hzx : lt z x = true
      · simp [hzx] at this ⊢; simp_all [Sorted]
      · simp [hzx] at this ⊢; simp_all [Sorted]
  · next y ys hyx =>
    simp only [Sorted]
    exact ⟨by simpa using hyx, h⟩

theorem sortBy_sorted (lt : Expr A → Expr A → Bool) (hasym : ∀ a b, lt a b = true → lt b a = false)
    (l : List (Expr A)) : Sorted lt (sortBy lt l) := by
  fun_induction sortBy lt l
  · simp [Sorted]
  · next x xs ih => exact insertBy_sorted lt hasym x _ ih

theorem sortBy_of_sorted (lt : Expr A → Expr A → Bool) (l : List (Expr A)) (h : Sorted lt l) : sortBy lt l = l := by
  fun_induction sortBy lt l
  · rfl
  · next x xs ih =>
    have hs : Sorted lt xs := by cases xs <;> simp_all [Sorted]
    rw [ih hs]
    cases xs with
    | nil => rfl
    | cons y ys => simp [Sorted] at h; simp [insertBy, h.1]

/-- the normal form of C07: no operand of the node's own kind, no two equal operands, operands in order,
    at least two operands, recursively -/
inductive NF (lt : Expr A → Expr A → Bool) : Expr A → Prop
  | atom (a : A) : NF lt (.atom a)
  | node (op : Op) (l : List (Expr A)) : 2 ≤ l.length → (∀ a ∈ l, NF lt a) →
      (∀ a ∈ l, isOpNode op a = false) → Distinct l → Sorted lt l → NF lt (.node op l)

theorem flatten1_mem (op : Op) (l : List (Expr A)) (x : Expr A) (hx : x ∈ flatten1 op l) :
    (x ∈ l ∧ isOpNode op x = false) ∨ ∃ as, Expr.node op as ∈ l ∧ x ∈ as := by
  fun_induction flatten1 op l
  · simp at hx
  · next as rest ih =>
    simp only [List.mem_append] at hx
    rcases hx with hx | hx
    · exact Or.inr ⟨as, by simp, hx⟩
    · rcases ih hx with h | ⟨as', h1, h2⟩
      · exact Or.inl ⟨List.mem_cons_of_mem _ h.1, h.2⟩
      · exact Or.inr ⟨as', List.mem_cons_of_mem _ h1, h2⟩
  · next o as rest h ih =>
    simp only [List.mem_cons] at hx
    rcases hx with rfl | hx
    · exact Or.inl ⟨by simp, by simp [isOpNode, h]⟩
    · rcases ih hx with h' | ⟨as', h1, h2⟩
      · exact Or.inl ⟨List.mem_cons_of_mem _ h'.1, h'.2⟩
      · exact Or.inr ⟨as', List.mem_cons_of_mem _ h1, h2⟩
  · next a rest ih =>
    simp only [List.mem_cons] at hx
    rcases hx with rfl | hx
    · exact Or.inl ⟨by simp, by simp [isOpNode]⟩
    · rcases ih hx with h' | ⟨as', h1, h2⟩
      · exact Or.inl ⟨List.mem_cons_of_mem _ h'.1, h'.2⟩
      · exact Or.inr ⟨as', List.mem_cons_of_mem _ h1, h2⟩

theorem flatten1_nf (lt : Expr A → Expr A → Bool) (op : Op) (l : List (Expr A)) (h : ∀ a ∈ l, NF lt a) :
    ∀ x ∈ flatten1 op l, NF lt x ∧ isOpNode op x = false := by
  intro x hx
  rcases flatten1_mem op l x hx with ⟨h1, h2⟩ | ⟨as, h1, h2⟩
  · exact ⟨h x h1, h2⟩
  · cases h _ h1 with
    | node _ _ _ hnf hno _ _ => exact ⟨hnf x h2, hno x h2⟩

theorem absorbStep_ne_nil (op : Op) (pre l l' : List (Expr A)) (h : absorbStep op pre l = some l') : l' ≠ [] := by
  fun_induction absorbStep op pre l
  · simp at h
  · next t post hc =>
    simp at h; subst h
    simp only [Bool.and_eq_true, List.any_eq_true] at hc
    obtain ⟨_, a, ha, _⟩ := hc
    exact List.ne_nil_of_mem ha
  · next t post hc ih => exact ih h

theorem absorbN_ne_nil (op : Op) (n : Nat) (l : List (Expr A)) (h : l ≠ []) : absorbN op n l ≠ [] := by
  fun_induction absorbN op n l
  · exact h
  · exact h
  · next n l l' hs ih => exact ih (absorbStep_ne_nil op [] l l' hs)

theorem dedupAux_ne_nil (l : List (Expr A)) (h : l ≠ []) : dedupAux [] l ≠ [] := by
  cases l with
  | nil => exact absurd rfl h
  | cons a r => simp [dedupAux, memE]

theorem flatten1_ne_nil (lt : Expr A → Expr A → Bool) (op : Op) (l : List (Expr A)) (hne : l ≠ [])
    (h : ∀ a ∈ l, NF lt a) : flatten1 op l ≠ [] := by
  cases l with
  | nil => exact absurd rfl hne
  | cons a r =>
    cases a with
    | atom x => simp [flatten1]
    | node o as =>
      simp only [flatten1]
      split
      · have hnf : NF lt (Expr.node o as) := h _ (by simp)
        cases hnf with
        | node _ _ h2 _ _ _ _ =>
          cases as with
          | nil => simp at h2
          | cons y ys => simp
      · simp

theorem simpNode_nf (lt : Expr A → Expr A → Bool) (hasym : ∀ a b, lt a b = true → lt b a = false)
    (op : Op) (args : List (Expr A)) (hne : args ≠ []) (h : ∀ a ∈ args, NF lt a) : NF lt (simpNode lt op args) := by
  have hfl := flatten1_nf lt op args h
  have hdd := dedupAux_spec [] (flatten1 op args)
  have hdsub := dedupAux_sub [] (flatten1 op args)
  unfold simpNode afterDedup
  split
  · next x hx =>
    exact (hfl x (hdsub x (by rw [hx]; simp))).1
  · next hns =>
    have hab := absorbN_sublist op (dedupAux [] (flatten1 op args)).length (dedupAux [] (flatten1 op args))
    unfold finishNode
    split
    · next x hx =>
      exact (hfl x (hdsub x (hab.subset (by rw [hx]; simp)))).1
    · next hns2 =>
      have hp := sortBy_perm lt (absorbN op (dedupAux [] (flatten1 op args)).length (dedupAux [] (flatten1 op args)))
      refine NF.node op _ ?_ ?_ ?_ ?_ (sortBy_sorted lt hasym _)
      · rw [hp.length_eq]
        have hnn := absorbN_ne_nil op (dedupAux [] (flatten1 op args)).length _ (dedupAux_ne_nil _ (flatten1_ne_nil lt op args hne h))
        match hl : absorbN op (dedupAux [] (flatten1 op args)).length (dedupAux [] (flatten1 op args)) with
        | [] => exact absurd hl hnn
        | [x] => exact absurd hl (hns2 x)
        | _ :: _ :: _ => simp
      · intro a ha
        exact (hfl a (hdsub a (hab.subset (hp.subset ha)))).1
      · intro a ha
        exact (hfl a (hdsub a (hab.subset (hp.subset ha)))).2
      · exact distinct_perm hp.symm (distinct_sublist hab hdd.1)

/-- every node has at least one operand (what `parse`, `AND(...)`, `OR(...)` guarantee) -/
def WFargs : Expr A → Prop
  | .atom _ => True
  | .node _ args => args ≠ [] ∧ ∀ a, (h : a ∈ args) → WFargs a
termination_by e => sizeOf e
decreasing_by simp_wf; have := List.sizeOf_lt_of_mem h; omega

/-- every simplified expression is in normal form -/
theorem simp_nf (lt : Expr A → Expr A → Bool) (hasym : ∀ a b, lt a b = true → lt b a = false)
    (e : Expr A) (hw : WFargs e) : NF lt (simp lt e) := by
  fun_induction simp lt e
  · exact NF.atom _
  · next op args ih =>
    rw [WFargs] at hw
    apply simpNode_nf lt hasym
    · intro hnil
      have := congrArg List.length hnil
      simp at this
      exact hw.1 this
    · intro a ha
      simp only [List.mem_map, List.mem_attach, true_and, Subtype.exists] at ha
      obtain ⟨b, hb, rfl⟩ := ha
      exact ih ⟨b, hb⟩ (hw.2 b hb)

end LE
