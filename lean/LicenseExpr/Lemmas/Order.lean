import LicenseExpr.Model.Simplify
import LicenseExpr.Lemmas.NormalForm
/-!
# Lemmas/Order — `strLt` is a strict total order on strings; `ltE` is asymmetric
-/
set_option linter.unusedSectionVars false
namespace LE

theorem strLt_irrefl (a : Str) : strLt a a = false := by
  induction a with
  | nil => rfl
  | cons x xs ih => simp [strLt, ih]

theorem strLt_asymm (a b : Str) : strLt a b = true → strLt b a = false := by
  fun_induction strLt a b <;> simp_all [strLt]
  all_goals (intros; omega)

theorem strLt_cons (x y : Nat) (xs ys : Str) :
    strLt (x :: xs) (y :: ys) = true ↔ x < y ∨ (x = y ∧ strLt xs ys = true) := by
  simp only [strLt]
  by_cases h1 : x < y
  · simp [h1]
  · by_cases h2 : y < x
    · simp [h1, h2]; omega
    · have : x = y := by omega
      simp [h1, h2, this]

theorem strLt_trans (a b c : Str) : strLt a b = true → strLt b c = true → strLt a c = true := by
  induction a generalizing b c with
  | nil => cases b <;> cases c <;> simp [strLt]
  | cons x xs ih =>
    cases b with
    | nil => simp [strLt]
    | cons y ys =>
      cases c with
      | nil => simp [strLt]
      | cons z zs =>
        rw [strLt_cons, strLt_cons, strLt_cons]
        rintro (h1 | ⟨rfl, h1⟩) (h2 | ⟨rfl, h2⟩)
        · left; omega
        · left; exact h1
        · left; exact h2
        · right; exact ⟨rfl, ih _ _ h1 h2⟩

theorem strLt_total (a b : Str) : a ≠ b → strLt a b = true ∨ strLt b a = true := by
  induction a generalizing b with
  | nil => cases b <;> simp [strLt]
  | cons x xs ih =>
    cases b with
    | nil => simp [strLt]
    | cons y ys =>
      intro hne
      rw [strLt_cons, strLt_cons]
      rcases Nat.lt_trichotomy x y with h | rfl | h
      · left; left; exact h
      · have : xs ≠ ys := by intro h; exact hne (by rw [h])
        rcases ih ys this with h | h
        · left; right; exact ⟨rfl, h⟩
        · right; right; exact ⟨rfl, h⟩
      · right; left; exact h

end LE

namespace LE
variable {A : Type} [DecidableEq A]

mutual
theorem ltE_asymm (ltA : A → A → Bool) (hA : ∀ a b, ltA a b = true → ltA b a = false) :
    ∀ (x y : Expr A), ltE ltA x y = true → ltE ltA y x = false
  | .atom a, .atom b => by simpa [ltE] using hA a b
  | .atom _, .node _ _ => by simp [ltE]
  | .node _ _, .atom _ => by simp [ltE]
  | .node o1 as, .node o2 bs => by
    unfold ltE
    by_cases ho : o1 = o2
    · subst ho
      simpa using ltL_asymm ltA hA as bs
    · have ho' : o2 ≠ o1 := fun h => ho h.symm
      simp only [ne_eq, ho, not_false_eq_true, ↓reduceIte, ho']
      cases o1 <;> cases o2 <;> simp_all [sortOrder]
theorem ltL_asymm (ltA : A → A → Bool) (hA : ∀ a b, ltA a b = true → ltA b a = false) :
    ∀ (xs ys : List (Expr A)), ltL ltA xs ys = true → ltL ltA ys xs = false
  | [], [] => by simp [ltL]
  | [], _ :: _ => by simp [ltL]
  | _ :: _, [] => by simp [ltL]
  | x :: xs, y :: ys => by
    unfold ltL
    rw [eqE_symm y x]
    by_cases h : eqE x y = true
    · simpa [h] using ltL_asymm ltA hA xs ys
    · simpa [h] using ltE_asymm ltA hA x y
end

end LE
