import LicenseExpr.Lemmas.Lex
/-!
# Lemmas/Pieces — the pieces of a text are non-empty, contiguous and therefore strictly ordered
-/
namespace LE

/-- pieces follow each other without gap, starting at `n`, each with a non-empty text -/
def Contig : Nat → List Piece → Prop
  | _, [] => True
  | n, p :: ps => p.start = n ∧ p.text ≠ [] ∧ Contig (n + p.text.length) ps

theorem lexGo_contig (c : Cls) (s : Str) : ∀ (pos : Nat) (cur : Option (Nat × Str × Kind)),
    (∀ st r k, cur = some (st, r, k) → st + r.length = pos ∧ r ≠ []) →
    Contig (match cur with | some (st, _, _) => st | none => pos) (lexGo c pos cur s) := by
  induction s with
  | nil =>
    intro pos cur h
    cases cur with
    | none => simp [lexGo, Contig]
    | some v =>
      obtain ⟨st, r, k⟩ := v
      obtain ⟨h1, h2⟩ := h st r k rfl
      simp [lexGo, Contig, h2]
  | cons x xs ih =>
    intro pos cur h
    cases cur with
    | none =>
      simp only [lexGo]
      exact ih (pos + 1) (some (pos, [x], kindOf c x)) (by intro st r k hh; cases hh; simp)
    | some v =>
      obtain ⟨st, r, k⟩ := v
      obtain ⟨h1, h2⟩ := h st r k rfl
      simp only [lexGo]
      split
      · exact ih (pos + 1) (some (st, x :: r, k)) (by intro st' r' k' hh; cases hh; simp; omega)
      · simp only [Contig, List.length_reverse]
        refine ⟨trivial, by simpa using h2, ?_⟩
        have := ih (pos + 1) (some (pos, [x], kindOf c x)) (by intro st' r' k' hh; cases hh; simp)
        simp only at this
        rw [h1]; exact this

theorem pieces_contig (c : Cls) (s : Str) : Contig 0 (pieces c s) := by
  have := lexGo_contig c s 0 none (by intro st r k h; cases h)
  simpa [pieces] using this

/-- strictly ordered, non-overlapping, non-empty -/
def PiecesOK (ps : List Piece) : Prop :=
  ps.Pairwise (fun p q => p.stop < q.start) ∧ ∀ p ∈ ps, p.start ≤ p.stop

theorem contig_lb (n : Nat) (ps : List Piece) (h : Contig n ps) : ∀ q ∈ ps, n ≤ q.start := by
  induction ps generalizing n with
  | nil => simp
  | cons p ps ih =>
    obtain ⟨h1, h2, h3⟩ := h
    intro q hq
    simp only [List.mem_cons] at hq
    rcases hq with rfl | hq
    · omega
    · have := ih _ h3 q hq; omega

theorem contig_ok (n : Nat) (ps : List Piece) (h : Contig n ps) : PiecesOK ps := by
  induction ps generalizing n with
  | nil => exact ⟨List.Pairwise.nil, by simp⟩
  | cons p ps ih =>
    obtain ⟨h1, h2, h3⟩ := h
    have hlen : 1 ≤ p.text.length := by cases hp : p.text <;> simp_all
    obtain ⟨i1, i2⟩ := ih _ h3
    refine ⟨List.pairwise_cons.mpr ⟨?_, i1⟩, ?_⟩
    · intro q hq
      have := contig_lb _ ps h3 q hq
      simp only [Piece.stop]; omega
    · intro q hq
      simp only [List.mem_cons] at hq
      rcases hq with rfl | hq
      · simp only [Piece.stop]; omega
      · exact i2 q hq

theorem wordPieces_ok (c : Cls) (s : Str) : PiecesOK (wordPieces c s) := by
  obtain ⟨h1, h2⟩ := contig_ok 0 _ (pieces_contig c s)
  refine ⟨List.Pairwise.sublist (List.filter_sublist) h1, ?_⟩
  intro p hp
  exact h2 p (List.mem_filter.mp hp).1

theorem pairwise_trichotomy (ps : List Piece) (h1 : ps.Pairwise (fun p q => p.stop < q.start)) (p q : Piece)
    (hp : p ∈ ps) (hq : q ∈ ps) : p = q ∨ p.stop < q.start ∨ q.stop < p.start := by
  induction ps with
  | nil => simp at hp
  | cons a as ih =>
    rw [List.pairwise_cons] at h1
    simp only [List.mem_cons] at hp hq
    rcases hp with rfl | hp <;> rcases hq with rfl | hq
    · left; rfl
    · right; left; exact h1.1 q hq
    · right; right; exact h1.1 p hp
    · exact ih h1.2 hp hq

/-- two pieces of a well-ordered list are equal or one lies entirely before the other -/
theorem pieces_trichotomy (ps : List Piece) (h : PiecesOK ps) (p q : Piece) (hp : p ∈ ps) (hq : q ∈ ps) :
    p = q ∨ p.stop < q.start ∨ q.stop < p.start := pairwise_trichotomy ps h.1 p q hp hq

end LE
