import LicenseExpr.Lemmas.TrieMap
import LicenseExpr.Lemmas.Sweep
import LicenseExpr.Lemmas.Pieces
/-!
# Lemmas/OneWord — a matcher whose names are all single words tokenizes word by word

With one-word names only, the scan reports at every non-blank piece exactly what is stored under that
piece's folded word (or nothing), no two reports overlap, the overlap sweep keeps everything and no
word is left uncovered: `Trie.tokenize` is the piece list mapped through a dictionary look-up
(`tokenize_oneWord`). This is the automaton side of C18.
-/
namespace LE
variable {V : Type}

/-- the token the automaton makes of one piece when all names are single words -/
def tokOf (c : Cls) (t : Trie V) (text : Str) (p : Piece) : Tok V :=
  ⟨p.start, p.stop, slice text p.start p.stop, (t.outputAt [c.fold p.text]).map (·.val)⟩

def OneWord (t : Trie V) : Prop := ∀ e ∈ t.entries, e.words.length = 1

/-- every known word is a word of a stored name (the converse of `KnownOK`) -/
def KnownOnly (t : Trie V) : Prop := ∀ w, t.known.contains w = true → ∃ e ∈ t.entries, w ∈ e.words

theorem oneWord_entry_words (t : Trie V) (h1 : OneWord t) (e : TEntry V) (he : e ∈ t.entries) (w : Word) (hw : w ∈ e.words) :
    e.words = [w] := by
  have := h1 e he
  match hws : e.words with
  | [] => rw [hws] at this; cases this
  | [x] => rw [hws] at hw; simp at hw; rw [hw]
  | _ :: _ :: _ => rw [hws] at this; simp at this

theorem isNodeB_single (t : Trie V) (e : TEntry V) (he : e ∈ t.entries) (w : Word) (hw : e.words = [w]) :
    isNodeB t.names [w] = true := by
  simp only [isNodeB, List.isEmpty_cons, Bool.false_or, List.any_eq_true]
  exact ⟨[w], by simp only [Trie.names, List.mem_map]; exact ⟨e, he, hw⟩, by simp⟩

theorem isNodeB_two (t : Trie V) (h1 : OneWord t) (v w : Word) : isNodeB t.names [v, w] = false := by
  simp only [isNodeB, List.isEmpty_cons, Bool.false_or]
  rw [Bool.eq_false_iff]
  intro h
  simp only [List.any_eq_true, Trie.names, List.mem_map] at h
  obtain ⟨n, ⟨e, he, rfl⟩, hp⟩ := h
  have := h1 e he
  match hws : e.words with
  | [] => rw [hws] at this; cases this
  | [x] => rw [hws] at hp; simp [List.isPrefixOf] at hp
  | _ :: _ :: _ => rw [hws] at this; simp at this

theorem failN_single (N : List (List Word)) (n : Nat) (v : Word) : failN N n [v] = [] := by
  cases n <;> simp [failN]

theorem outputAt_single (t : Trie V) (e : TEntry V) (he : e ∈ t.entries) (w : Word) (hw : e.words = [w]) :
    ∃ e', t.outputAt [w] = some e' ∧ e'.words = [w] ∧ e' ∈ t.entries := by
  unfold Trie.outputAt
  simp only [List.isEmpty_cons, Bool.false_eq_true, ↓reduceIte]
  cases hf : t.entries.find? (fun e => e.words = [w]) with
  | none =>
    have := List.find?_eq_none.mp hf e he
    simp [hw] at this
  | some e' =>
    exact ⟨e', rfl, by simpa using List.find?_some hf, List.mem_of_find?_eq_some hf⟩

theorem outputAt_unknown (t : Trie V) (hk : AC.KnownOK t) (w : Word) (hw : t.known.contains w = false) :
    t.outputAt [w] = none := by
  unfold Trie.outputAt
  simp only [List.isEmpty_cons, Bool.false_eq_true, ↓reduceIte]
  rw [List.find?_eq_none]
  intro e he hwe
  have := hk e he w (by simp at hwe; rw [hwe]; simp)
  rw [this] at hw; cases hw

/-- the scan, one piece at a time -/
theorem iterGo_oneWord (c : Cls) (t : Trie V) (h1 : OneWord t) (hk : AC.KnownOK t) (hko : KnownOnly t)
    (text : Str) (depth : Nat) (hd : ∀ n ∈ t.names, n.length ≤ depth) (ps : List Piece) :
    ∀ (seen : List Piece) (state : List Word), (state = [] ∨ ∃ v, state = [v]) →
      iterGo c t text true depth seen state ps = ps.map (tokOf c t text) := by
  induction ps with
  | nil => intro seen state _; simp [iterGo]
  | cons p ps ih =>
    intro seen state hst
    simp only [iterGo, List.map_cons]
    by_cases hkn : t.known.contains (c.fold p.text) = true
    · -- a known word: the state becomes that word, the only output is what is stored under it
      obtain ⟨e, he, hwe⟩ := hko _ hkn
      have hws := oneWord_entry_words t h1 e he _ hwe
      obtain ⟨e', ho, hw', he'⟩ := outputAt_single t e he _ hws
      have hnode := isNodeB_single t e he _ hws
      have hdep : 1 ≤ depth := by
        have := hd e.words (by simp only [Trie.names, List.mem_map]; exact ⟨e, he, rfl⟩)
        rw [hws] at this; simpa using this
      obtain ⟨d, rfl⟩ : ∃ d, depth = d + 1 := ⟨depth - 1, by omega⟩
      have hfollow : follow t.names (failN t.names (d + 1)) (d + 1 + 1) state (c.fold p.text) = [c.fold p.text] := by
        rcases hst with rfl | ⟨v, rfl⟩
        · simp [follow, hnode]
        · have h2 := isNodeB_two t h1 v (c.fold p.text)
          simp only [follow, List.cons_append, List.nil_append, h2, Bool.false_eq_true, ↓reduceIte,
            List.cons_ne_self, failN_single]
          simp [hnode]
      have hchain : chain (failN t.names (d + 1)) (d + 1 + 1) [c.fold p.text] = [[c.fold p.text], []] := by
        simp [chain, failN_single]
      simp only [hkn, Bool.not_true, Bool.false_eq_true, ↓reduceIte, hfollow, hchain]
      have ho0 : t.outputAt ([] : List Word) = none := by simp [Trie.outputAt]
      have houts : List.filterMap (fun q => t.outputAt q) [[c.fold p.text], []] = [e'] := by
        simp only [List.filterMap_cons, ho, ho0, List.filterMap_nil]
      rw [houts]
      have hsb : startBack (p :: seen) e'.words.length = some p.start := by
        rw [hw']; simp [startBack]
      simp only [List.filterMap_cons, hsb, Option.map_some, List.filterMap_nil, List.isEmpty_cons,
        Bool.false_and, Bool.false_eq_true, ↓reduceIte, List.cons_append, List.nil_append]
      rw [ih (p :: seen) [c.fold p.text] (Or.inr ⟨_, rfl⟩)]
      simp [tokOf, ho]
    · have hkn' : t.known.contains (c.fold p.text) = false := by simpa using hkn
      simp only [hkn', Bool.not_false, ↓reduceIte, List.cons_append, List.nil_append]
      rw [ih (p :: seen) [] (Or.inl rfl)]
      simp [tokOf, outputAt_unknown t hk _ hkn']

theorem iter_oneWord (c : Cls) (t : Trie V) (h1 : OneWord t) (hk : AC.KnownOK t) (hko : KnownOnly t) (text : Str) :
    t.iter c text true = (wordPieces c text).map (tokOf c t text) :=
  iterGo_oneWord c t h1 hk hko text _ (fun n hn => AC.length_le_maxDepth t.names n hn) _ [] [] (Or.inl rfl)

/-! ### selection keeps everything -/

theorem insertTok_head (x : Tok V) (l : List (Tok V)) (h : ∀ y ∈ l, x.s < y.s) : insertTok x l = x :: l := by
  cases l with
  | nil => rfl
  | cons y ys =>
    have hy := h y (by simp)
    have : keyLt y.key x.key = false := by
      cases hk : keyLt y.key x.key with
      | false => rfl
      | true => have := keyLt_start _ _ hk; omega
    simp [insertTok, this]

theorem sortToks_sorted_id (l : List (Tok V)) (h : l.Pairwise (fun a b => a.s < b.s)) : sortToks l = l := by
  induction l with
  | nil => rfl
  | cons x xs ih =>
    rw [List.pairwise_cons] at h
    simp only [sortToks, ih h.2]
    exact insertTok_head x xs h.1

theorem sweep_disjoint_id (l : List (Tok V)) (h : l.Pairwise (fun a b => a.e < b.s)) : sweep l = l := by
  induction l with
  | nil => simp [sweep]
  | cons x xs ih =>
    rw [List.pairwise_cons] at h
    rw [sweep]
    have habs : absorbTok x xs = (true, xs) := by
      cases xs with
      | nil => rfl
      | cons n rest =>
        have := h.1 n (by simp)
        have haft : n.isAfter x = true := by simp [Tok.isAfter, Gen.isAfter]; omega
        simp [absorbTok, haft]
    simp only [habs, ↓reduceIte]
    rw [ih h.2]

theorem tokOf_pairwise (c : Cls) (t : Trie V) (text : Str) (ps : List Piece) (hok : PiecesOK ps) :
    (ps.map (tokOf c t text)).Pairwise (fun a b => a.e < b.s) := by
  rw [List.pairwise_map]
  exact hok.1.imp (fun {p q} h => by simpa [tokOf] using h)

theorem tokOf_pairwise_start (c : Cls) (t : Trie V) (text : Str) (ps : List Piece) (hok : PiecesOK ps) :
    (ps.map (tokOf c t text)).Pairwise (fun a b => a.s < b.s) := by
  rw [List.pairwise_map]
  have h2 := hok.2
  have h1 := hok.1
  clear hok
  induction ps with
  | nil => exact List.Pairwise.nil
  | cons p ps ih =>
    rw [List.pairwise_cons] at h1 ⊢
    refine ⟨?_, ih (fun q hq => h2 q (List.mem_cons_of_mem _ hq)) h1.2⟩
    intro q hq
    have := h1.1 q hq
    have := h2 p (by simp)
    simp only [tokOf]; omega

/-- no piece is left uncovered when every piece has its own token -/
theorem uncovered_none (c : Cls) (t : Trie V) (text : Str) (ps : List Piece) (hok : PiecesOK ps) :
    ∀ (pre : List (Tok V)), (∀ k ∈ pre, ∀ p ∈ ps, k.e < p.start) →
      uncovered text (pre ++ ps.map (tokOf c t text)) ps = [] := by
  induction ps with
  | nil => intro pre _; simp [uncovered]
  | cons p ps ih =>
    intro pre hpre
    have hp := hok.2 p (by simp)
    have hok' : PiecesOK ps := ⟨(List.pairwise_cons.mp hok.1).2, fun q hq => hok.2 q (List.mem_cons_of_mem _ hq)⟩
    have hdrop : (pre ++ (p :: ps).map (tokOf c t text)).dropWhile (fun k => decide (k.e < p.start)) =
        tokOf c t text p :: ps.map (tokOf c t text) := by
      rw [List.dropWhile_append_of_pos (by intro k hk; simpa using hpre k hk p (by simp))]
      simp only [List.map_cons]
      rw [List.dropWhile_cons_of_neg]
      have : ¬ p.stop < p.start := by omega
      simp [tokOf, this]
    simp only [uncovered, hdrop]
    have hle : (tokOf c t text p).s ≤ p.start := by simp [tokOf]
    simp only [hle, ↓reduceIte]
    have := ih hok' [tokOf c t text p] (by
      intro k hk q hq
      simp only [List.mem_singleton] at hk; subst hk
      simpa [tokOf] using (List.pairwise_cons.mp hok.1).1 q hq)
    simpa using this

/-- **a one-word matcher tokenizes word by word** -/
theorem tokenize_oneWord (c : Cls) (t : Trie V) (h1 : OneWord t) (hk : AC.KnownOK t) (hko : KnownOnly t) (text : Str) :
    t.tokenize c text = (wordPieces c text).map (tokOf c t text) := by
  have hok := wordPieces_ok c text
  unfold Trie.tokenize addUncovered filterOverlapping
  rw [iter_oneWord c t h1 hk hko text]
  rw [sortToks_sorted_id _ (tokOf_pairwise_start c t text _ hok)]
  rw [sweep_disjoint_id _ (tokOf_pairwise c t text _ hok)]
  have := uncovered_none c t text _ hok [] (by intro k hk; cases hk)
  simp only [List.nil_append] at this
  rw [this, List.append_nil]
  exact sortToks_sorted_id _ (tokOf_pairwise_start c t text _ hok)

end LE
