import LicenseExpr.Lemmas.Unique
import LicenseExpr.Props.C01
/-!
# C10 — license key and symbol listings follow text order
-/
namespace LE

/-- **C10 (order)**: `license_symbols` is computed from the literals of the tree in order; with
    `C01_literals` these are the license tokens of the text in text order. -/
theorem C10_symbols (c : Cls) (T : Table) (simple strict : Bool) (text : Str) (e : Expr Atom) (unique decompose : Bool)
    (h : parseFull c T simple strict false text = .ok e) :
    ∃ toks, ltok c T simple strict text = .ok toks ∧
      licenseSymbols e unique decompose =
        (fun l => if unique then orderedUniqueAcc [] l else l)
          ((fun l => if decompose then l.flatMap (fun a => a.decompose.map Atom.lic) else l) (toks.filterMap ptokAtom)) := by
  obtain ⟨toks, h1, h2⟩ := C01_literals c T simple strict false text e h
  refine ⟨toks, h1, ?_⟩
  unfold licenseSymbols
  rw [h2]

/-- **C10 (uniqueness)**: the unique listing has no duplicates, keeps exactly the members of the full
    listing, and lists them in the order of their first appearance (it is a subsequence). -/
theorem C10_unique_spec {β : Type} [DecidableEq β] (l : List β) :
    (orderedUniqueAcc [] l).Nodup ∧ (∀ x, x ∈ orderedUniqueAcc [] l ↔ x ∈ l) ∧ (orderedUniqueAcc [] l).Sublist l := by
  refine ⟨ouAcc_nodup [] l (by simp), fun x => by simpa using ouAcc_mem [] l x, ?_⟩
  obtain ⟨r, h1, h2⟩ := ouAcc_sublist ([] : List β) l
  simpa [h1] using h2

/-- a WITH pair is listed as license then exception when decomposed, as itself when not -/
theorem C10_decompose (l e : Sym) :
    licenseSymbols (.atom (.withE l e)) false true = [.lic l, .lic e] ∧
    licenseSymbols (.atom (.withE l e)) false false = [.withE l e] := by
  simp [licenseSymbols, literals, Atom.decompose]

/-- **C10 (primary)**: the primary license is the first entry of the unique listing -/
theorem C10_primary (e : Expr Atom) (decompose : Bool) : primarySymbol e decompose = (licenseSymbols e true decompose).head? := rfl

/-- **C10 (unknown listings)**: the unknown-license listings are exactly the entries of the
    corresponding listing whose key is not in the table, in the same order, under the same switch:
    de-duplicating and filtering commute (the source filters symbols in one path and keys in another). -/
theorem C10_unknown_symbols (known : List Str) (e : Expr Atom) (unique : Bool) :
    unknownSymbols known e unique = (licenseSymbols e unique true).filter (fun a => !known.contains (atomKey a)) := rfl

theorem C10_unknown_keys (known : List Str) (e : Expr Atom) (unique : Bool) :
    unknownKeys known e unique = (licenseKeys e unique).filter (fun k => !known.contains k) := by
  unfold unknownKeys licenseKeys keysOf unknownSymbols
  cases unique
  · simp [List.filter_map, Function.comp_def]
  · simp only [↓reduceIte]
    rw [ouAcc_filter]
    simp [List.filter_map, Function.comp_def]

end LE
