import LicenseExpr.Props.C12
import LicenseExpr.Props.C03
/-!
# C11 — validation verdicts agree with each other and with parsing
-/
namespace LE

/-- strict tokenizing that succeeds is non-strict tokenizing that succeeds, with the same triples -/
theorem ltok_strict_lax (c : Cls) (T : Table) (simple : Bool) (text : Str) (out : List PTok)
    (h : ltok c T simple true text = .ok out) : ltok c T simple false text = .ok out := by
  obtain ⟨raw, merged, grouped, h1, h2, h3, _, h5⟩ := (C12_ltok_iff c T simple text out).mp h
  unfold ltok ltokW
  unfold rawTokens at h1
  simp [bind, Except.bind, h1, h2, h3, h5]

/-- strict parsing that succeeds is non-strict parsing that succeeds, with the same tree -/
theorem parse_strict_lax (c : Cls) (T : Table) (simple validate : Bool) (text : Str) (e : Expr Atom)
    (h : parseFull c T simple true validate text = .ok e) : parseFull c T simple false validate text = .ok e := by
  unfold parseFull parseFullW at h ⊢
  split at h
  · simp at h
  · next hb =>
    simp only [hb, Bool.false_eq_true, ↓reduceIte]
    cases hl : ltokW c T (buildTrie c T) simple true text with
    | error er => simp [hl] at h; cases er <;> simp [ofLErr] at h
    | ok toks =>
      have := ltok_strict_lax c T simple text toks (by simp [ltok, hl])
      simp only [ltok] at this
      simp only [hl] at h
      simp only [this]
      exact h

/-- without validation no unknown-key error is raised -/
theorem parse_novalidate_unknown (c : Cls) (T : Table) (simple strict : Bool) (text : Str) (ks : List Str) :
    parseFull c T simple strict false text ≠ .exprErr (some ks) := by
  unfold parseFull parseFullW
  split
  · simp
  · split
    · next er _ => cases er <;> simp [ofLErr]
    · split
      · next pe idx _ => cases pe <;> simp [ofPErr] <;> split <;> simp
      · simp

/-- **C11 (parse with validation)**: `parse(validate=True)` raises the unknown-key error exactly when
    the unknown-license listing of the parsed expression is non-empty, naming those keys in order;
    otherwise it is `parse()`. -/
theorem C11_parse_validate (c : Cls) (T : Table) (simple strict : Bool) (text : Str) :
    parseFull c T simple strict true text =
      (match parseFull c T simple strict false text with
       | .ok e => if (unknownKeys (knownKeys T) e true).isEmpty then .ok e else .exprErr (some (unknownKeys (knownKeys T) e true))
       | o => o) := by
  unfold parseFull parseFullW
  split
  · rfl
  · cases hl : ltokW c T (buildTrie c T) simple strict text with
    | error er => cases er <;> simp [ofLErr]
    | ok toks =>
      simp only []
      cases hp : BP.parseAt (toks.map (·.t)) with
      | error x =>
        obtain ⟨pe, idx⟩ := x
        simp only []
        cases pe <;> simp [ofPErr] <;> split <;> rfl
      | ok e => simp

/-- **C11 (validate agrees with parse)**: for every non-blank text, `validate()` returns a report; its
    error list is empty exactly when `parse(validate=True)` with the same strictness succeeds; then the
    normalized expression is the rendering of that parse; otherwise it is absent and an error is
    reported, and for unknown licenses the invalid symbols are the unknown keys in order. -/
theorem C11_agree (c : Cls) (T : Table) (strict : Bool) (text : Str)
    (hb : (text.isEmpty || isBlank c text) = false) :
    ∃ i, validateFull c T strict text = .info i ∧
      (match parseFull c T false strict true text with
       | .ok e => i.nerrors = 0 ∧ i.normalized = some (renderStr e) ∧ i.invalid = []
       | .exprErr (some ks) => i.nerrors ≠ 0 ∧ i.normalized = none ∧ i.invalid = ks
       | _ => i.nerrors ≠ 0 ∧ i.normalized = none) := by
  rw [C11_parse_validate]
  unfold validateFull validateFullW
  have hpf : ∀ st v, parseFullW c T (buildTrie c T) false st v text = parseFull c T false st v text := fun _ _ => rfl
  simp only [hpf]
  cases hs : parseFull c T false strict false text with
  | blank =>
    exfalso
    unfold parseFull parseFullW at hs
    simp only [hb, Bool.false_eq_true, ↓reduceIte] at hs
    split at hs
    · next er _ => cases er <;> simp [ofLErr] at hs
    · split at hs
      · next pe idx _ => cases pe <;> simp [ofPErr] at hs <;> (split at hs <;> simp at hs)
      · simp at hs
  | crash k => exact absurd hs (C03_no_crash c T false strict false text k)
  | exprErr u =>
    cases u with
    | none => exact ⟨_, rfl, by simp⟩
    | some ks => exact absurd hs (parse_novalidate_unknown c T false strict text ks)
  | parseErr code s p => exact ⟨_, rfl, by simp⟩
  | ok e =>
    have hlax : parseFull c T false false false text = .ok e := by
      cases strict
      · exact hs
      · exact parse_strict_lax c T false false text e hs
    simp only [hlax]
    by_cases hk : (unknownKeys (knownKeys T) e true).isEmpty = true
    · refine ⟨_, by simp [hk]; rfl, ?_⟩
      simp [hk]
    · refine ⟨_, by simp [hk]; rfl, ?_⟩
      simp [hk]

end LE
