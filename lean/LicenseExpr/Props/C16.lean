import LicenseExpr.Lemmas.TrieMap
/-!
# C16 — the name matcher finds every occurrence of every stored name
-/
namespace LE
variable {V : Type}

/-- **C16 (storing)**: `add` refines a last-write-wins map keyed by the folded word sequence of the
    name: afterwards that word sequence maps to the new `(name, value)`, all others are unchanged … -/
theorem C16_map_write (c : Cls) (t t' : Trie V) (name : Str) (v : V) (h : t.add c name v = .ok t')
    (hw : wordsOf c name ≠ []) (hn : name ≠ []) :
    AC.lookupW t' (wordsOf c name) = some ⟨name, wordsOf c name, v⟩ ∧
    ∀ ws, ws ≠ wordsOf c name → AC.lookupW t' ws = AC.lookupW t ws :=
  AC.add_lookup c t t' name v h hw hn

/-- … and empty names and names without any word are ignored. -/
theorem C16_map_ignore (c : Cls) (t : Trie V) (name : Str) (v : V) (hc : t.converted = false)
    (h : name = [] ∨ wordsOf c name = []) : t.add c name v = .ok t :=
  AC.add_ignored c t name v hc h

/-- **C16 (look-ups)**: while names are being stored, `get` and `exists` read back exactly what is stored
    under the folded word sequence of the name asked for: they ignore letter case and the amount of
    whitespace, and see the latest value (with `C16_map_write`). -/
theorem C16_get (c : Cls) (t : Trie V) (hc : t.converted = false) (name : Str) (hw : wordsOf c name ≠ []) :
    t.get c name = (AC.lookupW t (wordsOf c name)).map (fun e => (e.name, e.val)) :=
  AC.get_lookup c t hc name hw

theorem C16_exists (c : Cls) (t : Trie V) (hc : t.converted = false) (name : Str) (hw : wordsOf c name ≠ []) :
    t.exists_ c name = (AC.lookupW t (wordsOf c name)).isSome :=
  AC.exists_lookup c t hc name hw

/-- read after write: the value just stored under any spelling with the same folded words -/
theorem C16_read_after_write (c : Cls) (t t' : Trie V) (name name' : Str) (v : V) (h : t.add c name v = .ok t')
    (hw : wordsOf c name ≠ []) (hn : name ≠ []) (hsame : wordsOf c name' = wordsOf c name) :
    t'.get c name' = some (name, v) := by
  have hc : t'.converted = false := by
    unfold Trie.add at h
    split at h
    · cases h
    · next hconv =>
      split at h
      · simp at h; subst h; simpa using hconv
      · simp only at h
        split at h
        · simp at h; subst h; simpa using hconv
        · simp at h; subst h; simpa using hconv
  rw [AC.get_lookup c t' hc name' (by rw [hsame]; exact hw), hsame, (AC.add_lookup c t t' name v h hw hn).1]
  rfl

/-- **C16 (enumeration)**: finalising does not change what enumerating the matcher yields. -/
theorem C16_items (t : Trie V) : t.makeAutomaton.items = t.items := rfl

/-- **C16 (frozen)**: after finalisation further additions are refused. -/
theorem C16_frozen (c : Cls) (t : Trie V) (name : Str) (v : V) :
    (match t.makeAutomaton.add c name v with | .refused => true | .ok _ => false) = true := by
  simp [Trie.add, Trie.makeAutomaton]

/-- **C16 (failure links)**: the breadth-first recurrence of `make_automaton` gives every node its
    longest proper suffix that is a node. -/
theorem C16_fail (N : List (List Word)) (p : List Word) (hp : p ≠ []) (hn : p.length ≤ maxDepth N) :
    failN N (maxDepth N) p = AC.lsuf N p.tail :=
  AC.failN_spec N _ p hp hn

/-- **C16 (scanning)**: for every matcher built by `add`s and finalised, and every text, `iter` reports
    exactly the occurrences: at every word position, for every suffix of the words read so far (longest
    first) that is the word sequence of a stored name, that name with its exact place — none missed,
    none invented, also where names are prefixes, suffixes or infixes of each other. -/
theorem C16_iter (c : Cls) (t : Trie V) (hk : AC.KnownOK t) (text : Str) :
    t.iter c text false = iterSpec c t text :=
  AC.iter_spec c t hk text

/-- the hypothesis of `C16_iter` holds for every matcher reachable by `add` and `make_automaton` -/
theorem C16_reachable_known (c : Cls) (ops : List (Str × V)) :
    AC.KnownOK ((ops.foldl (fun t nv => t.addD c nv.1 nv.2) (Trie.empty : Trie V)).makeAutomaton) := by
  apply AC.makeAutomaton_knownOK
  suffices ∀ (t : Trie V), AC.KnownOK t → AC.KnownOK (ops.foldl (fun t nv => t.addD c nv.1 nv.2) t) from this _ AC.empty_knownOK
  induction ops with
  | nil => intro t h; exact h
  | cons a as ih =>
    intro t h
    apply ih
    show AC.KnownOK (t.addD c a.1 a.2)
    unfold Trie.addD
    cases hadd : t.add c a.1 a.2 with
    | ok t' => exact AC.add_knownOK c t t' _ _ h hadd
    | refused => exact h

end LE
