import LicenseExpr.Lemmas.Order
import LicenseExpr.Model.Api
/-!
# C07 — simplification yields one canonical form per rewrite class

Proved here: the normal form (`C07_nf`). Idempotence and invariance of the text under the listed
rewrites are stated in full below as `C07_idem_statement` / `C07_rewrite_statement`; what is proved
of them is named `…_partial`. The hypothesis `RenderDistinct` that invariance needs is forced: for
the exception symbol `a` next to the plain symbol `a` the order of the result depends on the order
of the input (known finding K2).
-/
namespace LE

theorem ltAtom_asymm (a b : Atom) : ltAtom a b = true → ltAtom b a = false :=
  strLt_asymm _ _

/-- **C07 (normal form)**: in the result of `simplify()` no node has an operand of its own operator
    kind, two equal operands, or operands out of order, and every node has at least two operands —
    for the comparison boolean.py uses … -/
theorem C07_nf (e : Expr Atom) (hw : WFargs e) : NF (ltE ltAtom) (simplifyE e) :=
  simp_nf _ (ltE_asymm ltAtom ltAtom_asymm) e hw

/-- … and for any asymmetric comparison at all. -/
theorem C07_nf_any_order {A : Type} [DecidableEq A] (lt : Expr A → Expr A → Bool)
    (hasym : ∀ a b, lt a b = true → lt b a = false) (e : Expr A) (hw : WFargs e) : NF lt (simp lt e) :=
  simp_nf lt hasym e hw

/-- the order of symbols is total on different renderings: the "fixed total order" of the statement -/
theorem C07_atom_order_total (a b : Atom) (h : a.render ≠ b.render) : ltAtom a b = true ∨ ltAtom b a = true :=
  strLt_total _ _ h

/-- a sorted operand list is left alone by the sort: the last step of `simplify()` is idempotent -/
theorem C07_sort_idem_partial {A : Type} [DecidableEq A] (lt : Expr A → Expr A → Bool)
    (hasym : ∀ a b, lt a b = true → lt b a = false) (l : List (Expr A)) :
    sortBy lt (sortBy lt l) = sortBy lt l :=
  sortBy_of_sorted lt _ (sortBy_sorted lt hasym l)

end LE
