import LicenseExpr.Lemmas.Order
import LicenseExpr.Lemmas.Idem
import LicenseExpr.Model.Api
/-!
# C07 — simplification yields one canonical form per rewrite class

Proved here: the normal form (`C07_nf`) and idempotence as *recomputation* (`C07_idem`: simplifying a
simplified expression returns it unchanged; the source short-cuts this with its `iscanonical` flag,
the theorem says the short-cut changes nothing). Invariance of the text under the listed rewrites is
stated as `C07_rewrite_statement` and not proved; the hypothesis `RenderDistinct` it needs is forced:
for the exception symbol `a` next to the plain symbol `a` the order of the result depends on the
order of the input (known finding K2).
-/
namespace LE

theorem ltAtom_asymm (a b : Atom) : ltAtom a b = true → ltAtom b a = false :=
  strLt_asymm _ _

/-- **C07 (normal form)**: in the result of `simplify()` no node has an operand of its own operator
    kind, two equal operands, or operands out of order, and every node has at least two operands —
    for the comparison boolean.py uses … -/
theorem C07_nf (e : Expr Atom) (hw : WFargs e) : NF (ltE ltAtom) (simplifyE e) :=
  simp_nf _ (ltE_asymm ltAtom ltAtom_asymm) e hw

/-- … and for any asymmetric comparison at all. -/
theorem C07_nf_any_order {A : Type} [DecidableEq A] (lt : Expr A → Expr A → Bool)
    (hasym : ∀ a b, lt a b = true → lt b a = false) (e : Expr A) (hw : WFargs e) : NF lt (simp lt e) :=
  simp_nf lt hasym e hw

/-- the order of symbols is total on different renderings: the "fixed total order" of the statement -/
theorem C07_atom_order_total (a b : Atom) (h : a.render ≠ b.render) : ltAtom a b = true ∨ ltAtom b a = true :=
  strLt_total _ _ h

/-- **C07 (idempotent)**: `simplify()` of a simplified expression is that expression — for every tree
    whose nodes have operands, for the comparison boolean.py uses and for any asymmetric one. -/
theorem C07_idem (e : Expr Atom) (hw : WFargs e) : simplifyE (simplifyE e) = simplifyE e :=
  simp_idem _ (ltE_asymm ltAtom ltAtom_asymm) e hw

theorem C07_idem_any_order {A : Type} [DecidableEq A] (lt : Expr A → Expr A → Bool)
    (hasym : ∀ a b, lt a b = true → lt b a = false) (e : Expr A) (hw : WFargs e) : simp lt (simp lt e) = simp lt e :=
  simp_idem lt hasym e hw

/-- no operand of a simplified node absorbs another: the absorption rule has nothing left to do -/
theorem C07_absorb_free (e : Expr Atom) (hw : WFargs e) : NFA (ltE ltAtom) (simplifyE e) :=
  simp_nfa _ (ltE_asymm ltAtom ltAtom_asymm) e hw

/-- unequal atoms of the tree render differently -/
def RenderDistinct (e : Expr Atom) : Prop := ∀ a ∈ literals e, ∀ b ∈ literals e, a.render = b.render → a = b

/-- the full rewrite-invariance statement (not proved; checked by the correspondence run on 1-4 random rewrites per tree) -/
def C07_rewrite_statement : Prop :=
  ∀ (op : Op) (l l' : List (Expr Atom)), l.Perm l' → RenderDistinct (.node op l) → l ≠ [] →
    renderStr (simplifyE (.node op l)) = renderStr (simplifyE (.node op l'))

/-- a sorted operand list is left alone by the sort: the last step of `simplify()` is idempotent -/
theorem C07_sort_idem_partial {A : Type} [DecidableEq A] (lt : Expr A → Expr A → Bool)
    (hasym : ∀ a b, lt a b = true → lt b a = false) (l : List (Expr A)) :
    sortBy lt (sortBy lt l) = sortBy lt l :=
  sortBy_of_sorted lt _ (sortBy_sorted lt hasym l)

end LE
