import LicenseExpr.Props.C16
import LicenseExpr.Props.C17
import LicenseExpr.Lemmas.Alone
import LicenseExpr.Lemmas.Spelled
import LicenseExpr.Lemmas.KwValid
import LicenseExpr.Model.Api
/-!
# C04 — known keys and aliases are recognised whatever the case and spacing

The matcher reads the text only through the *folded words* of its non-blank pieces
(`wordsOfSeen`): letter case disappears in `Cls.fold`, the amount and kind of whitespace in the
lexer (a blank run of any length and any `\s` characters is one blank piece, which the matcher
skips). What is proved: every occurrence of a stored name is reported with its exact place
(`C04_recognised`), a reported name is always a whole-word occurrence — so operator words inside a
longer word are never operators (`C04_whole_words`, `C04_operator_whole_word`) — and among the
reported matches the leftmost of the longest always survives selection (`C04_longest`).
The composition with the later stages is proved for a name that stands alone as the whole
expression (`C04_alone`): in any letter case and with any blanks between its words it parses to its
license's symbol and renders as the canonical key, for every table that is unambiguous in the
matcher's own terms (`namesUniqueB`, a decidable check the driver evaluates on every table of the
run). `C04_in_context` is the general statement: in any expression, every operand written as any stored
name of its license — any letter case, any blanks between its words and around parentheses inside
an alias — is resolved to that license, an operand made of words that occur in no stored name
becomes the unknown license those words spell, and the text parses to the tree of its skeleton. Its
premises on the table: no stored name of several words contains an operator word or a parenthesis
(`OpWordFree` — the proviso "no longer known name extends beyond the operand" made a property of the
table), the table is one `Licensing` accepts (`tableRefused = false`; then no name reads as a bare
operator, `kwOwned_of_accepted`), and each name belongs to one license
(`OwnedByV`, inside `SegFor`). `C04_in_context_proviso` drops the premise on the table: for any table,
whenever no occurrence of a stored name in the text reaches across a segment boundary — the proviso
itself, as a decidable premise on the text.
-/
namespace LE
variable {V : Type}

theorem mem_tails (ws q : List Word) : q ∈ tails ws ↔ q <:+ ws := by
  induction ws with
  | nil => simp [tails]
  | cons a as ih =>
    simp only [tails, List.mem_cons, ih, List.suffix_cons_iff]

/-- **C04 (recognised)**: wherever the folded word sequence of a stored name ends at a piece `p` of
    the text — whatever the letter case of the words and whatever blanks separate them — the scan
    reports that name at exactly that place. -/
theorem C04_recognised (c : Cls) (t : Trie V) (text : Str) (seen ps : List Piece) (p : Piece) (e : TEntry V)
    (he : t.outputAt e.words = some e) (hsuf : e.words <:+ wordsOfSeen c (p :: seen)) (st : Nat)
    (hst : startBack (p :: seen) e.words.length = some st) :
    (⟨st, p.stop, slice text st p.stop, some e.val⟩ : Tok V) ∈ iterSpecGo c t text seen (p :: ps) := by
  unfold iterSpecGo
  simp only [List.mem_append, List.mem_filterMap]
  left
  refine ⟨e, ⟨e.words, (mem_tails _ _).mpr hsuf, he⟩, ?_⟩
  simp [hst]

/-- **C04 (whole words)**: a reported name always stands on whole words of the text: its word
    sequence is a suffix of the words read up to its last piece. An operator word is therefore only
    recognised when a whole folded word equals it ("orgpl", "android" are not operators). -/
theorem C04_whole_words (c : Cls) (t : Trie V) (seen : List Piece) (p : Piece) (e : TEntry V)
    (h : e ∈ (tails (wordsOfSeen c (p :: seen))).filterMap (fun suf => t.outputAt suf)) :
    e.words <:+ wordsOfSeen c (p :: seen) ∧ e ∈ t.entries := by
  simp only [List.mem_filterMap] at h
  obtain ⟨q, hq, ho⟩ := h
  obtain ⟨_, hm, hw⟩ := AC.outputAt_node t q e ho
  exact ⟨by rw [hw]; exact (mem_tails _ _).mp hq, hm⟩

/-- the simple tokenizer treats a word as an operator only if the whole folded word is `and`, `or` or `with` -/
theorem C04_operator_whole_word (w : Str) (k : Kw) (h : operatorOf w = some k) : w = k.spelling := by
  unfold operatorOf at h
  split at h
  · simp at h; subst h; assumption
  · split at h
    · simp at h; subst h; assumption
    · split at h
      · simp at h; subst h; assumption
      · simp at h

/-- **C04 (longest, leftmost)**: where several known names match overlapping stretches of text, the
    longest wins, the leftmost on a tie (C17 for the matches of the scan). -/
theorem C04_longest (l : List (Tok V)) (m : Tok V) (hm : m ∈ l)
    (h : ∀ x ∈ l, x = m ∨ x.ilen < m.ilen ∨ (x.ilen ≤ m.ilen ∧ m.s < x.s)) : m ∈ filterOverlapping l :=
  C17_leftmost_longest l m hm h

theorem ownedW_spec (c : Cls) (T : Table) (ws : List Word) (s : Sym) (h : ownedW (storedW c T) ws s = true) :
    OwnedBy c T ws s := by
  simp only [ownedW, storedW, Bool.and_eq_true, List.any_eq_true, List.all_eq_true, List.mem_map, Bool.or_eq_true,
    Bool.not_eq_true', beq_iff_eq, beq_eq_false_iff_ne, forall_exists_index, and_imp] at h
  obtain ⟨⟨x, ⟨a, ha, rfl⟩, hx⟩, hall⟩ := h
  refine ⟨⟨a, ha, hx⟩, ?_⟩
  intro b hb hwb
  rcases hall _ b hb rfl with h1 | h1
  · exact absurd hwb h1
  · exact h1

/-- **C04 (a name alone)**: for every table that is unambiguous in the matcher's terms, every stored name
    of every entry — the key, each alias — written in any letter case and with any amount and kind of
    whitespace between its words (and around parentheses inside an alias) resolves, as an expression of
    its own, to that entry's license and renders with the canonical key. -/
theorem C04_alone (c : Cls) (hc : ClsOK c) (T : Table) (hu : namesUniqueB c T = true) (e : Entry) (he : e ∈ T)
    (n : Str) (hn : (n, symVal e) ∈ entryAdds c e) (hw : wordsOf c n ≠ []) (spelling : Str)
    (hs : wordsOf c spelling = wordsOf c n) :
    parseFull c T false false false spelling = .ok (.atom (.lic ⟨e.key, e.exc⟩)) ∧
    renderStr (.atom (.lic ⟨e.key, e.exc⟩)) = e.key := by
  refine ⟨?_, by simp [renderStr, renderWith, Atom.render]⟩
  have hmem : (n, symVal e) ∈ addsOf c T := by
    unfold addsOf
    exact List.mem_append_right _ (List.mem_flatMap.mpr ⟨e, he, hn⟩)
  have hown : OwnedBy c T (wordsOf c n) ⟨e.key, e.exc⟩ := by
    apply ownedW_spec
    unfold namesUniqueB at hu
    simp only [List.all_eq_true, Bool.or_eq_true] at hu
    have := hu (wordsOf c n, symVal e) (by simp only [storedW, List.mem_map]; exact ⟨_, hmem, rfl⟩)
    rcases this with h | h
    · exact absurd (by simpa using h) hw
    · simpa [symVal] using h
  rw [← hs] at hown
  exact parse_alone c hc T spelling _ (by rw [hs]; exact hw) hown

/-- … and validates without errors, non-strictly always and strictly unless it is an exception (a bare
    exception is refused by strict validation by design: C12). -/
theorem C04_alone_validates (c : Cls) (hc : ClsOK c) (T : Table) (hu : namesUniqueB c T = true) (e : Entry) (he : e ∈ T)
    (n : Str) (hn : (n, symVal e) ∈ entryAdds c e) (hw : wordsOf c n ≠ []) (spelling : Str)
    (hs : wordsOf c spelling = wordsOf c n) (strict : Bool) (hstrict : strict = true → e.exc = false) :
    validateFull c T strict spelling = .info ⟨some e.key, 0, []⟩ := by
  have hmem : (n, symVal e) ∈ addsOf c T := by
    unfold addsOf
    exact List.mem_append_right _ (List.mem_flatMap.mpr ⟨e, he, hn⟩)
  have hown : OwnedBy c T (wordsOf c n) ⟨e.key, e.exc⟩ := by
    apply ownedW_spec
    unfold namesUniqueB at hu
    simp only [List.all_eq_true, Bool.or_eq_true] at hu
    have := hu (wordsOf c n, symVal e) (by simp only [storedW, List.mem_map]; exact ⟨_, hmem, rfl⟩)
    rcases this with h | h
    · exact absurd (by simpa using h) hw
    · simpa [symVal] using h
  rw [← hs] at hown
  exact validate_alone c hc T spelling ⟨e.key, e.exc⟩ strict hstrict
    (by simp only [knownKeys, List.contains_eq_mem, List.mem_map, decide_eq_true_eq]; exact ⟨e, he, rfl⟩)
    (by rw [hs]; exact hw) hown

/-- **C04 (an operand wherever it stands)**: let a text fall into the segments of a skeleton `ts`
    (`SegsFor`): `and`, `or`, `with` and the parentheses each on a word of their own, in any letter
    case; every license as a run of words that reads as a stored name of that license — its key or
    any alias, in any letter case, with any amount and kind of whitespace between the words —, or, for
    an unknown license, a run of words none of which occurs in a stored name (`OperandSeg`). Then, for
    a table that `Licensing` accepts and whose multi-word names contain no operator word or parenthesis, the text parses to
    exactly what the skeleton parses to: every operand is resolved to its license, whatever stands
    around it. -/
theorem C04_in_context (c : Cls) (hc : ClsOK c) (T : Table) (hop : OpWordFree c T) (hacc : tableRefused c T = false)
    (ts : List (BP.Tok Atom)) (segs : List (Seg TVal)) (hs : SegsFor c T ts segs) (text : Str)
    (hcov : segPieces segs = wordPieces c text) (e : Expr Atom) (hparse : BP.parse ts = .ok e) :
    parseFull c T false false false text = .ok e :=
  parse_spelled c hc T hop (kwOwned_of_accepted c hc T hacc) ts segs hs text hcov e hparse

/-- **C04 (an operand wherever it stands, any table)**: the same for *every* table `Licensing` accepts — also tables whose multi-word names contain operator words (`GPL 2.0 or later`) —
    under the proviso of the property, stated on the text: no occurrence of a stored name reaches across
    the boundary of a segment, i.e. no longer known name extends beyond an operand (`hwithin`: every
    match of the scan over the text starts and ends inside one segment). -/
theorem C04_in_context_proviso (c : Cls) (hc : ClsOK c) (T : Table) (hacc : tableRefused c T = false)
    (ts : List (BP.Tok Atom)) (segs : List (Seg TVal)) (hs : SegsFor c T ts segs) (text : Str)
    (hcov : segPieces segs = wordPieces c text)
    (hwithin : ∀ k ∈ (buildTrie c T).iter c text true, k.val.isSome = true →
      ∃ sg ∈ segs, ∃ p ∈ sg.1, ∃ p' ∈ sg.1, k.s = p.start ∧ k.e = p'.stop)
    (e : Expr Atom) (hparse : BP.parse ts = .ok e) :
    parseFull c T false false false text = .ok e :=
  parse_spelled_within c hc T (kwOwned_of_accepted c hc T hacc) ts segs hs text hcov hwithin e hparse

end LE
