import LicenseExpr.Lemmas.BSound
import LicenseExpr.Lemmas.Spelled
import LicenseExpr.Lemmas.KwValid
import LicenseExpr.Model.Api
/-!
# C02 — valid expressions parse to the tree fixed by grammar and precedence

The grammar is `BP.Prim / BP.AndP / BP.OrP` (Lemmas/BParse.lean): WITH pairs are single symbol
tokens after grouping (WITH binds tightest), `AndP` collects a run of AND at one level into one
operand list, `OrP` a run of OR into one list of groups (AND over OR), `Prim.paren` keeps a
parenthesised compound as one operand and lets parentheses round a single license vanish
(`orVal [[e]] = e`).
-/
namespace LE

/-- **C02 (tokens)**: a derivable token list parses to the tree its derivation denotes — for every
    operator mix, nesting depth, arity and placement of redundant parentheses. -/
theorem C02_tree {α : Type} {ts : List (BP.Tok α)} {gs : List (List (Expr α))} (h : BP.OrP ts gs) :
    BP.parse ts = .ok (BP.orVal gs) := BP.complete h

/-- **C02 (Licensing.parse)**: when the triples of `Licensing.tokenize` form a derivable token list,
    `Licensing.parse` (without validation) returns the tree of the derivation, whatever the table,
    the tokenizer and the strictness. -/
theorem C02_parse (c : Cls) (T : Table) (simple strict : Bool) (text : Str) (toks : List PTok)
    (gs : List (List (Expr Atom)))
    (hb : (text.isEmpty || isBlank c text) = false)
    (ht : ltok c T simple strict text = .ok toks)
    (hd : BP.OrP (toks.map (·.t)) gs) :
    parseFull c T simple strict false text = .ok (BP.orVal gs) := by
  have hp := (BP.parseAt_ok _ _).mpr (BP.complete hd)
  unfold parseFull parseFullW
  unfold ltok at ht
  simp [hb, ht, hp]

/-- **C02 (unknown licenses)**: a maximal run of unmatched words between two matched tokens becomes
    one unknown license whose key is those words joined by single spaces. -/
theorem C02_unknown (c : Cls) (st en : Nat) (strs : List Str) (t : STok) (rest : List STok)
    (ht : t.val ≠ .none) :
    mergeUnknown c (some (st, en, strs)) (t :: rest) =
      (match mkUnknown c st en strs with
       | .error e => .error e
       | .ok u => match mergeUnknown c none rest with
         | .error e => .error e
         | .ok r => .ok (u :: t :: r)) := by
  rw [mergeUnknown]
  cases hv : t.val with
  | none => exact absurd hv ht
  | kw k => simp [flushUnknown, Except.map]; cases mkUnknown c st en strs <;> simp <;> rfl
  | sym a => simp [flushUnknown, Except.map]; cases mkUnknown c st en strs <;> simp <;> rfl
  | withSym l e => simp [flushUnknown, Except.map]; cases mkUnknown c st en strs <;> simp <;> rfl

theorem C02_unknown_extend (c : Cls) (st en : Nat) (strs : List Str) (t : STok) (rest : List STok)
    (ht : t.val = .none) :
    mergeUnknown c (some (st, en, strs)) (t :: rest) = mergeUnknown c (some (st, t.e, strs ++ [t.str])) rest := by
  rw [mergeUnknown]; simp [ht]

/-- non-vacuity: `a or (b and c) and d` is derivable and parses to `OR(a, AND(AND(b, c), d))` -/
example : BP.parse [BP.Tok.sym 1, .or, .lpar, .sym 2, .and, .sym 3, .rpar, .and, .sym 4]
    = .ok (.node .or [.atom 1, .node .and [.node .and [.atom 2, .atom 3], .atom 4]]) := by rfl

/-- **C02 (text)**: for every syntactically valid expression — a skeleton `ts` derivable from the grammar —
    written as a text (`SegsFor`: operators and parentheses in any letter case, every license as any
    stored name of it in any case and spacing, an unknown license as words that occur in no stored
    name, a pair as license, `with`, exception; whitespace arbitrary), over a table that `Licensing` accepts and whose multi-word names contain no operator word or parenthesis, parsing
    returns the tree the grammar and precedence fix. -/
theorem C02_text (c : Cls) (hc : ClsOK c) (T : Table) (hop : OpWordFree c T) (hacc : tableRefused c T = false)
    (ts : List (BP.Tok Atom)) (gs : List (List (Expr Atom))) (hd : BP.OrP ts gs)
    (segs : List (Seg TVal)) (hs : SegsFor c T ts segs) (text : Str) (hcov : segPieces segs = wordPieces c text) :
    parseFull c T false false false text = .ok (BP.orVal gs) :=
  parse_spelled c hc T hop (kwOwned_of_accepted c hc T hacc) ts segs hs text hcov _ (BP.complete hd)

end LE
