import LicenseExpr.Lemmas.DedupL
import LicenseExpr.Model.Api
/-!
# C09 — deduplication removes exactly the repeated operands and nothing else

`dedupRef` (Model/Spec.lean) is the statement's own reference: at every AND / OR node, leaves up,
drop each operand whose rendering repeats an earlier sibling, and replace a node left with one
operand by it. `dedup()` *is* that function, on every tree (`C09_struct`; since the repair
"keep the first of the expressions that render alike" — before it, the dictionary of
`combine_expressions` kept the position of the first and the object of the last). `Faithful e`: at every
node, deduplicated operands that render alike are equal — true of every tree one Licensing parses
from text. For the truth table the hypothesis is forced: for `AND(a[exception], a)` the rule of the
property itself leaves the single symbol `a` and the truth table changes (known finding K1).
-/
namespace LE

/-- **C09 (exactly)**: `dedup()` is the reference deduplication, on every expression. -/
theorem C09_struct (e : Expr Atom) : dedupE e = dedupRef e := dedupE_eq_ref_all e

/-- **C09 (order, nesting)**: what is kept at a node is a subsequence of its operands. -/
theorem C09_order (l : List (Expr Atom)) : (eraseDupsByRender [] l).Sublist l := eraseDups_sublist [] l

/-- every distinct alternative survives: each operand keeps a representative with its rendering -/
theorem C09_alternatives (l : List (Expr Atom)) (x : Expr Atom) (hx : x ∈ l) :
    ∃ y ∈ eraseDupsByRender [] l, renderStr y = renderStr x := by
  rcases eraseDups_cover [] l x hx with h | h
  · simp at h
  · exact h

/-- **C09 (truth table)**: unchanged, on render-faithful expressions. -/
theorem C09_truth (v : Atom → Bool) (e : Expr Atom) (hf : Faithful e) : eval v (dedupE e) = eval v e := by
  rw [C09_struct e]; exact dedupRef_eval v e hf

/-- **C09 (twice)**: applying the reference deduplication twice changes nothing more — for every tree … -/
theorem C09_idem_ref (e : Expr Atom) : dedupRef (dedupRef e) = dedupRef e := dedupRef_idem e

/-- … and so for `dedup()`, for every tree. -/
theorem C09_idem (e : Expr Atom) : dedupE (dedupE e) = dedupE e := by
  rw [C09_struct, C09_struct]; exact dedupRef_idem e

theorem C09_faithful_preserved (e : Expr Atom) (hf : Faithful e) : Faithful (dedupE e) := by
  rw [C09_struct e]; exact dedupRef_faithful e hf

/-- **C09 (combine)**: a sole input is returned as it is; with `unique` off every input is kept, in order -/
theorem C09_combine_sole (op : Op) (unique : Bool) (x : Expr Atom) : combineCore op unique [x] = some x := by
  cases unique <;> simp [combineCore, uniqByRender, uniqGo]

theorem C09_combine_keep_all (op : Op) (a b : Expr Atom) (r : List (Expr Atom)) :
    combineCore op false (a :: b :: r) = some (.node op (a :: b :: r)) := by
  simp [combineCore]

/-- with `unique` on: the first occurrences, in the given order, under the operator — for every list of inputs -/
theorem C09_combine_unique (op : Op) (l : List (Expr Atom)) :
    combineCore op true l = (match eraseDupsByRender [] l with | [] => none | [x] => some x | u => some (.node op u)) := by
  simp only [combineCore, ↓reduceIte, uniqByRender_eq_erase' l]
  cases eraseDupsByRender [] l with
  | nil => rfl
  | cons x xs => cases xs <;> rfl

end LE
