import LicenseExpr.Model.World
/-!
# C19 — answers depend only on table and input; arguments are never mutated

The model is functional, so "an expression object passed to any operation renders and compares
afterwards exactly as before" cannot be false in it: that half of the property is checked on the
implementation only (snapshots before and after every call). What the theorem carries: the only
state a Licensing keeps between calls is its cached tokenizer, and under every history of calls on
any number of instances that cache is absent or *the* automaton of the instance's own table — so
every answer is the answer of a freshly built Licensing.
-/
namespace LE

/-- every cache is absent or the automaton built from the instance's own table -/
def WInv (c : Cls) (w : World) : Prop := ∀ x ∈ w, x.cache = none ∨ x.cache = some (buildTrie c x.table)

theorem tokenizer_spec (c : Cls) (x : Inst) (h : x.cache = none ∨ x.cache = some (buildTrie c x.table)) :
    (x.tokenizer c).1 = buildTrie c x.table ∧ (x.tokenizer c).2.table = x.table ∧
      (x.tokenizer c).2.cache = some (buildTrie c x.table) := by
  unfold Inst.tokenizer
  rcases h with h | h <;> simp [h]

theorem winv_set (c : Cls) (w : World) (i : Nat) (x : Inst) (hw : WInv c w)
    (hx : x.cache = none ∨ x.cache = some (buildTrie c x.table)) : WInv c (setAt w i x) := by
  intro y hy
  unfold setAt at hy
  rcases List.mem_or_eq_of_mem_set hy with h | h
  · exact hw y h
  · subst h; exact hx

theorem step_inv (c : Cls) (w : World) (k : Call) (hw : WInv c w) : WInv c (step c w k).1 := by
  cases k with
  | construct T =>
    intro x hx
    simp only [step, List.mem_append, List.mem_singleton] at hx
    rcases hx with hx | rfl
    · exact hw x hx
    · left; rfl
  | parse i simple strict validate text =>
    simp only [step]
    cases hi : w[i]? with
    | none => exact hw
    | some x =>
      have hx := hw x (List.mem_of_getElem? hi)
      simp only []
      split
      · exact winv_set c w i _ hw (Or.inr (by rw [(tokenizer_spec c x hx).2.2, (tokenizer_spec c x hx).2.1]))
      · exact hw
  | validate i strict text =>
    simp only [step]
    cases hi : w[i]? with
    | none => exact hw
    | some x =>
      have hx := hw x (List.mem_of_getElem? hi)
      exact winv_set c w i _ hw (Or.inr (by rw [(tokenizer_spec c x hx).2.2, (tokenizer_spec c x hx).2.1]))

theorem run_inv (c : Cls) (w : World) (ks : List Call) (hw : WInv c w) : WInv c (runCalls c w ks) := by
  induction ks generalizing w with
  | nil => exact hw
  | cons k ks ih => exact ih _ (step_inv c w k hw)

/-- tables never change: a call leaves the table of every instance alone -/
theorem step_table (c : Cls) (w : World) (k : Call) (i : Nat) (x : Inst) (h : w[i]? = some x) :
    ∃ y, (step c w k).1[i]? = some y ∧ y.table = x.table := by
  cases k with
  | construct T =>
    refine ⟨x, ?_, rfl⟩
    simp only [step]
    rw [List.getElem?_append_left (by
      have := List.getElem?_eq_some_iff.mp h; exact this.1)]
    exact h
  | parse j simple strict validate text =>
    simp only [step]
    cases hj : w[j]? with
    | none => exact ⟨x, h, rfl⟩
    | some z =>
      simp only []
      split
      · by_cases hij : j = i
        · subst hij
          rw [h] at hj; cases hj
          refine ⟨(x.tokenizer c).2, ?_, ?_⟩
          · show (setAt w j (x.tokenizer c).2)[j]? = some (x.tokenizer c).2
            unfold setAt; rw [List.getElem?_set_self (by exact (List.getElem?_eq_some_iff.mp h).1)]
          · unfold Inst.tokenizer; split <;> rfl
        · refine ⟨x, ?_, rfl⟩
          unfold setAt; rw [List.getElem?_set_ne hij]; exact h
      · exact ⟨x, h, rfl⟩
  | validate j strict text =>
    simp only [step]
    cases hj : w[j]? with
    | none => exact ⟨x, h, rfl⟩
    | some z =>
      by_cases hij : j = i
      · subst hij
        rw [h] at hj; cases hj
        refine ⟨(x.tokenizer c).2, ?_, ?_⟩
        · show (setAt w j (x.tokenizer c).2)[j]? = some (x.tokenizer c).2
          unfold setAt; rw [List.getElem?_set_self (by exact (List.getElem?_eq_some_iff.mp h).1)]
        · unfold Inst.tokenizer; split <;> rfl
      · refine ⟨x, ?_, rfl⟩
        unfold setAt; rw [List.getElem?_set_ne hij]; exact h

/-- **C19 (history independence)**: in any world reached from fresh instances by any sequence of
    calls — successful or failing parses in all modes, validations, constructions of further
    instances — a parse on instance `i` answers exactly what a freshly built Licensing with the same
    table answers. -/
theorem C19_parse (c : Cls) (w : World) (hw : WInv c w) (i : Nat) (x : Inst) (hi : w[i]? = some x)
    (simple strict validate : Bool) (text : Str) :
    (step c w (.parse i simple strict validate text)).2 = .parsed (parseFull c x.table simple strict validate text) := by
  have hx := hw x (List.mem_of_getElem? hi)
  simp only [step, hi]
  split
  · simp only [(tokenizer_spec c x hx).1]; rfl
  · rcases hx with h | h <;> simp [h] <;> rfl

theorem C19_validate (c : Cls) (w : World) (hw : WInv c w) (i : Nat) (x : Inst) (hi : w[i]? = some x)
    (strict : Bool) (text : Str) :
    (step c w (.validate i strict text)).2 = .validated (validateFull c x.table strict text) := by
  have hx := hw x (List.mem_of_getElem? hi)
  simp only [step, hi, (tokenizer_spec c x hx).1]
  rfl

/-- the invariant holds initially and after every history: the two theorems above apply to every reachable world -/
theorem C19_reachable (c : Cls) (tables : List Table) (ks : List Call) :
    WInv c (runCalls c (tables.map (fun T => ⟨T, none⟩)) ks) := by
  apply run_inv
  intro x hx
  simp only [List.mem_map] at hx
  obtain ⟨T, _, rfl⟩ := hx
  left; rfl

end LE
