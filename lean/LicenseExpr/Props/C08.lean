import LicenseExpr.Lemmas.Order
import LicenseExpr.Lemmas.Atoms
import LicenseExpr.Model.Api
/-!
# C08 — equivalence and containment obey their algebraic laws
-/
namespace LE

/-- **C08**: `is_equivalent` is reflexive … -/
theorem C08_refl (a : Expr Atom) : equivE a a = true := eqE_refl _

/-- … symmetric … -/
theorem C08_symm (a b : Expr Atom) : equivE a b = equivE b a := eqE_symm _ _

/-- … and sound: True only for expressions with equal truth tables. -/
theorem C08_sound (a b : Expr Atom) (h : equivE a b = true) (v : Atom → Bool) : eval v a = eval v b := by
  have := eqE_eval v _ _ h
  rw [show eval v (simplifyE a) = eval v a from simp_eval _ v a,
      show eval v (simplifyE b) = eval v b from simp_eval _ v b] at this
  exact this

/-- the answer is a function of the two expressions alone: no Licensing, no table appears in it -/
theorem C08_instance (a b : Expr Atom) : equivE a b = eqE (simp (ltE ltAtom) a) (simp (ltE ltAtom) b) := rfl

/-- **C08**: `contains(a, a)` is True. -/
theorem C08_contains_refl (a : Expr Atom) : containsTop a a = true := by
  unfold containsTop
  cases h : simplifyE a with
  | atom x => simp [Atom.containsA]
  | node o ts =>
    simp only [containsE, Bool.or_eq_true]
    right
    simp only [beq_self_eq_true, Bool.true_and, List.all_eq_true]
    intro y hy
    simp only [memE, List.any_eq_true]
    exact ⟨y, hy, eqE_refl y⟩

/-- **C08**: a "license WITH exception" contains each of its two parts. -/
theorem C08_with_parts (l e : Sym) :
    containsTop (.atom (.withE l e)) (.atom (.lic l)) = true ∧ containsTop (.atom (.withE l e)) (.atom (.lic e)) = true := by
  simp [containsTop, simplifyE, simp, Atom.containsA, Atom.decompose]

/-- **C08**: `contains(a, b)` with `a` a single license implies that the license of `b` is `a` or a part of it -/
theorem C08_contains_atoms_partial (x : Atom) (b : Expr Atom) (h : containsTop (.atom x) b = true) :
    ∃ y, simplifyE b = .atom y ∧ (x = y ∨ ∃ m ∈ x.decompose, Atom.lic m = y) := by
  unfold containsTop at h
  simp only [simplifyE, simp] at h
  cases hb : simp (ltE ltAtom) b with
  | atom y =>
    refine ⟨y, by simp [simplifyE, hb], ?_⟩
    simp only [hb, Atom.containsA, Bool.or_eq_true, beq_iff_eq, List.any_eq_true] at h
    rcases h with h | ⟨m, hm, hmy⟩
    · exact Or.inl h
    · exact Or.inr ⟨m, hm, hmy⟩
  | node o ts => simp [hb] at h

end LE
