import LicenseExpr.Lemmas.Order
import LicenseExpr.Lemmas.Atoms
import LicenseExpr.Lemmas.Rewrite
import LicenseExpr.Model.Api
/-!
# C08 — equivalence and containment obey their algebraic laws
-/
namespace LE

/-- **C08**: `is_equivalent` is reflexive … -/
theorem C08_refl (a : Expr Atom) : equivE a a = true := eqE_refl _

/-- … symmetric … -/
theorem C08_symm (a b : Expr Atom) : equivE a b = equivE b a := eqE_symm _ _

/-- … and sound: True only for expressions with equal truth tables. -/
theorem C08_sound (a b : Expr Atom) (h : equivE a b = true) (v : Atom → Bool) : eval v a = eval v b := by
  have := eqE_eval v _ _ h
  rw [show eval v (simplifyE a) = eval v a from simp_eval _ v a,
      show eval v (simplifyE b) = eval v b from simp_eval _ v b] at this
  exact this

/-- **C08**: … is True for any two expressions related by commutativity, associativity, repetition or
    single-license absorption (`Rw`: the congruence these generate, at any depth, in any combination) … -/
theorem C08_rewrite (a b : Expr Atom) (h : Rw a b) (hw : WFargs a) : equivE a b = true :=
  rw_simp _ (ltE_asymm ltAtom (fun _ _ => strLt_asymm _ _)) h hw

/-- … and is transitive, so it is an equivalence relation. -/
theorem C08_trans (a b c : Expr Atom) (h1 : equivE a b = true) (h2 : equivE b c = true) : equivE a c = true :=
  eqE_trans _ _ _ h1 h2

/-- the answer is a function of the two expressions alone: no Licensing, no table appears in it -/
theorem C08_instance (a b : Expr Atom) : equivE a b = eqE (simp (ltE ltAtom) a) (simp (ltE ltAtom) b) := rfl

/-- **C08**: `contains(a, a)` is True. -/
theorem C08_contains_refl (a : Expr Atom) : containsTop a a = true := by
  unfold containsTop
  cases h : simplifyE a with
  | atom x => simp [Atom.containsA]
  | node o ts =>
    simp only [containsE, Bool.or_eq_true]
    right
    simp only [beq_self_eq_true, Bool.true_and, List.all_eq_true]
    intro y hy
    simp only [memE, List.any_eq_true]
    exact ⟨y, hy, eqE_refl y⟩

/-- `x in t` gives the same answer when either side is replaced by an `==` expression -/
theorem containsE_congr (t t' x x' : Expr Atom) (ht : eqE t t' = true) (hx : eqE x x' = true) :
    containsE t x = containsE t' x' := by
  suffices ∀ (t t' x x' : Expr Atom), eqE t t' = true → eqE x x' = true → containsE t x = true → containsE t' x' = true by
    rw [Bool.eq_iff_iff]
    exact ⟨this t t' x x' ht hx, this t' t x' x (eqE_symm_imp _ _ ht) (eqE_symm_imp _ _ hx)⟩
  intro t t' x x' ht hx h
  cases t with
  | atom a => simp [containsE] at h
  | node o ts =>
    cases t' with
    | atom a => rw [eqE_node_atom] at ht; cases ht
    | node o' ts' =>
      obtain ⟨rfl, _⟩ := (eqE_node_iff _ _ _ _).mp ht
      have hs := (eqE_node_setEq _ _ _).mp ht
      simp only [containsE, Bool.or_eq_true] at h ⊢
      rcases h with h | h
      · left; exact memE_subE _ hs.1 (memE_congr _ _ _ hx h)
      · right
        cases x with
        | atom a => simp at h
        | node ox xs =>
          cases x' with
          | atom a => rw [eqE_node_atom] at hx; cases hx
          | node ox' xs' =>
            obtain ⟨rfl, _, hx2⟩ := (eqE_node_iff _ _ _ _).mp hx
            simp only [Bool.and_eq_true, beq_iff_eq, List.all_eq_true] at h ⊢
            refine ⟨h.1, ?_⟩
            intro y hy
            obtain ⟨z, hz, hyz⟩ := hx2 y hy
            exact memE_subE _ hs.1 (memE_congr _ _ _ (eqE_symm_imp _ _ hyz) (h.2 z hz))

/-- **C08**: `contains` gives the same answer when either argument is replaced by an equivalent expression. -/
theorem C08_contains_congr (a a' b b' : Expr Atom) (ha : equivE a a' = true) (hb : equivE b b' = true) :
    containsTop a b = containsTop a' b' := by
  unfold equivE at ha hb
  unfold containsTop
  cases h1 : simplifyE a with
  | atom x =>
    cases h1' : simplifyE a' with
    | node o ts => rw [h1, h1', eqE_atom_node] at ha; cases ha
    | atom x' =>
      rw [h1, h1', eqE_atom_atom] at ha; subst ha
      cases h2 : simplifyE b with
      | atom y =>
        cases h2' : simplifyE b' with
        | atom y' => rw [h2, h2', eqE_atom_atom] at hb; subst hb; rfl
        | node o ts => rw [h2, h2', eqE_atom_node] at hb; cases hb
      | node o ts =>
        cases h2' : simplifyE b' with
        | atom y' => rw [h2, h2', eqE_node_atom] at hb; cases hb
        | node o' ts' => rfl
  | node o ts =>
    cases h1' : simplifyE a' with
    | atom x' => rw [h1, h1', eqE_node_atom] at ha; cases ha
    | node o' ts' =>
      simp only []
      rw [h1, h1'] at ha
      exact containsE_congr _ _ _ _ ha hb

/-- with C08_rewrite: `contains` does not change when an argument is rewritten -/
theorem C08_contains_rewrite (a a' b b' : Expr Atom) (ha : Rw a a') (hb : Rw b b') (hwa : WFargs a) (hwb : WFargs b) :
    containsTop a b = containsTop a' b' :=
  C08_contains_congr a a' b b' (C08_rewrite a a' ha hwa) (C08_rewrite b b' hb hwb)

/-- **C08**: a "license WITH exception" contains each of its two parts. -/
theorem C08_with_parts (l e : Sym) :
    containsTop (.atom (.withE l e)) (.atom (.lic l)) = true ∧ containsTop (.atom (.withE l e)) (.atom (.lic e)) = true := by
  simp [containsTop, simplifyE, simp, Atom.containsA, Atom.decompose]

/-- **C08**: `contains(a, b)` implies that every license of the simplified `b` occurs in `a` — as a
    license of `a`, or as one of the two parts of a "license WITH exception" of `a`. -/
theorem C08_contains_atoms (a b : Expr Atom) (h : containsTop a b = true) :
    ∀ y ∈ literals (simplifyE b), y ∈ literals a ∨ ∃ x ∈ literals a, ∃ m ∈ x.decompose, Atom.lic m = y := by
  unfold containsTop at h
  intro y hy
  cases ha : simplifyE a with
  | atom x =>
    have hxa : x ∈ literals a := simp_lits _ a x (by rw [show simp (ltE ltAtom) a = simplifyE a from rfl, ha]; simp [literals])
    cases hb : simplifyE b with
    | atom z =>
      rw [ha, hb] at h
      rw [hb] at hy
      simp only [literals, List.mem_singleton] at hy
      subst hy
      simp only [Atom.containsA, Bool.or_eq_true, beq_iff_eq, List.any_eq_true] at h
      rcases h with h | ⟨m, hm, hmy⟩
      · left; rw [← h]; exact hxa
      · right; exact ⟨x, hxa, m, hm, hmy⟩
    | node o ts => rw [ha, hb] at h; simp at h
  | node o ts =>
    rw [ha] at h
    left
    have := containsE_literals _ _ h y hy
    rw [← ha] at this
    exact simp_lits _ a y this

/-- **C08**: `contains(a, b)` with `a` a single license implies that the license of `b` is `a` or a part of it -/
theorem C08_contains_atoms_partial (x : Atom) (b : Expr Atom) (h : containsTop (.atom x) b = true) :
    ∃ y, simplifyE b = .atom y ∧ (x = y ∨ ∃ m ∈ x.decompose, Atom.lic m = y) := by
  unfold containsTop at h
  simp only [simplifyE, simp] at h
  cases hb : simp (ltE ltAtom) b with
  | atom y =>
    refine ⟨y, by simp [simplifyE, hb], ?_⟩
    simp only [hb, Atom.containsA, Bool.or_eq_true, beq_iff_eq, List.any_eq_true] at h
    rcases h with h | ⟨m, hm, hmy⟩
    · exact Or.inl h
    · exact Or.inr ⟨m, hm, hmy⟩
  | node o ts => simp [hb] at h

/-- **C08 (strings as parsed objects)**: `is_equivalent` and `contains` on two strings answer what they
    answer on the expressions the strings parse to — for every table and every two texts that parse. -/
theorem C08_strings (c : Cls) (T : Table) (s1 s2 : Str) (a b : Expr Atom)
    (h1 : parseFull c T false false false s1 = .ok a) (h2 : parseFull c T false false false s2 = .ok b) :
    equivText c T s1 s2 = some (equivE a b) ∧ containsText c T s1 s2 = some (containsTop a b) := by
  simp [equivText, containsText, h1, h2]

/-- … so the answer does not depend on how an expression is written: two texts that parse to the same
    expression are interchangeable on either side (with `C02_text` / `C04_in_context`: any letter case,
    spacing and any stored name of each license). -/
theorem C08_strings_spelling (c : Cls) (T : Table) (s1 s1' s2 : Str)
    (h : parseFull c T false false false s1 = parseFull c T false false false s1') :
    equivText c T s1 s2 = equivText c T s1' s2 ∧ equivText c T s2 s1 = equivText c T s2 s1' ∧
    containsText c T s1 s2 = containsText c T s1' s2 ∧ containsText c T s2 s1 = containsText c T s2 s1' := by
  simp [equivText, containsText, h]

/-- reflexive and symmetric on strings too; an empty or blank string is equivalent to itself only -/
theorem C08_strings_refl (c : Cls) (T : Table) (s : Str) (a : Expr Atom)
    (h : parseFull c T false false false s = .ok a) : equivText c T s s = some true := by
  simp [equivText, h, C08_refl]

theorem C08_strings_symm (c : Cls) (T : Table) (s1 s2 : Str) : equivText c T s1 s2 = equivText c T s2 s1 := by
  unfold equivText
  cases h1 : parseFull c T false false false s1 <;> cases h2 : parseFull c T false false false s2 <;> simp [C08_symm]

end LE
