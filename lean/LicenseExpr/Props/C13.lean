import LicenseExpr.Lemmas.Order
import LicenseExpr.Model.Api
/-!
# C13 — license symbols behave as values identified by key and exception flag
-/
namespace LE

/-- two plain symbols (wrappers included) are equal exactly when key and flag are -/
theorem C13_eq_plain (a b : Sym) : (Atom.lic a == Atom.lic b) = true ↔ a.key = b.key ∧ a.exc = b.exc := by
  cases a; cases b; simp

/-- two WITH symbols exactly when both parts are -/
theorem C13_eq_with (l e l' e' : Sym) : (Atom.withE l e == Atom.withE l' e') = true ↔ l = l' ∧ e = e' := by
  simp

/-- a plain symbol never equals a WITH symbol -/
theorem C13_plain_ne_with (a l e : Sym) : (Atom.lic a == Atom.withE l e) = false ∧ (Atom.withE l e == Atom.lic a) = false := by
  simp

/-- equality is an equivalence, `!=` its negation -/
theorem C13_eq_equiv (a b c : Atom) : (a == a) = true ∧ ((a == b) = (b == a)) ∧ ((a == b) = true → (b == c) = true → (a == c) = true)
    ∧ ((a != b) = !(a == b)) := by
  refine ⟨by simp, ?_, ?_, rfl⟩
  · by_cases h : a = b
    · simp [h]
    · have h' : ¬ b = a := fun x => h x.symm
      have e1 : (a == b) = false := by simpa using h
      have e2 : (b == a) = false := by simpa using h'
      rw [e1, e2]
  · intro h1 h2; simp_all

/-- equal symbols hash equally, for any hash that is a function of key and flag(s) -/
theorem C13_hash {H : Type} (hash : Atom → H) (a b : Atom) (h : (a == b) = true) : hash a = hash b := by
  simp at h; rw [h]

/-- for symbols with different renderings exactly one of `a < b`, `b < a` holds, namely the string
    order of the renderings — the same rule for every kind of symbol -/
theorem C13_lt_trichotomy (a b : Atom) (h : a.render ≠ b.render) :
    (a.lt b = true ∧ b.lt a = false) ∨ (b.lt a = true ∧ a.lt b = false) := by
  rcases strLt_total _ _ h with h1 | h1
  · exact Or.inl ⟨h1, strLt_asymm _ _ h1⟩
  · exact Or.inr ⟨h1, strLt_asymm _ _ h1⟩

theorem C13_lt_is_string_order (a b : Atom) : a.lt b = strLt a.render b.render := rfl

/-- the order is transitive and irreflexive: sorting is consistent across all symbol kinds -/
theorem C13_lt_strict (a b c : Atom) : a.lt a = false ∧ (a.lt b = true → b.lt c = true → a.lt c = true) :=
  ⟨strLt_irrefl _, strLt_trans _ _ _⟩

/-- key validation: an accepted key has a non-blank character, only key characters, and is not a bare operator word -/
theorem C13_normKey_sound (c : Cls) (raw k : Str) (h : normKey c raw = some k) :
    raw ≠ [] ∧ stripStr c raw ≠ [] ∧ (stripStr c raw).all c.isKeyChar = true ∧ k = collapse c (stripStr c raw)
      ∧ ¬ keywordStrings.contains (c.fold k) = true := by
  unfold normKey at h
  split at h
  · simp at h
  · next h0 =>
    simp only at h
    split at h
    · simp at h
    · next h1 =>
      split at h
      · simp at h
      · next h2 =>
        split at h
        · simp at h
        · next h3 =>
          simp at h
          refine ⟨by simpa using h0, by simpa using h1, by simpa using h2, h.symm, ?_⟩
          rw [← h]; simpa using h3

/-- and every such key is accepted -/
theorem C13_normKey_complete (c : Cls) (raw : Str) (h0 : raw ≠ []) (h1 : stripStr c raw ≠ [])
    (h2 : (stripStr c raw).all c.isKeyChar = true)
    (h3 : ¬ keywordStrings.contains (c.fold (collapse c (stripStr c raw))) = true) :
    normKey c raw = some (collapse c (stripStr c raw)) := by
  unfold normKey
  simp_all

end LE
