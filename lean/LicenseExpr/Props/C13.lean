import LicenseExpr.Lemmas.Order
import LicenseExpr.Model.Api
import LicenseExpr.Lemmas.NormKey
/-!
# C13 — license symbols behave as values identified by key and exception flag
-/
namespace LE

/-- two plain symbols (wrappers included) are equal exactly when key and flag are -/
theorem C13_eq_plain (a b : Sym) : (Atom.lic a == Atom.lic b) = true ↔ a.key = b.key ∧ a.exc = b.exc := by
  cases a; cases b; simp

/-- two WITH symbols exactly when both parts are -/
theorem C13_eq_with (l e l' e' : Sym) : (Atom.withE l e == Atom.withE l' e') = true ↔ l = l' ∧ e = e' := by
  simp

/-- a plain symbol never equals a WITH symbol -/
theorem C13_plain_ne_with (a l e : Sym) : (Atom.lic a == Atom.withE l e) = false ∧ (Atom.withE l e == Atom.lic a) = false := by
  simp

/-- equality is an equivalence, `!=` its negation -/
theorem C13_eq_equiv (a b c : Atom) : (a == a) = true ∧ ((a == b) = (b == a)) ∧ ((a == b) = true → (b == c) = true → (a == c) = true)
    ∧ ((a != b) = !(a == b)) := by
  refine ⟨by simp, ?_, ?_, rfl⟩
  · by_cases h : a = b
    · simp [h]
    · have h' : ¬ b = a := fun x => h x.symm
      have e1 : (a == b) = false := by simpa using h
      have e2 : (b == a) = false := by simpa using h'
      rw [e1, e2]
  · intro h1 h2; simp_all

/-- equal symbols hash equally, for any hash that is a function of key and flag(s) -/
theorem C13_hash {H : Type} (hash : Atom → H) (a b : Atom) (h : (a == b) = true) : hash a = hash b := by
  simp at h; rw [h]

/-- for symbols with different renderings exactly one of `a < b`, `b < a` holds, namely the string
    order of the renderings — the same rule for every kind of symbol -/
theorem C13_lt_trichotomy (a b : Atom) (h : a.render ≠ b.render) :
    (a.lt b = true ∧ b.lt a = false) ∨ (b.lt a = true ∧ a.lt b = false) := by
  rcases strLt_total _ _ h with h1 | h1
  · exact Or.inl ⟨h1, strLt_asymm _ _ h1⟩
  · exact Or.inr ⟨h1, strLt_asymm _ _ h1⟩

theorem C13_lt_is_string_order (a b : Atom) : a.lt b = strLt a.render b.render := rfl

/-- the order is transitive and irreflexive: sorting is consistent across all symbol kinds -/
theorem C13_lt_strict (a b c : Atom) : a.lt a = false ∧ (a.lt b = true → b.lt c = true → a.lt c = true) :=
  ⟨strLt_irrefl _, strLt_trans _ _ _⟩

/-- key validation: an accepted key has a non-blank character, only key characters, and is not a bare operator word -/
theorem C13_normKey_sound (c : Cls) (raw k : Str) (h : normKey c raw = some k) :
    raw ≠ [] ∧ stripStr c raw ≠ [] ∧ (stripStr c raw).all c.isKeyChar = true ∧ k = collapse c (stripStr c raw)
      ∧ ¬ keywordStrings.contains (c.fold k) = true := by
  unfold normKey at h
  split at h
  · simp at h
  · next h0 =>
    simp only at h
    split at h
    · simp at h
    · next h1 =>
      split at h
      · simp at h
      · next h2 =>
        split at h
        · simp at h
        · next h3 =>
          simp at h
          refine ⟨by simpa using h0, by simpa using h1, by simpa using h2, h.symm, ?_⟩
          rw [← h]; simpa using h3

/-- and every such key is accepted -/
theorem C13_normKey_complete (c : Cls) (raw : Str) (h0 : raw ≠ []) (h1 : stripStr c raw ≠ [])
    (h2 : (stripStr c raw).all c.isKeyChar = true)
    (h3 : ¬ keywordStrings.contains (c.fold (collapse c (stripStr c raw))) = true) :
    normKey c raw = some (collapse c (stripStr c raw)) := by
  unfold normKey
  simp_all

/-- **C13 (normalisation is idempotent)**: the key of a symbol is accepted again unchanged — creating a
    symbol from an existing symbol's key yields the same key. Two facts about the character classes
    are assumed, both true of Python: U+0020 is a blank (`str.isspace`) and is allowed in keys (`\s`
    in the key pattern). -/
theorem C13_normKey_idem (c : Cls) (hsp : c.isSpace SPACE = true) (hkc : c.isKeyChar SPACE = true)
    (raw k : Str) (h : normKey c raw = some k) : normKey c k = some k := by
  obtain ⟨_, h1, h2, hk, h4⟩ := C13_normKey_sound c raw k h
  have hwords := splitWs_words c (stripStr c raw)
  have hne : splitWs c (stripStr c raw) ≠ [] := by
    apply splitWs_ne
    -- the stripped key starts with a non-blank character
    unfold stripStr at h1 ⊢
    cases hd : ((raw.dropWhile c.isSpace).reverse.dropWhile c.isSpace) with
    | nil => rw [hd] at h1; simp at h1
    | cons x xs =>
      have := List.head_dropWhile_not c.isSpace (l := (raw.dropWhile c.isSpace).reverse) (by rw [hd]; simp)
      simp only [hd, List.head_cons] at this
      exact ⟨x, by simp, this⟩
  have hstrip : stripStr c k = k := by rw [hk]; exact stripStr_join c _ hwords
  have hcoll : collapse c k = k := by rw [hk]; exact collapse_collapse c hsp _
  have hkne : k ≠ [] := by rw [hk]; exact join_ne c _ hne hwords
  have hall : k.all c.isKeyChar = true := by
    rw [hk]
    apply join_all c.isKeyChar hkc
    intro w hw
    rw [List.all_eq_true]
    intro x hx
    rcases splitGo_sub c _ [] w hw x hx with hm | hm
    · simp at hm
    · exact (List.all_eq_true.mp h2) x hm
  have := C13_normKey_complete c k hkne (by rw [hstrip]; exact hkne) (by rw [hstrip]; exact hall)
    (by rw [hstrip, hcoll]; exact h4)
  rw [this, hstrip, hcoll]

/-- non-vacuity: with blanks = {U+0020, U+0009} and every character allowed in keys, `" GPL \t 2.0 "`
    normalises to `"GPL 2.0"`, which normalises to itself -/
example : normKey ⟨fun x => x == 32 || x == 9, fun _ => true, fun x => [x]⟩ [32, 71, 80, 76, 32, 9, 32, 50, 46, 48, 32]
    = some [71, 80, 76, 32, 50, 46, 48] := by decide

end LE
