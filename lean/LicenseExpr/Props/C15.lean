import LicenseExpr.Props.C16
import LicenseExpr.Model.Spec
/-!
# C15 — bundled SPDX and ScanCode tables load and recognise every name

Proved here: what the two loaders keep and how they map the fields, for *any* index of the format;
and that `indexOK` — the decidable instance hypothesis — implies the table is accepted. That
`indexOK` holds of the *shipped* index is established on every run by the compiled driver on the
JSON as Python loads it (the one hypothesis discharged by execution, see DESIGN.md), and the
recognition of every name of the shipped index is swept exhaustively by the check. The general
recognition theorem (any name of an `indexOK` index parses to its entry's symbol) is the composition
`C16_iter` + `C17_leftmost_longest` + `C02_tree`; its statement is `C15_general_statement`.
-/
namespace LE

/-- **C15 (ScanCode loader)**: exactly the non-deprecated records, key = `license_key`, no aliases, the flag of the index -/
theorem C15_scancode_filter (idx : List IndexRec) (k : Str) (al : List Str) (x : Bool) :
    (k, al, x) ∈ scancodeEntries idx ↔ ∃ r ∈ idx, r.deprecated = false ∧ k = r.licenseKey ∧ al = [] ∧ x = r.exc := by
  unfold scancodeEntries
  simp only [List.mem_map, List.mem_filter, Prod.mk.injEq]
  constructor
  · rintro ⟨r, ⟨hr, hd⟩, rfl, rfl, rfl⟩
    exact ⟨r, hr, by simpa using hd, rfl, rfl, rfl⟩
  · rintro ⟨r, hr, hd, rfl, rfl, rfl⟩
    exact ⟨r, ⟨hr, by simp [hd]⟩, rfl, rfl, rfl⟩

/-- **C15 (SPDX loader)**: exactly the non-deprecated records that have an SPDX key; key = `spdx_license_key`,
    aliases = `other_spdx_license_keys`, the flag of the index -/
theorem C15_spdx_filter (idx : List IndexRec) (k : Str) (al : List Str) (x : Bool) :
    (k, al, x) ∈ spdxEntries idx ↔
      ∃ r ∈ idx, r.deprecated = false ∧ r.spdxKey ≠ [] ∧ k = r.spdxKey ∧ al = r.otherSpdx ∧ x = r.exc := by
  unfold spdxEntries
  simp only [List.mem_map, List.mem_filter, Prod.mk.injEq]
  constructor
  · rintro ⟨r, ⟨hr, hd⟩, rfl, rfl, rfl⟩
    simp only [Bool.and_eq_true, Bool.not_eq_true', List.isEmpty_eq_false_iff] at hd
    exact ⟨r, hr, hd.2, hd.1, rfl, rfl, rfl⟩
  · rintro ⟨r, hr, hd, hs, rfl, rfl, rfl⟩
    refine ⟨r, ⟨hr, ?_⟩, rfl, rfl, rfl⟩
    simp [hd, hs]

/-- **C15 (deprecated, missing SPDX key)**: a key all of whose records are deprecated — or, for SPDX, that is
    no live record's SPDX key — is not a key of the table: it stays unknown -/
theorem C15_deprecated_unknown (idx : List IndexRec) (k : Str) (h : ∀ r ∈ idx, r.licenseKey = k → r.deprecated = true) :
    ∀ al x, (k, al, x) ∉ scancodeEntries idx := by
  intro al x hm
  obtain ⟨r, hr, hd, hk, _, _⟩ := (C15_scancode_filter idx k al x).mp hm
  have := h r hr hk.symm
  rw [hd] at this; cases this

theorem C15_spdx_unknown (idx : List IndexRec) (k : Str) (h : ∀ r ∈ idx, r.spdxKey = k → r.deprecated = true ∨ r.spdxKey = []) :
    ∀ al x, (k, al, x) ∉ spdxEntries idx := by
  intro al x hm
  obtain ⟨r, hr, hd, hs, hk, _, _⟩ := (C15_spdx_filter idx k al x).mp hm
  rcases h r hr hk.symm with h1 | h1
  · rw [hd] at h1; cases h1
  · exact hs h1

/-- an index that passes `indexOK` builds: `Licensing()` does not refuse its table -/
theorem C15_indexOK_builds (c : Cls) (T : Table) (h : indexOK c T = true) : tableRefused c T = false := by
  unfold indexOK at h
  simp only [Bool.and_eq_true, Bool.not_eq_true'] at h
  exact h.1

/-- the full general statement (not proved here): every name of every entry of an `indexOK` table,
    in any letter case, parses to that entry's symbol -/
def C15_general_statement : Prop :=
  ∀ (c : Cls) (T : Table), indexOK c T = true → ∀ e ∈ T, ∀ n ∈ entryNames c e, ∀ (spelling : Str),
    wordsOf c spelling = wordsOf c n →
    parseFull c T false false false spelling = .ok (.atom (.lic ⟨e.key, e.exc⟩))

end LE
