import LicenseExpr.Props.C16
import LicenseExpr.Props.C04
import LicenseExpr.Model.Spec
/-!
# C15 — bundled SPDX and ScanCode tables load and recognise every name

Proved here: what the two loaders keep and how they map the fields, for *any* index of the format;
and that `indexOK` — the decidable instance hypothesis — implies the table is accepted. That
`indexOK` holds of the *shipped* index is established on every run by the compiled driver on the
JSON as Python loads it (the one hypothesis discharged by execution, see DESIGN.md), and the
recognition of every name of the shipped index is swept exhaustively by the check. The general
recognition theorem (`C15_general`: any stored name of an `indexOK` table, in any letter case and
spacing, parses to its entry's license and renders as the canonical key) is `C04_alone`.
-/
namespace LE

/-- **C15 (ScanCode loader)**: exactly the non-deprecated records, key = `license_key`, no aliases, the flag of the index -/
theorem C15_scancode_filter (idx : List IndexRec) (k : Str) (al : List Str) (x : Bool) :
    (k, al, x) ∈ scancodeEntries idx ↔ ∃ r ∈ idx, r.deprecated = false ∧ k = r.licenseKey ∧ al = [] ∧ x = r.exc := by
  unfold scancodeEntries
  simp only [List.mem_map, List.mem_filter, Prod.mk.injEq]
  constructor
  · rintro ⟨r, ⟨hr, hd⟩, rfl, rfl, rfl⟩
    exact ⟨r, hr, by simpa using hd, rfl, rfl, rfl⟩
  · rintro ⟨r, hr, hd, rfl, rfl, rfl⟩
    exact ⟨r, ⟨hr, by simp [hd]⟩, rfl, rfl, rfl⟩

/-- **C15 (SPDX loader)**: exactly the non-deprecated records that have an SPDX key; key = `spdx_license_key`,
    aliases = `other_spdx_license_keys`, the flag of the index -/
theorem C15_spdx_filter (idx : List IndexRec) (k : Str) (al : List Str) (x : Bool) :
    (k, al, x) ∈ spdxEntries idx ↔
      ∃ r ∈ idx, r.deprecated = false ∧ r.spdxKey ≠ [] ∧ k = r.spdxKey ∧ al = r.otherSpdx ∧ x = r.exc := by
  unfold spdxEntries
  simp only [List.mem_map, List.mem_filter, Prod.mk.injEq]
  constructor
  · rintro ⟨r, ⟨hr, hd⟩, rfl, rfl, rfl⟩
    simp only [Bool.and_eq_true, Bool.not_eq_true', List.isEmpty_eq_false_iff] at hd
    exact ⟨r, hr, hd.2, hd.1, rfl, rfl, rfl⟩
  · rintro ⟨r, hr, hd, hs, rfl, rfl, rfl⟩
    refine ⟨r, ⟨hr, ?_⟩, rfl, rfl, rfl⟩
    simp [hd, hs]

/-- **C15 (deprecated, missing SPDX key)**: a key all of whose records are deprecated — or, for SPDX, that is
    no live record's SPDX key — is not a key of the table: it stays unknown -/
theorem C15_deprecated_unknown (idx : List IndexRec) (k : Str) (h : ∀ r ∈ idx, r.licenseKey = k → r.deprecated = true) :
    ∀ al x, (k, al, x) ∉ scancodeEntries idx := by
  intro al x hm
  obtain ⟨r, hr, hd, hk, _, _⟩ := (C15_scancode_filter idx k al x).mp hm
  have := h r hr hk.symm
  rw [hd] at this; cases this

theorem C15_spdx_unknown (idx : List IndexRec) (k : Str) (h : ∀ r ∈ idx, r.spdxKey = k → r.deprecated = true ∨ r.spdxKey = []) :
    ∀ al x, (k, al, x) ∉ spdxEntries idx := by
  intro al x hm
  obtain ⟨r, hr, hd, hs, hk, _, _⟩ := (C15_spdx_filter idx k al x).mp hm
  rcases h r hr hk.symm with h1 | h1
  · rw [hd] at h1; cases h1
  · exact hs h1

/-- an index that passes `indexOK` builds: `Licensing()` does not refuse its table -/
theorem C15_indexOK_builds (c : Cls) (T : Table) (h : indexOK c T = true) : tableRefused c T = false := by
  unfold indexOK at h
  simp only [Bool.and_eq_true, Bool.not_eq_true'] at h
  exact h.1.1

/-- **C15 (any index of the same format)**: for every table that passes `indexOK` — in particular every
    table one of the two loaders builds from an index that passes it — every stored name of every
    entry (its key; each alias with its blanks collapsed), written in any letter case and with any
    blanks between its words, parses to that entry's license with the flag of the index, and renders
    as the canonical key. -/
theorem C15_general (c : Cls) (hc : ClsOK c) (T : Table) (hok : indexOK c T = true) (e : Entry) (he : e ∈ T)
    (n : Str) (hn : (n, symVal e) ∈ entryAdds c e) (hw : wordsOf c n ≠ []) (spelling : Str)
    (hs : wordsOf c spelling = wordsOf c n) :
    parseFull c T false false false spelling = .ok (.atom (.lic ⟨e.key, e.exc⟩)) ∧
    renderStr (.atom (.lic ⟨e.key, e.exc⟩)) = e.key := by
  have hu : namesUniqueB c T = true := by
    unfold indexOK at hok
    simp only [Bool.and_eq_true] at hok
    exact hok.2
  exact C04_alone c hc T hu e he n hn hw spelling hs

/-- … and validates without errors: non-strictly always, strictly when the entry is not an exception. -/
theorem C15_general_validates (c : Cls) (hc : ClsOK c) (T : Table) (hok : indexOK c T = true) (e : Entry) (he : e ∈ T)
    (n : Str) (hn : (n, symVal e) ∈ entryAdds c e) (hw : wordsOf c n ≠ []) (spelling : Str)
    (hs : wordsOf c spelling = wordsOf c n) (strict : Bool) (hstrict : strict = true → e.exc = false) :
    validateFull c T strict spelling = .info ⟨some e.key, 0, []⟩ := by
  have hu : namesUniqueB c T = true := by
    unfold indexOK at hok
    simp only [Bool.and_eq_true] at hok
    exact hok.2
  exact C04_alone_validates c hc T hu e he n hn hw spelling hs strict hstrict

end LE
