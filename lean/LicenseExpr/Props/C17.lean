import LicenseExpr.Lemmas.Sweep
import LicenseExpr.Lemmas.SweepDom
import LicenseExpr.Lemmas.Lex
import LicenseExpr.Lemmas.Cover
/-!
# C17 — token selection yields disjoint, exactly positioned tokens covering the text

All theorems about the overlap sweep are proved over the interval predicates of
`Gen/Intervals.lean`, which are regenerated from the Python source on every run: a change of
`is_after`, `__contains__`, `overlap`, `__len__` or the sort key re-checks these proofs.
-/
namespace LE
variable {V : Type}

/-- **C17 (ordered, disjoint)**: whatever `filter_overlapping` is given, what it keeps is pairwise
    non-overlapping and in text order. -/
theorem C17_ordered_disjoint (l : List (Tok V)) : (filterOverlapping l).Pairwise (fun a b => a.e < b.s) :=
  sweep_disjoint _ (sortToks_sorted l)

/-- it invents nothing: every kept token is one of the given tokens -/
theorem C17_kept_sub (l : List (Tok V)) : ∀ x ∈ filterOverlapping l, x ∈ l :=
  fun x hx => (sortToks_mem l x).mp (sweep_sub _ x hx)

/-- **C17 (leftmost of the longest)**: a token that is longer than every other token, or as long as
    some but starting before them, is always kept — also inside chains of three or more overlaps. -/
theorem C17_leftmost_longest (l : List (Tok V)) (m : Tok V) (hm : m ∈ l)
    (h : ∀ x ∈ l, x = m ∨ x.ilen < m.ilen ∨ (x.ilen ≤ m.ilen ∧ m.s < x.s)) : m ∈ filterOverlapping l :=
  sweep_keeps_longest _ m ((sortToks_mem l m).mpr hm) (sortToks_sorted l)
    (fun x hx => h x ((sortToks_mem l x).mp hx))

/-- **C17 (isolated)**: a match that touches no other match is kept. -/
theorem C17_isolated (l : List (Tok V)) (m : Tok V) (hm : m ∈ l) (hwf : m.s ≤ m.e)
    (h : ∀ x ∈ l, x = m ∨ (x.s ≤ x.e ∧ (m.e < x.s ∨ x.e < m.s))) : m ∈ filterOverlapping l :=
  sweep_keeps_isolated _ m ((sortToks_mem l m).mpr hm) (sortToks_sorted l) hwf
    (fun x hx => h x ((sortToks_mem l x).mp hx))

/-- **C17 (a match that dominates what it touches)**: if every other match is disjoint from `m`, or
    strictly shorter than `m`, or no longer than `m` and starting to its right, then `m` is kept and
    every other match that overlaps `m` is dropped. "Of two matches that overlap only each other the
    longer (the earlier on a tie) is kept" is the case where exactly one match touches `m`; chains of
    three or more are covered as long as `m` beats each neighbour. -/
theorem C17_pair (l : List (Tok V)) (m : Tok V) (hm : m ∈ l) (hwf : m.s ≤ m.e)
    (h : ∀ x ∈ l, x = m ∨ (x.s ≤ x.e ∧ (m.e < x.s ∨ x.e < m.s)) ∨ x.ilen < m.ilen ∨ (x.ilen ≤ m.ilen ∧ m.s < x.s)) :
    m ∈ filterOverlapping l ∧
    ∀ o ∈ l, o ≠ m → ¬ (m.e < o.s ∨ o.e < m.s) → o ∉ filterOverlapping l := by
  have hkept : m ∈ filterOverlapping l :=
    sweep_keeps_dom2 _ m ((sortToks_mem l m).mpr hm) (sortToks_sorted l) hwf (fun x hx => h x ((sortToks_mem l x).mp hx))
  refine ⟨hkept, ?_⟩
  intro o _ hne hov ho
  have hp := C17_ordered_disjoint l
  -- two kept tokens are equal or disjoint
  have : ∀ (L : List (Tok V)), L.Pairwise (fun a b => a.e < b.s) → ∀ a ∈ L, ∀ b ∈ L, a = b ∨ a.e < b.s ∨ b.e < a.s := by
    intro L hL
    induction L with
    | nil => intro a ha; simp at ha
    | cons x xs ih =>
      rw [List.pairwise_cons] at hL
      intro a ha b hb
      rcases List.mem_cons.mp ha with rfl | ha' <;> rcases List.mem_cons.mp hb with rfl | hb'
      · exact Or.inl rfl
      · exact Or.inr (Or.inl (hL.1 b hb'))
      · exact Or.inr (Or.inr (hL.1 a ha'))
      · exact ih hL.2 a ha' b hb'
  rcases this _ hp m hkept o ho with h1 | h1 | h1
  · exact hne h1.symm
  · exact hov (Or.inl h1)
  · exact hov (Or.inr h1)

/-- the kept half as it was stated before (`m` at least as long as everything): a special case -/
theorem C17_pair_partial (l : List (Tok V)) (m : Tok V) (hm : m ∈ l)
    (h : ∀ x ∈ l, x = m ∨ x.ilen < m.ilen ∨ (x.ilen ≤ m.ilen ∧ m.s < x.s)) : m ∈ filterOverlapping l :=
  C17_leftmost_longest l m hm h

/-- **C17 (slice)**: every piece of the lexer is exactly the slice of the text at its start;
    the pieces concatenate back to the text (nothing lost, nothing duplicated). -/
theorem C17_slice (c : Cls) (s : Str) : ∀ p ∈ pieces c s, (s.drop p.start).take p.text.length = p.text :=
  pieces_slices c s

theorem C17_lossless (c : Cls) (s : Str) : ((pieces c s).map (·.text)).flatten = s :=
  pieces_concat c s

/-- **C17 (cover, boundaries, order)**: for every automaton and every text, the tokens of
    `Trie.tokenize` are in text order and pairwise disjoint, each starts at the start of a word and
    ends at the end of a word, and every word (non-blank piece) of the text lies inside one of them —
    inside exactly one, since they are disjoint. -/
theorem C17_cover (c : Cls) (t : Trie V) (text : Str) :
    (t.tokenize c text).Pairwise (fun a b => a.e < b.s) ∧
    (∀ k ∈ t.tokenize c text, ∃ p ∈ wordPieces c text, ∃ q ∈ wordPieces c text,
        k.s = p.start ∧ k.e = q.stop ∧ p.start ≤ q.start) ∧
    (∀ p ∈ wordPieces c text, ∃ k ∈ t.tokenize c text, k.s ≤ p.start ∧ p.stop ≤ k.e) :=
  kept_plus_uncovered_ok text (wordPieces c text) (wordPieces_ok c text) _
    (C17_ordered_disjoint _)
    (fun k hk => iter_aligned c t text true k (C17_kept_sub _ k hk))

theorem tok_pairwise_cases (l : List (Tok V)) (h : l.Pairwise (fun a b => a.e < b.s)) (a b : Tok V)
    (ha : a ∈ l) (hb : b ∈ l) : a = b ∨ a.e < b.s ∨ b.e < a.s := by
  induction l with
  | nil => simp at ha
  | cons x xs ih =>
    rw [List.pairwise_cons] at h
    rcases List.mem_cons.mp ha with rfl | ha' <;> rcases List.mem_cons.mp hb with rfl | hb'
    · exact Or.inl rfl
    · exact Or.inr (Or.inl (h.1 b hb'))
    · exact Or.inr (Or.inr (h.1 a ha'))
    · exact ih h.2 ha' hb'

/-- no word is inside two tokens -/
theorem C17_once (c : Cls) (t : Trie V) (text : Str) (p : Piece) (k₁ k₂ : Tok V)
    (h1 : k₁ ∈ t.tokenize c text) (h2 : k₂ ∈ t.tokenize c text) (hp : p.start ≤ p.stop)
    (c1 : k₁.s ≤ p.start ∧ p.stop ≤ k₁.e) (c2 : k₂.s ≤ p.start ∧ p.stop ≤ k₂.e) : k₁ = k₂ := by
  rcases tok_pairwise_cases _ (C17_cover c t text).1 k₁ k₂ h1 h2 with h | h | h
  · exact h
  · omega
  · omega

/-- an unmatched token of the scan is one word: it starts and ends with the same non-blank piece -/
theorem iterGo_unmatched_piece (c : Cls) (t : Trie V) (text : Str) (unm : Bool) (depth : Nat) :
    ∀ (ps seen : List Piece) (state : List Word) (k : Tok V), k ∈ iterGo c t text unm depth seen state ps → k.val = none →
      ∃ p ∈ ps, k.s = p.start ∧ k.e = p.stop := by
  intro ps
  induction ps with
  | nil => intro seen state k hk; simp [iterGo] at hk
  | cons p ps ih =>
    intro seen state k hk hv
    unfold iterGo at hk
    simp only at hk
    split at hk
    · rcases List.mem_append.mp hk with h | h
      · split at h
        · simp only [List.mem_singleton] at h; subst h; exact ⟨p, by simp, rfl, rfl⟩
        · simp at h
      · obtain ⟨q, hq, h1⟩ := ih _ _ k h hv
        exact ⟨q, List.mem_cons_of_mem _ hq, h1⟩
    · rcases List.mem_append.mp hk with h | h
      · split at h
        · simp only [List.mem_singleton] at h; subst h; exact ⟨p, by simp, rfl, rfl⟩
        · simp only [List.mem_filterMap, Option.map_eq_some_iff] at h
          obtain ⟨e, _, st, _, rfl⟩ := h
          simp at hv
      · obtain ⟨q, hq, h1⟩ := ih _ _ k h hv
        exact ⟨q, List.mem_cons_of_mem _ hq, h1⟩

/-- **C17 (the words of a dropped match reappear)**: a word of the text that no *kept match* covers is
    an unmatched token of its own in the result — exactly that word, from its start to its end. -/
theorem C17_reappear (c : Cls) (t : Trie V) (text : Str) (p : Piece) (hp : p ∈ wordPieces c text)
    (h : ∀ k ∈ filterOverlapping (t.iter c text true), k.val ≠ none → ¬ (k.s ≤ p.start ∧ p.start ≤ k.e)) :
    ∃ k ∈ t.tokenize c text, k.val = none ∧ k.s = p.start ∧ k.e = p.stop := by
  have hok := wordPieces_ok c text
  have hK := C17_ordered_disjoint (t.iter c text true)
  have hal : ∀ k ∈ filterOverlapping (t.iter c text true), Aligned (wordPieces c text) k :=
    fun k hk => iter_aligned c t text true k (C17_kept_sub _ k hk)
  have hKne : ∀ k ∈ filterOverlapping (t.iter c text true), k.s ≤ k.e := fun k hk => aligned_ne _ hok k (hal k hk)
  obtain ⟨_, sp2⟩ := uncovered_spec text (filterOverlapping (t.iter c text true)) (wordPieces c text) hK hKne hok.1 hok.2
    (fun _ _ _ _ => trivial)
  unfold Trie.tokenize addUncovered
  rcases sp2 p hp with ⟨k, hk, hcov⟩ | hu
  · -- a kept token covers the start of the word: it is unmatched, so it is that word
    have hv : k.val = none := by
      cases hkv : k.val with
      | none => rfl
      | some v => exact absurd hcov (h k hk (by rw [hkv]; simp))
    obtain ⟨q, hq, hs, he⟩ := iterGo_unmatched_piece c t text true _ _ _ _ k (C17_kept_sub _ k hk) hv
    have hqp : q = p := by
      rcases pairwise_trichotomy _ hok.1 q p hq hp with h1 | h1 | h1
      · exact h1
      · omega
      · have := hok.2 p hp; omega
    subst hqp
    exact ⟨k, (sortToks_mem _ k).mpr (List.mem_append_left _ hk), hv, hs, he⟩
  · exact ⟨_, (sortToks_mem _ _).mpr (List.mem_append_right _ hu), rfl, rfl, rfl⟩

/-- **C17 (pair, at the level of the text)**: let `m` be a match of the scan that dominates every token it
    touches (as in `C17_pair`) and `o` another match that overlaps `m`; let no third match touch `o`.
    Then `m` is a token of the result, `o` is not, and every word of `o` outside `m` reappears as an
    unmatched token of its own. -/
theorem C17_pair_words (c : Cls) (t : Trie V) (text : Str) (m o : Tok V)
    (hm : m ∈ t.iter c text true) (ho : o ∈ t.iter c text true) (hne : o ≠ m)
    (hov : ¬ (m.e < o.s ∨ o.e < m.s))
    (hdom : ∀ x ∈ t.iter c text true, x = m ∨ (x.s ≤ x.e ∧ (m.e < x.s ∨ x.e < m.s)) ∨ x.ilen < m.ilen ∨ (x.ilen ≤ m.ilen ∧ m.s < x.s))
    (honly : ∀ x ∈ t.iter c text true, x.val ≠ none → x = m ∨ x = o ∨ (o.e < x.s ∨ x.e < o.s))
    (p : Piece) (hp : p ∈ wordPieces c text) (hin : o.s ≤ p.start ∧ p.stop ≤ o.e) (hout : m.e < p.start ∨ p.stop < m.s) :
    m ∈ t.tokenize c text ∧ o ∉ filterOverlapping (t.iter c text true) ∧
    ∃ k ∈ t.tokenize c text, k.val = none ∧ k.s = p.start ∧ k.e = p.stop := by
  have hok := wordPieces_ok c text
  have hmwf : m.s ≤ m.e := aligned_ne _ hok m (iter_aligned c t text true m hm)
  obtain ⟨hkept, hdrop⟩ := C17_pair (t.iter c text true) m hm hmwf hdom
  have hod := hdrop o ho hne hov
  refine ⟨?_, hod, ?_⟩
  · unfold Trie.tokenize addUncovered
    exact (sortToks_mem _ m).mpr (List.mem_append_left _ hkept)
  · apply C17_reappear c t text p hp
    intro k hk hkv hcov
    have hpw := hok.2 p hp
    rcases honly k (C17_kept_sub _ k hk) hkv with rfl | rfl | h1
    · omega
    · exact hod hk
    · omega

/-- the sweep as it was before the repair (after discarding the current token the next one was skipped):
    kept as an executable definition to show that the repair is needed -/
def sweepOld : Nat → List (Tok V) → List (Tok V)
  | 0, l => l
  | _, [] => []
  | fuel+1, c :: rest =>
    let r := absorbTok c rest
    if r.1 then c :: sweepOld fuel r.2
    else match r.2 with
      | n :: rest' => n :: sweepOld fuel rest'
      | [] => []

/-- a chain of three overlapping matches: the old sweep keeps two overlapping tokens -/
example : sweepOld 5 [(⟨0, 2, [], some 1⟩ : Tok Nat), ⟨2, 5, [], some 2⟩, ⟨5, 9, [], some 3⟩]
    = [⟨2, 5, [], some 2⟩, ⟨5, 9, [], some 3⟩] := by decide

/-- non-vacuity: hypotheses of `C17_leftmost_longest` hold for the longest token of that chain -/
example : ∀ x ∈ [(⟨0, 2, [], some 1⟩ : Tok Nat), ⟨2, 5, [], some 2⟩, ⟨5, 9, [], some 3⟩],
    x = ⟨5, 9, [], some 3⟩ ∨ x.ilen < (⟨5, 9, [], some 3⟩ : Tok Nat).ilen ∨ (x.ilen ≤ (⟨5, 9, [], some 3⟩ : Tok Nat).ilen ∧ (⟨5, 9, [], some 3⟩ : Tok Nat).s < x.s) := by
  decide

/-- non-vacuity of `C17_pair`: two matches that overlap only each other (words 0-2 and 2-3) beside an isolated
    one (5-6) meet the hypotheses of the theorem -/
example : let l := [(⟨0, 2, [], some 1⟩ : Tok Nat), ⟨2, 3, [], some 2⟩, ⟨5, 6, [], some 3⟩]
    (∀ x ∈ l, x = ⟨0, 2, [], some 1⟩ ∨ (x.s ≤ x.e ∧ ((⟨0, 2, [], some 1⟩ : Tok Nat).e < x.s ∨ x.e < (⟨0, 2, [], some 1⟩ : Tok Nat).s)) ∨
      x.ilen < (⟨0, 2, [], some 1⟩ : Tok Nat).ilen ∨ (x.ilen ≤ (⟨0, 2, [], some 1⟩ : Tok Nat).ilen ∧ (⟨0, 2, [], some 1⟩ : Tok Nat).s < x.s)) ∧
    ¬ ((⟨0, 2, [], some 1⟩ : Tok Nat).e < (⟨2, 3, [], some 2⟩ : Tok Nat).s ∨ (⟨2, 3, [], some 2⟩ : Tok Nat).e < (⟨0, 2, [], some 1⟩ : Tok Nat).s) := by
  decide

end LE
