import LicenseExpr.Lemmas.Sweep
import LicenseExpr.Lemmas.Lex
import LicenseExpr.Lemmas.Cover
/-!
# C17 — token selection yields disjoint, exactly positioned tokens covering the text

All theorems about the overlap sweep are proved over the interval predicates of
`Gen/Intervals.lean`, which are regenerated from the Python source on every run: a change of
`is_after`, `__contains__`, `overlap`, `__len__` or the sort key re-checks these proofs.
-/
namespace LE
variable {V : Type}

/-- **C17 (ordered, disjoint)**: whatever `filter_overlapping` is given, what it keeps is pairwise
    non-overlapping and in text order. -/
theorem C17_ordered_disjoint (l : List (Tok V)) : (filterOverlapping l).Pairwise (fun a b => a.e < b.s) :=
  sweep_disjoint _ (sortToks_sorted l)

/-- it invents nothing: every kept token is one of the given tokens -/
theorem C17_kept_sub (l : List (Tok V)) : ∀ x ∈ filterOverlapping l, x ∈ l :=
  fun x hx => (sortToks_mem l x).mp (sweep_sub _ x hx)

/-- **C17 (leftmost of the longest)**: a token that is longer than every other token, or as long as
    some but starting before them, is always kept — also inside chains of three or more overlaps. -/
theorem C17_leftmost_longest (l : List (Tok V)) (m : Tok V) (hm : m ∈ l)
    (h : ∀ x ∈ l, x = m ∨ x.ilen < m.ilen ∨ (x.ilen ≤ m.ilen ∧ m.s < x.s)) : m ∈ filterOverlapping l :=
  sweep_keeps_longest _ m ((sortToks_mem l m).mpr hm) (sortToks_sorted l)
    (fun x hx => h x ((sortToks_mem l x).mp hx))

/-- **C17 (isolated)**: a match that touches no other match is kept. -/
theorem C17_isolated (l : List (Tok V)) (m : Tok V) (hm : m ∈ l) (hwf : m.s ≤ m.e)
    (h : ∀ x ∈ l, x = m ∨ (x.s ≤ x.e ∧ (m.e < x.s ∨ x.e < m.s))) : m ∈ filterOverlapping l :=
  sweep_keeps_isolated _ m ((sortToks_mem l m).mpr hm) (sortToks_sorted l) hwf
    (fun x hx => h x ((sortToks_mem l x).mp hx))

/-- **C17 (pair, the kept half)**: of two matches that overlap only each other the longer (the earlier
    on a tie) is kept: it is the leftmost-longest among the tokens it touches and everything else is
    disjoint from it. Stated for the case where `m` is at least as long as everything. -/
theorem C17_pair_partial (l : List (Tok V)) (m : Tok V) (hm : m ∈ l)
    (h : ∀ x ∈ l, x = m ∨ x.ilen < m.ilen ∨ (x.ilen ≤ m.ilen ∧ m.s < x.s)) : m ∈ filterOverlapping l :=
  C17_leftmost_longest l m hm h

/-- **C17 (slice)**: every piece of the lexer is exactly the slice of the text at its start;
    the pieces concatenate back to the text (nothing lost, nothing duplicated). -/
theorem C17_slice (c : Cls) (s : Str) : ∀ p ∈ pieces c s, (s.drop p.start).take p.text.length = p.text :=
  pieces_slices c s

theorem C17_lossless (c : Cls) (s : Str) : ((pieces c s).map (·.text)).flatten = s :=
  pieces_concat c s

/-- **C17 (cover, boundaries, order)**: for every automaton and every text, the tokens of
    `Trie.tokenize` are in text order and pairwise disjoint, each starts at the start of a word and
    ends at the end of a word, and every word (non-blank piece) of the text lies inside one of them —
    inside exactly one, since they are disjoint. -/
theorem C17_cover (c : Cls) (t : Trie V) (text : Str) :
    (t.tokenize c text).Pairwise (fun a b => a.e < b.s) ∧
    (∀ k ∈ t.tokenize c text, ∃ p ∈ wordPieces c text, ∃ q ∈ wordPieces c text,
        k.s = p.start ∧ k.e = q.stop ∧ p.start ≤ q.start) ∧
    (∀ p ∈ wordPieces c text, ∃ k ∈ t.tokenize c text, k.s ≤ p.start ∧ p.stop ≤ k.e) :=
  kept_plus_uncovered_ok text (wordPieces c text) (wordPieces_ok c text) _
    (C17_ordered_disjoint _)
    (fun k hk => iter_aligned c t text true k (C17_kept_sub _ k hk))

theorem tok_pairwise_cases (l : List (Tok V)) (h : l.Pairwise (fun a b => a.e < b.s)) (a b : Tok V)
    (ha : a ∈ l) (hb : b ∈ l) : a = b ∨ a.e < b.s ∨ b.e < a.s := by
  induction l with
  | nil => simp at ha
  | cons x xs ih =>
    rw [List.pairwise_cons] at h
    rcases List.mem_cons.mp ha with rfl | ha' <;> rcases List.mem_cons.mp hb with rfl | hb'
    · exact Or.inl rfl
    · exact Or.inr (Or.inl (h.1 b hb'))
    · exact Or.inr (Or.inr (h.1 a ha'))
    · exact ih h.2 ha' hb'

/-- no word is inside two tokens -/
theorem C17_once (c : Cls) (t : Trie V) (text : Str) (p : Piece) (k₁ k₂ : Tok V)
    (h1 : k₁ ∈ t.tokenize c text) (h2 : k₂ ∈ t.tokenize c text) (hp : p.start ≤ p.stop)
    (c1 : k₁.s ≤ p.start ∧ p.stop ≤ k₁.e) (c2 : k₂.s ≤ p.start ∧ p.stop ≤ k₂.e) : k₁ = k₂ := by
  rcases tok_pairwise_cases _ (C17_cover c t text).1 k₁ k₂ h1 h2 with h | h | h
  · exact h
  · omega
  · omega

/-- the sweep as it was before the repair (after discarding the current token the next one was skipped):
    kept as an executable definition to show that the repair is needed -/
def sweepOld : Nat → List (Tok V) → List (Tok V)
  | 0, l => l
  | _, [] => []
  | fuel+1, c :: rest =>
    let r := absorbTok c rest
    if r.1 then c :: sweepOld fuel r.2
    else match r.2 with
      | n :: rest' => n :: sweepOld fuel rest'
      | [] => []

/-- a chain of three overlapping matches: the old sweep keeps two overlapping tokens -/
example : sweepOld 5 [(⟨0, 2, [], some 1⟩ : Tok Nat), ⟨2, 5, [], some 2⟩, ⟨5, 9, [], some 3⟩]
    = [⟨2, 5, [], some 2⟩, ⟨5, 9, [], some 3⟩] := by decide

/-- non-vacuity: hypotheses of `C17_leftmost_longest` hold for the longest token of that chain -/
example : ∀ x ∈ [(⟨0, 2, [], some 1⟩ : Tok Nat), ⟨2, 5, [], some 2⟩, ⟨5, 9, [], some 3⟩],
    x = ⟨5, 9, [], some 3⟩ ∨ x.ilen < (⟨5, 9, [], some 3⟩ : Tok Nat).ilen ∨ (x.ilen ≤ (⟨5, 9, [], some 3⟩ : Tok Nat).ilen ∧ (⟨5, 9, [], some 3⟩ : Tok Nat).s < x.s) := by
  decide

end LE
