import LicenseExpr.Lemmas.Table
/-!
# C14 — a Licensing accepts exactly the unambiguous symbol tables, in any form
-/
namespace LE

/-- **C14 (exactly)**: the table is refused (ValueError) exactly when it is ambiguous: two entries with
    the same key ignoring case, or a name — an alias ignoring case and spacing, or a key — bound to two
    different keys, or an operator word as alias or key. The left side is the entry-by-entry bookkeeping
    of `validate_symbols` with its overwritten dictionaries; the right side does not mention an order. -/
theorem C14_iff (c : Cls) (T : Table) : tableRefused c T = ambiguousB c T :=
  tableRefused_eq_ambiguous c T

theorem nodupB_iff (l : List Str) : nodupB l = true ↔ l.Nodup := by
  induction l with
  | nil => simp [nodupB]
  | cons x xs ih => simp [nodupB, ih, List.nodup_cons]

/-- **C14 (entry order)**: the verdict does not depend on the order of the entries. -/
theorem C14_perm (c : Cls) (T T' : Table) (hp : T.Perm T') : tableRefused c T = tableRefused c T' := by
  rw [C14_iff, C14_iff]
  unfold ambiguousB
  have h1 : nodupB (T.map (entryKeyl c)) = nodupB (T'.map (entryKeyl c)) := by
    rw [Bool.eq_iff_iff, nodupB_iff, nodupB_iff]
    exact (hp.map _).nodup_iff
  have hb : (allBindings c T).Perm (allBindings c T') := hp.flatMap_right _
  have h2 : clashB (allBindings c T) = clashB (allBindings c T') := by
    rw [Bool.eq_iff_iff, clashB_iff, clashB_iff]
    unfold Clash
    constructor <;> rintro ⟨a, k, k', m1, m2, hne⟩
    · exact ⟨a, k, k', hb.mem_iff.mp m1, hb.mem_iff.mp m2, hne⟩
    · exact ⟨a, k, k', hb.mem_iff.mpr m1, hb.mem_iff.mpr m2, hne⟩
  have h3 : (allBindings c T).any (fun b => keywordStrings.contains b.1) = (allBindings c T').any (fun b => keywordStrings.contains b.1) := by
    rw [Bool.eq_iff_iff]; simp only [List.any_eq_true]
    constructor <;> rintro ⟨x, hx, h⟩
    · exact ⟨x, hb.mem_iff.mp hx, h⟩
    · exact ⟨x, hb.mem_iff.mpr hx, h⟩
  have h4 : T.any (fun e => keywordStrings.contains (entryKeyl c e)) = T'.any (fun e => keywordStrings.contains (entryKeyl c e)) := by
    rw [Bool.eq_iff_iff]; simp only [List.any_eq_true]
    constructor <;> rintro ⟨x, hx, h⟩
    · exact ⟨x, hp.mem_iff.mp hx, h⟩
    · exact ⟨x, hp.mem_iff.mpr hx, h⟩
  rw [h1, h2, h3, h4]

/-- an alias equal to the key of another license is a clash of bindings (the key is bound to itself) -/
theorem C14_alias_is_key (c : Cls) (T : Table) (e f : Entry) (he : e ∈ T) (hf : f ∈ T)
    (a : Str) (ha : (a, entryKeyl c e) ∈ entryBindings c e) (hk : a = entryKeyl c f) (hne : entryKeyl c e ≠ entryKeyl c f) :
    tableRefused c T = true := by
  rw [C14_iff]
  unfold ambiguousB
  have : clashB (allBindings c T) = true := by
    rw [clashB_iff]
    refine ⟨a, entryKeyl c e, entryKeyl c f, ?_, ?_, hne⟩
    · exact List.mem_flatMap.mpr ⟨e, he, ha⟩
    · refine List.mem_flatMap.mpr ⟨f, hf, ?_⟩
      subst hk
      simp [entryBindings, entryKeyl]
  simp [this]

end LE
