import LicenseExpr.Lemmas.Sched
/-!
# C20 — a shared Licensing is safe to use from several threads, first use included

Protocol level, line granularity: a thread's step is one of "read `self.advanced_tokenizer`",
"create a Trie in a local", "one `add`", "`make_automaton()`", "assign `self.advanced_tokenizer`",
"tokenize with the Trie it holds". A schedule is any list of thread ids; any number of threads.
What this cannot exhibit is named in DESIGN.md (bytecode-level preemption, free-threaded builds,
memory effects below the GIL): the theorem is about the protocol, the scheduler-driven
correspondence run ties the protocol to the real threads.
-/
namespace LE

/-- **C20**: for every table size `n`, every number of threads and every schedule, every thread that
    finishes has tokenized with a complete, finalised automaton built from the whole table — the one
    it gets when it runs alone. -/
theorem C20_safe (n : Nat) (sched : List Nat) (i : Nat) (b : SC.Build) (h : (SC.run n sched).pc i = .done b) :
    b.complete n := by
  have hinv : SC.Inv n (SC.run n sched) := SC.inv_foldl n sched SC.init (SC.inv_init n)
  have := hinv.good i
  rw [h] at this
  exact this

/-- the shared reference is never observable half-done: it is `None` or a complete automaton -/
theorem C20_published_complete (n : Nat) (sched : List Nat) (r : Nat) (h : (SC.run n sched).shared = some r) :
    ((SC.run n sched).heap r).complete n :=
  ((SC.inv_foldl n sched SC.init (SC.inv_init n)).shared_ok r h).2

/-- non-vacuity: two threads, table of 2 names, an interleaved schedule finishes both -/
example : (SC.run 2 [0,1,0,1,0,1,0,1,0,1,0,1,0,1]).pc 0 = .done ⟨2, true⟩ ∧
          (SC.run 2 [0,1,0,1,0,1,0,1,0,1,0,1,0,1]).pc 1 = .done ⟨2, true⟩ := by decide

/-- the protocol before the repair races: thread 1 tokenizes with a Trie that has no name and no automaton -/
example : (SC.runOld 2 [0, 0, 1, 1, 1]).pc 1 = .done ⟨0, false⟩ := by decide

end LE
