import LicenseExpr.Props.C04
import LicenseExpr.Lemmas.Tiles
import LicenseExpr.Lemmas.Agree
/-!
# C18 — simple and default tokenizers agree on space-free symbols

Proved here, in full (`C18_agree`): with keys that contain no whitespace and no aliases every stored
name — keys and keywords alike — is one word. Then the automaton reports at every piece exactly what
is stored under that piece's folded word, no two reports overlap, the overlap sweep keeps everything
and nothing is left uncovered (`tokenize_oneWord`); what the automaton stores under a word is what
the simple tokenizer looks up (last entry with that lower-cased key, else the operator word:
`buildTrie_dict`, `oneTok_dict`); and since no two plain words are adjacent, merging unknown words is
the identity on both sides (`mergeUnknown_isolated`). The two tokenizers therefore hand the same
triples, or the same error, to the shared later stages. The two earlier partial lemmas are kept.
-/
namespace LE
variable {V : Type}

/-- with one-word names, a reported match covers exactly the piece at which it is reported -/
theorem C18_single_word_matches_partial (c : Cls) (t : Trie V) (text : Str) (hone : ∀ e ∈ t.entries, e.words.length = 1)
    (seen ps : List Piece) (p : Piece) (tok : Tok V)
    (h : tok ∈ ((tails (wordsOfSeen c (p :: seen))).filterMap (fun suf => t.outputAt suf)).filterMap (fun e =>
      (startBack (p :: seen) e.words.length).map (fun st => (⟨st, p.stop, slice text st p.stop, some e.val⟩ : Tok V)))) :
    tok.s = p.start ∧ tok.e = p.stop := by
  simp only [List.mem_filterMap] at h
  obtain ⟨e, ⟨q, _, ho⟩, hst⟩ := h
  obtain ⟨_, hm, _⟩ := AC.outputAt_node t q e ho
  rw [hone e hm] at hst
  simp [startBack] at hst
  subst hst
  exact ⟨rfl, rfl⟩

/-- the simple tokenizer makes one token per non-blank piece, at the piece's position -/
theorem C18_simple_tokens_partial (c : Cls) (T : Table) (ps : List Piece) (out : List STok)
    (h : simpleTokens c T ps = .ok out) : Tiles ps out ∧ out.length ≤ ps.length :=
  ⟨simpleTokens_tiles c T ps out h, tiles_length (simpleTokens_tiles c T ps out h)⟩

/-- **C18 (tokens)**: for a table without aliases whose keys are single words (no whitespace), and any
    text in which no two plain words stand next to each other, the simple and the default tokenizer
    hand the same `(token, string, position)` triples — or the same error — to the parser, in strict
    and non-strict mode alike. `ClsOK` is what the model assumes of letter classes (keyword spellings
    fold to themselves, folding a word never yields a parenthesis). -/
theorem C18_tokens (c : Cls) (hc : ClsOK c) (T : Table) (hT : SpaceFreeT c T) (strict : Bool) (text : Str)
    (hadj : NoAdjacentPlain c text) : ltok c T true strict text = ltok c T false strict text :=
  ltok_agree c hc T hT strict text hadj

/-- **C18**: … hence parsing with the simple tokenizer has exactly the outcome of default parsing: the
    same tree, or an error of the same kind, code, token and position — for every flag combination. -/
theorem C18_agree (c : Cls) (hc : ClsOK c) (T : Table) (hT : SpaceFreeT c T) (strict validate : Bool) (text : Str)
    (hadj : NoAdjacentPlain c text) :
    parseFull c T true strict validate text = parseFull c T false strict validate text := by
  have h := C18_tokens c hc T hT strict text hadj
  unfold ltok at h
  unfold parseFull parseFullW
  rw [h]

/-- the premises are satisfiable: ASCII letter classes, a two-key table, a text with operators -/
def asciiCls : Cls :=
  ⟨fun x => x == 32 || x == 9 || x == 10, fun _ => true, fun x => if 65 ≤ x ∧ x ≤ 90 then [x + 32] else [x]⟩

theorem asciiCls_ok : ClsOK asciiCls where
  kw := by decide
  noParen := by
    intro x hx
    have h1 : x ≠ LPAR := by intro h; subst h; simp [kindOf] at hx
    have h2 : x ≠ RPAR := by intro h; subst h; simp [kindOf, LPAR, RPAR] at hx
    simp only [asciiCls, LPAR, RPAR] at *
    split <;> simp <;> omega
  parenNotSpace := by decide
  space := by decide
  upper := by decide

example : SpaceFreeT asciiCls [⟨[109, 105, 116], [], false⟩, ⟨[71, 80, 76], [], true⟩] := by
  intro e he
  simp only [List.mem_cons, List.not_mem_nil, or_false] at he
  rcases he with rfl | rfl <;> decide
/-- the premise on the text, decidably -/
def plainB (c : Cls) (p : Piece) : Bool := p.kind == .word && (operatorOf (c.fold p.text)).isNone

def noAdjB (c : Cls) : List Piece → Bool
  | p :: q :: rest => !(plainB c p && plainB c q) && noAdjB c (q :: rest)
  | _ => true

theorem noAdj_of_B (c : Cls) (text : Str) (h : noAdjB c (wordPieces c text) = true) : NoAdjacentPlain c text := by
  intro p q rest pre hw
  rw [hw] at h
  clear hw
  induction pre with
  | nil =>
    simp only [List.nil_append, noAdjB, Bool.and_eq_true, Bool.not_eq_true'] at h
    intro hb
    have hp : plainB c p = true := by simp [plainB, hb.1, hb.2.2.1]
    have hq : plainB c q = true := by simp [plainB, hb.2.1, hb.2.2.2]
    rw [hp, hq] at h; exact absurd h.1 (by simp)
  | cons a pre ih =>
    cases pre with
    | nil => simp only [List.cons_append, List.nil_append, noAdjB, Bool.and_eq_true] at h; exact ih (by simpa [noAdjB] using h.2)
    | cons b pre' => simp only [List.cons_append, noAdjB, Bool.and_eq_true] at h; exact ih (by simpa using h.2)

example : NoAdjacentPlain asciiCls [109, 105, 116, 32, 79, 82, 32, 40, 103, 112, 108, 41] :=
  noAdj_of_B _ _ (by decide)

end LE
