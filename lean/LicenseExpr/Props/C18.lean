import LicenseExpr.Props.C04
import LicenseExpr.Lemmas.Tiles
/-!
# C18 — simple and default tokenizers agree on space-free symbols

Proved here (partial, named so): what both tokenizers do with one-word names. With keys that contain
no whitespace and no aliases every stored name — keys and keywords alike — is one word. Then
(`C18_single_word_matches_partial`) every match the automaton reports stands on exactly one piece of
the text, the piece being scanned: no match spans two words, no two matches overlap, so the overlap
filter has nothing to decide and positions and strings are the piece's own — exactly the tokens the
simple tokenizer makes (`C18_simple_tokens_partial`: one token per non-blank piece, at its
position). The full statement — the two pipelines return the same outcome — is
`C18_agree_statement`; the remaining step (the look-ups by lower-cased key agree, and adjacent plain
words are excluded by the premise so merging is the identity on both sides) is covered by the
correspondence run, including exhaustively over all short token strings.
-/
namespace LE
variable {V : Type}

/-- with one-word names, a reported match covers exactly the piece at which it is reported -/
theorem C18_single_word_matches_partial (c : Cls) (t : Trie V) (text : Str) (hone : ∀ e ∈ t.entries, e.words.length = 1)
    (seen ps : List Piece) (p : Piece) (tok : Tok V)
    (h : tok ∈ ((tails (wordsOfSeen c (p :: seen))).filterMap (fun suf => t.outputAt suf)).filterMap (fun e =>
      (startBack (p :: seen) e.words.length).map (fun st => (⟨st, p.stop, slice text st p.stop, some e.val⟩ : Tok V)))) :
    tok.s = p.start ∧ tok.e = p.stop := by
  simp only [List.mem_filterMap] at h
  obtain ⟨e, ⟨q, _, ho⟩, hst⟩ := h
  obtain ⟨_, hm, _⟩ := AC.outputAt_node t q e ho
  rw [hone e hm] at hst
  simp [startBack] at hst
  subst hst
  exact ⟨rfl, rfl⟩

/-- the simple tokenizer makes one token per non-blank piece, at the piece's position -/
theorem C18_simple_tokens_partial (c : Cls) (T : Table) (ps : List Piece) (out : List STok)
    (h : simpleTokens c T ps = .ok out) : Tiles ps out ∧ out.length ≤ ps.length :=
  ⟨simpleTokens_tiles c T ps out h, tiles_length (simpleTokens_tiles c T ps out h)⟩

/-- the premise on the table: every key is one word and there are no aliases -/
def SpaceFree (c : Cls) (T : Table) : Prop := ∀ e ∈ T, e.aliases = [] ∧ (wordsOf c e.key).length = 1

/-- the premise on the text: no two plain words (neither operators nor parentheses) are adjacent -/
def NoAdjacentPlain (c : Cls) (text : Str) : Prop :=
  ∀ p q rest pre, wordPieces c text = pre ++ p :: q :: rest →
    ¬ (p.kind = .word ∧ q.kind = .word ∧ operatorOf (c.fold p.text) = none ∧ operatorOf (c.fold q.text) = none)

/-- the full statement of C18 (not proved here; checked by correspondence, exhaustively on short token strings) -/
def C18_agree_statement : Prop :=
  ∀ (c : Cls) (T : Table) (strict : Bool) (text : Str), SpaceFree c T → ¬ tableRefused c T = true → NoAdjacentPlain c text →
    ltok c T true strict text = ltok c T false strict text

end LE
