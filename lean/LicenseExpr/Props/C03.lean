import LicenseExpr.Lemmas.BSound
import LicenseExpr.Model.Api
/-!
# C03 — malformed input is rejected with an ExpressionError that locates the fault
-/
namespace LE

/-- **C03 (no crash, tokens)**: on every token list the parser returns a tree or a proper error —
    never the IndexError / AssertionError outcomes of the un-repaired parser. -/
theorem C03_no_crash_tokens {α : Type} (ts : List (BP.Tok α)) (e : BP.PErr) (h : BP.parse ts = .error e) :
    BP.isCrash e = false := BP.parse_no_crash ts e h

/-- **C03 (no crash, Licensing.parse)**: for every table, every flag combination and every text,
    `Licensing.parse` returns `None`, an expression, an ExpressionError or an ExpressionParseError. -/
theorem C03_no_crash (c : Cls) (T : Table) (simple strict validate : Bool) (text : Str) (k : Nat) :
    parseFull c T simple strict validate text ≠ .crash k := by
  unfold parseFull parseFullW
  split
  · simp
  · split
    · next e _ => cases e <;> simp [ofLErr]
    · next toks _ =>
      split
      · next e idx he =>
        have := BP.parseAt_no_crash _ e idx he
        cases e <;> simp_all [ofPErr, BP.isCrash] <;> split <;> simp
      · split
        · simp only []; split <;> simp
        · simp

/-- the error of a failing step is reported with the string and start of the token at which it fails -/
theorem C03_error_token (toks : List PTok) (e : BP.PErr) (i : Nat) (code : Nat) (s : Str) (p : Int)
    (h : ofPErr toks e (some i) = .parseErr code s p) (hs : s ≠ []) :
    ∃ t, toks[i]? = some t ∧ s = t.str ∧ p = t.pos := by
  unfold ofPErr at h
  cases hi : toks[i]? with
  | none => cases e <;> simp_all
  | some t => refine ⟨t, rfl, ?_⟩; cases e <;> simp_all <;> (obtain ⟨_, h2, h3⟩ := h; exact ⟨h2.symm, h3.symm⟩)

/-- non-vacuity and the three repaired faults: `()`, `a and (or b)`, `a or (b) c` are rejected with
    proper parse errors -/
example : BP.parse ([BP.Tok.lpar, .rpar] : List (BP.Tok Nat)) = .error .nesting := by rfl
example : BP.parse [BP.Tok.sym 1, .and, .lpar, .or, .sym 2, .rpar] = .error .opSeq := by rfl
example : BP.parse [BP.Tok.sym 1, .or, .lpar, .sym 2, .rpar, .sym 3] = .error .symSeq := by rfl

end LE
