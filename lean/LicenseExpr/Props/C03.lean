import LicenseExpr.Lemmas.BSound
import LicenseExpr.Lemmas.BReject
import LicenseExpr.Lemmas.WithReject
import LicenseExpr.Lemmas.Spell
import LicenseExpr.Model.Api
/-!
# C03 — malformed input is rejected with an ExpressionError that locates the fault
-/
namespace LE

/-- **C03 (no crash, tokens)**: on every token list the parser returns a tree or a proper error —
    never the IndexError / AssertionError outcomes of the un-repaired parser. -/
theorem C03_no_crash_tokens {α : Type} (ts : List (BP.Tok α)) (e : BP.PErr) (h : BP.parse ts = .error e) :
    BP.isCrash e = false := BP.parse_no_crash ts e h

/-- **C03 (no crash, Licensing.parse)**: for every table, every flag combination and every text,
    `Licensing.parse` returns `None`, an expression, an ExpressionError or an ExpressionParseError. -/
theorem C03_no_crash (c : Cls) (T : Table) (simple strict validate : Bool) (text : Str) (k : Nat) :
    parseFull c T simple strict validate text ≠ .crash k := by
  unfold parseFull parseFullW
  split
  · simp
  · split
    · next e _ => cases e <;> simp [ofLErr]
    · next toks _ =>
      split
      · next e idx he =>
        have := BP.parseAt_no_crash _ e idx he
        cases e <;> simp_all [ofPErr, BP.isCrash] <;> split <;> simp
      · split
        · simp only []; split <;> simp
        · simp

/-- the error of a failing step is reported with the string and start of the token at which it fails -/
theorem C03_error_token (toks : List PTok) (e : BP.PErr) (i : Nat) (code : Nat) (s : Str) (p : Int)
    (h : ofPErr toks e (some i) = .parseErr code s p) (hs : s ≠ []) :
    ∃ t, toks[i]? = some t ∧ s = t.str ∧ p = t.pos := by
  unfold ofPErr at h
  cases hi : toks[i]? with
  | none => cases e <;> simp_all
  | some t => refine ⟨t, rfl, ?_⟩; cases e <;> simp_all <;> (obtain ⟨_, h2, h3⟩ := h; exact ⟨h2.symm, h3.symm⟩)

/-- a token list the property calls well formed (as far as parentheses and neighbours go): not empty,
    not starting with an operator, no forbidden adjacent pair (`BP.badPair`: two operands with no
    operator between them — also across a parenthesis —, adjacent operators, an operator directly after
    `(` or before `)`, `()`), every prefix closes at most what it opened, and all is closed at the end -/
def WellFormedToks {α : Type} (ts : List (BP.Tok α)) : Prop :=
  ts ≠ [] ∧ (∀ t rest, ts = t :: rest → BP.isOp t = false) ∧
  (∀ pre a b post, ts = pre ++ a :: b :: post → BP.badPair a b = false) ∧
  (∀ pre post, ts = pre ++ post → BP.closes pre ≤ BP.opens pre) ∧ BP.opens ts = BP.closes ts

/-- **C03 (reject, tokens)**: a token list that is turned into an expression is well formed; so a list
    with unbalanced or empty parentheses, two operands with no operator between them, adjacent or
    leading operators, or an operator directly after `(` / before `)` never is. -/
theorem C03_reject_tokens {α : Type} (ts : List (BP.Tok α)) (e : Expr α) (h : BP.parse ts = .ok e) :
    WellFormedToks ts := by
  refine ⟨?_, ?_, BP.parse_pairs ts e h, (BP.parse_balanced ts e h).1, (BP.parse_balanced ts e h).2⟩
  · intro hnil; subst hnil; exact BP.parse_nonempty e h
  · intro t rest hts; subst hts; exact BP.parse_first t rest e h

/-- **C03 (reject, WITH)**: when the grouping stage lets a token list through, every `WITH` in it
    stands directly between two license tokens (and has been folded into a pair with them). -/
theorem C03_reject_with (c : Cls) (strict : Bool) (ts out : List STok) (h : groupWith c strict ts = .ok out)
    (pre : List STok) (w : STok) (post : List STok) (hts : ts = pre ++ w :: post) (hw : isWithV w.val = true) :
    (∃ pre' a l, pre = pre' ++ [a] ∧ symOf a.val = some l) ∧
    (∃ b post' e, post = b :: post' ∧ symOf b.val = some e) :=
  groupWith_with_between c strict ts out h pre w post hts hw

/-- **C03 (reject, Licensing.parse)**: whenever `Licensing.parse` returns an expression — any table,
    any flags, any text — the tokens it handed to the parser are well formed. -/
theorem C03_reject (c : Cls) (T : Table) (simple strict validate : Bool) (text : Str) (e : Expr Atom)
    (h : parseFull c T simple strict validate text = .ok e) :
    ∃ toks, ltok c T simple strict text = .ok toks ∧ WellFormedToks (toks.map (·.t)) := by
  unfold parseFull parseFullW at h
  split at h
  · simp at h
  · cases hl : ltokW c T (buildTrie c T) simple strict text with
    | error er => simp [hl] at h; cases er <;> simp [ofLErr] at h
    | ok toks =>
      refine ⟨toks, by simp [ltok, hl], ?_⟩
      simp only [hl] at h
      cases hp : BP.parseAt (toks.map (·.t)) with
      | error x =>
        obtain ⟨pe, idx⟩ := x
        simp [hp] at h
        cases pe <;> simp [ofPErr] at h <;> (split at h <;> simp at h)
      | ok e' => exact C03_reject_tokens _ e' ((BP.parseAt_ok _ _).mp hp)

/-- the contrapositive, as the property words it: a forbidden neighbour pair anywhere in the tokens
    means no expression comes back -/
theorem C03_bad_pair_rejected {α : Type} (pre : List (BP.Tok α)) (a b : BP.Tok α) (post : List (BP.Tok α))
    (hbad : BP.badPair a b = true) (e : Expr α) : BP.parse (pre ++ a :: b :: post) ≠ .ok e := by
  intro h
  have := (C03_reject_tokens _ e h).2.2.1 pre a b post rfl
  rw [hbad] at this; cases this

/-- a closing parenthesis with nothing open, or an opening one never closed, means no expression -/
theorem C03_unbalanced_rejected {α : Type} (ts : List (BP.Tok α)) (e : Expr α)
    (hbad : (∃ pre post, ts = pre ++ post ∧ BP.opens pre < BP.closes pre) ∨ BP.opens ts ≠ BP.closes ts) :
    BP.parse ts ≠ .ok e := by
  intro h
  have wf := C03_reject_tokens _ e h
  rcases hbad with ⟨pre, post, hts, hlt⟩ | hne
  · have := wf.2.2.2.1 pre post hts; omega
  · exact hne wf.2.2.2.2

/-- **C03 (position)**: when `Licensing.parse` — either tokenizer, any flags — raises a parse error that
    carries a token string, the words of that string are the texts of consecutive words of the input
    (`g`, a run of the non-blank pieces of the text), verbatim and in order, and the reported position
    is exactly where the first of them starts. `ClsOK`: what the model assumes of letter classes
    (U+0020 is a blank, a parenthesis is not, …). -/
theorem C03_position (c : Cls) (hc : ClsOK c) (T : Table) (simple strict validate : Bool) (text : Str)
    (code : Nat) (s : Str) (pos : Int) (h : parseFull c T simple strict validate text = .parseErr code s pos) (hs : s ≠ []) :
    ∃ pre g post, wordPieces c text = pre ++ g ++ post ∧ g ≠ [] ∧ pos = groupStart g ∧
      unfoldedWords c s = g.map (·.text) := by
  unfold parseFull parseFullW at h
  split at h
  · simp at h
  · cases hl : ltokW c T (buildTrie c T) simple strict text with
    | error er =>
      simp only [hl] at h
      cases er with
      | expr => simp [ofLErr] at h
      | parse c' s' p' =>
        simp only [ofLErr, Outcome.parseErr.injEq] at h
        obtain ⟨rfl, rfl, rfl⟩ := h
        exact ltok_error_position c hc T _ simple strict text _ _ _ hl hs
    | ok toks =>
      simp only [hl] at h
      cases hp : BP.parseAt (toks.map (·.t)) with
      | error x =>
        obtain ⟨pe, idx⟩ := x
        simp only [hp] at h
        cases idx with
        | none =>
          exfalso
          cases pe <;> simp [ofPErr] at h <;> exact hs h.2.1
        | some i =>
          obtain ⟨t, ht, rfl, rfl⟩ := C03_error_token toks pe i code s pos h hs
          obtain ⟨pre, g, post, h1, h2, h3, h4⟩ := ltok_ok_position c hc T _ simple strict text toks hl i t ht
          exact ⟨pre, g, post, h1, h2, by rw [h3], h4⟩
      | ok e =>
        simp only [hp] at h
        split at h
        · split at h <;> simp at h
        · simp at h

/-- the hypotheses are satisfiable and the conclusion is not trivial: an accepted list is well formed,
    and the listed malformed shapes are refused -/
example : BP.parse [BP.Tok.sym 1, .and, .lpar, .sym 2, .or, .sym 3, .rpar] =
    .ok (.node .and [.atom 1, .node .or [.atom 2, .atom 3]]) := by rfl
example : BP.badPair (BP.Tok.sym 1) (BP.Tok.lpar : BP.Tok Nat) = true := rfl
example : BP.badPair (BP.Tok.rpar : BP.Tok Nat) (BP.Tok.lpar) = true := rfl

/-- non-vacuity and the three repaired faults: `()`, `a and (or b)`, `a or (b) c` are rejected with
    proper parse errors -/
example : BP.parse ([BP.Tok.lpar, .rpar] : List (BP.Tok Nat)) = .error .nesting := by rfl
example : BP.parse [BP.Tok.sym 1, .and, .lpar, .or, .sym 2, .rpar] = .error .opSeq := by rfl
example : BP.parse [BP.Tok.sym 1, .or, .lpar, .sym 2, .rpar, .sym 3] = .error .symSeq := by rfl

end LE
