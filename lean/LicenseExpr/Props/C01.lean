import LicenseExpr.Lemmas.Tiles
import LicenseExpr.Lemmas.CoverTiles
import LicenseExpr.Lemmas.BLits
import LicenseExpr.Lemmas.Lex
import LicenseExpr.Model.Spec
/-!
# C01 — parsing never drops, duplicates or alters any word of the input

`Tiles ps ts` (Lemmas/Tiles.lean): the non-blank pieces `ps` of the text, in text order, split into
consecutive non-empty groups, one per token; each token starts where its group starts and ends where
it ends. It is the positional form of "the input's words are exactly the left-to-right
concatenation of the words of the recognised tokens".

Proved: the lexer is lossless; the simple tokenizer tiles the text; unknown-word merging and WITH
grouping preserve tiling (so, from a tiling first stage, the triples handed to the parser tile the
text); the licenses of the returned expression are exactly the license tokens, in text order. The
*automaton* tokenizer's first stage tiles the text too (C17's covering clause, Lemmas/Cover.lean and
Lemmas/CoverTiles.lean), so `C01_default` holds for every automaton — also one that does not belong
to the table — and every text; `C01_tokens` is the statement for `Licensing.tokenize` in either mode.
-/
namespace LE

/-- the lexer loses nothing: the pieces (words, blank runs, single parentheses) concatenate to the text -/
theorem C01_lexer_lossless (c : Cls) (s : Str) : ((pieces c s).map (·.text)).flatten = s := pieces_concat c s

/-- **C01 (simple tokenizer)**: when `Licensing.tokenize(simple=True)` succeeds, its tokens before the
    hand-over tile the non-blank pieces of the text: every word exactly once, in order. -/
theorem C01_simple (c : Cls) (T : Table) (strict : Bool) (text : Str) (raw merged grouped : List STok)
    (h1 : simpleTokens c T (wordPieces c text) = .ok raw) (h2 : mergeUnknown c none raw = .ok merged)
    (h3 : groupWith c strict merged = .ok grouped) : Tiles (wordPieces c text) grouped :=
  groupWith_tiles c strict merged _ grouped
    ((mergeUnknown_tiles c none raw _ merged (simpleTokens_tiles c T _ raw h1) h2).1 rfl) h3

/-- **C01 (default tokenizer, the later stages)**: if the automaton tokenizer's tokens tile the text
    (C17: ordered, disjoint, covering every word once), so do the tokens after merging and grouping. -/
theorem C01_default_partial (c : Cls) (strict : Bool) (ps : List Piece) (raw merged grouped : List STok)
    (h0 : Tiles ps raw) (h2 : mergeUnknown c none raw = .ok merged)
    (h3 : groupWith c strict merged = .ok grouped) : Tiles ps grouped :=
  groupWith_tiles c strict merged _ grouped ((mergeUnknown_tiles c none raw _ merged h0 h2).1 rfl) h3

/-- the automaton tokenizer's first stage tiles the text, whatever the automaton -/
theorem advanced_tiles (c : Cls) (tr : Trie TVal) (text : Str) :
    Tiles (wordPieces c text) (advancedTokensW c tr text) :=
  finalOK_tiles ofTok (fun _ => rfl) (fun _ => rfl) _ _ (wordPieces_ok c text)
    (kept_plus_uncovered_ok text _ (wordPieces_ok c text) _
      (sweep_disjoint _ (sortToks_sorted _))
      (fun k hk => iter_aligned c tr text true k ((sortToks_mem _ k).mp (sweep_sub _ k hk))))

/-- **C01 (default tokenizer)**: when `Licensing.tokenize()` in default mode succeeds, its tokens
    before the hand-over tile the non-blank pieces of the text. -/
theorem C01_default (c : Cls) (tr : Trie TVal) (strict : Bool) (text : Str) (merged grouped : List STok)
    (h2 : mergeUnknown c none (advancedTokensW c tr text) = .ok merged)
    (h3 : groupWith c strict merged = .ok grouped) : Tiles (wordPieces c text) grouped :=
  C01_default_partial c strict _ _ merged grouped (advanced_tiles c tr text) h2 h3

/-- **C01 (tokens, both modes)**: whenever `Licensing.tokenize` succeeds, the tokens it hands to the
    parser are the images of a token list that tiles the words of the text. -/
theorem C01_tokens (c : Cls) (T : Table) (tr : Trie TVal) (simple strict : Bool) (text : Str) (toks : List PTok)
    (h : ltokW c T tr simple strict text = .ok toks) :
    ∃ grouped, Tiles (wordPieces c text) grouped ∧ toPToks grouped = .ok toks := by
  unfold ltokW at h
  cases h1 : rawTokensW c T tr simple text with
  | error e => simp [h1, bind, Except.bind] at h
  | ok raw =>
    cases h2 : mergeUnknown c none raw with
    | error e => simp [h1, h2, bind, Except.bind] at h
    | ok merged =>
      cases h3 : groupWith c strict merged with
      | error e => simp [h1, h2, h3, bind, Except.bind] at h
      | ok grouped =>
        simp [h1, h2, h3, bind, Except.bind] at h
        refine ⟨grouped, ?_, h⟩
        unfold rawTokensW at h1
        split at h1
        · exact C01_simple c T strict text raw merged grouped h1 h2 h3
        · simp at h1; subst h1
          exact C01_default c tr strict text merged grouped h2 h3

theorem tokLits_ptoks (toks : List PTok) : BP.tokLits (toks.map (·.t)) = toks.filterMap ptokAtom := by
  induction toks with
  | nil => rfl
  | cons p ps ih =>
    obtain ⟨t, s, n⟩ := p
    cases t <;> simp [BP.tokLits, ih, List.filterMap_cons, ptokAtom]

/-- **C01 (licenses of the result)**: the licenses of the returned expression, read left to right with
    repetitions, are exactly the license tokens recognised in the text, in text order — for every
    table, both tokenizers, both strictness values, with or without validation. -/
theorem C01_literals (c : Cls) (T : Table) (simple strict validate : Bool) (text : Str) (e : Expr Atom)
    (h : parseFull c T simple strict validate text = .ok e) :
    ∃ toks, ltok c T simple strict text = .ok toks ∧ literals e = toks.filterMap ptokAtom := by
  unfold parseFull parseFullW at h
  split at h
  · simp at h
  · cases hl : ltokW c T (buildTrie c T) simple strict text with
    | error er => simp [hl] at h; cases er <;> simp [ofLErr] at h
    | ok toks =>
      refine ⟨toks, by simp [ltok, hl], ?_⟩
      simp only [hl] at h
      cases hp : BP.parseAt (toks.map (·.t)) with
      | error x =>
        obtain ⟨pe, idx⟩ := x
        simp [hp] at h
        cases pe <;> simp [ofPErr] at h <;> (split at h <;> simp at h)
      | ok e' =>
        simp only [hp] at h
        have he : e' = e := by
          by_cases hv : validate = true
          · simp only [hv, ↓reduceIte] at h
            split at h <;> simp at h
            exact h
          · simp only [hv] at h
            simpa using h
        subst he
        rw [BP.parse_literals _ _ ((BP.parseAt_ok _ _).mp hp), tokLits_ptoks]

end LE
