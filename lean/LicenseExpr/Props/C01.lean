import LicenseExpr.Lemmas.Tiles
import LicenseExpr.Lemmas.BLits
import LicenseExpr.Lemmas.Lex
import LicenseExpr.Model.Spec
/-!
# C01 — parsing never drops, duplicates or alters any word of the input

`Tiles ps ts` (Lemmas/Tiles.lean): the non-blank pieces `ps` of the text, in text order, split into
consecutive non-empty groups, one per token; each token starts where its group starts and ends where
it ends. It is the positional form of "the input's words are exactly the left-to-right
concatenation of the words of the recognised tokens".

Proved: the lexer is lossless; the simple tokenizer tiles the text; unknown-word merging and WITH
grouping preserve tiling (so, from a tiling first stage, the triples handed to the parser tile the
text); the licenses of the returned expression are exactly the license tokens, in text order. That
the *automaton* tokenizer's first stage tiles the text is C17's covering clause, checked by the
correspondence run and the Spec (`specC17`, `specC01`), not proved here: `C01_default_partial`
states the composition under that hypothesis.
-/
namespace LE

/-- the lexer loses nothing: the pieces (words, blank runs, single parentheses) concatenate to the text -/
theorem C01_lexer_lossless (c : Cls) (s : Str) : ((pieces c s).map (·.text)).flatten = s := pieces_concat c s

/-- **C01 (simple tokenizer)**: when `Licensing.tokenize(simple=True)` succeeds, its tokens before the
    hand-over tile the non-blank pieces of the text: every word exactly once, in order. -/
theorem C01_simple (c : Cls) (T : Table) (strict : Bool) (text : Str) (raw merged grouped : List STok)
    (h1 : simpleTokens c T (wordPieces c text) = .ok raw) (h2 : mergeUnknown c none raw = .ok merged)
    (h3 : groupWith c strict merged = .ok grouped) : Tiles (wordPieces c text) grouped :=
  groupWith_tiles c strict merged _ grouped
    ((mergeUnknown_tiles c none raw _ merged (simpleTokens_tiles c T _ raw h1) h2).1 rfl) h3

/-- **C01 (default tokenizer, the later stages)**: if the automaton tokenizer's tokens tile the text
    (C17: ordered, disjoint, covering every word once), so do the tokens after merging and grouping. -/
theorem C01_default_partial (c : Cls) (strict : Bool) (ps : List Piece) (raw merged grouped : List STok)
    (h0 : Tiles ps raw) (h2 : mergeUnknown c none raw = .ok merged)
    (h3 : groupWith c strict merged = .ok grouped) : Tiles ps grouped :=
  groupWith_tiles c strict merged _ grouped ((mergeUnknown_tiles c none raw _ merged h0 h2).1 rfl) h3

theorem tokLits_ptoks (toks : List PTok) : BP.tokLits (toks.map (·.t)) = toks.filterMap ptokAtom := by
  induction toks with
  | nil => rfl
  | cons p ps ih =>
    obtain ⟨t, s, n⟩ := p
    cases t <;> simp [BP.tokLits, ih, List.filterMap_cons, ptokAtom]

/-- **C01 (licenses of the result)**: the licenses of the returned expression, read left to right with
    repetitions, are exactly the license tokens recognised in the text, in text order — for every
    table, both tokenizers, both strictness values, with or without validation. -/
theorem C01_literals (c : Cls) (T : Table) (simple strict validate : Bool) (text : Str) (e : Expr Atom)
    (h : parseFull c T simple strict validate text = .ok e) :
    ∃ toks, ltok c T simple strict text = .ok toks ∧ literals e = toks.filterMap ptokAtom := by
  unfold parseFull parseFullW at h
  split at h
  · simp at h
  · cases hl : ltokW c T (buildTrie c T) simple strict text with
    | error er => simp [hl] at h; cases er <;> simp [ofLErr] at h
    | ok toks =>
      refine ⟨toks, by simp [ltok, hl], ?_⟩
      simp only [hl] at h
      cases hp : BP.parseAt (toks.map (·.t)) with
      | error x =>
        obtain ⟨pe, idx⟩ := x
        simp [hp] at h
        cases pe <;> simp [ofPErr] at h <;> (split at h <;> simp at h)
      | ok e' =>
        simp only [hp] at h
        have he : e' = e := by
          by_cases hv : validate = true
          · simp only [hv, ↓reduceIte] at h
            split at h <;> simp at h
            exact h
          · simp only [hv] at h
            simpa using h
        subst he
        rw [BP.parse_literals _ _ ((BP.parseAt_ok _ _).mp hp), tokLits_ptoks]

end LE
