import LicenseExpr.Lemmas.Stages
import LicenseExpr.Lemmas.StrictErr
import LicenseExpr.Model.Api
/-!
# C12 — strict mode enforces the license WITH exception roles exactly

The strict checks live in one stage (`groupWith`, the model of
`replace_with_subexpression_by_license_symbol`); everything before it does not know the strictness
and everything after it sees the same tokens when both succeed. `rolesOK` is read off the
*non-strict* result: every WITH pair has a non-exception on its left and an exception on its right,
and no exception symbol stands alone; unknown licenses are non-exceptions by construction.
-/
namespace LE

/-- **C12 (exactly)**: on every token list the earlier stages can produce, strict grouping succeeds
    exactly when non-strict grouping succeeds and the roles are right — and then with the same result. -/
theorem C12_group_iff (c : Cls) (ts : List STok) (hnp : NoPairs ts) (out : List STok) :
    groupWith c true ts = .ok out ↔ groupWith c false ts = .ok out ∧ rolesOK out = true :=
  groupWith_strict_iff c ts hnp out

/-- the hypothesis `NoPairs` holds for the output of unknown-word merging in both tokenizers -/
theorem C12_stage_noPairs (c : Cls) (T : Table) (tr : Trie TVal) (simple : Bool) (text : Str) (raw merged : List STok)
    (h1 : rawTokensW c T tr simple text = .ok raw) (h2 : mergeUnknown c none raw = .ok merged) : NoPairs merged := by
  apply mergeUnknown_noPairs c none raw merged _ h2
  unfold rawTokensW at h1
  split at h1
  · exact simpleTokens_noPairs c T _ raw h1
  · simp [advancedTokensW] at h1; subst h1; exact ofTok_noPairs _

/-- **C12 (Licensing.tokenize)**: strict tokenizing succeeds exactly when non-strict tokenizing
    succeeds with grouped tokens whose roles are right, and then yields the same triples. -/
theorem C12_ltok_iff (c : Cls) (T : Table) (simple : Bool) (text : Str) (out : List PTok) :
    ltok c T simple true text = .ok out ↔
      ∃ raw merged grouped, rawTokens c T simple text = .ok raw ∧ mergeUnknown c none raw = .ok merged ∧
        groupWith c false merged = .ok grouped ∧ rolesOK grouped = true ∧ toPToks grouped = .ok out := by
  unfold ltok ltokW rawTokens
  simp only [bind, Except.bind]
  cases h1 : rawTokensW c T (buildTrie c T) simple text with
  | error e => simp
  | ok raw =>
    simp only [Except.ok.injEq, exists_and_left, exists_eq_left']
    cases h2 : mergeUnknown c none raw with
    | error e => simp
    | ok merged =>
      have hnp := C12_stage_noPairs c T _ simple text raw merged h1 h2
      simp only [Except.ok.injEq, exists_eq_left']
      constructor
      · intro h
        cases h3 : groupWith c true merged with
        | error e => rw [h3] at h; simp at h
        | ok grouped =>
          rw [h3] at h
          obtain ⟨g1, g2⟩ := (C12_group_iff c merged hnp grouped).mp h3
          exact ⟨grouped, g1, g2, h⟩
      · rintro ⟨grouped, g1, g2, h⟩
        have := (C12_group_iff c merged hnp grouped).mpr ⟨g1, g2⟩
        rw [this]; exact h

/-- **C12 (flags)**: non-strict grouping accepts the same token lists and builds the same groups
    whatever the exception flags are: re-flagging the symbols of the input only re-flags the output. -/
theorem C12_flags (c : Cls) (f : Sym → Bool) (ts : List STok) (hnp : NoPairs ts) :
    groupWith c false (ts.map (reflagTok f)) = (groupWith c false ts).map (List.map (reflagTok f)) :=
  groupWith_lax_reflag c f ts hnp

/-- **C12 (the error names an offending license)**: when strict grouping refuses a token list that
    non-strict grouping accepts, the error carries the string and the start of one of the license
    tokens of that list, and that license has the wrong role: an exception where a license must stand
    (code PARSE_INVALID_EXCEPTION) or a non-exception on the right of WITH
    (code PARSE_INVALID_SYMBOL_AS_EXCEPTION). -/
theorem C12_offending (c : Cls) (ts : List STok) (er : LErr) (out : List STok)
    (hs : groupWith c true ts = .error er) (hl : groupWith c false ts = .ok out) : ∃ a ∈ ts, RoleFault er a :=
  groupWith_strict_error c ts er out hs hl

/-- the same for `Licensing.tokenize`: a strict failure on a text that tokenizes non-strictly names a
    license token of the merged token list (whose positions are positions of the text, C01 / C17) -/
theorem C12_offending_ltok (c : Cls) (T : Table) (simple : Bool) (text : Str) (er : LErr) (out : List PTok)
    (hs : ltok c T simple true text = .error er) (hl : ltok c T simple false text = .ok out) :
    ∃ raw merged, rawTokens c T simple text = .ok raw ∧ mergeUnknown c none raw = .ok merged ∧
      ∃ a ∈ merged, RoleFault er a := by
  unfold ltok ltokW at hs hl
  unfold rawTokens
  simp only [bind, Except.bind] at hs hl
  cases h1 : rawTokensW c T (buildTrie c T) simple text with
  | error e => simp [h1] at hl
  | ok raw =>
    simp only [h1] at hs hl
    cases h2 : mergeUnknown c none raw with
    | error e => simp [h2] at hl
    | ok merged =>
      simp only [h2] at hs hl
      refine ⟨raw, merged, rfl, h2, ?_⟩
      cases h3 : groupWith c false merged with
      | error e => simp [h3] at hl
      | ok grouped =>
        cases h4 : groupWith c true merged with
        | error e =>
          simp [h4] at hs; subst hs
          exact C12_offending c merged e grouped h4 h3
        | ok g2 =>
          -- strict grouping succeeded: then it equals the non-strict one and the later stage cannot differ
          have := (C12_group_iff c merged (C12_stage_noPairs c T _ simple text raw merged h1 h2) g2).mp h4
          rw [h3] at this
          simp at this
          obtain ⟨rfl, _⟩ := this
          simp [h4] at hs
          simp [h3] at hl
          rw [hl] at hs; cases hs

/-- non-vacuity: `gpl WITH cp` with `cp` an exception is accepted strictly; with the flags swapped it is not -/
example : ∃ out, groupWith ⟨fun x => x == 32, fun _ => true, fun x => [x]⟩ true
    [⟨0, 2, [103], .sym ⟨[103], false⟩⟩, ⟨4, 7, [119,105,116,104], .kw .with⟩, ⟨9, 10, [99], .sym ⟨[99], true⟩⟩] = .ok out :=
  ⟨_, rfl⟩
example : groupWith ⟨fun x => x == 32, fun _ => true, fun x => [x]⟩ true
    [⟨0, 2, [103], .sym ⟨[103], true⟩⟩, ⟨4, 7, [119,105,116,104], .kw .with⟩, ⟨9, 10, [99], .sym ⟨[99], false⟩⟩]
    = .error (.parse Gen.PARSE_INVALID_EXCEPTION [103] 0) := rfl

end LE
