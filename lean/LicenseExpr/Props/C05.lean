import LicenseExpr.Lemmas.WF
import LicenseExpr.Lemmas.RenderText
import LicenseExpr.Lemmas.RenderSpelled
import LicenseExpr.Props.C04
import LicenseExpr.Props.C18
import LicenseExpr.Lemmas.Order
import LicenseExpr.Model.Api
/-!
# C05 — rendered expressions re-parse to themselves; rendering is a fixed point

Token level. `BP.toksOf p e` is the token skeleton of the rendering of `e`: one symbol token per
license, the operator tokens, parentheses round every operand that is not a literal, and — where
`p` says so — round a literal (the readable rendering does that for WITH pairs).
`C05_render_is_skeleton` / `C05_template` / `C05_readable_is_skeleton` say that the three renderings
of the source are the texts of these skeletons; `C05_tokens` / `C05_readable_tokens` say that the
skeletons parse back to the tree.

Text level. `C05_text_simple`: for *every* table, rendering an expression and parsing the text with
the simple tokenizer gives the expression back — same structure, operand order and symbols — provided
each of its licenses is read back from its key (`AtomOK`: the key is one word and the simple
tokenizer's look-up of that word gives the license: a known key of the table with its flag, or an
unknown valid key). `C05_text_default`: the same with the default tokenizer for tables without
aliases whose keys are single words (the ScanCode table is of this kind), through C18. `C05_fixpoint`:
the rendering of the re-parsed expression is the same text again. `C05_text_general`: the default
tokenizer over tables *with* aliases and keys of several words — every table whose multi-word names
contain no operator word or parenthesis (`OpWordFree`; evaluated by the driver on the
tables of the run): an expression whose known licenses are keys the table stores for them alone
(`C05_key_ok`: every key of a table that is unambiguous in the matcher's terms) and whose unknown
licenses use no word of a stored name renders to a text that parses back to it. What remains with
the correspondence run: tables with operator words inside multi-word names.
-/
namespace LE

/-- **C05 (tokens)**: the token skeleton of the default rendering of any tree whose nodes have at
    least two operands parses back to exactly that tree: same structure, operand order and symbols. -/
theorem C05_tokens {α : Type} (e : Expr α) (h : BP.WFE e) : BP.parse (BP.toksOf (fun _ => false) e) = .ok e :=
  BP.parse_render _ e h

/-- **C05 (readable)**: the same with any choice of literals put in parentheses — in particular the
    readable rendering, which parenthesises WITH pairs. -/
theorem C05_readable_tokens {α : Type} (p : α → Bool) (e : Expr α) (h : BP.WFE e) : BP.parse (BP.toksOf p e) = .ok e :=
  BP.parse_render p e h

/-- what `simplify()` returns satisfies the hypothesis of the two theorems above -/
theorem C05_simplify_wf (e : Expr Atom) (hw : WFargs e) : BP.WFE (simplifyE e) :=
  NF_WFE _ _ (simp_nf _ (ltE_asymm ltAtom (fun a b => strLt_asymm _ _)) e hw)

/-- the default rendering is the text of the skeleton -/
theorem C05_render_is_skeleton (op : Op) (es : List (Expr Atom)) :
    renderStr (.node op es) = BP.detok Atom.render (BP.toksOf (fun _ => false) (.node op es)) :=
  BP.renderWith_detok Atom.render (fun _ => false) Atom.render (by intro a; simp) op es

/-- **C05 (template)**: rendering with a custom template is the text of the *same* skeleton with the
    template applied to every license: operators and parentheses are untouched. -/
theorem C05_template (tmpl : Sym → Str) (op : Op) (es : List (Expr Atom)) :
    renderT tmpl (.node op es) = BP.detok (Atom.renderT tmpl false) (BP.toksOf (fun _ => false) (.node op es)) :=
  BP.renderWith_detok (Atom.renderT tmpl false) (fun _ => false) (Atom.renderT tmpl false) (by intro a; simp) op es

def isWithAtom : Atom → Bool
  | .withE _ _ => true
  | .lic _ => false

/-- the readable rendering is the text of the skeleton in which WITH pairs are parenthesised -/
theorem C05_readable_is_skeleton (tmpl : Sym → Str) (op : Op) (es : List (Expr Atom)) :
    renderReadable tmpl (.node op es) = BP.detok (Atom.renderT tmpl false) (BP.toksOf isWithAtom (.node op es)) := by
  unfold renderReadable
  exact BP.renderWith_detok (Atom.renderT tmpl false) isWithAtom (Atom.renderT tmpl true)
    (by intro a; cases a <;> simp [Atom.renderT, isWithAtom]) op es

/-- **C05 (text, simple tokenizer)**: rendering any expression whose nodes have at least two operands
    and parsing that text gives an expression of identical structure, operand order and symbols —
    for every table, with the simple tokenizer, when each license is read back from its key. -/
theorem C05_text_simple (c : Cls) (hc : ClsOK c) (T : Table) (e : Expr Atom) (hwf : BP.WFE e)
    (ha : ∀ a ∈ literals e, AtomOK c T a) : parseFull c T true false false (renderStr e) = .ok e :=
  parse_render_simple c hc T e hwf ha

/-- **C05 (text, default tokenizer)**: the same with the default tokenizer, for tables without aliases
    whose keys are single words. -/
theorem C05_text_default (c : Cls) (hc : ClsOK c) (T : Table) (hT : SpaceFreeT c T) (e : Expr Atom) (hwf : BP.WFE e)
    (ha : ∀ a ∈ literals e, AtomOK c T a) : parseFull c T false false false (renderStr e) = .ok e :=
  parse_render_default c hc T hT e hwf ha

/-- **C05 (fixed point)**: … whose rendering is the same text again. -/
theorem C05_fixpoint (c : Cls) (hc : ClsOK c) (T : Table) (hT : SpaceFreeT c T) (e : Expr Atom) (hwf : BP.WFE e)
    (ha : ∀ a ∈ literals e, AtomOK c T a) (e' : Expr Atom)
    (h : parseFull c T false false false (renderStr e) = .ok e') : renderStr e' = renderStr e := by
  rw [C05_text_default c hc T hT e hwf ha] at h
  cases h; rfl

/-- **C05 (text, default tokenizer, tables with aliases and multi-word names)**: for every table whose
    multi-word names contain no operator word or parenthesis and which `Licensing` accepts, rendering an expression (nodes with at least two operands) and parsing the text gives the
    expression back, when every license of it reads back from its key (`AtomOKG`: the words of the key
    are a stored name of that license alone — `C05_key_ok` —, or the license is unknown, its key is what
    its words spell and none of them occurs in a stored name). -/
theorem C05_text_general (c : Cls) (hc : ClsOK c) (T : Table) (hop : OpWordFree c T) (hacc : tableRefused c T = false)
    (e : Expr Atom) (hwf : BP.WFE e) (ha : ∀ a ∈ literals e, AtomOKG c T a) :
    parseFull c T false false false (renderStr e) = .ok e :=
  parse_render_general c hc T hop (kwOwned_of_accepted c hc T hacc) e hwf ha

/-- **C05 (text, default tokenizer, any accepted table)**: the same without the premise on the table — also keys
    like `GPL 2.0 or later` — under the proviso stated on the rendered text: whichever way its words fall
    into the tokens of the rendering, no occurrence of a stored name reaches across the boundary between
    two of them (decidable for a given expression; it fails, and so does the round trip, for the keys
    `mit` and `mit and x` in `mit AND x`). -/
theorem C05_text_proviso (c : Cls) (hc : ClsOK c) (T : Table) (hacc : tableRefused c T = false)
    (e : Expr Atom) (hwf : BP.WFE e) (ha : ∀ a ∈ literals e, AtomOKG c T a)
    (hwithin : ∀ segs, SegsFor c T (BP.toksOf (fun _ => false) e) segs → segPieces segs = wordPieces c (renderStr e) →
      ∀ k ∈ (buildTrie c T).iter c (renderStr e) true, k.val.isSome = true →
        ∃ sg ∈ segs, ∃ p ∈ sg.1, ∃ p' ∈ sg.1, k.s = p.start ∧ k.e = p'.stop) :
    parseFull c T false false false (renderStr e) = .ok e :=
  parse_render_within c hc T (kwOwned_of_accepted c hc T hacc) e hwf ha hwithin

/-- … and that text is a fixed point of parse-then-render -/
theorem C05_fixpoint_general (c : Cls) (hc : ClsOK c) (T : Table) (hop : OpWordFree c T) (hacc : tableRefused c T = false)
    (e : Expr Atom) (hwf : BP.WFE e) (ha : ∀ a ∈ literals e, AtomOKG c T a) (e' : Expr Atom)
    (h : parseFull c T false false false (renderStr e) = .ok e') : renderStr e' = renderStr e := by
  rw [C05_text_general c hc T hop hacc e hwf ha] at h
  cases h; rfl

/-- every key of a table that is unambiguous in the matcher's terms reads back as its license -/
theorem C05_key_ok (c : Cls) (T : Table) (hu : namesUniqueB c T = true) (e : Entry) (he : e ∈ T)
    (hw : wordsOf c e.key ≠ []) : SymOKG c T ⟨e.key, e.exc⟩ := by
  have hn : (e.key, symVal e) ∈ entryAdds c e := by simp [entryAdds]
  have hmem : (e.key, symVal e) ∈ addsOf c T := by
    unfold addsOf
    exact List.mem_append_right _ (List.mem_flatMap.mpr ⟨e, he, hn⟩)
  have hown : OwnedBy c T (wordsOf c e.key) ⟨e.key, e.exc⟩ := by
    apply ownedW_spec
    unfold namesUniqueB at hu
    simp only [List.all_eq_true, Bool.or_eq_true] at hu
    have := hu (wordsOf c e.key, symVal e) (by simp only [storedW, List.mem_map]; exact ⟨_, hmem, rfl⟩)
    rcases this with h | h
    · exact absurd (by simpa using h) hw
    · simpa [symVal] using h
  refine ⟨?_, Or.inl hown⟩
  intro h0
  exact hw (by rw [wordsOf_unfolded, h0]; rfl)

/-- the premises are satisfiable: over ASCII, the table {mit, GPL[exception]}, the expression
    `mit AND (foo OR mit WITH GPL)` with the unknown license `foo` -/
example : (∀ a ∈ literals (Expr.node .and [.atom (.lic ⟨[109, 105, 116], false⟩),
      .node .or [.atom (.lic ⟨[102, 111, 111], false⟩), .atom (.withE ⟨[109, 105, 116], false⟩ ⟨[71, 80, 76], true⟩)]]),
    AtomOK asciiCls [⟨[109, 105, 116], [], false⟩, ⟨[71, 80, 76], [], true⟩] a) := by
  intro a ha
  simp [literals] at ha
  rcases ha with rfl | rfl | rfl
  · exact ⟨⟨by decide, by decide⟩, rfl⟩
  · exact ⟨⟨by decide, by decide⟩, rfl⟩
  · exact ⟨⟨⟨by decide, by decide⟩, rfl⟩, ⟨⟨by decide, by decide⟩, rfl⟩⟩

/-- the premises of `C04_in_context` / `C02_text` are satisfiable: over ASCII, the table
    {mit; GPL[exception] alias "gnu gpl"}, the text `MIT  with GNU   gpl OR my  Thing` (the pair written
    with other case and spacing, the exception through its alias, then an unknown license of two words)
    is a spelling of the skeleton `mit WITH GPL or <my Thing>` -/
example :
    let T : Table := [⟨[109, 105, 116], [], false⟩, ⟨[71, 80, 76], [[103, 110, 117, 32, 103, 112, 108]], true⟩]
    let text : Str := [77, 73, 84, 32, 32, 119, 105, 116, 104, 32, 71, 78, 85, 32, 32, 32, 103, 112, 108, 32, 79, 82, 32,
      109, 121, 32, 32, 84, 104, 105, 110, 103]
    OpWordFree asciiCls T ∧ tableRefused asciiCls T = false ∧
    ∃ segs, SegsFor asciiCls T [.sym (.withE ⟨[109, 105, 116], false⟩ ⟨[71, 80, 76], true⟩), .or,
        .sym (.lic ⟨[109, 121, 32, 84, 104, 105, 110, 103], false⟩)] segs ∧
      segPieces segs = wordPieces asciiCls text := by
  intro T text
  refine ⟨opWordFree_of_B _ _ (by decide), (by decide), ?_⟩
  refine ⟨[([⟨0, [77, 73, 84], .word⟩], some (.sym ⟨[109, 105, 116], false⟩)), ([⟨5, [119, 105, 116, 104], .word⟩], some (.kw .with)),
    ([⟨10, [71, 78, 85], .word⟩, ⟨16, [103, 112, 108], .word⟩], some (.sym ⟨[71, 80, 76], true⟩)),
    ([⟨20, [79, 82], .word⟩], some (.kw .or)),
    ([⟨23, [109, 121], .word⟩, ⟨27, [84, 104, 105, 110, 103], .word⟩], none)], ?_, by decide⟩
  have h := SegsFor.cons (c := asciiCls) (T := T)
    (SegFor.withE ⟨[109, 105, 116], false⟩ ⟨[71, 80, 76], true⟩ _ ⟨5, [119, 105, 116, 104], .word⟩ _
      (OperandSeg.known [⟨0, [77, 73, 84], .word⟩] (by decide) (ownedV_of_B _ _ _ _ (by decide)))
      (by decide)
      (OperandSeg.known [⟨10, [71, 78, 85], .word⟩, ⟨16, [103, 112, 108], .word⟩] (by decide) (ownedV_of_B _ _ _ _ (by decide))))
    (SegsFor.cons (SegFor.or ⟨20, [79, 82], .word⟩ (by decide))
      (SegsFor.cons (SegFor.lic ⟨[109, 121, 32, 84, 104, 105, 110, 103], false⟩ _
        (OperandSeg.unknown [⟨23, [109, 121], .word⟩, ⟨27, [84, 104, 105, 110, 103], .word⟩] (by decide) (by decide) (by decide) rfl))
        SegsFor.nil))
  simpa using h

/-- the premises of `C05_text_general` are satisfiable: over ASCII, the table {mit; GPL[exception] alias
    "gnu gpl"; "Apache 2" (a key of two words)}, the expression `mit WITH GPL OR (my Thing AND Apache 2)` -/
example :
    let T : Table := [⟨[109, 105, 116], [], false⟩, ⟨[71, 80, 76], [[103, 110, 117, 32, 103, 112, 108]], true⟩,
      ⟨[65, 112, 97, 99, 104, 101, 32, 50], [], false⟩]
    OpWordFree asciiCls T ∧ tableRefused asciiCls T = false ∧ namesUniqueB asciiCls T = true ∧
    (∀ a ∈ literals (Expr.node .or [.atom (.withE ⟨[109, 105, 116], false⟩ ⟨[71, 80, 76], true⟩),
        .node .and [.atom (.lic ⟨[109, 121, 32, 84, 104, 105, 110, 103], false⟩), .atom (.lic ⟨[65, 112, 97, 99, 104, 101, 32, 50], false⟩)]]),
      AtomOKG asciiCls T a) := by
  intro T
  have hu : namesUniqueB asciiCls T = true := by decide
  refine ⟨opWordFree_of_B _ _ (by decide), (by decide), hu, ?_⟩
  intro a ha
  simp [literals] at ha
  rcases ha with rfl | rfl | rfl
  · exact ⟨C05_key_ok asciiCls T hu ⟨[109, 105, 116], [], false⟩ (by decide) (by decide),
      C05_key_ok asciiCls T hu ⟨[71, 80, 76], [[103, 110, 117, 32, 103, 112, 108]], true⟩ (by decide) (by decide)⟩
  · exact ⟨by decide, Or.inr ⟨by decide, by decide, rfl⟩⟩
  · exact C05_key_ok asciiCls T hu ⟨[65, 112, 97, 99, 104, 101, 32, 50], [], false⟩ (by decide) (by decide)

/-- the premises of `C04_in_context_proviso` are satisfiable by a table *with an operator word inside a name*:
    {mit; gpl alias "gpl or later"}, the text `mit or gpl or later` in the segments mit | or | gpl or later —
    the scan also reports `gpl` and the second `or`, both inside the third segment -/
example :
    let T : Table := [⟨[109, 105, 116], [], false⟩, ⟨[103, 112, 108], [[103, 112, 108, 32, 111, 114, 32, 108, 97, 116, 101, 114]], false⟩]
    let text : Str := [109, 105, 116, 32, 111, 114, 32, 103, 112, 108, 32, 111, 114, 32, 108, 97, 116, 101, 114]
    let segs : List (Seg TVal) := [([⟨0, [109, 105, 116], .word⟩], some (.sym ⟨[109, 105, 116], false⟩)), ([⟨4, [111, 114], .word⟩], some (.kw .or)),
      ([⟨7, [103, 112, 108], .word⟩, ⟨11, [111, 114], .word⟩, ⟨14, [108, 97, 116, 101, 114], .word⟩], some (.sym ⟨[103, 112, 108], false⟩))]
    ¬ OpWordFree asciiCls T ∧ tableRefused asciiCls T = false ∧
    SegsFor asciiCls T [.sym (.lic ⟨[109, 105, 116], false⟩), .or, .sym (.lic ⟨[103, 112, 108], false⟩)] segs ∧
    segPieces segs = wordPieces asciiCls text ∧
    (∀ k ∈ (buildTrie asciiCls T).iter asciiCls text true, k.val.isSome = true →
      ∃ sg ∈ segs, ∃ p ∈ sg.1, ∃ p' ∈ sg.1, k.s = p.start ∧ k.e = p'.stop) := by
  intro T text segs
  refine ⟨?_, (by decide), ?_, by decide, by decide⟩
  · intro h
    have := h ([103, 112, 108, 32, 111, 114, 32, 108, 97, 116, 101, 114], .sym ⟨[103, 112, 108], false⟩) (by decide) [111, 114] (by decide) (by decide)
    revert this; decide
  · have h := SegsFor.cons (c := asciiCls) (T := T)
      (SegFor.lic ⟨[109, 105, 116], false⟩ _ (OperandSeg.known [⟨0, [109, 105, 116], .word⟩] (by decide) (ownedV_of_B _ _ _ _ (by decide))))
      (SegsFor.cons (SegFor.or ⟨4, [111, 114], .word⟩ (by decide))
        (SegsFor.cons (SegFor.lic ⟨[103, 112, 108], false⟩ _
          (OperandSeg.known [⟨7, [103, 112, 108], .word⟩, ⟨11, [111, 114], .word⟩, ⟨14, [108, 97, 116, 101, 114], .word⟩] (by decide) (ownedV_of_B _ _ _ _ (by decide))))
          SegsFor.nil))
    simpa using h

/-- non-vacuity: `a OR (b OR c)` keeps its nesting through the skeleton -/
example : BP.parse (BP.toksOf (fun _ => false) (Expr.node .or [.atom 1, .node .or [.atom 2, .atom 3]]))
    = .ok (Expr.node .or [.atom 1, .node .or [.atom 2, .atom 3]]) := by rfl

end LE
