import LicenseExpr.Lemmas.Atoms
import LicenseExpr.Model.Api
/-!
# C06 — simplification preserves the meaning of the expression

Every distinct literal (`Atom`: a plain symbol identified by key and flag, or a WITH pair identified
by its two parts) is a boolean variable of the valuation `v`; AND / OR are conjunction / disjunction.
-/
namespace LE

/-- **C06 (truth table)**: for every valuation of the literals, the simplified expression has the
    value of the input — whatever comparison the final sort uses. -/
theorem C06_truth_any_order {A : Type} [DecidableEq A] (lt : Expr A → Expr A → Bool) (v : A → Bool) (e : Expr A) :
    eval v (simp lt e) = eval v e := simp_eval lt v e

/-- **C06 (truth table)** for `expression.simplify()` as boolean.py sorts it. -/
theorem C06_truth (v : Atom → Bool) (e : Expr Atom) : eval v (simplifyE e) = eval v e :=
  simp_eval _ v e

/-- **C06 (no new license)**: the result mentions no license that is absent from the input. -/
theorem C06_atoms (e : Expr Atom) : ∀ a ∈ literals (simplifyE e), a ∈ literals e :=
  simp_lits _ e

/-- licenses that differ only by letter case, or only by the exception flag, or a WITH pair and its
    parts, are different variables: a valuation can tell them apart, so C06_truth forbids merging them -/
example : Atom.lic ⟨[97], false⟩ ≠ Atom.lic ⟨[65], false⟩ := by decide
example : Atom.lic ⟨[97], false⟩ ≠ Atom.lic ⟨[97], true⟩ := by decide
example : Atom.withE ⟨[97], false⟩ ⟨[98], true⟩ ≠ Atom.lic ⟨[97], false⟩ := by decide

end LE
