import LicenseExpr.Model.Symbol
/-!
# Model/Expr — expression trees (`AND` / `OR` nodes over literals), evaluation, rendering
-/
namespace LE

inductive Op | and | or
deriving DecidableEq, Repr

def Op.dual : Op → Op | .and => .or | .or => .and

/-- an expression over literals of type `A` (instantiated with `Atom`) -/
inductive Expr (A : Type) where
  | atom (a : A)
  | node (op : Op) (args : List (Expr A))
deriving Repr

variable {A : Type}

instance : Inhabited (Expr A) := ⟨.node .and []⟩

def evalOp (op : Op) (bs : List Bool) : Bool :=
  match op with
  | .and => bs.all id
  | .or => bs.any id

/-- truth value under a valuation of the literals -/
def eval (v : A → Bool) : Expr A → Bool
  | .atom a => v a
  | .node op args => evalOp op (args.map (eval v))

/-- `get_literals()`: the literals left to right, with repetitions -/
def literals : Expr A → List A
  | .atom a => [a]
  | .node _ args => (args.map literals).flatten

def Expr.isAtom : Expr A → Bool
  | .atom _ => true
  | _ => false

/-- " AND " / " OR " -/
def Op.text : Op → Str
  | .and => [SPACE, 65, 78, 68, SPACE]
  | .or => [SPACE, 79, 82, SPACE]

mutual
/-- `render(template)` / `__str__`, with `f` the rendering of one literal; every operand that is
    not a literal is parenthesised -/
def renderWith (f : A → Str) : Expr A → Str
  | .atom a => f a
  | .node op args => joinStr op.text (renderArgs f args)
def renderArgs (f : A → Str) : List (Expr A) → List Str
  | [] => []
  | e :: es => renderArg f e :: renderArgs f es
def renderArg (f : A → Str) : Expr A → Str
  | .atom a => f a
  | .node op args => [LPAR] ++ joinStr op.text (renderArgs f args) ++ [RPAR]
end

/-- `str(expression)` -/
def renderStr (e : Expr Atom) : Str := renderWith Atom.render e

/-- rendering of a literal with a template applied to each plain symbol:
    `LicenseWithExceptionSymbol.render` applies it to both parts -/
def Atom.renderT (tmpl : Sym → Str) (wrap : Bool) : Atom → Str
  | .lic a => tmpl a
  | .withE l e =>
    let r := tmpl l ++ [SPACE, 87, 73, 84, 72, SPACE] ++ tmpl e
    if wrap then [LPAR] ++ r ++ [RPAR] else r

/-- `render(template)` -/
def renderT (tmpl : Sym → Str) (e : Expr Atom) : Str := renderWith (Atom.renderT tmpl false) e

/-- `render_as_readable(template)`: WITH pairs in parentheses, except a top-level pair -/
def renderReadable (tmpl : Sym → Str) (e : Expr Atom) : Str :=
  match e with
  | .atom a => Atom.renderT tmpl false a
  | e => renderWith (Atom.renderT tmpl true) e

end LE
