import LicenseExpr.Model.Select
import LicenseExpr.Model.BParse
import LicenseExpr.Gen.Consts
/-!
# Model/Stages — `Licensing.tokenize`: from text to the `(token, string, position)` triples

`get_advanced_tokenizer` / `simple_tokenizer`, `build_symbols_from_unknown_tokens`,
`build_token_groups_for_with_subexpression`, `replace_with_subexpression_by_license_symbol`,
the final loop of `Licensing.tokenize`.
-/
namespace LE

/-- one entry of a symbol table: canonical key, aliases as given, exception flag -/
structure Entry where
  key : Str
  aliases : List Str
  exc : Bool
deriving Repr, DecidableEq

abbrev Table := List Entry

/-- value stored in the matcher -/
inductive TVal where
  | kw (k : Kw)
  | sym (a : Sym)
deriving Repr, DecidableEq

def Trie.addD {V : Type} (c : Cls) (t : Trie V) (name : Str) (v : V) : Trie V :=
  match t.add c name v with
  | .ok t' => t'
  | .refused => t

/-- the additions made for one table entry: the key, then each non-empty alias with blanks collapsed -/
def addEntry (c : Cls) (t : Trie TVal) (e : Entry) : Trie TVal :=
  let t1 := t.addD c e.key (.sym ⟨e.key, e.exc⟩)
  e.aliases.foldl (fun t a => if a.isEmpty then t else t.addD c (collapse c a) (.sym ⟨e.key, e.exc⟩)) t1

/-- `get_advanced_tokenizer`: keywords, then every entry, then `make_automaton` -/
def buildTrie (c : Cls) (T : Table) : Trie TVal :=
  let t0 := KEYWORDS.foldl (fun t k => t.addD c k.spelling (.kw k)) Trie.empty
  (T.foldl (addEntry c) t0).makeAutomaton

/-! the same additions as a list (what `buildTrie` stores, in order; `buildTrie_adds` in Lemmas/Alone) -/

def symVal (e : Entry) : TVal := .sym ⟨e.key, e.exc⟩

/-- the additions `get_advanced_tokenizer` makes for one entry: the key, then each non-empty alias with
    its blanks collapsed -/
def entryAdds (c : Cls) (e : Entry) : List (Str × TVal) :=
  (e.key, symVal e) :: (e.aliases.filter (fun a => !a.isEmpty)).map (fun a => (collapse c a, symVal e))

/-- all additions, in order: the keywords, then the entries -/
def addsOf (c : Cls) (T : Table) : List (Str × TVal) :=
  KEYWORDS.map (fun k => (k.spelling, TVal.kw k)) ++ T.flatMap (entryAdds c)

/-- token value between the stages -/
inductive SVal where
  | none
  | kw (k : Kw)
  | sym (a : Sym)
  | withSym (l e : Sym)
deriving Repr, DecidableEq

structure STok where
  s : Nat
  e : Nat
  str : Str
  val : SVal
deriving Repr, DecidableEq

inductive LErr where
  | expr                                          -- ExpressionError (not a parse error)
  | parse (code : Nat) (str : Str) (pos : Int)    -- ParseError(token_string, position, error_code)
deriving Repr, DecidableEq

def ofTok (t : Tok TVal) : STok :=
  ⟨t.s, t.e, t.str, match t.val with | none => .none | some (.kw k) => .kw k | some (.sym a) => .sym a⟩

/-- default mode: the automaton tokenizer, given the (cached) automaton of the table -/
def advancedTokensW (c : Cls) (tr : Trie TVal) (text : Str) : List STok :=
  (tr.tokenize c text).map ofTok

def advancedTokens (c : Cls) (T : Table) (text : Str) : List STok :=
  advancedTokensW c (buildTrie c T) text

def operatorOf (w : Str) : Option Kw :=
  if w = sAND then some .and else if w = sOR then some .or else if w = sWITH then some .with else none

/-- `known_symbols_lowercase.get(w)`: the last entry whose lower-cased key is `w` -/
def lookupLower (c : Cls) (T : Table) (w : Str) : Option Sym :=
  (T.reverse.find? (fun e => c.fold e.key = w)).map (fun e => ⟨e.key, e.exc⟩)

/-- simple mode: one token per non-blank piece (blank tokens are dropped by the next stages) -/
def simpleTokens (c : Cls) (T : Table) : List Piece → Except LErr (List STok)
  | [] => .ok []
  | p :: ps =>
    let one : Except LErr STok :=
      match p.kind with
      | .lpar => .ok ⟨p.start, p.stop, p.text, .kw .lpar⟩
      | .rpar => .ok ⟨p.start, p.stop, p.text, .kw .rpar⟩
      | _ =>
        let w := c.fold p.text
        match operatorOf w with
        | some k => .ok ⟨p.start, p.stop, p.text, .kw k⟩
        | none =>
          match lookupLower c T w with
          | some a => .ok ⟨p.start, p.stop, p.text, .sym a⟩
          | none =>
            match normKey c p.text with
            | some k => .ok ⟨p.start, p.stop, p.text, .sym ⟨k, false⟩⟩
            | none => .error .expr
    match one with
    | .error e => .error e
    | .ok t => (simpleTokens c T ps).map (fun r => t :: r)

/-- the unknown symbol made of a run of unmatched words -/
def mkUnknown (c : Cls) (st en : Nat) (strs : List Str) : Except LErr STok :=
  let string := joinStr [SPACE] strs
  match normKey c string with
  | none => .error .expr
  | some k => .ok ⟨st, en, string, .sym ⟨k, false⟩⟩

def flushUnknown (c : Cls) : Option (Nat × Nat × List Str) → Except LErr (List STok)
  | none => .ok []
  | some (st, en, strs) => (mkUnknown c st en strs).map (fun t => [t])

/-- `build_symbols_from_unknown_tokens` on a stream without blank tokens -/
def mergeUnknown (c : Cls) : Option (Nat × Nat × List Str) → List STok → Except LErr (List STok)
  | acc, [] => flushUnknown c acc
  | acc, t :: ts =>
    match t.val with
    | .none =>
      (match acc with
       | none => mergeUnknown c (some (t.s, t.e, [t.str])) ts
       | some (st, _, strs) => mergeUnknown c (some (st, t.e, strs ++ [t.str])) ts)
    | _ =>
      match flushUnknown c acc with
      | .error e => .error e
      | .ok pre =>
        match mergeUnknown c none ts with
        | .error e => .error e
        | .ok rest => .ok (pre ++ t :: rest)

def symOf : SVal → Option Sym | .sym a => some a | _ => none
def isWithV : SVal → Bool | .kw .with => true | _ => false

/-- a token that is a group on its own -/
def single (strict : Bool) (a : STok) (cont : Except LErr (List STok)) : Except LErr (List STok) :=
  match a.val with
  | .kw .with => .error (.parse Gen.PARSE_INVALID_EXPRESSION a.str a.s)
  | .sym l => if strict && l.exc then .error (.parse Gen.PARSE_INVALID_EXCEPTION a.str a.s) else cont.map (fun r => a :: r)
  | _ => cont.map (fun r => a :: r)

/-- `build_token_groups_for_with_subexpression` + `replace_with_subexpression_by_license_symbol`:
    greedy left-to-right grouping of `sym WITH sym`, with the strict role checks -/
def groupWith (c : Cls) (strict : Bool) : List STok → Except LErr (List STok)
  | [] => .ok []
  | a :: w :: b :: rest =>
    match symOf a.val, isWithV w.val, symOf b.val with
    | some l, true, some e =>
      if strict && l.exc then .error (.parse Gen.PARSE_INVALID_EXCEPTION a.str a.s)
      else if strict && !e.exc then .error (.parse Gen.PARSE_INVALID_SYMBOL_AS_EXCEPTION b.str b.s)
      else (groupWith c strict rest).map (fun r =>
        ⟨a.s, b.e, a.str ++ [SPACE] ++ stripStr c w.str ++ [SPACE] ++ b.str, .withSym l e⟩ :: r)
    | _, _, _ => single strict a (groupWith c strict (w :: b :: rest))
  | a :: rest => single strict a (groupWith c strict rest)

/-- a triple handed to the boolean parser -/
structure PTok where
  t : BP.Tok Atom
  str : Str
  pos : Nat
deriving Repr

def toPTok (t : STok) : Except LErr PTok :=
  match t.val with
  | .sym a => .ok ⟨.sym (.lic a), t.str, t.s⟩
  | .withSym l e => .ok ⟨.sym (.withE l e), t.str, t.s⟩
  | .kw .and => .ok ⟨.and, t.str, t.s⟩
  | .kw .or => .ok ⟨.or, t.str, t.s⟩
  | .kw .lpar => .ok ⟨.lpar, t.str, t.s⟩
  | .kw .rpar => .ok ⟨.rpar, t.str, t.s⟩
  | .kw .with => .error (.parse Gen.PARSE_UNKNOWN_TOKEN t.str t.s)      -- unreachable after grouping
  | .none => .error (.parse Gen.PARSE_INVALID_EXPRESSION [] (-1))       -- unreachable after merging

def toPToks : List STok → Except LErr (List PTok)
  | [] => .ok []
  | t :: ts =>
    match toPTok t with
    | .error e => .error e
    | .ok p => (toPToks ts).map (fun r => p :: r)

/-- the tokens of the first stage, either tokenizer; `tr` is the cached automaton of the table -/
def rawTokensW (c : Cls) (T : Table) (tr : Trie TVal) (simple : Bool) (text : Str) : Except LErr (List STok) :=
  if simple then simpleTokens c T (wordPieces c text) else .ok (advancedTokensW c tr text)

/-- `list(Licensing.tokenize(text, strict, simple))` with the cached automaton `tr` -/
def ltokW (c : Cls) (T : Table) (tr : Trie TVal) (simple strict : Bool) (text : Str) : Except LErr (List PTok) := do
  let raw ← rawTokensW c T tr simple text
  let merged ← mergeUnknown c none raw
  let grouped ← groupWith c strict merged
  toPToks grouped

def rawTokens (c : Cls) (T : Table) (simple : Bool) (text : Str) : Except LErr (List STok) :=
  rawTokensW c T (buildTrie c T) simple text

/-- `list(Licensing.tokenize(text, strict, simple))` on a Licensing whose automaton is built from its table -/
def ltok (c : Cls) (T : Table) (simple strict : Bool) (text : Str) : Except LErr (List PTok) :=
  ltokW c T (buildTrie c T) simple strict text

end LE
