import LicenseExpr.Model.Simplify
/-!
# Model/Dedup — `Licensing.dedup`, `combine_expressions`, `ordered_unique`, the listings
-/
namespace LE

/-- the loop `for x in expressions: firsts.setdefault(str(x), x)`: `firsts` as the list of its items
    in insertion order -/
def uniqGo (firsts : List (Str × Expr Atom)) : List (Expr Atom) → List (Str × Expr Atom)
  | [] => firsts
  | x :: xs =>
    let k := renderStr x
    if firsts.any (fun kv => kv.1 == k) then uniqGo firsts xs else uniqGo (firsts ++ [(k, x)]) xs

/-- `list(firsts.values())`: one per rendering, the first of those that render alike, in order of
    first occurrence -/
def uniqByRender (l : List (Expr Atom)) : List (Expr Atom) := (uniqGo [] l).map (·.2)

/-- the tail of `combine_expressions` once its inputs are expressions -/
def combineCore (op : Op) (unique : Bool) (l : List (Expr Atom)) : Option (Expr Atom) :=
  let u := if unique then uniqByRender l else l
  match u with
  | [] => none
  | [x] => some x
  | u => some (.node op u)

def combineU (op : Op) (l : List (Expr Atom)) : Expr Atom :=
  match uniqByRender l with
  | [x] => x
  | u => .node op u

/-- `Licensing.dedup` on a parsed expression -/
def dedupE : Expr Atom → Expr Atom
  | .atom a => .atom a
  | .node op args => combineU op (args.attach.map (fun a => dedupE a.1))
termination_by e => sizeOf e
decreasing_by
  simp_wf
  have := List.sizeOf_lt_of_mem a.2
  omega

/-- `ordered_unique` -/
def orderedUnique {β : Type} [DecidableEq β] : List β → List β
  | [] => []
  | x :: xs => x :: (orderedUnique xs).filter (fun y => y ≠ x)

/-- `ordered_unique` as the source writes it: scan with the list of items kept so far -/
def orderedUniqueAcc {β : Type} [DecidableEq β] (acc : List β) : List β → List β
  | [] => acc
  | x :: xs => if acc.contains x then orderedUniqueAcc acc xs else orderedUniqueAcc (acc ++ [x]) xs

/-- `license_symbols(expr, unique, decompose)`; decomposed parts are listed as plain literals -/
def licenseSymbols (e : Expr Atom) (unique decompose : Bool) : List Atom :=
  let syms := literals e
  let syms := if decompose then syms.flatMap (fun a => a.decompose.map Atom.lic) else syms
  if unique then orderedUniqueAcc [] syms else syms

def atomKey : Atom → Str
  | .lic a => a.key
  | .withE l e => l.key ++ [SPACE, 87, 73, 84, 72, SPACE] ++ e.key

/-- `_keys(symbols, unique)` -/
def keysOf (syms : List Atom) (unique : Bool) : List Str :=
  let ks := syms.map atomKey
  if unique then orderedUniqueAcc [] ks else ks

/-- `license_keys(expr, unique)` -/
def licenseKeys (e : Expr Atom) (unique : Bool) : List Str :=
  keysOf (licenseSymbols e false true) unique

/-- `unknown_license_symbols(expr, unique)`: `known` are the keys of `known_symbols` -/
def unknownSymbols (known : List Str) (e : Expr Atom) (unique : Bool) : List Atom :=
  (licenseSymbols e unique true).filter (fun a => !known.contains (atomKey a))

/-- `unknown_license_keys(expr, unique)` -/
def unknownKeys (known : List Str) (e : Expr Atom) (unique : Bool) : List Str :=
  keysOf (unknownSymbols known e false) unique

/-- `primary_license_symbol(expr, decompose)` -/
def primarySymbol (e : Expr Atom) (decompose : Bool) : Option Atom :=
  (licenseSymbols e true decompose).head?

/-- `primary_license_key(expr)` -/
def primaryKey (e : Expr Atom) : Option Str := (primarySymbol e true).map atomKey

end LE
