import LicenseExpr.Model.Stages
/-!
# Model/Table — `validate_symbols` (what `Licensing.__init__` rejects) and the index loaders
-/
namespace LE

/-- `' '.join(t for t in get_tokens(alias) if t.strip())`: the alias as the tokenizer reads it — its folded
    words (parentheses are words of their own), joined by single blanks -/
def normAlias (c : Cls) (a : Str) : Str := joinStr [SPACE] (wordsOf c a)

/-- the bindings `(alias, keyl)` that one entry writes into `seen_aliases`: its non-empty
    normalised aliases and its own lower-cased key -/
def entryBindings (c : Cls) (e : Entry) : List (Str × Str) :=
  let keyl := c.fold (stripStr c e.key)
  ((e.aliases.map (normAlias c)).filter (fun a => !a.isEmpty) ++ [keyl]).map (fun a => (a, keyl))

/-- the overwritten dictionary as its history, newest first; `lookup` is the first hit -/
def lookupB (m : List (Str × Str)) (a : Str) : Option Str := (m.find? (fun p => p.1 = a)).map (·.2)

/-- one `for alias in aliases` step: flag when the alias is held by another key -/
def stepB (st : List (Str × Str) × Bool) (b : Str × Str) : List (Str × Str) × Bool :=
  (b :: st.1, st.2 || (match lookupB st.1 b.1 with | some k => decide (k ≠ b.2) | none => false))

structure VState where
  seenKeys : List Str
  hist : List (Str × Str)
  dupKey : Bool
  dupAlias : Bool
  kwAlias : Bool
  kwKey : Bool

/-- one iteration of the loop of `validate_symbols` -/
def stepEntry (c : Cls) (st : VState) (e : Entry) : VState :=
  let keyl := c.fold (stripStr c e.key)
  let bs := entryBindings c e
  let r := bs.foldl stepB (st.hist, st.dupAlias)
  { seenKeys := keyl :: st.seenKeys
    hist := r.1
    dupKey := st.dupKey || st.seenKeys.contains keyl
    dupAlias := r.2
    kwAlias := st.kwAlias || bs.any (fun b => keywordStrings.contains b.1)
    kwKey := st.kwKey || keywordStrings.contains keyl }

def validateState (c : Cls) (T : Table) : VState :=
  T.foldl (stepEntry c) ⟨[], [], false, false, false, false⟩

/-- `validate_symbols(symbols)[1] != []`: the table is refused with ValueError -/
def tableRefused (c : Cls) (T : Table) : Bool :=
  let s := validateState c T
  s.dupKey || s.dupAlias || s.kwAlias || s.kwKey

/-- keys of `known_symbols` -/
def knownKeys (T : Table) : List Str := T.map (·.key)

/-! ### the bundled index -/

/-- one record of the license index JSON, as far as the loaders read it -/
structure IndexRec where
  licenseKey : Str
  spdxKey : Str               -- `''` when absent / null
  otherSpdx : List Str
  exc : Bool
  deprecated : Bool
deriving Repr

/-- `build_licensing` before `Licensing(...)`: ScanCode keys of the non-deprecated records -/
def scancodeEntries (idx : List IndexRec) : List (Str × List Str × Bool) :=
  (idx.filter (fun r => !r.deprecated)).map (fun r => (r.licenseKey, [], r.exc))

/-- `build_spdx_licensing` before `Licensing(...)` -/
def spdxEntries (idx : List IndexRec) : List (Str × List Str × Bool) :=
  (idx.filter (fun r => !r.spdxKey.isEmpty && !r.deprecated)).map (fun r => (r.spdxKey, r.otherSpdx, r.exc))

/-- `LicenseSymbol(**l)` for each, or `none` if some key is refused -/
def toTable (c : Cls) : List (Str × List Str × Bool) → Option Table
  | [] => some []
  | (k, al, x) :: rest =>
    match normKey c k, toTable c rest with
    | some k', some t => some (⟨k', al, x⟩ :: t)
    | _, _ => none

end LE
