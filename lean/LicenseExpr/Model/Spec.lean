import LicenseExpr.Model.Api
/-!
# Model/Spec — the properties as decidable relations between an input and an observed output

These are the definitions the theorems of `Props/` are about. The driver evaluates them on the
*implementation's* outputs, so the oracle of the failing-input search is the statement itself.
-/
namespace LE

/-! ### C16: occurrences by brute force -/

/-- the folded words of the pieces consumed so far (`seen` is newest first), in text order -/
def wordsOfSeen (c : Cls) (seen : List Piece) : List Word := (seen.map (fun q => c.fold q.text)).reverse

/-- all occurrences of stored names in the word sequence of `text`: for every word position and every
    suffix of the words read so far, longest first, report the stored name with exactly those words -/
def iterSpecGo {V : Type} (c : Cls) (t : Trie V) (text : Str) : List Piece → List Piece → List (Tok V)
  | _, [] => []
  | seen, p :: ps =>
    let seen' := p :: seen
    let hits := (tails (wordsOfSeen c seen')).filterMap (fun suf => t.outputAt suf)
    hits.filterMap (fun e => (startBack seen' e.words.length).map
      (fun st => (⟨st, p.stop, slice text st p.stop, some e.val⟩ : Tok V))) ++ iterSpecGo c t text seen' ps

def iterSpec {V : Type} (c : Cls) (t : Trie V) (text : Str) : List (Tok V) :=
  iterSpecGo c t text [] (wordPieces c text)

/-! ### C09: the reference deduplication -/

def eraseDupsByRender (seen : List Str) : List (Expr Atom) → List (Expr Atom)
  | [] => []
  | x :: xs =>
    let k := renderStr x
    if seen.contains k then eraseDupsByRender seen xs else x :: eraseDupsByRender (seen ++ [k]) xs

/-- at every node, leaves up: drop each operand whose rendering repeats an earlier sibling, replace a
    node left with one operand by it -/
def dedupRef : Expr Atom → Expr Atom
  | .atom a => .atom a
  | .node op args =>
    match eraseDupsByRender [] (args.attach.map (fun a => dedupRef a.1)) with
    | [x] => x
    | u => .node op u
termination_by e => sizeOf e
decreasing_by
  simp_wf
  have := List.sizeOf_lt_of_mem a.2
  omega

/-! ### C06: truth tables -/

/-- all assignments of the listed atoms, as lists of the atoms that are true -/
def assignments : List Atom → List (List Atom)
  | [] => [[]]
  | a :: as => (assignments as).flatMap (fun s => [s, a :: s])

def truthTable (atoms : List Atom) (e : Expr Atom) : Str :=
  (assignments atoms).map (fun s => if eval (fun a => s.contains a) e then 49 else 48)

/-! ### C07: the normal form, decidable -/

def distinctB {A : Type} [DecidableEq A] : List (Expr A) → Bool
  | [] => true
  | x :: xs => xs.all (fun y => !eqE y x) && distinctB xs

def sortedB {A : Type} (lt : Expr A → Expr A → Bool) : List (Expr A) → Bool
  | [] => true
  | [_] => true
  | a :: b :: r => !lt b a && sortedB lt (b :: r)

def isOpNode {A : Type} (op : Op) : Expr A → Bool
  | .node o _ => o == op
  | .atom _ => false

def nfB {A : Type} [DecidableEq A] (lt : Expr A → Expr A → Bool) : Expr A → Bool
  | .atom _ => true
  | .node op l => decide (2 ≤ l.length) && l.attach.all (fun a => nfB lt a.1)
      && l.all (fun a => !isOpNode op a) && distinctB l && sortedB lt l
termination_by e => sizeOf e
decreasing_by
  simp_wf
  have := List.sizeOf_lt_of_mem a.2
  omega

/-! ### C14: ambiguity, stated without reference to an order of the entries -/

def entryKeyl (c : Cls) (e : Entry) : Str := c.fold (stripStr c e.key)

/-- every (name, owner key) pair of the table: each non-empty alias, folded with blanks collapsed, and the
    folded key itself, bound to the folded key of its entry -/
def allBindings (c : Cls) (T : Table) : List (Str × Str) := T.flatMap (entryBindings c)

/-- some name is bound to two different keys -/
def clashB (h : List (Str × Str)) : Bool := h.any (fun p => h.any (fun q => p.1 == q.1 && p.2 != q.2))

def nodupB : List Str → Bool
  | [] => true
  | x :: xs => !xs.contains x && nodupB xs

/-- a table is ambiguous when two entries have the same key ignoring case, or some name (alias or key,
    ignoring case and spacing) belongs to two different keys — an alias shared by two licenses, or an alias
    equal to the key of another license — or an alias or key is a bare operator word or parenthesis -/
def ambiguousB (c : Cls) (T : Table) : Bool :=
  !nodupB (T.map (entryKeyl c)) || clashB (allBindings c T)
  || (allBindings c T).any (fun b => keywordStrings.contains b.1)
  || T.any (fun e => keywordStrings.contains (entryKeyl c e))

/-! ### C15: the instance hypothesis on an index-built table -/

def entryNames (c : Cls) (e : Entry) : List Str := e.key :: e.aliases.filter (fun a => !(wordsOf c a).isEmpty)

/-- the word sequences the automaton of the table stores, with their values, in order -/
def storedW (c : Cls) (T : Table) : List (List Word × TVal) := (addsOf c T).map (fun a => (wordsOf c a.1, a.2))

/-- every name stored under the word sequence `ws` stands for the license `s` (and there is one) -/
def ownedW (W : List (List Word × TVal)) (ws : List Word) (s : Sym) : Bool :=
  W.any (fun a => a.1 == ws) && W.all (fun a => !(a.1 == ws) || a.2 == .sym s)

/-- unambiguous in the matcher's own terms: whatever reads like a name of a license is a name of that
    license only (no other license and no keyword has a name with the same folded words) -/
def namesUniqueB (c : Cls) (T : Table) : Bool :=
  let W := storedW c T
  W.all (fun a => a.1.isEmpty || (match a.2 with | .sym s => ownedW W a.1 s | .kw _ => true))

def indexOK (c : Cls) (T : Table) : Bool :=
  !tableRefused c T &&
  T.all (fun e => (entryNames c e).all (fun n =>
    n.all c.isKeyChar && !keywordStrings.contains (c.fold (collapse c n)) && !(wordsOf c n).isEmpty
      && (wordsOf c n).all (fun w => !keywordStrings.contains w))) &&
  namesUniqueB c T

/-! ### C01: word accounting on the triples handed to the parser -/

def unfoldedWords (c : Cls) (s : Str) : List Str := (wordPieces c s).map (·.text)

def namesOf (c : Cls) (T : Table) (simple : Bool) (a : Sym) : List (List Str) :=
  (T.filter (fun e => e.key == a.key && e.exc == a.exc)).flatMap (fun e =>
    wordsOf c e.key :: (if simple then [] else (e.aliases.filter (fun x => !x.isEmpty)).map (fun x => wordsOf c (collapse c x))))

/-- a plain symbol stands for the words `ws` (unfolded) -/
def standsForSym (c : Cls) (T : Table) (simple : Bool) (a : Sym) (ws : List Str) : Bool :=
  (namesOf c T simple a).contains (ws.map c.fold) || (!a.exc && ws == unfoldedWords c a.key)

def standsFor (c : Cls) (T : Table) (simple : Bool) (p : PTok) : Bool :=
  let ws := unfoldedWords c p.str
  match p.t with
  | .and => ws.map c.fold == [sAND]
  | .or => ws.map c.fold == [sOR]
  | .lpar => ws == [sLPAR]
  | .rpar => ws == [sRPAR]
  | .sym (.lic a) => standsForSym c T simple a ws
  | .sym (.withE l e) =>
    (List.range ws.length).any (fun i =>
      (ws[i]?).map c.fold == some sWITH && standsForSym c T simple l (ws.take i) && standsForSym c T simple e (ws.drop (i+1)))

def ptokAtom (p : PTok) : Option Atom := match p.t with | .sym a => some a | _ => none

/-- `none`: holds; `some clause`: the clause that fails -/
def specC01 (c : Cls) (T : Table) (simple : Bool) (text : Str) (toks : List PTok) (tree : Option (Expr Atom)) : Option String :=
  if toks.flatMap (fun p => wordsOf c p.str) != wordsOf c text then some "words"
  else if !(toks.all (standsFor c T simple)) then some "standsfor"
  else match tree with
    | some e => if literals e == toks.filterMap ptokAtom then none else some "literals"
    | none => none

/-! ### C17: disjoint, exactly positioned, covering tokens -/

def overlapsT {V : Type} (a b : Tok V) : Bool := a.s ≤ b.e && b.s ≤ a.e

def pairwiseB {β : Type} (r : β → β → Bool) : List β → Bool
  | [] => true
  | x :: xs => xs.all (r x) && pairwiseB r xs

def sameSpan {V W : Type} (a : Tok V) (b : Tok W) : Bool := a.s == b.s && a.e == b.e

/-- `ms`: all matches (occurrences of stored names) in the text; `ts`: the produced tokens -/
def specC17 {V : Type} [BEq V] (c : Cls) (text : Str) (ms : List (Tok V)) (ts : List (Tok V)) : Option String :=
  let ps := wordPieces c text
  if !(pairwiseB (fun a b => decide (a.e < b.s)) ts) then some "ordered_disjoint"
  else if !(ts.all (fun t => t.str == slice text t.s t.e && decide (t.s ≤ t.e))) then some "slice"
  else if !(ps.all (fun p => (ts.filter (fun t => t.s ≤ p.start && p.stop ≤ t.e)).length == 1)) then some "cover_once"
  else if !(ts.all (fun t => ps.any (fun p => p.start == t.s) && ps.any (fun p => p.stop == t.e))) then some "whole_words"
  else if !(ts.all (fun t => match t.val with
      | some v => ms.any (fun m => sameSpan m t && m.val == some v)
      | none => ps.any (fun p => p.start == t.s && p.stop == t.e))) then some "values"
  else
    let kept (m : Tok V) : Bool := ts.any (fun t => sameSpan m t && t.val.isSome)
    -- the leftmost of the longest matches is kept
    let longest := ms.filter (fun m => ms.all (fun x => x.len < m.len || (x.len == m.len && m.s ≤ x.s)))
    if !(longest.all kept) then some "leftmost_longest"
    -- a match that touches no other match is kept
    else if !((ms.filter (fun m => (ms.filter (fun x => overlapsT m x)).length == 1)).all kept) then some "isolated"
    -- of two matches that overlap only each other the longer (the earlier on a tie) is kept and the words of
    -- the other that lie outside it reappear as unmatched tokens
    else
      let pairOK := ms.all (fun m => ms.all (fun x =>
        if sameSpan m x then true
        else if overlapsT m x && (ms.filter (fun y => overlapsT m y)).length == 2 && (ms.filter (fun y => overlapsT x y)).length == 2 then
          let win := if m.len > x.len || (m.len == x.len && m.s ≤ x.s) then m else x
          let lose := if m.len > x.len || (m.len == x.len && m.s ≤ x.s) then x else m
          kept win && ps.all (fun p =>
            if lose.s ≤ p.start && p.stop ≤ lose.e && !(win.s ≤ p.start && p.stop ≤ win.e) then
              ts.any (fun t => t.s == p.start && t.e == p.stop && t.val.isNone)
            else true)
        else true))
      if pairOK then none else some "pair"

end LE
