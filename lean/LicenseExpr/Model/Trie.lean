import LicenseExpr.Model.Lex
/-!
# Model/Trie — `_pyahocorasick.Trie`: add / get / exists / is_prefix / items / make_automaton / iter

Nodes are *paths* (`List Word`): the node reached from the root by those words. Children and
outputs are computed from the stored entries; failure links are defined by the breadth-first
recurrence of `make_automaton` (`failN`), and `iter` is the search loop over them.
-/
namespace LE

abbrev Word := Str

/-- a stored name: the string as given, its folded words, its value -/
structure TEntry (V : Type) where
  name : Str
  words : List Word
  val : V
deriving Repr

structure Trie (V : Type) where
  entries : List (TEntry V)      -- insertion order; re-insertion replaces in place
  known : List Word              -- `_known_tokens`
  converted : Bool
deriving Repr

def Trie.empty {V : Type} : Trie V := ⟨[], [], false⟩

def Trie.names {V : Type} (t : Trie V) : List (List Word) := t.entries.map (·.words)

/-- a path is a node iff it is the root or a prefix of a stored name -/
def isNodeB (N : List (List Word)) (p : List Word) : Bool := p.isEmpty || N.any (fun n => p.isPrefixOf n)

def replaceEntry {V : Type} (e : TEntry V) : List (TEntry V) → List (TEntry V)
  | [] => [e]
  | x :: xs => if x.words = e.words then e :: xs else x :: replaceEntry e xs

def addKnown (known : List Word) : List Word → List Word
  | [] => known
  | w :: ws => if known.contains w then addKnown known ws else addKnown (known ++ [w]) ws

inductive AddResult (V : Type) where
  | ok (t : Trie V)
  | refused                       -- `raise Exception('... cannot be modified')`

/-- `Trie.add(name, val)`; an empty name or a name without any word is ignored -/
def Trie.add {V : Type} (c : Cls) (t : Trie V) (name : Str) (val : V) : AddResult V :=
  if t.converted then .refused
  else if name.isEmpty then .ok t
  else
    let ws := wordsOf c name
    if ws.isEmpty then .ok t
    else .ok { t with entries := replaceEntry ⟨name, ws, val⟩ t.entries, known := addKnown t.known ws }

/-- walk from the root along `ws`. After `make_automaton` the root has a self-loop for every known
    word that starts no name (observation O1 of DESIGN.md) -/
def walkFrom {V : Type} (t : Trie V) : List Word → List Word → Option (List Word)
  | p, [] => some p
  | p, w :: ws =>
    if isNodeB t.names (p ++ [w]) then walkFrom t (p ++ [w]) ws
    else if t.converted && p.isEmpty && t.known.contains w then walkFrom t [] ws
    else none

/-- `__get_node` -/
def Trie.getNode {V : Type} (c : Cls) (t : Trie V) (name : Str) : Option (List Word) :=
  if name.isEmpty then none else walkFrom t [] (wordsOf c name)

def Trie.outputAt {V : Type} (t : Trie V) (p : List Word) : Option (TEntry V) :=
  if p.isEmpty then none else t.entries.find? (fun e => e.words = p)

/-- `get`: the stored `(name, value)` or nothing (KeyError / default) -/
def Trie.get {V : Type} (c : Cls) (t : Trie V) (name : Str) : Option (Str × V) :=
  match t.getNode c name with
  | none => none
  | some p => (t.outputAt p).map (fun e => (e.name, e.val))

def Trie.exists_ {V : Type} (c : Cls) (t : Trie V) (name : Str) : Bool := (t.get c name).isSome

def Trie.isPrefix {V : Type} (c : Cls) (t : Trie V) (name : Str) : Bool := (t.getNode c name).isSome

def Trie.items {V : Type} (t : Trie V) : List (Str × V) := t.entries.map (fun e => (e.name, e.val))

def Trie.makeAutomaton {V : Type} (t : Trie V) : Trie V := { t with converted := true }

/-! ### failure links and the search loop -/

/-- `while w not in state.children: state = state.fail` then `state.children[w]`;
    the root has a child (possibly itself) for every known word -/
def follow (N : List (List Word)) (failF : List Word → List Word) : Nat → List Word → Word → List Word
  | 0, _, _ => []
  | fuel+1, s, w =>
    if isNodeB N (s ++ [w]) then s ++ [w]
    else if s = [] then []
    else follow N failF fuel (failF s) w

/-- fail links as `make_automaton` computes them, breadth first: depth ≤ 1 fails to the root,
    deeper nodes follow the parent's fail link. `n` bounds the depth. -/
def failN (N : List (List Word)) : Nat → List Word → List Word
  | 0, _ => []
  | n+1, p =>
    match p.dropLast, p.getLast? with
    | [], _ => []
    | _, none => []
    | q@(_ :: _), some w => follow N (failN N n) (n+1) (failN N n q) w

/-- the fail chain from a state: `match = state; while match is not nil: …; match = match.fail` -/
def chain (failF : List Word → List Word) : Nat → List Word → List (List Word)
  | 0, _ => []
  | k+1, s => s :: (if s = [] then [] else chain failF k (failF s))

/-- all suffixes of a word list, longest first (the empty one last) -/
def tails : List Word → List (List Word)
  | [] => [[]]
  | a :: l => (a :: l) :: tails l

def maxDepth (N : List (List Word)) : Nat := N.foldl (fun m n => max m n.length) 0

/-- a token as `Trie.iter` yields it -/
structure Tok (V : Type) where
  s : Nat
  e : Nat                 -- inclusive
  str : Str
  val : Option V          -- `none`: unmatched
deriving Repr, DecidableEq

def Tok.len {V : Type} (t : Tok V) : Nat := t.e + 1 - t.s

/-- start of the `n`-th most recent piece (`starts[-n]`), `seen` newest first -/
def startBack (seen : List Piece) (n : Nat) : Option Nat :=
  match n with
  | 0 => none
  | n+1 => (seen[n]?).map (·.start)

/-- the search loop of `Trie.iter(text, include_unmatched, include_space=False)` over the non-blank
    pieces. `seen`: pieces consumed so far, newest first; `state`: current node. -/
def iterGo {V : Type} (c : Cls) (t : Trie V) (text : Str) (unm : Bool) (depth : Nat) :
    List Piece → List Word → List Piece → List (Tok V)
  | _, _, [] => []
  | seen, state, p :: ps =>
    let w := c.fold p.text
    let seen' := p :: seen
    if !t.known.contains w then
      (if unm then [⟨p.start, p.stop, slice text p.start p.stop, none⟩] else []) ++
        iterGo c t text unm depth seen' [] ps
    else
      let N := t.names
      let failF := failN N depth
      let state' := follow N failF (depth + 1) state w
      let outs := (chain failF (depth + 1) state').filterMap (fun q => t.outputAt q)
      let toks : List (Tok V) := outs.filterMap (fun e =>
        (startBack seen' e.words.length).map (fun st => ⟨st, p.stop, slice text st p.stop, some e.val⟩))
      let toks' := if toks.isEmpty && unm then [⟨p.start, p.stop, slice text p.start p.stop, none⟩] else toks
      toks' ++ iterGo c t text unm depth seen' state' ps

def Trie.iter {V : Type} (c : Cls) (t : Trie V) (text : Str) (unm : Bool) : List (Tok V) :=
  iterGo c t text unm (maxDepth t.names) [] [] (wordPieces c text)

end LE
