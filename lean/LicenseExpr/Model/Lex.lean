import LicenseExpr.Model.Basic
/-!
# Model/Lex — `_tokenizer.split` / `get_tokens(lower=False)` / `_simple_tokenizer`

A text is split into maximal runs of word characters, maximal runs of blanks, and single
parentheses; every piece keeps its start position in the text.
-/
namespace LE

inductive Kind | word | blank | lpar | rpar
deriving DecidableEq, Repr

def kindOf (c : Cls) (x : Nat) : Kind :=
  if x = LPAR then .lpar else if x = RPAR then .rpar else if c.isSpace x then .blank else .word

structure Piece where
  start : Nat
  text : Str
  kind : Kind
deriving Repr, DecidableEq

/-- `go c pos cur s`: `cur` is the run being accumulated (its start, reversed text, kind) -/
def lexGo (c : Cls) : Nat → Option (Nat × Str × Kind) → Str → List Piece
  | _, none, [] => []
  | _, some (st, r, k), [] => [⟨st, r.reverse, k⟩]
  | pos, none, x :: xs => lexGo c (pos+1) (some (pos, [x], kindOf c x)) xs
  | pos, some (st, r, k), x :: xs =>
    let kx := kindOf c x
    if kx = k ∧ (k = .word ∨ k = .blank) then lexGo c (pos+1) (some (st, x :: r, k)) xs
    else ⟨st, r.reverse, k⟩ :: lexGo c (pos+1) (some (pos, [x], kx)) xs

/-- all pieces of a text, blanks included: `get_tokens(s, lower=False)` with positions -/
def pieces (c : Cls) (s : Str) : List Piece := lexGo c 0 none s

/-- the non-blank pieces: words and single parentheses -/
def wordPieces (c : Cls) (s : Str) : List Piece := (pieces c s).filter (fun p => p.kind != .blank)

/-- inclusive end position -/
def Piece.stop (p : Piece) : Nat := p.start + p.text.length - 1

/-- the folded words of a text: `[t for t in get_tokens(s) if t.strip()]` -/
def wordsOf (c : Cls) (s : Str) : List Str := (wordPieces c s).map (fun p => c.fold p.text)

/-- `s.strip() == ''` -/
def isBlank (c : Cls) (s : Str) : Bool := s.all c.isSpace

/-- slice `s[a : b+1]` -/
def slice (s : Str) (a b : Nat) : Str := (s.drop a).take (b + 1 - a)

end LE
