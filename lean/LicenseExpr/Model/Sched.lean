/-!
# Model/Sched — the first-use protocol of `get_advanced_tokenizer`, any number of threads,
any schedule; one step = one group of source lines.
-/
namespace LE
namespace SC

/-- abstract progress of a `Trie` under construction: `added` names out of `n`, automaton made or not -/
structure Build where
  added : Nat
  converted : Bool
deriving DecidableEq, Repr

def Build.complete (n : Nat) (b : Build) : Prop := b.added = n ∧ b.converted = true

instance (n : Nat) (b : Build) : Decidable (b.complete n) := by unfold Build.complete; infer_instance

inductive PC where
  | start                      -- about to read `self.advanced_tokenizer`
  | alloc                      -- saw None: about to create the Trie (local)
  | adding (r : Nat)           -- filling local trie r
  | making (r : Nat)           -- about to call make_automaton()
  | publish (r : Nat)          -- about to assign self.advanced_tokenizer = tokenizer
  | use (r : Nat)              -- about to tokenize with trie r
  | done (b : Build)           -- finished; `b` is the state of the trie it tokenized with
deriving DecidableEq, Repr

structure St where
  shared : Option Nat          -- self.advanced_tokenizer
  heap : Nat → Build
  next : Nat                   -- allocation counter
  pc : Nat → PC                -- per thread

def upd {β : Type} (f : Nat → β) (i : Nat) (v : β) : Nat → β := fun j => if j = i then v else f j

/-- the protocol of the source: build into a local, publish after `make_automaton()` -/
def step (n : Nat) (s : St) (i : Nat) : St :=
  match s.pc i with
  | .start => match s.shared with
    | some r => { s with pc := upd s.pc i (.use r) }
    | none => { s with pc := upd s.pc i .alloc }
  | .alloc => { s with heap := upd s.heap s.next ⟨0, false⟩, next := s.next + 1,
                       pc := upd s.pc i (if n = 0 then .making s.next else .adding s.next) }
  | .adding r =>
    let b := s.heap r
    let b' : Build := ⟨b.added + 1, b.converted⟩
    { s with heap := upd s.heap r b', pc := upd s.pc i (if b'.added = n then .making r else .adding r) }
  | .making r => { s with heap := upd s.heap r ⟨(s.heap r).added, true⟩, pc := upd s.pc i (.publish r) }
  | .publish r => { s with shared := some r, pc := upd s.pc i (.use r) }
  | .use r => { s with pc := upd s.pc i (.done (s.heap r)) }
  | .done _ => s

def init : St := ⟨none, fun _ => ⟨0, false⟩, 0, fun _ => .start⟩

def run (n : Nat) (sched : List Nat) : St := sched.foldl (step n) init

/-- the protocol before the repair: the empty trie is published first, then filled -/
def stepOld (n : Nat) (s : St) (i : Nat) : St :=
  match s.pc i with
  | .alloc => { s with heap := upd s.heap s.next ⟨0, false⟩, next := s.next + 1, shared := some s.next, pc := upd s.pc i (if n = 0 then .making s.next else .adding s.next) }
  | .making r => { s with heap := upd s.heap r ⟨(s.heap r).added, true⟩, pc := upd s.pc i (.use r) }
  | _ => step n s i

def runOld (n : Nat) (sched : List Nat) : St := sched.foldl (stepOld n) init

end SC
end LE
