import LicenseExpr.Model.Api
/-!
# Model/World — several `Licensing` instances, each with its lazily built, cached tokenizer

`self.advanced_tokenizer` is `None` until the first non-simple tokenization, then the automaton built
from `self.known_symbols`. The class-level cross references of `BooleanAlgebra.__init__` and the
module-level default `Licensing` of `combine_expressions` carry no table-dependent data and are not
state of this model.
-/
namespace LE

structure Inst where
  table : Table
  cache : Option (Trie TVal)

abbrev World := List Inst

inductive Call where
  | construct (T : Table)
  | parse (i : Nat) (simple strict validate : Bool) (text : Str)
  | validate (i : Nat) (strict : Bool) (text : Str)

inductive Answer where
  | unit
  | noInstance
  | parsed (o : Outcome)
  | validated (v : VOutcome)

/-- `get_advanced_tokenizer`: the cached automaton, or a newly built one that is then cached -/
def Inst.tokenizer (c : Cls) (x : Inst) : Trie TVal × Inst :=
  match x.cache with
  | some tr => (tr, x)
  | none => let tr := buildTrie c x.table; (tr, { x with cache := some tr })

def setAt (w : World) (i : Nat) (x : Inst) : World := w.set i x

/-- does the call reach the automaton tokenizer? (blank texts return before tokenizing; the simple tokenizer never builds it) -/
def usesAutomaton (c : Cls) (simple : Bool) (text : Str) : Bool := !simple && !(text.isEmpty || isBlank c text)

def step (c : Cls) (w : World) : Call → World × Answer
  | .construct T => (w ++ [⟨T, none⟩], .unit)
  | .parse i simple strict validate text =>
    match w[i]? with
    | none => (w, .noInstance)
    | some x =>
      if usesAutomaton c simple text then
        let (tr, x') := x.tokenizer c
        (setAt w i x', .parsed (parseFullW c x.table tr simple strict validate text))
      else
        -- the automaton is not consulted: any value does, the cached one if present
        (w, .parsed (parseFullW c x.table (x.cache.getD (buildTrie c x.table)) simple strict validate text))
  | .validate i strict text =>
    match w[i]? with
    | none => (w, .noInstance)
    | some x =>
      let (tr, x') := x.tokenizer c
      (setAt w i x', .validated (validateFullW c x.table tr strict text))

def runCalls (c : Cls) (w : World) : List Call → World
  | [] => w
  | k :: ks => runCalls c (step c w k).1 ks

end LE
