import LicenseExpr.Model.Trie
import LicenseExpr.Gen.Intervals
/-!
# Model/Select — `Token.sort`, `filter_overlapping`, `add_uncovered`, `Trie.tokenize`

The five interval predicates and the sort key come from `Gen/Intervals.lean`, which is
regenerated from the Python source on every run.
-/
namespace LE
variable {V : Type}

def Tok.isAfter (a b : Tok V) : Bool := Gen.isAfter a.s a.e b.s b.e
def Tok.contains (a b : Tok V) : Bool := Gen.contains a.s a.e b.s b.e      -- `b in a`
def Tok.overlap (a b : Tok V) : Bool := Gen.overlap a.s a.e b.s b.e
def Tok.ilen (a : Tok V) : Int := Gen.len a.s a.e
def Tok.key (a : Tok V) : Int × Int := Gen.sortKey a.s a.e

/-- `key a < key b` on pairs, as Python compares tuples -/
def keyLt (x y : Int × Int) : Bool := decide (x.1 < y.1) || (decide (x.1 = y.1) && decide (x.2 < y.2))

/-- stable insertion: `x` (which came first) stays before everything whose key is not smaller -/
def insertTok (x : Tok V) : List (Tok V) → List (Tok V)
  | [] => [x]
  | y :: ys => if keyLt y.key x.key then y :: insertTok x ys else x :: y :: ys

/-- `Token.sort`: `sorted(tokens, key=(start, -len))`, stable -/
def sortToks : List (Tok V) → List (Tok V)
  | [] => []
  | x :: xs => insertTok x (sortToks xs)

/-- inner loop of `filter_overlapping` for a fixed current token `c`:
    returns `(keep c?, remaining list)` -/
def absorbTok (c : Tok V) : List (Tok V) → Bool × List (Tok V)
  | [] => (true, [])
  | n :: rest =>
    if n.isAfter c then (true, n :: rest)
    else if c.contains n then absorbTok c rest
    else if c.overlap n then
      if c.ilen ≥ n.ilen then absorbTok c rest else (false, n :: rest)
    else
      let r := absorbTok c rest
      (r.1, n :: r.2)

theorem absorbTok_length (c : Tok V) (l : List (Tok V)) : (absorbTok c l).2.length ≤ l.length := by
  fun_induction absorbTok c l <;> simp_all <;> omega

/-- outer loop of `filter_overlapping` (after F3: a discarded current token is not skipped over) -/
def sweep : List (Tok V) → List (Tok V)
  | [] => []
  | c :: rest =>
    let r := absorbTok c rest
    if r.1 then c :: sweep r.2 else sweep r.2
termination_by l => l.length
decreasing_by
  all_goals simp_wf
  all_goals (have := absorbTok_length c rest; omega)

def filterOverlapping (l : List (Tok V)) : List (Tok V) := sweep (sortToks l)

/-- `add_uncovered`: an unmatched token for each non-blank piece that no kept token covers.
    `toks` sorted and disjoint; the index `i` of the source is the list that remains. -/
def uncovered (text : Str) : List (Tok V) → List Piece → List (Tok V)
  | _, [] => []
  | toks, p :: ps =>
    let toks' := toks.dropWhile (fun t => t.e < p.start)
    match toks' with
    | t :: _ =>
      if t.s ≤ p.start then uncovered text toks' ps
      else ⟨p.start, p.stop, p.text, none⟩ :: uncovered text toks' ps
    | [] => ⟨p.start, p.stop, p.text, none⟩ :: uncovered text toks' ps

def addUncovered (c : Cls) (text : Str) (toks : List (Tok V)) : List (Tok V) :=
  sortToks (toks ++ uncovered text toks (wordPieces c text))

/-- `Trie.tokenize(text)` with `include_unmatched=True, include_space=False` -/
def Trie.tokenize (c : Cls) (t : Trie V) (text : Str) : List (Tok V) :=
  addUncovered c text (filterOverlapping (t.iter c text true))

end LE
